/-
  The retry / reconnect stack as one deterministic step function driven by an explicit
  environment script (DESIGN.md §5.0, Appendix A), transcribed from
    retryclient.go   (task goroutine, publish / subscribe / unsubscribe closures, Resubscribe, Retry,
                      SetClient, Connect, Handle, Disconnect)
    reconnclient.go  (the reconnect loop, seen from the outside as: dial → SetClient → Connect →
                      [Resubscribe] Retry → wait for the connection to end → back off → dial …)
    publish.go / subscribe.go / unsubscribe.go (`…Impl`: which retry handle each failure exit returns)
  against a conforming MQTT 3.1.1 broker (Appendix C) behind a network that applies one scripted
  fault to every request packet.

  Atomicity: the RetryClient runs every request from one goroutine, one at a time, so a task is one
  atomic step; the environment acts only between tasks (§1). After every environment event the two
  actors (task goroutine, reconnect loop) run to their next blocking point ("maximal progress").

  The blocking points of the reconnect loop are the phases: `.backoff` (the select on the back-off
  timer, reconnclient.go:152-158; left by the environment event `.waitElapsed`), `.dialGate` (inside
  DialContext; left by `.dialOk` / `.dialFail`), `.connackGate` (inside RetryClient.Connect), `.up`
  (the select on Done / ctx / disconnected). Disconnect and the cancellation of the context given to
  Connect (`.cancelCtx`, effective only until the first connection has succeeded) release the selects;
  a DialContext in flight is not interrupted by Disconnect, the loop acts on its result.
-/
import MqttVerif.Model.Subs
import MqttVerif.Model.PacketId

namespace Mqtt.Retry

/-- what the network does to one client→broker request packet -/
inductive Fault
  | ok          -- delivered, processed, acknowledged
  | writeFail   -- Transport.Write returns an error; the transport is dead; the broker sees nothing
  | lostReq     -- Write succeeds, the packet is lost, the connection then closes
  | lostAck     -- the broker processes the packet, the acknowledgement is lost, the connection closes
  | silent      -- the broker processes the packet, never answers, the connection stays open
  deriving DecidableEq, Repr, Inhabited

inductive Req
  | pub (m : Nat) (qos : Nat)                 -- message index (topic/payload/retain are functions of it)
  | sub (subs : List Subscription)
  | unsub (topics : List Bytes)
  deriving DecidableEq, Repr

/-- an element of `retryQueue` -/
inductive Entry
  | rePublish (m qos : Nat)                   -- raw handle `retryPublish`  (publish.go:169): PUBLISH again, DUP=1
  | rePubRel (m : Nat)                        -- raw handle `retryPublish2` (publish.go:193): PUBREL again
  | reSub (subs : List Subscription)          -- raw handle `retrySubscribe` (subscribe.go:86)
  | reUnsub (topics : List Bytes)             -- raw handle `retryUnsubscribe` (unsubscribe.go:62)
  | qPub (m qos : Nat)                        -- queued, never transmitted (retryclient.go:168-174)
  | qSub (subs : List Subscription)           -- queued closure of `subscribe`
  | qUnsub (topics : List Bytes)              -- queued closure of `unsubscribe`
  deriving DecidableEq, Repr

inductive Task
  | req (r : Req)
  | resubscribe
  | retry
  | disconnect
  deriving DecidableEq, Repr

/-- a packet attempted on the wire (client → broker), with what the network did to it -/
inductive Pkt
  | connect
  | publish (m qos id : Nat) (dup : Bool)
  | pubrel (id m : Nat)
  | subscribe (id : Nat) (subs : List Subscription)
  | unsubscribe (id : Nat) (topics : List Bytes)
  | puback (id : Nat)                         -- acknowledgement of an inbound QoS 1 PUBLISH
  | disconnect
  deriving DecidableEq, Repr

/-- how an attempted write ended -/
inductive Wire
  | sent (f : Fault)     -- written on a live transport; `f` is what the network then did
  | dead                 -- attempted on a transport that was already closed (Write fails at once)
  deriving DecidableEq, Repr

inductive ErrKind
  | retryable            -- an ErrorWithRetry that is not a timeout (write error / closed transport)
  | timeout              -- RequestTimeoutError
  deriving DecidableEq, Repr

structure Conn where
  alive : Bool := true
  connected : Bool := false        -- Connect returned nil on it (CONNACK accepted)
  ctr : Nat := 0                    -- idLast
  handler : Option Nat := none      -- BaseClient.handler
  pkts : List (Pkt × Wire) := []    -- in order of attempt
  deriving Repr

inductive Method | onPublish | onPubrel
  deriving DecidableEq, Repr

/-- MQTT 3.1.1 broker (Appendix C): subscriptions, QoS 2 receiver state keyed by packet id, delivery log -/
structure Broker where
  method : Method := .onPublish
  subs : SubList := []
  q2 : List Nat := []                       -- ids: PUBLISH received, PUBREL not yet
  stash : List (Nat × Nat) := []            -- id ↦ message (method onPubrel)
  delivered : List Nat := []                -- onward deliveries, in order
  acked : List Req := []                    -- requests whose final acknowledgement the CLIENT received
  deriving Repr

inductive Phase
  | idle                 -- ReconnectClient.Connect not called yet
  | backoff              -- the loop waits `reconnWait` before dialling again (reconnclient.go:152-158)
  | dialGate             -- the loop is inside Dialer.DialContext
  | connackGate (k : Nat)
  | up (k : Nat)
  | exited
  deriving DecidableEq, Repr

structure Cfg where
  respTimeout : Bool := false       -- RetryClient.ResponseTimeout ≠ 0
  always : Bool := false            -- WithAlwaysResubscribe
  connectTimeout : Bool := true     -- WithTimeout ≠ 0 (needed for "CONNACK never sent")
  deafDialer : Bool := false        -- the Dialer ignores its context (e.g. `NoContextDialer`): a dial in flight is not
                                    -- interrupted by the cancellation of the Connect context either
  deriving Repr

structure World where
  cfg : Cfg := {}
  -- RetryClient
  taskQ : List Task := []
  retryQ : List Entry := []
  subEst : SubList := []
  closeAfterTask : Bool := false    -- newRetryByError
  cli : Option Nat := none          -- c.cli
  connReady : Bool := false         -- the current chConnectErr is closed (Connect returned on c.cli)
  goroutine : Bool := false         -- chTask ≠ nil: the task goroutine exists
  gConnected : Bool := false        -- its local `connected`
  stopped : Bool := false
  stuck : Bool := false             -- blocked for ever in a request (silent broker, no timeout)
  handler : Option Nat := none
  totalTasks : Nat := 0
  totalRetries : Nat := 0
  onErrors : List ErrKind := []
  pid : List (Nat × Nat) := []      -- message ↦ packet identifier (Message.ID once assigned)
  accepted : List Req := []         -- requests for which the API returned nil
  rejected : Nat := 0               -- API calls that returned ErrClosedClient
  -- connections, reconnect loop
  conns : List Conn := []
  phase : Phase := .idle
  initialized : Bool := false
  waitExp : Nat := 0                -- reconnWait = base · 2^waitExp (clamped by the harness config)
  waits : List Nat := []            -- exponents of the waits requested so far
  dials : Nat := 0                  -- DialContext calls so far
  connectReturned : Option Bool := none   -- what ReconnectClient.Connect returned to the app (session present)
  ctxCancelled : Bool := false            -- the context given to ReconnectClient.Connect is done
  connectErr : Bool := false              -- ReconnectClient.Connect returned the context's error
  -- environment
  broker : Broker := {}
  faults : List Fault := []
  handled : List (Nat × Nat × Nat) := []   -- (connection, handler, message) hand-overs of inbound messages
  deriving Repr

/-! ### small helpers -/

def getConn (w : World) (k : Nat) : Conn := w.conns.getD k {}

def setConn (w : World) (k : Nat) (c : Conn) : World := { w with conns := w.conns.set k c }

def logPkt (w : World) (k : Nat) (p : Pkt) (x : Wire) : World :=
  let c := getConn w k
  setConn w k { c with pkts := c.pkts ++ [(p, x)] }

def kill (w : World) (k : Nat) : World :=
  let c := getConn w k
  setConn w k { c with alive := false }

def lookupPid (w : World) (m : Nat) : Option Nat := (w.pid.find? (fun e => e.1 = m)).map (·.2)

def nextFault (w : World) : Fault × World :=
  match w.faults with
  | [] => (.ok, w)
  | f :: rest => (f, { w with faults := rest })

/-! ### broker -/

def Broker.publish (b : Broker) (m qos id : Nat) : Broker :=
  if qos < 2 then { b with delivered := b.delivered ++ [m] }
  else if b.q2.contains id then b
  else match b.method with
    | .onPublish => { b with delivered := b.delivered ++ [m], q2 := b.q2 ++ [id] }
    | .onPubrel => { b with stash := b.stash ++ [(id, m)], q2 := b.q2 ++ [id] }

def Broker.pubrel (b : Broker) (id : Nat) : Broker :=
  let b := match b.stash.find? (fun e => e.1 = id) with
    | some (_, m) => { b with delivered := b.delivered ++ [m], stash := b.stash.filter (fun e => e.1 ≠ id) }
    | none => b
  { b with q2 := b.q2.filter (· ≠ id) }

def Broker.process (b : Broker) : Pkt → Broker
  | .publish m qos id _ => b.publish m qos id
  | .pubrel id _ => b.pubrel id
  | .subscribe _ subs => { b with subs := applySubs b.subs subs }
  | .unsubscribe _ ts => { b with subs := applyUnsubs b.subs ts }
  | _ => b

def Broker.clearSession (b : Broker) : Broker := { b with subs := [], q2 := [], stash := [] }

/-! ### one request packet on the wire -/

inductive Sent
  | acked          -- written, processed, acknowledgement received
  | failed         -- no acknowledgement; the connection is dead (write error or closed afterwards)
  | timedOut       -- no acknowledgement within ResponseTimeout; the connection is still open
  | stuck          -- no acknowledgement, no timeout configured: blocked for ever
  deriving DecidableEq, Repr

/-- BaseClient.write of a request packet on connection `k` followed by the wait for its
    acknowledgement. `waits = false` for QoS 0 PUBLISH (nothing is awaited). -/
def send (w : World) (k : Nat) (p : Pkt) (waits : Bool) : World × Sent :=
  if ¬ (getConn w k).alive then (logPkt w k p .dead, .failed)
  else
    let (f, w) := nextFault w
    let w := logPkt w k p (.sent f)
    match f with
    | .ok => ({ w with broker := w.broker.process p }, .acked)
    | .writeFail => (kill w k, .failed)
    | .lostReq => (kill w k, if waits then .failed else .acked)
    | .lostAck => (kill { w with broker := w.broker.process p } k, if waits then .failed else .acked)
    | .silent =>
      let w := { w with broker := w.broker.process p }
      if ¬ waits then (w, .acked)
      else if w.cfg.respTimeout then (w, .timedOut)
      else ({ w with stuck := true }, .stuck)

/-- result of one `…Impl` call -/
inductive Outcome
  | done
  | fail (h : Option Entry) (e : ErrKind)     -- `h`: the retry handle (none: plain error, QoS 0)
  | stuck
  deriving Repr

def errOf : Sent → ErrKind
  | .timedOut => .timeout
  | _ => .retryable

/-- publish.go:193-221 `retryPublish2`: PUBREL and the wait for PUBCOMP -/
def relAttempt (w : World) (k m id : Nat) : World × Outcome :=
  let (w, s) := send w k (.pubrel id m) true
  match s with
  | .acked => ({ w with broker := { w.broker with acked := w.broker.acked ++ [.pub m 2] } }, .done)
  | .stuck => (w, .stuck)
  | s => (w, .fail (some (.rePubRel m)) (errOf s))

/-- publish.go:132-226 `publishImpl(ctx, cli, message, dup)` -/
def pubAttempt (w : World) (k m qos : Nat) (dup : Bool) : World × Outcome :=
  -- message.ID is filled once (publish.go:136-138)
  let (w, id) := match lookupPid w m with
    | some id => (w, id)
    | none =>
      let c := getConn w k
      let (ctr', id) := newID c.ctr
      (setConn { w with pid := w.pid ++ [(m, id)] } k { c with ctr := ctr' }, id)
  let (w, s) := send w k (.publish m qos id dup) (qos ≠ 0)
  match s with
  | .acked =>
    if qos = 2 then relAttempt w k m id
    else if qos = 1 then ({ w with broker := { w.broker with acked := w.broker.acked ++ [.pub m 1] } }, .done)
    else (w, .done)
  | .stuck => (w, .stuck)
  | s => (w, .fail (if qos = 0 then none else some (.rePublish m qos)) (errOf s))

/-- subscribe.go:68-110 `subscribeImpl`: a fresh identifier on every attempt -/
def subAttempt (w : World) (k : Nat) (subs : List Subscription) : World × Outcome :=
  let c := getConn w k
  let (ctr', id) := newID c.ctr
  let w := setConn w k { c with ctr := ctr' }
  let (w, s) := send w k (.subscribe id subs) true
  match s with
  | .acked => ({ w with broker := { w.broker with acked := w.broker.acked ++ [.sub subs] } }, .done)
  | .stuck => (w, .stuck)
  | s => (w, .fail (some (.reSub subs)) (errOf s))

/-- unsubscribe.go:44-78 `unsubscribeImpl` -/
def unsubAttempt (w : World) (k : Nat) (ts : List Bytes) : World × Outcome :=
  let c := getConn w k
  let (ctr', id) := newID c.ctr
  let w := setConn w k { c with ctr := ctr' }
  let (w, s) := send w k (.unsubscribe id ts) true
  match s with
  | .acked => ({ w with broker := { w.broker with acked := w.broker.acked ++ [.unsub ts] } }, .done)
  | .stuck => (w, .stuck)
  | s => (w, .fail (some (.reUnsub ts)) (errOf s))

/-- retryclient.go:140-160 / 181-200 / 212-230: what the first-transmission closures do with the result:
    OnError, queue the handle, mark the connection for closing. -/
def absorb (w : World) (o : Outcome) : World :=
  match o with
  | .done => w
  | .stuck => w
  | .fail none _ => w                                    -- QoS 0: OnError only (not part of the compared log)
  | .fail (some h) e => { w with onErrors := w.onErrors ++ [e], retryQ := w.retryQ ++ [h], closeAfterTask := true }

/-- the first-transmission closures -/
def firstPub (w : World) (k m qos : Nat) : World :=
  let (w, o) := pubAttempt w k m qos false
  absorb w o

def firstSub (w : World) (k : Nat) (subs : List Subscription) : World :=
  let (w, o) := subAttempt w k subs
  absorb w o

def firstUnsub (w : World) (k : Nat) (ts : List Bytes) : World :=
  let (w, o) := unsubAttempt w k ts
  absorb w o

/-- retryclient.go:178-206 `subscribe(ctx, retry, cli, subs…)` as run by the task goroutine -/
def subscribeTask (w : World) (k : Nat) (subs : List Subscription) : World :=
  let w := { w with subEst := applySubs w.subEst subs }
  if w.retryQ.isEmpty then firstSub w k subs
  else { w with retryQ := w.retryQ ++ [.qSub subs] }

/-- retryclient.go:434-446 `Resubscribe`, the loop over the old list -/
def resubLoop (w : World) (k : Nat) : List Subscription → World
  | [] => w
  | s :: rest => if w.stuck then w else resubLoop (subscribeTask w k [s]) k rest

/-- one element of the retry queue run by `Retry` (retryclient.go:449-468). Queued closures return
    nil whatever happens; raw handles return their error. -/
def runEntry (w : World) (k : Nat) : Entry → World × Outcome
  | .qPub m qos => (firstPub w k m qos, .done)
  | .qSub subs => (firstSub w k subs, .done)
  | .qUnsub ts => (firstUnsub w k ts, .done)
  | .rePublish m qos => pubAttempt w k m qos true
  | .rePubRel m => relAttempt w k m ((lookupPid w m).getD 0)
  | .reSub subs => subAttempt w k subs
  | .reUnsub ts => unsubAttempt w k ts

/-- `Retry`: the loop over the copied old queue -/
def retryLoop (w : World) (k : Nat) : List Entry → World
  | [] => w
  | e :: rest =>
    if w.stuck then { w with retryQ := w.retryQ }        -- blocked inside the previous entry: the rest is never run
    else
      let w := { w with totalRetries := w.totalRetries + 1 }
      let (w, o) := runEntry w k e
      match o with
      | .fail (some h) err =>
        { w with onErrors := w.onErrors ++ [err], retryQ := w.retryQ ++ [h] ++ rest, closeAfterTask := true }
      | .stuck => w
      | _ =>
        -- a queued closure that failed has re-queued itself and set newRetryByError: the rest stays
        -- behind it, un-attempted (retryclient.go: `if c.newRetryByError { … break }`)
        if w.closeAfterTask then { w with retryQ := w.retryQ ++ rest } else retryLoop w k rest

/-- one task, run with `cli` = connection `k` -/
def runTask (w : World) (k : Nat) : Task → World
  | .req (.pub m qos) =>
    if w.retryQ.isEmpty then firstPub w k m qos
    else if qos > 0 then { w with retryQ := w.retryQ ++ [.qPub m qos] }
    else w
  | .req (.sub subs) => subscribeTask w k subs
  | .req (.unsub ts) =>
    let w := { w with subEst := applyUnsubs w.subEst ts }
    if w.retryQ.isEmpty then firstUnsub w k ts
    else { w with retryQ := w.retryQ ++ [.qUnsub ts] }
  | .resubscribe =>
    let old := w.subEst
    resubLoop { w with subEst := [] } k old
  | .retry =>
    let old := w.retryQ
    retryLoop { w with retryQ := [] } k old
  | .disconnect =>
    -- BaseClient.Disconnect: state Disconnected, DISCONNECT written, transport closed
    let c := getConn w k
    if c.alive then kill (logPkt w k .disconnect (.sent .ok)) k
    else logPkt w k .disconnect .dead

/-- the reconnect loop reacts to the end of the connection it is watching
    (reconnclient.go:123-150): close, wait `reconnWait`, double it, dial again -/
def loopReact (w : World) : World :=
  match w.phase with
  | .up k =>
    if (getConn w k).alive then w
    else if w.stopped then { w with phase := .exited }
    else { w with phase := .backoff, waits := w.waits ++ [w.waitExp], waitExp := w.waitExp + 1 }
  | _ => w

/-- the task goroutine (retryclient.go:294-358) run to its next blocking point -/
def runTasks : Nat → World → World
  | 0, w => w
  | fuel + 1, w =>
    if ¬ w.goroutine ∨ w.stuck then w
    else
      -- `if !connected { wait for the current chConnectErr to be closed }`
      if ¬ w.gConnected ∧ ¬ w.connReady then w
      else
        let w := { w with gConnected := true }
        match w.taskQ, w.cli with
        | [], _ => w
        | _, none => w
        | t :: rest, some k =>
          let w := { w with taskQ := rest, totalTasks := w.totalTasks + 1 }
          let w := runTask w k t
          if w.stuck then w
          else
            let w := if w.closeAfterTask then { kill w k with gConnected := false, closeAfterTask := false } else w
            runTasks fuel w

def progress (w : World) : World := loopReact (runTasks (w.taskQ.length + 1) w)

/-! ### environment events -/

inductive Ev
  | start                                   -- the application calls ReconnectClient.Connect
  | app (r : Req)                           -- Publish / Subscribe / Unsubscribe
  | dialOk (idStart : Nat)                  -- DialContext returns a transport; its id counter will start here
  | dialFail
  | connackOk (sessionPresent : Bool) (inbound : List (Nat × Nat))   -- accepted; (message, qos ≤ 1) pushed at once
  | connackRefused
  | connackNever                            -- resolved by WithTimeout
  | waitElapsed                             -- the back-off timer fires: the loop calls DialContext again
  | cancelCtx                               -- the context given to ReconnectClient.Connect is cancelled / expires
  | peerClose                               -- the broker closes the idle connection
  | inbound (m qos : Nat)                   -- a PUBLISH from the broker on the current connection
  | handle (h : Nat)                        -- Handle(handler h)
  | disconnect
  deriving Repr

def pushTask (w : World) (t : Task) : World := { w with taskQ := w.taskQ ++ [t] }

/-- serve.go: an inbound QoS 0/1 PUBLISH on connection k -/
def deliverInbound (w : World) (k m qos : Nat) : World :=
  let c := getConn w k
  if ¬ c.alive then w
  else
    let w := match c.handler with
      | some h => { w with handled := w.handled ++ [(k, h, m)] }
      | none => w
    if qos = 1 then logPkt w k (.puback (m + 1)) (.sent .ok) else w

def connectFailed (w : World) (k : Nat) : World :=
  -- RetryClient.Connect: `chConnectErr <- err; close(chConnectErr)`; the loop closes the client and backs off
  let w := kill { w with connReady := true } k
  -- reconnclient.go:152-158: the select after a failure observes `disconnected` and returns
  if w.stopped then { w with phase := .exited }
  else { w with phase := .backoff, waits := w.waits ++ [w.waitExp], waitExp := w.waitExp + 1 }

def step (w : World) : Ev → World
  | .start =>
    if w.phase ≠ .idle then w
    -- with a context that is already done the (context-aware) dialer fails at once and the loop's
    -- select on ctx.Done() returns: one DialContext call, no connection, Connect returns the error
    else if w.ctxCancelled then
      -- … unless the dialer does not look at its context: then the dial goes on (its result is acted upon, see `.dialOk`)
      if w.cfg.deafDialer then { w with phase := .dialGate, dials := w.dials + 1, connectErr := true }
      else { w with phase := .exited, dials := w.dials + 1, connectErr := true }
    else { w with phase := .dialGate, dials := w.dials + 1 }
  | .app r =>
    if w.stopped then { w with rejected := w.rejected + 1 }
    else progress (pushTask { w with accepted := w.accepted ++ [r] } (.req r))
  | .dialOk idStart =>
    if w.phase ≠ .dialGate then w
    else if w.ctxCancelled ∧ w.connectReturned.isNone then
      -- (only with a dialer that ignores its context) the transport arrives after the Connect context was cancelled:
      -- SetClient, CONNECT is written, BaseClient.Connect returns the context's error at once, the loop closes the
      -- client and leaves through its select on ctx.Done()
      let k := w.conns.length
      let c : Conn := { ctr := idStart, handler := w.handler, pkts := [(.connect, .sent .ok)], alive := false }
      let idleConnected := w.goroutine ∧ w.gConnected ∧ ¬ w.stuck
      progress { w with conns := w.conns ++ [c], cli := some k, connReady := true, goroutine := true,
                        gConnected := if idleConnected then false else w.gConnected,
                        phase := .exited }
    else
      let k := w.conns.length
      -- SetClient (retryclient.go:263-292) then RetryClient.Connect (:398-421): handler installed, CONNECT written
      let c : Conn := { ctr := idStart, handler := w.handler, pkts := [(.connect, .sent .ok)] }
      -- an idle, connected goroutine sees the old chConnSwitch closed and waits for the new Connect
      let idleConnected := w.goroutine ∧ w.gConnected ∧ ¬ w.stuck
      { w with conns := w.conns ++ [c], cli := some k, connReady := false, goroutine := true,
               gConnected := if idleConnected then false else w.gConnected,
               phase := .connackGate k }
  | .dialFail =>
    if w.phase ≠ .dialGate then w
    else if w.stopped then { w with phase := .exited }
    -- the dial of a cancelled first Connect fails (deaf dialer): the select on ctx.Done() returns, no back-off
    else if w.ctxCancelled ∧ w.connectReturned.isNone then { w with phase := .exited }
    else { w with phase := .backoff, waits := w.waits ++ [w.waitExp], waitExp := w.waitExp + 1 }
  | .waitElapsed =>
    if w.phase = .backoff then { w with phase := .dialGate, dials := w.dials + 1 } else w
  | .cancelCtx =>
    -- reconnclient.go:97-101: after the first success the loop runs on context.Background()
    if w.ctxCancelled ∨ w.connectReturned.isSome then w
    else
      let w := { w with ctxCancelled := true }
      match w.phase with
      | .idle => w                                            -- Connect not called yet: see `.start`
      | .backoff => { w with phase := .exited, connectErr := true }      -- select: `case <-ctx.Done(): return`
      | .dialGate =>
        -- DialContext returns ctx.Err(), then the same select; a dialer that ignores its context goes on dialling
        -- (ReconnectClient.Connect itself returns the context's error at once)
        if w.cfg.deafDialer then { w with connectErr := true } else { w with phase := .exited, connectErr := true }
      | .connackGate k =>
        -- BaseClient.Connect returns the context's error; the loop closes the client and leaves through the select
        progress { kill { w with connReady := true } k with phase := .exited, connectErr := true }
      | .exited => { w with connectErr := true }              -- the loop ended on Disconnect; Connect was still waiting
      | .up _ => w                                            -- (not reachable: `.up` implies that Connect has returned)
  | .connackOk sp inbound =>
    match w.phase with
    | .connackGate k =>
      let c := getConn w k
      let w := setConn w k { c with connected := true }
      let w := { w with broker := if sp then w.broker else w.broker.clearSession }
      -- messages the broker pushes right behind CONNACK are served by the reader goroutine
      let w := inbound.foldl (fun w (mq : Nat × Nat) => deliverInbound w k mq.1 mq.2) w
      let w := { w with connReady := true, waitExp := 0,
                        connectReturned := if w.connectReturned.isNone then some sp else w.connectReturned }
      -- pushTask refuses once Disconnect was called (ErrClosedClient, ignored by Resubscribe / Retry)
      let w := if w.initialized ∧ (¬ sp ∨ w.cfg.always) ∧ ¬ w.stopped then pushTask w .resubscribe else w
      let w := if w.stopped then w else pushTask w .retry
      -- … and the loop's select on (Done, disconnected) returns at once, leaving the connection as it is
      progress { w with initialized := true, phase := if w.stopped then .exited else .up k }
    | _ => w
  | .connackRefused =>
    match w.phase with
    | .connackGate k => progress (connectFailed w k)
    | _ => w
  | .connackNever =>
    match w.phase with
    | .connackGate k => if w.cfg.connectTimeout then progress (connectFailed w k) else w
    | _ => w
  | .peerClose =>
    match w.phase with
    | .up k => progress (kill w k)
    | _ => w
  | .inbound m qos =>
    match w.phase with
    | .up k => deliverInbound w k m qos
    | _ => w
  | .handle h =>
    let w := { w with handler := some h }
    match w.cli with
    | some k => let c := getConn w k; setConn w k { c with handler := some h }
    | none => w
  | .disconnect =>
    if w.stopped then w
    else
      -- reconnectClient.Disconnect: close(disconnected); RetryClient.Disconnect pushes the task, closes chTask
      let w := pushTask w .disconnect
      let w := { w with stopped := true }
      let w := progress w
      -- the loop's selects on `c.disconnected` (reconnclient.go:137-139 while connected, :156-157 while
      -- backing off) return; a DialContext in flight is not interrupted: the loop goes on with its result
      -- (`.dialOk`: SetClient and CONNECT on the new transport; `.dialFail`: the back-off select returns)
      match w.phase with
      | .up _ => { w with phase := .exited }
      | .backoff => { w with phase := .exited }
      | _ => w

structure Script where
  cfg : Cfg := {}
  method : Method := .onPublish
  faults : List Fault := []
  evs : List Ev := []

def init (s : Script) : World := { cfg := s.cfg, faults := s.faults, broker := { method := s.method } }

def exec (s : Script) : World := s.evs.foldl step (init s)

/-- every prefix of the run, for the per-event plan the lock-step runner waits on -/
def execTrace (s : Script) : List World :=
  (s.evs.foldl (fun (acc : World × List World) e => let w := step acc.1 e; (w, acc.2 ++ [w])) (init s, [])).2

end Mqtt.Retry
