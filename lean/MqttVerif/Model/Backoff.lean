/-
  reconnclient.go:95,109,159-162: the reconnect wait.
      reconnWait := base                      -- before the loop
      reconnWait = base                       -- after every successful Connect
      … wait reconnWait …
      reconnWait *= 2
      if reconnWait > max { reconnWait = max }
  Durations are natural numbers (nanoseconds).
-/
import MqttVerif.Model.Basic

namespace Mqtt.Backoff

/-- the update after a wait -/
def next (max w : Nat) : Nat := if 2 * w > max then max else 2 * w

/-- the wait used after the j-th consecutive failure since the last success (j = 0 first) -/
def waitAfter (base max : Nat) : Nat → Nat
  | 0 => base
  | j + 1 => next max (waitAfter base max j)

/-- outcome of one pass of the loop: the connection attempt failed (dial error, refused / absent
    CONNACK) or a connection was established and later lost -/
inductive Attempt | failed | established
  deriving DecidableEq, Repr

/-- the sequence of waits the loop performs for a sequence of attempts (a wait follows every
    attempt; an established connection resets `reconnWait` to base before its wait) -/
def waits (base max : Nat) : Nat → List Attempt → List Nat
  | _, [] => []
  | cur, .failed :: rest => cur :: waits base max (next max cur) rest
  | _, .established :: rest => base :: waits base max (next max base) rest

def run (base max : Nat) (as : List Attempt) : List Nat := waits base max base as

end Mqtt.Backoff
