/-
  Encoder side of the codec, transcribed from
    packet.go     (pack, remainingLength, append*/pack* helpers)
    connect.go    (pktConnect.Pack)
    publish.go    (pktPublish.Pack, ValidateMessage)
    subscribe.go  (pktSubscribe.Pack)    unsubscribe.go (pktUnsubscribe.Pack)
    puback.go pubrec.go pubrel.go pubcomp.go (Pack)   pingreq.go disconnect.go (pack(type))
  Go panics are `Res.panic`.
-/
import MqttVerif.Model.Basic

namespace Mqtt

/-! ### packet.go constants (tied to the source by Generated/Facts.lean) -/
def packetConnect : Nat := 0x10
def packetConnAck : Nat := 0x20
def packetPublish : Nat := 0x30
def packetPubAck : Nat := 0x40
def packetPubRec : Nat := 0x50
def packetPubRel : Nat := 0x60
def packetPubComp : Nat := 0x70
def packetSubscribe : Nat := 0x80
def packetSubAck : Nat := 0x90
def packetUnsubscribe : Nat := 0xA0
def packetUnsubAck : Nat := 0xB0
def packetPingReq : Nat := 0xC0
def packetPingResp : Nat := 0xD0
def packetDisconnect : Nat := 0xE0
def packetFromClient : Nat := 0x02

/-- thresholds of `remainingLength` (packet.go:96-120) -/
def rlMax1 : Nat := 0x7F
def rlMax2 : Nat := 0x3FFF
def rlMax3 : Nat := 0x1FFFFF
def rlMax4 : Nat := 0xFFFFFFF

/-- packet.go:96 `remainingLength`. `byte(x)` is `x % 256`. -/
def remainingLength (n : Nat) : Res Bytes :=
  if n ≤ rlMax1 then .ok [n % 256]
  else if n ≤ rlMax2 then
    .ok [(n % 256) ||| 0x80, ((n >>> 7) % 256) &&& 0x7F]
  else if n ≤ rlMax3 then
    .ok [(n % 256) ||| 0x80, ((n >>> 7) % 256) ||| 0x80, ((n >>> 14) % 256) &&& 0x7F]
  else if n ≤ rlMax4 then
    .ok [(n % 256) ||| 0x80, ((n >>> 7) % 256) ||| 0x80, ((n >>> 14) % 256) ||| 0x80,
         ((n >>> 21) % 256) &&& 0x7F]
  else .panic

/-- packet.go:83 `pack`. -/
def pack (packetType : Nat) (contents : List Bytes) : Res Bytes :=
  match remainingLength (contents.foldl (fun n c => n + c.length) 0) with
  | .ok rl => .ok ([packetType] ++ rl ++ contents.flatten)
  | .err e => .err e
  | .panic => .panic

/-- packet.go:136 `appendUint16`; `v` is a uint16 (callers pass values < 65536). -/
def appendUint16 (b : Bytes) (v : Nat) : Bytes :=
  b ++ [(v >>> 8) % 256, v % 256]

/-- packet.go:126 `appendBytes`. -/
def appendBytes (b s : Bytes) : Res Bytes :=
  if s.length > 0xFFFF then .panic
  else .ok (appendUint16 b s.length ++ s)

/-- packet.go:122 `appendString` (a Go string is its bytes). -/
def appendString (b s : Bytes) : Res Bytes := appendBytes b s

def packUint16 (v : Nat) : Bytes := appendUint16 [] v

/-! ### Message -/

structure Message where
  topic : Bytes
  id : Nat            -- uint16
  qos : Nat           -- uint8 (QoS)
  retain : Bool
  dup : Bool
  payload : Bytes
  deriving DecidableEq, Repr, Inhabited

def publishFlagRetain : Nat := 0x01
def publishFlagQoS1 : Nat := 0x02
def publishFlagQoS2 : Nat := 0x04
def publishFlagQoSMask : Nat := 0x06
def publishFlagDup : Nat := 0x08

/-- publish.go:79 header byte of `pktPublish.Pack`. -/
def publishHeaderByte (m : Message) : Res Nat :=
  let h := packetPublish
  let h := if m.retain then h ||| publishFlagRetain else h
  match m.qos with
  | 0 => .ok (if m.dup then h ||| publishFlagDup else h)
  | 1 => let h := h ||| publishFlagQoS1; .ok (if m.dup then h ||| publishFlagDup else h)
  | 2 => let h := h ||| publishFlagQoS2; .ok (if m.dup then h ||| publishFlagDup else h)
  | _ => .panic

/-- publish.go:79-112 `pktPublish.Pack`. -/
def packPublish (m : Message) : Res Bytes := do
  let h ← publishHeaderByte m
  let header ← appendString [] m.topic
  let header := if m.qos ≠ 0 then appendUint16 header m.id else header
  pack h [header, m.payload]

/-- publish.go:115 `ValidateMessage` (`max = 0` means unlimited). -/
def validateMessage (max : Nat) (m : Message) : Res Unit :=
  if max ≠ 0 ∧ m.payload.length ≥ max then .err .payloadLenExceeded
  else if m.qos > 2 then .err .invalidQoS
  else .ok ()

/-! ### CONNECT -/

structure Will where
  topic : Bytes
  payload : Bytes
  qos : Nat
  retain : Bool
  deriving DecidableEq, Repr

structure ConnectPkt where
  protocolLevel : Nat
  cleanSession : Bool
  keepAlive : Nat
  clientID : Bytes
  userName : Bytes
  password : Bytes
  will : Option Will
  deriving DecidableEq, Repr

def connectFlagCleanSession : Nat := 0x02
def connectFlagWill : Nat := 0x04
def connectFlagWillQoS1 : Nat := 0x08
def connectFlagWillQoS2 : Nat := 0x10
def connectFlagWillRetain : Nat := 0x20
def connectFlagPassword : Nat := 0x40
def connectFlagUserName : Nat := 0x80

/-- connect.go:56-69: flag contribution of the will (a will QoS outside 0..2 adds no QoS bits:
    the Go `switch` has no default). -/
def willFlags (w : Will) : Nat :=
  let f := connectFlagWill
  let f := match w.qos with
    | 1 => f ||| connectFlagWillQoS1
    | 2 => f ||| connectFlagWillQoS2
    | _ => f
  if w.retain then f ||| connectFlagWillRetain else f

/-- connect.go:47-91 `pktConnect.Pack`. -/
def packConnect (p : ConnectPkt) : Res Bytes := do
  let payload ← appendString [] p.clientID
  let flag := if p.cleanSession then connectFlagCleanSession else 0
  let (flag, payload) ← (match p.will with
    | none => (.ok (flag, payload) : Res (Nat × Bytes))
    | some w => do
      let payload ← appendString payload w.topic
      let payload ← appendBytes payload w.payload
      pure (flag ||| willFlags w, payload))
  let (flag, payload) ← (if p.userName ≠ [] then do
      let payload ← appendString payload p.userName
      pure (flag ||| connectFlagUserName, payload)
    else (.ok (flag, payload) : Res (Nat × Bytes)))
  let (flag, payload) ← (if p.password ≠ [] then do
      let payload ← appendString payload p.password
      pure (flag ||| connectFlagPassword, payload)
    else (.ok (flag, payload) : Res (Nat × Bytes)))
  pack packetConnect
    [[0x00, 0x04, 0x4D, 0x51, 0x54, 0x54, p.protocolLevel % 256, flag], packUint16 p.keepAlive, payload]

/-! ### SUBSCRIBE / UNSUBSCRIBE -/

structure Subscription where
  topic : Bytes
  qos : Nat
  deriving DecidableEq, Repr, Inhabited

/-- subscribe.go:40-57 payload loop. -/
def subscribePayload : List Subscription → Bytes → Res Bytes
  | [], acc => .ok acc
  | s :: rest, acc => do
    let acc ← appendString acc s.topic
    if s.qos > 2 then .panic
    else subscribePayload rest (acc ++ [s.qos])

/-- subscribe.go:38-63 `pktSubscribe.Pack`. -/
def packSubscribe (id : Nat) (subs : List Subscription) : Res Bytes := do
  let payload ← subscribePayload subs []
  pack (packetSubscribe ||| packetFromClient) [packUint16 id, payload]

def unsubscribePayload : List Bytes → Bytes → Res Bytes
  | [], acc => .ok acc
  | t :: rest, acc => do
    let acc ← appendString acc t
    unsubscribePayload rest acc

/-- unsubscribe.go:26-37 `pktUnsubscribe.Pack`. -/
def packUnsubscribe (id : Nat) (topics : List Bytes) : Res Bytes := do
  let payload ← unsubscribePayload topics []
  pack (packetUnsubscribe ||| packetFromClient) [packUint16 id, payload]

/-! ### acknowledgement packets and empty packets -/

def packPubAck (id : Nat) : Res Bytes := pack packetPubAck [packUint16 id]
def packPubRec (id : Nat) : Res Bytes := pack packetPubRec [packUint16 id]
def packPubRel (id : Nat) : Res Bytes := pack (packetPubRel ||| packetFromClient) [packUint16 id]
def packPubComp (id : Nat) : Res Bytes := pack packetPubComp [packUint16 id]
def packPingReq : Res Bytes := pack packetPingReq []
def packDisconnect : Res Bytes := pack packetDisconnect []

/-- Dispatch used by the oracle: the Pack of the four id-only packets by type byte. -/
def packAck (kind id : Nat) : Res Bytes :=
  if kind = packetPubAck then packPubAck id
  else if kind = packetPubRec then packPubRec id
  else if kind = packetPubRel then packPubRel id
  else if kind = packetPubComp then packPubComp id
  else .ok []

end Mqtt
