/-
  Basic vocabulary shared by all models.

  Bytes are modelled as natural numbers (a Go `byte` b is the Nat `b.toNat`, always < 256).
  Functions that in Go truncate to a byte (`byte(x)`) do so explicitly with `% 256`.
  All model functions are total on arbitrary `List Nat`; theorems about "all byte strings"
  are therefore stated for all `List Nat` (a superset) unless a `< 256` hypothesis is needed.
-/
namespace Mqtt

abbrev Byte := Nat
abbrev Bytes := List Nat

/-- Error classes: the library's sentinel errors as seen through `errors.Is`. -/
inductive ErrClass
  | invalidPacket | invalidPacketLength | invalidRune
  | eof | unexpectedEOF | closedTransport
  | payloadLenExceeded | invalidQoS | notConnected | invalidSubAck
  | invalidTopicFilter | connectionFailed | ctx | pingTimeout | closedClient | other
  deriving DecidableEq, Repr, Inhabited

def ErrClass.toString : ErrClass → String
  | .invalidPacket => "InvalidPacket" | .invalidPacketLength => "InvalidPacketLength"
  | .invalidRune => "InvalidRune" | .eof => "EOF" | .unexpectedEOF => "UnexpectedEOF"
  | .closedTransport => "ClosedTransport" | .payloadLenExceeded => "PayloadLenExceeded"
  | .invalidQoS => "InvalidQoS" | .notConnected => "NotConnected" | .invalidSubAck => "InvalidSubAck"
  | .invalidTopicFilter => "InvalidTopicFilter" | .connectionFailed => "ConnectionFailed"
  | .ctx => "ctx" | .pingTimeout => "PingTimeout" | .closedClient => "ClosedClient" | .other => "other"

instance : ToString ErrClass := ⟨ErrClass.toString⟩

/-- Result of a Go function that may return an error or panic. Panics are never totalised away. -/
inductive Res (α : Type)
  | ok (a : α)
  | err (e : ErrClass)
  | panic
  deriving Repr, DecidableEq

namespace Res
def bind {α β} (r : Res α) (f : α → Res β) : Res β :=
  match r with
  | .ok a => f a
  | .err e => .err e
  | .panic => .panic

def map {α β} (f : α → β) (r : Res α) : Res β := r.bind (fun a => .ok (f a))

def isOk {α} : Res α → Bool | .ok _ => true | _ => false
def isPanic {α} : Res α → Bool | .panic => true | _ => false
end Res

instance : Monad Res where
  pure := Res.ok
  bind := Res.bind

/-! Hex rendering / parsing for the line protocol. -/

def hexDigit (n : Nat) : Char :=
  if n < 10 then Char.ofNat (48 + n) else Char.ofNat (87 + n)

def hexByte (b : Nat) : String :=
  String.ofList [hexDigit ((b / 16) % 16), hexDigit (b % 16)]

def toHex (bs : Bytes) : String :=
  if bs.isEmpty then "-" else String.join (bs.map hexByte)

def hexVal (c : Char) : Option Nat :=
  if '0' ≤ c ∧ c ≤ '9' then some (c.toNat - 48)
  else if 'a' ≤ c ∧ c ≤ 'f' then some (c.toNat - 87)
  else if 'A' ≤ c ∧ c ≤ 'F' then some (c.toNat - 55)
  else none

def fromHexChars : List Char → Option Bytes
  | [] => some []
  | [_] => none
  | a :: b :: rest => do
    let x ← hexVal a
    let y ← hexVal b
    let r ← fromHexChars rest
    pure ((x * 16 + y) :: r)

/-- "-" denotes the empty byte string. -/
def fromHex (s : String) : Option Bytes :=
  if s = "-" then some [] else fromHexChars s.toList

end Mqtt
