/-
  The base client as a labelled transition system (DESIGN.md §5 C07 / C11 / C16), transcribed from
    client.go:123-200   signaller: per-kind maps  id ↦ channel, lookup-and-delete
    serve.go:57-185     reader loop: parse, look the waiter up, non-blocking send
    connect.go:107-165  Connect: start reader, register CONNACK channel, write CONNECT, 3-way select
    publish.go:132-226  publishImpl     subscribe.go:68-110  subscribeImpl    unsubscribe.go:44-78  unsubscribeImpl
    pingreq.go:23-53    Ping            disconnect.go:22-33  Disconnect
    conn.go:25-65       SetErrorOnce, connStateUpdate, Close, Done, Err
  Every blocking wait in the Go code is `select { case <-c.connClosed; case <-ctx.Done(); case <-ch }`;
  here a blocked call is a record with a phase, and the three exits are the three events
  `connEnd`, `cancel i`, `inbound ack`.
-/
import MqttVerif.Model.Basic

namespace Mqtt.BC

inductive Kind
  | connect | pub1 | pub2 | sub (n : Nat) | unsub | ping | disconnect
  deriving DecidableEq, Repr

/-- how a call ended -/
inductive Ret
  | ok
  | okSub (codes : List Nat)         -- Subscribe: granted QoS per filter, in request order
  | ctxErr (retry : Bool)            -- the caller's context error (with a retry handle where the library gives one)
  | closed (retry : Bool)            -- ErrClosedTransport
  | writeErr (retry : Bool)          -- Transport.Write failed
  | invalidSubAck
  | refused (code : Nat)             -- CONNACK with a non-zero code (ConnectionError)
  | notConnected
  deriving DecidableEq, Repr

inductive Phase
  | waitConnAck | waitPubAck | waitPubRec | waitPubComp | waitSubAck | waitUnsubAck | waitPingResp
  | returned (r : Ret)
  deriving DecidableEq, Repr

structure Call where
  kind : Kind
  id : Nat
  phase : Phase
  deriving DecidableEq, Repr

inductive ConnState | new | active | closed | disconnected
  deriving DecidableEq, Repr

/-- packets the client writes (kind, id) -/
inductive W
  | connect | publish (qos id : Nat) | pubrel (id : Nat) | subscribe (id n : Nat) | unsubscribe (id : Nat)
  | pingreq | disconnect
  | puback (id : Nat) | pubrec (id : Nat) | pubcomp (id : Nat)     -- acknowledgements of inbound PUBLISH / PUBREL
  deriving DecidableEq, Repr

structure St where
  inited : Bool := false                  -- Connect has run init(): sig ≠ nil, connClosed exists
  calls : List Call := []
  -- signaller maps: id ↦ index of the waiting call (assoc lists; registering overwrites)
  pubAck : List (Nat × Nat) := []
  pubRec : List (Nat × Nat) := []
  pubComp : List (Nat × Nat) := []
  subAck : List (Nat × Nat) := []
  unsubAck : List (Nat × Nat) := []
  connAck : Option Nat := none
  pingResp : Option Nat := none
  state : ConnState := .new
  err : Option ErrClass := none
  doneClosed : Bool := false              -- connClosed is closed ⇔ the reader goroutine has finished
  transportOpen : Bool := true
  writeFails : Bool := false              -- the transport refuses writes (but is not closed)
  writes : List W := []
  inQ2 : List Nat := []                   -- serve.go `subBuffer`: ids of inbound QoS 2 messages awaiting PUBREL
  callbacks : List (ConnState × Option ErrClass) := []
  deriving Repr

def mapSet (m : List (Nat × Nat)) (id i : Nat) : List (Nat × Nat) := (id, i) :: m.filter (fun e => e.1 ≠ id)
def mapGet (m : List (Nat × Nat)) (id : Nat) : Option Nat := (m.find? (fun e => e.1 = id)).map (·.2)
def mapDel (m : List (Nat × Nat)) (id : Nat) : List (Nat × Nat) := m.filter (fun e => e.1 ≠ id)

def setPhase (s : St) (i : Nat) (p : Phase) : St :=
  { s with calls := s.calls.mapIdx (fun j c => if j = i then { c with phase := p } else c) }

def blocked (c : Call) : Bool := match c.phase with | .returned _ => false | _ => true

/-- conn.go:33 `connStateUpdate` -/
def connStateUpdate (s : St) (n : ConnState) : St :=
  let last := s.state
  let st := if s.state = .disconnected then .disconnected else n
  let s := { s with state := st }
  if last ≠ st then { s with callbacks := s.callbacks ++ [(st, s.err)] } else s

/-- can the client write? (`c.write`: error if the transport is closed or refuses) -/
def canWrite (s : St) : Bool := s.transportOpen && !s.writeFails

/-- does this kind get a retry handle on failure after registration? -/
def hasRetry : Kind → Bool
  | .pub1 | .pub2 | .sub _ | .unsub => true
  | _ => false

/-- packets the broker sends that matter to blocked calls -/
inductive In
  | connack (sp : Bool) (code : Nat)
  | puback (id : Nat) | pubrec (id : Nat) | pubcomp (id : Nat)
  | suback (id : Nat) (codes : List Nat) | unsuback (id : Nat)
  | pingresp
  | publish (qos id : Nat)              -- an inbound PUBLISH (serve.go:66-98); qos ∈ {0,1,2}
  | pubrel (id : Nat)                   -- an inbound PUBREL (serve.go:117-138)
  | malformed                           -- any packet the parsers reject: the reader returns an error
  deriving DecidableEq, Repr

/-- deliver to a waiting call if it is (still) blocked in the phase that this acknowledgement ends;
    a non-blocking send into a stale channel is silently absorbed -/
def wake (s : St) (i : Nat) (expect : Phase) (next : Call → St → St) : St :=
  match s.calls[i]? with
  | some c => if c.phase = expect then next c s else s
  | none => s

/-- the reader goroutine ends (serve returned `e`): connect.go:120-132 -/
def readerEnds (s : St) (e : ErrClass) : St :=
  if s.doneClosed then s
  else
    let s := { s with transportOpen := false }                                   -- c.Close()
    let s := if s.state ≠ .disconnected ∧ s.err.isNone then { s with err := some e } else s   -- SetErrorOnce
    let s := connStateUpdate s .closed
    let s := { s with doneClosed := true }
    -- every blocked call sees connClosed
    { s with calls := s.calls.map (fun c =>
        match c.phase with
        | .returned _ => c
        | .waitConnAck => { c with phase := .returned (.closed false) }
        | .waitPingResp => { c with phase := .returned (.closed false) }
        | _ => { c with phase := .returned (.closed true) }) }

/-- An API call starts: register the waiter, write the request, block (or fail at once). -/
def startCall (s : St) (k : Kind) (id : Nat) : St :=
  let i := s.calls.length
  match k with
  | .connect =>
    -- connect.go:117-150: init, reader started, channel registered, CONNECT written
    let s := { s with inited := true }
    let s := { s with connAck := some i }
    if canWrite s then { (add' s k id .waitConnAck) with writes := s.writes ++ [.connect] }
    else add' s k id (.returned (.writeErr false))
  | .disconnect =>
    -- disconnect.go: state Disconnected first, then DISCONNECT, then Transport.Close
    let s := connStateUpdate s .disconnected
    if canWrite s then
      let s := { (add' s k id (.returned .ok)) with writes := s.writes ++ [.disconnect], transportOpen := false }
      -- the reader goroutine sees the closed transport and finishes (no error is stored, no Closed callback)
      if s.inited then readerEnds s .other else s
    else add' s k id (.returned (.writeErr false))
  | _ =>
    if ¬ s.inited then add' s k id (.returned .notConnected)
    else
      let (s, w, p) : St × W × Phase := match k with
        | .pub1 => ({ s with pubAck := mapSet s.pubAck id i }, .publish 1 id, .waitPubAck)
        | .pub2 => ({ s with pubRec := mapSet s.pubRec id i }, .publish 2 id, .waitPubRec)
        | .sub n => ({ s with subAck := mapSet s.subAck id i }, .subscribe id n, .waitSubAck)
        | .unsub => ({ s with unsubAck := mapSet s.unsubAck id i }, .unsubscribe id, .waitUnsubAck)
        | _ => ({ s with pingResp := some i }, .pingreq, .waitPingResp)
      if canWrite s then
        add' { s with writes := s.writes ++ [w] } k id p
      else add' s k id (.returned (.writeErr (hasRetry k)))
where
  add' (s : St) (k : Kind) (id : Nat) (p : Phase) : St := { s with calls := s.calls ++ [{ kind := k, id := id, phase := p }] }

/-- one iteration of the reader loop on an inbound packet (serve.go) -/
def inbound (s : St) (p : In) : St :=
  if s.doneClosed ∨ ¬ s.inited then s
  else match p with
  | .malformed => readerEnds s .invalidPacket
  | .connack sp code =>
    match s.connAck with
    | some i => wake s i .waitConnAck fun _ s =>
        if code ≠ 0 then setPhase s i (.returned (.refused code))
        else setPhase (connStateUpdate s .active) i (.returned (if sp then .ok else .ok))
    | none => s
  | .puback id =>
    match mapGet s.pubAck id with
    | some i => wake { s with pubAck := mapDel s.pubAck id } i .waitPubAck fun _ s => setPhase s i (.returned .ok)
    | none => s
  | .pubrec id =>
    match mapGet s.pubRec id with
    | some i => wake { s with pubRec := mapDel s.pubRec id } i .waitPubRec fun _ s =>
        -- publish.go:193-208: register the PUBCOMP waiter, write PUBREL
        let s := { s with pubComp := mapSet s.pubComp id i }
        if canWrite s then setPhase { s with writes := s.writes ++ [.pubrel id] } i .waitPubComp
        else setPhase s i (.returned (.writeErr true))
    | none => s
  | .pubcomp id =>
    match mapGet s.pubComp id with
    | some i => wake { s with pubComp := mapDel s.pubComp id } i .waitPubComp fun _ s => setPhase s i (.returned .ok)
    | none => s
  | .suback id codes =>
    match mapGet s.subAck id with
    | some i => wake { s with subAck := mapDel s.subAck id } i .waitSubAck fun c s =>
        match c.kind with
        | .sub n =>
          if codes.length ≠ n then
            -- subscribe.go:99-102: the call closes the transport; the reader then ends with that error
            readerEnds (setPhase s i (.returned .invalidSubAck)) .other
          else setPhase s i (.returned (.okSub codes))
        | _ => s
    | none => s
  | .unsuback id =>
    match mapGet s.unsubAck id with
    | some i => wake { s with unsubAck := mapDel s.unsubAck id } i .waitUnsubAck fun _ s => setPhase s i (.returned .ok)
    | none => s
  | .pingresp =>
    match s.pingResp with
    | some i => wake s i .waitPingResp fun _ s => setPhase s i (.returned .ok)
    | none => s
  -- inbound application messages: the reader acknowledges them itself; a failing acknowledgement write
  -- ends the reader with that error (`return wrapError(err, "sending PUBACK")`)
  | .publish qos id =>
    if qos = 0 then s
    else if qos = 1 then
      if canWrite s then { s with writes := s.writes ++ [.puback id] } else readerEnds s .other
    else
      if canWrite s then { s with writes := s.writes ++ [.pubrec id], inQ2 := id :: s.inQ2.filter (· ≠ id) }
      else readerEnds s .other
  | .pubrel id =>
    if s.inQ2.contains id then
      let s := { s with inQ2 := s.inQ2.filter (· ≠ id) }
      if canWrite s then { s with writes := s.writes ++ [.pubcomp id] } else readerEnds s .other
    else s

inductive Ev
  | call (k : Kind) (id : Nat)
  | inb (p : In)
  | cancel (i : Nat)                  -- the context of call i is cancelled / its deadline passes
  | peerClose                         -- the broker closes the connection (reader sees EOF)
  | localClose                        -- Close(): the transport is closed locally (reader sees an error)
  | writeFail (on : Bool)             -- the transport starts / stops refusing writes
  deriving Repr

def step (s : St) : Ev → St
  | .call k id => startCall s k id
  | .inb p => inbound s p
  | .cancel i =>
    match s.calls[i]? with
    | some c =>
      if blocked c then
        setPhase s i (.returned (.ctxErr (match c.phase with | .waitConnAck | .waitPingResp => false | _ => true)))
      else s
    | none => s
  | .peerClose => if s.inited then readerEnds s .eof else s
  | .localClose => if s.inited then readerEnds s .other else { s with transportOpen := false }
  | .writeFail on => { s with writeFails := on }

def run (evs : List Ev) : St := evs.foldl step {}

end Mqtt.BC
