/-
  The task goroutine of `RetryClient` (retryclient.go, started by the first `SetClient`) as a small-step
  program, interleaved with the calls that other goroutines make: `SetClient`, `RetryClient.Connect` returning,
  requests being pushed, the running task returning.

  The retry-stack model (`Model/Retry.lean`) makes a task one atomic step and a client switch one atomic
  event; that hides the one place where the goroutine has to NOTICE a switch on its own: when `SetClient`
  lands while a task is running. This model has exactly that granularity and nothing else:

      go func() {
        connected := false
        var chConnSwitch chan struct{}                       -- `seen`: generation of the captured switch channel
      L_TASK:
        for {
          if !connected {
            for {
              RLock; chConnectErr := c.chConnectErr; chConnSwitch = c.chConnSwitch; RUnlock     -- pc = waitRead
              select {                                                                           -- pc = waitSel g
              case _, ok := <-chConnectErr: if !ok { connected = true; continue L_TASK }
              case <-chConnSwitch:
              } } }
          c.mu.Lock()                                                                            -- pc = top
          select { case <-chConnSwitch: Unlock; connected = false; continue; default: }
          if len(c.taskQueue) == 0 {
            Unlock
            select {                                                                             -- pc = idle
            case <-c.chTask:
            case <-chConnSwitch: connected = false
            }
            continue
          }
          cli := c.cli; task := pop; Unlock
          task(ctx, cli)                                                                         -- pc = run t g
          if c.newRetryByError { cli.Close(); connected = false; c.newRetryByError = false }
        } }()

  `Variant.stale` is the loop as it was before the repair D21: at `top` it re-read `c.chConnSwitch` under the
  lock (`chConnSwitch := c.chConnSwitch`), so the channel it looked at was always the newest client's, which is
  never closed.

  A client generation is the number of `SetClient` calls so far; `returned` lists the generations on which
  `RetryClient.Connect` has returned (it closes that generation's `chConnectErr`, after sending the error if the
  CONNECT failed). A `BaseClient` on which Connect has not been called has no signaller: every request on it
  fails with the plain `ErrNotConnected`, which is not an `ErrorWithRetry`, so the request is dropped.
-/
namespace Mqtt.TaskLoop

inductive Variant
  | fixed | stale
  deriving DecidableEq, Repr

inductive PC
  | waitRead
  | waitSel (g : Nat)
  | top
  | idle
  | run (t : Nat) (g : Nat)
  deriving DecidableEq, Repr

/-- one started task: (task, generation of the client it was started on, had Connect returned on that generation) -/
abbrev Start := Nat × Nat × Bool

structure S where
  gen : Nat := 0
  returned : List Nat := []
  queue : List Nat := []
  token : Bool := false          -- `chTask` (capacity 1) holds a token
  pc : PC := .waitRead           -- the goroutine exists from the first SetClient on
  seen : Nat := 0
  log : List Start := []
  deriving DecidableEq, Repr

inductive Ev
  | setClient
  | connectReturn (g : Nat)
  | submit (t : Nat)
  | taskEnd (retry : Bool)       -- the running task returns; `retry`: it set newRetryByError
  | loop (preferSwitch : Bool)   -- one step of the goroutine; the flag resolves a select with two ready cases
  deriving DecidableEq, Repr

def init : S := {}

/-- one step of the goroutine (nothing happens if it is blocked, running a task, or not started yet) -/
def loopStep (v : Variant) (s : S) (prefer : Bool) : S :=
  if s.gen = 0 then s else
  match s.pc with
  | .waitRead => { s with seen := s.gen, pc := .waitSel s.gen }
  | .waitSel g =>
      let ok := g ∈ s.returned
      let sw := s.gen ≠ g
      if ok ∧ (¬ sw ∨ ¬ prefer) then { s with pc := .top }
      else if sw then { s with pc := .waitRead }
      else s
  | .top =>
      let seen' := match v with | .fixed => s.seen | .stale => s.gen
      if s.gen ≠ seen' then { s with pc := .waitRead }
      else match s.queue with
        | [] => { s with seen := seen', pc := .idle }
        | t :: q => { s with seen := seen', queue := q, pc := .run t s.gen,
                              log := s.log ++ [(t, s.gen, decide (s.gen ∈ s.returned))] }
  | .idle =>
      let sw := s.gen ≠ s.seen
      if s.token ∧ (¬ sw ∨ ¬ prefer) then { s with token := false, pc := .top }
      else if sw then { s with pc := .waitRead }
      else s
  | .run _ _ => s

def step (v : Variant) (s : S) : Ev → S
  | .setClient => { s with gen := s.gen + 1 }
  | .connectReturn g =>
      if 1 ≤ g ∧ g ≤ s.gen ∧ g ∉ s.returned then { s with returned := g :: s.returned } else s
  | .submit t => { s with queue := s.queue ++ [t], token := s.token || decide (1 ≤ s.gen) }
  | .taskEnd retry =>
      match s.pc with
      | .run _ _ => { s with pc := if retry then .waitRead else .top }
      | _ => s
  | .loop p => loopStep v s p

def run (v : Variant) (evs : List Ev) : S := evs.foldl (step v) init

/-- the goroutine can take a step that changes something -/
def canStep (v : Variant) (s : S) : Bool := decide (loopStep v s false ≠ s) || decide (loopStep v s true ≠ s)

/-- run the goroutine until it blocks (fuel-bounded; used by the correspondence driver, where every
    scripted event is followed by quiescence) -/
def settle (v : Variant) : Nat → S → S
  | 0, s => s
  | n + 1, s => let s' := loopStep v s false; if s' = s then s else settle v n s'

end Mqtt.TaskLoop
