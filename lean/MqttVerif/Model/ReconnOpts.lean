/-
  The defaults that `reconnectClient.Connect` applies to its options before the loop starts
  (reconnclient.go:70-75):
      if c.options.PingInterval == 0 { c.options.PingInterval = time.Duration(connOptions.KeepAlive) * time.Second }
      if c.options.Timeout == 0      { c.options.Timeout = c.options.PingInterval }
  and the three places where the loop uses them:
      :91  ctxConnect = WithTimeout(ctx, Timeout) if Timeout ≠ 0 (else the bare ctx: no bound on CONNECT)
      :107 keep-alive runs iff PingInterval > 0, with (PingInterval, Timeout) as interval and ping timeout
  Durations are int64 nanoseconds (negative values are representable: `Int`); KeepAlive is a uint16 of seconds.
-/
namespace Mqtt.ReconnOpts

def second : Int := 1000000000

structure Opts where
  pingInterval : Int := 0        -- WithPingInterval; 0 = not set
  timeout : Int := 0             -- WithTimeout; 0 = not set
  deriving DecidableEq, Repr

/-- reconnclient.go:70-75 -/
def effective (o : Opts) (keepAlive : Nat) : Opts :=
  let ping := if o.pingInterval = 0 then (keepAlive : Int) * second else o.pingInterval
  let to := if o.timeout = 0 then ping else o.timeout
  { pingInterval := ping, timeout := to }

/-- reconnclient.go:107 -/
def keepAliveRuns (o : Opts) : Bool := decide (o.pingInterval > 0)

/-- reconnclient.go:262-267 `timeoutContext`: is the CONNECT exchange bounded? -/
def connectBounded (o : Opts) : Bool := decide (o.timeout ≠ 0)

end Mqtt.ReconnOpts
