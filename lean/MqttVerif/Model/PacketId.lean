/-
  uniqid.go: packet identifier counter.
    func (c *BaseClient) newID() uint16 {
      id := uint16(atomic.AddUint32(&c.idLast, 1))
      if id == 0 { return c.newID() }
      return id }
  The counter is a uint32 (wraps at 2^32); the id is its low 16 bits.
-/
import MqttVerif.Model.Basic

namespace Mqtt

def u32 : Nat := 4294967296
def u16 : Nat := 65536

/-- `newID` with explicit recursion fuel. Returns (counter after the call, id); `none` = fuel ran out. -/
def newIDFuel : Nat → Nat → Option (Nat × Nat)
  | 0, _ => none
  | fuel + 1, c =>
    let c1 := (c + 1) % u32
    let id := c1 % u16
    if id = 0 then newIDFuel fuel c1 else some (c1, id)

/-- Two rounds always suffice (`newID_fuel_enough` in Proofs/PacketId). -/
def newID (c : Nat) : Nat × Nat := (newIDFuel 2 c).getD (c, 0)

/-- uniqid.go:27 `initID`: `uint32(rand.Int31n(0xFFFE)) + 1`, for a random draw `r < 0xFFFE`. -/
def initID (r : Nat) : Nat := r + 1

/-- ids handed out by `n` consecutive calls starting from counter `c`. -/
def idsFrom : Nat → Nat → List Nat
  | _, 0 => []
  | c, n + 1 => let (c', id) := newID c; id :: idsFrom c' n

def counterAfter : Nat → Nat → Nat
  | c, 0 => c
  | c, n + 1 => counterAfter (newID c).1 n

end Mqtt
