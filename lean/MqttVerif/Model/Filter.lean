/-
  filter.go (newTopicFilter, topicFilter.Match) and servemux.go (ServeMux.Handle / Serve).
  Strings are byte lists; '/' = 47, '+' = 43, '#' = 35.
-/
import MqttVerif.Model.Basic

namespace Mqtt

def slash : Nat := 47
def plus : Nat := 43
def hash : Nat := 35

/-- `strings.Split(s, "/")`: n separators give n+1 parts; the empty string gives `[""]`. -/
def splitSlash : Bytes → List Bytes
  | [] => [[]]
  | c :: rest =>
    if c = slash then [] :: splitSlash rest
    else match splitSlash rest with
      | h :: t => (c :: h) :: t
      | [] => [[c]]

/-- filter.go:35-46, the validation loop; `i` is the index of the head of the list, `n = len(tf)`. -/
def checkLevels : List Bytes → Nat → Nat → Bool
  | [], _, _ => true
  | f :: rest, i, n =>
    if f.contains plus && f.length ≠ 1 then false
    else if f.contains hash && (f.length ≠ 1 || i ≠ n - 1) then false
    else checkLevels rest (i + 1) n

/-- filter.go:27 `newTopicFilter`. -/
def newTopicFilter (s : Bytes) : Res (List Bytes) :=
  if s.length = 0 then .err .invalidTopicFilter
  else
    let tf := splitSlash s
    if checkLevels tf 0 tf.length then .ok tf else .err .invalidTopicFilter

/-- filter.go:49-66 `Match`, the index loop as recursion over filter levels and the remaining
    topic levels (`i >= len(ts)` ⇔ the remaining topic list is empty; `i == len(ts)` at the end
    ⇔ nothing remains). -/
def matchLevels : List Bytes → List Bytes → Bool
  | [], ts => ts.isEmpty
  | t :: fs, ts =>
    if t = [hash] then true
    else match ts with
      | [] => false
      | x :: xs => if t ≠ [plus] && t ≠ x then false else matchLevels fs xs

def matchTopic (filter : List Bytes) (topic : Bytes) : Bool := matchLevels filter (splitSlash topic)

/-- servemux.go: handlers registered in order (invalid filters are refused by `Handle`),
    `Serve` calls every handler whose filter matches, in registration order. -/
def muxRegister (filters : List Bytes) : List (Nat × List Bytes) :=
  let rec go : List Bytes → Nat → List (Nat × List Bytes)
    | [], _ => []
    | f :: rest, i => match newTopicFilter f with
      | .ok tf => (i, tf) :: go rest (i + 1)
      | _ => go rest (i + 1)
  go filters 0

def muxServe (handlers : List (Nat × List Bytes)) (topic : Bytes) : List Nat :=
  (handlers.filter (fun h => matchTopic h.2 topic)).map (·.1)

/-- A ServeMux used over time: `Handle` and `Serve` calls interleaved (servemux.go keeps no other state than
    the handler list, so every Serve sees exactly the handlers registered before it). -/
inductive MuxOp
  | handle (f : Bytes)
  | serve (t : Bytes)
  deriving Repr

/-- the handlers called by each Serve, in order; `fs` = filters passed to Handle so far -/
def muxSeq : List MuxOp → List Bytes → List (List Nat)
  | [], _ => []
  | .handle f :: rest, fs => muxSeq rest (fs ++ [f])
  | .serve t :: rest, fs => muxServe (muxRegister fs) t :: muxSeq rest fs

end Mqtt
