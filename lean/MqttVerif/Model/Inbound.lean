/-
  The inbound publish flows of serve.go:66-139 at message level: what one iteration of the reader
  loop does for a well-formed PUBLISH or PUBREL. `serveStep` (Model/Parse.lean) is the byte-level
  transcription; `inStep` is the same branch structure after parsing, and
  `Proofs/Inbound.lean` proves that `serveStep` on the encoding of a packet equals `inStep`.
-/
import MqttVerif.Model.Parse

namespace Mqtt

inductive InPkt
  | publish (m : Message)        -- m.qos ∈ {0,1,2}
  | pubrel (id : Nat)
  deriving DecidableEq, Repr

/-- serve.go:66-98 (PUBLISH) and :117-138 (PUBREL) after a successful parse. -/
def inStep (sb : SubBuffer) (handler : Bool) : InPkt → Res (SubBuffer × List Out)
  | .publish m =>
    let ho : List Out := if handler then [.handOver m] else []
    if m.qos = 0 then .ok (sb, ho)
    else if m.qos = 1 then liftPack (packPubAck m.id) fun b => .ok (sb, ho ++ [.write b])
    else liftPack (packPubRec m.id) fun b => .ok (sb.insert m.id m, [.write b])
  | .pubrel id =>
    match sb.find id with
    | some m =>
      let ho : List Out := if handler then [.handOver m] else []
      liftPack (packPubComp id) fun b => .ok (sb.erase id, ho ++ [.write b])
    | none => .ok (sb, [])

/-- the whole sequence; `none` if some step failed (it cannot: `Proofs/Inbound`) -/
def runIn (handler : Bool) : SubBuffer → List InPkt → Option (SubBuffer × List Out)
  | sb, [] => some (sb, [])
  | sb, p :: ps =>
    match inStep sb handler p with
    | .ok (sb', outs) => (runIn handler sb' ps).map (fun r => (r.1, outs ++ r.2))
    | _ => none

/-- the wire encoding of an inbound packet as a broker sends it (fixed header + body) -/
def encodeIn : InPkt → Res Bytes
  | .publish m => packPublish m
  | .pubrel id => packPubRel id

end Mqtt
