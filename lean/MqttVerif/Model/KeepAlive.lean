/-
  keepalive.go:34-62 `KeepAlive(ctx, cli, interval, timeout)`: one Ping per tick; the first failing
  Ping ends the loop, classified in this order: parent context done → the context's error; the
  per-ping timeout context done → ErrPingTimeout; otherwise the Ping's own error.
-/
import MqttVerif.Model.Basic

namespace Mqtt.KA

/-- what one `cli.Ping(ctxTo)` call did, as seen by the loop right after it returned -/
inductive PingOutcome
  | answered                                              -- returned nil
  | failed (parentDone toDone : Bool) (e : ErrClass)      -- returned an error; which contexts are done now
  deriving DecidableEq, Repr

inductive Result
  | running (pings : Nat)                  -- still looping after that many answered pings
  | stopped (pings : Nat) (e : ErrClass)   -- returned `e` after `pings` Ping calls
  deriving DecidableEq, Repr

def classify (parentDone toDone : Bool) (e : ErrClass) : ErrClass :=
  if parentDone then .ctx else if toDone then .pingTimeout else e

def keepAliveFrom (n : Nat) : List PingOutcome → Result
  | [] => .running n
  | .answered :: rest => keepAliveFrom (n + 1) rest
  | .failed p t e :: _ => .stopped (n + 1) (classify p t e)

def keepAlive (os : List PingOutcome) : Result := keepAliveFrom 0 os

/-- How a Ping on the base client (pingreq.go) ends, from the events during it: this produces the
    `PingOutcome` above. `timeout` = ctxTo's deadline passed; a cancelled parent also cancels ctxTo. -/
inductive PingEvent
  | pingresp            -- PINGRESP arrives before anything else
  | timeout             -- nothing arrives within `timeout`
  | parentCancel        -- the caller's (parent) context is cancelled while waiting
  | writeFail           -- the PINGREQ cannot be written
  | connEnd             -- the connection ends while waiting
  deriving DecidableEq, Repr

def pingOutcome : PingEvent → PingOutcome
  | .pingresp => .answered
  | .timeout => .failed false true .ctx
  | .parentCancel => .failed true true .ctx
  | .writeFail => .failed false false .other
  | .connEnd => .failed false false .closedTransport

end Mqtt.KA
