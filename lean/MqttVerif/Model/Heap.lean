/-
  message.go (clone), servemux.go:47 (ServeMux.Serve), serveasync.go:24 (ServeAsync.Serve) with an
  explicit heap, because the property (C20) is about aliasing, which a pure model cannot express.
  Two kinds of objects share one address space: message structs and byte buffers (the backing
  arrays of `Payload`). Go strings are immutable, so `Topic` is a value.
-/
import MqttVerif.Model.Basic

namespace Mqtt

structure MsgObj where
  topic : Bytes
  id : Nat
  qos : Nat
  retain : Bool
  dup : Bool
  payload : Nat            -- address of the backing buffer
  plen : Nat               -- len(Payload) (the slice may be shorter than its buffer)
  deriving DecidableEq, Repr

structure Heap where
  msgs : Nat → Option MsgObj
  bufs : Nat → Option Bytes
  next : Nat               -- first unallocated address

/-- What a reader of `*Message` at address `p` sees. -/
structure MsgView where
  topic : Bytes
  id : Nat
  qos : Nat
  retain : Bool
  dup : Bool
  payload : Bytes
  deriving DecidableEq, Repr

def Heap.view (h : Heap) (p : Nat) : Option MsgView :=
  match h.msgs p with
  | none => none
  | some m =>
    match h.bufs m.payload with
    | none => none
    | some b => some { topic := m.topic, id := m.id, qos := m.qos, retain := m.retain, dup := m.dup,
                       payload := b.take m.plen }

def Heap.allocBuf (h : Heap) (b : Bytes) : Heap × Nat :=
  ({ h with bufs := fun a => if a = h.next then some b else h.bufs a, next := h.next + 1 }, h.next)

def Heap.allocMsg (h : Heap) (m : MsgObj) : Heap × Nat :=
  ({ h with msgs := fun a => if a = h.next then some m else h.msgs a, next := h.next + 1 }, h.next)

/-- message.go:27 `clone`: a new struct and a new payload buffer (`append([]byte{}, m.Payload...)`). -/
def Heap.clone (h : Heap) (p : Nat) : Heap × Nat :=
  match h.msgs p with
  | none => (h, p)                       -- nil pointer: not reachable from Serve (would panic in Go)
  | some m =>
    let content := ((h.bufs m.payload).getD []).take m.plen
    let (h1, nb) := h.allocBuf content
    h1.allocMsg { m with payload := nb, plen := content.length }

/-- A handler: any heap transformer given the pointer it was called with. -/
abbrev HandlerFn := Heap → Nat → Heap

/-- servemux.go:47-53: every matching handler is called with its own clone. Returns the final heap
    and the view each handler had on entry. -/
def muxRun : Heap → List HandlerFn → Nat → Heap × List (Option MsgView)
  | h, [], _ => (h, [])
  | h, f :: rest, p =>
    let (h1, c) := h.clone p
    let v := h1.view c
    let h2 := f h1 c
    let (h3, vs) := muxRun h2 rest p
    (h3, v :: vs)

/-- serveasync.go:24 `go m.Handler.Serve(message.clone())`: the clone is made by the caller (the
    arguments of a `go` statement are evaluated in the calling goroutine); the handler body runs later. -/
def asyncServe (h : Heap) (p : Nat) : Heap × Nat := h.clone p

end Mqtt
