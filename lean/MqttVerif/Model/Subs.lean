/-
  subscriptions.go: the list of established subscriptions kept by RetryClient
  (`subscriptions.applyTo`, `unsubscriptions.applyTo`), including the swap-with-last removal.
-/
import MqttVerif.Model.Codec

namespace Mqtt

abbrev SubList := List Subscription

/-- replace the QoS of the first entry with this topic, or report that none exists -/
def replaceQoS : SubList → Subscription → Option SubList
  | [], _ => none
  | e :: rest, s =>
    if e.topic = s.topic then some ({ e with qos := s.qos } :: rest)
    else (replaceQoS rest s).map (e :: ·)

/-- subscriptions.go:23 `subscriptions.applyTo`: per new subscription, replace the QoS of an
    established entry with the same topic, else append. -/
def applySubs (d : SubList) : List Subscription → SubList
  | [] => d
  | s :: rest =>
    match replaceQoS d s with
    | some d' => applySubs d' rest
    | none => applySubs (d ++ [s]) rest

/-- index of the first entry among the first `l` with this topic -/
def findIdx (d : SubList) (l : Nat) (topic : Bytes) : Option Nat :=
  (List.range l).find? (fun i => match d[i]? with | some e => e.topic = topic | none => false)

/-- one removal: `l--; d[i] = d[l]` -/
def removeAt (d : SubList) (l i : Nat) : SubList × Nat :=
  let l' := l - 1
  match d[l']? with
  | some e => (d.set i e, l')
  | none => (d, l')

/-- subscriptions.go:40 `unsubscriptions.applyTo`: for each topic remove the first live entry by
    swapping the last live entry into its place; finally truncate to the live length. -/
def applyUnsubsAux (d : SubList) (l : Nat) : List Bytes → SubList × Nat
  | [] => (d, l)
  | t :: rest =>
    match findIdx d l t with
    | some i => let (d', l') := removeAt d l i; applyUnsubsAux d' l' rest
    | none => applyUnsubsAux d l rest

def applyUnsubs (d : SubList) (topics : List Bytes) : SubList :=
  let (d', l) := applyUnsubsAux d d.length topics
  d'.take l

inductive SubCall
  | sub (subs : List Subscription)
  | unsub (topics : List Bytes)
  deriving Repr

def applyCall (d : SubList) : SubCall → SubList
  | .sub s => applySubs d s
  | .unsub t => applyUnsubs d t

end Mqtt
