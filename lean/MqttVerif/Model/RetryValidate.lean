/-
  retryclient.go:105-127 `RetryClient.Publish` and :140-143 `RetryClient.publish` (the task):
  the payload limit is checked against the base client that is set at the time of each of the two
  calls. Publish (API): `if cli != nil { ValidateMessage … return error }`, then the task is queued and nil
  is returned. Task: `if err := cli.ValidateMessage(message); err != nil { return }` — dropped, silently.
  This small model isolates that decision (the retry-stack model of Model/Retry.lean has no payload limit).
-/
import MqttVerif.Model.Codec

namespace Mqtt.RetryValidate

inductive ApiResult | accepted | rejected (e : ErrClass)
  deriving DecidableEq, Repr

/-- `RetryClient.Publish`: `cliMax = none` before the first SetClient, else the client's MaxPayloadLen -/
def apiPublish (cliMax : Option Nat) (m : Message) : ApiResult :=
  match cliMax with
  | none => .accepted
  | some max =>
    match validateMessage max m with
    | .ok _ => .accepted
    | .err e => .rejected e
    | .panic => .rejected .other

inductive TaskResult | transmittedOrQueued | dropped
  deriving DecidableEq, Repr

/-- the task body `RetryClient.publish(ctx, cli, message)` with the client set by then -/
def taskPublish (cliMax : Nat) (m : Message) : TaskResult :=
  match validateMessage cliMax m with
  | .ok _ => .transmittedOrQueued
  | _ => .dropped

end Mqtt.RetryValidate
