/-
  MQTT 3.1.1 §4.7 topic filters, as a specification: validity of a filter and the level-wise
  matching relation. Independent of the Go code.
-/
import MqttVerif.Model.Basic

namespace Mqtt.Spec

/-- levels of a topic name / filter: the maximal '/'-free runs, `"a//b"` has an empty middle level -/
def levels : Bytes → List Bytes
  | [] => [[]]
  | c :: rest =>
    if c = 47 then [] :: levels rest
    else match levels rest with
      | h :: t => (c :: h) :: t
      | [] => [[c]]

/-- §4.7.1: non-empty; '+' only as a whole level; '#' only as the whole last level. -/
def ValidFilter (s : Bytes) : Prop :=
  s ≠ [] ∧ ∀ i l, (levels s)[i]? = some l →
    ((43 ∈ l → l = [43]) ∧ (35 ∈ l → l = [35] ∧ i + 1 = (levels s).length))

/-- §4.7.1.2 / §4.7.1.3: level-wise matching. -/
inductive Matches : List Bytes → List Bytes → Prop
  | nil : Matches [] []
  | hash (ts : List Bytes) : Matches [[35]] ts                     -- parent level (ts = []) and any descendants
  | plus (fs ts : List Bytes) (t : Bytes) : Matches fs ts → Matches ([43] :: fs) (t :: ts)   -- exactly one level, possibly empty
  | lit (f : Bytes) (fs ts : List Bytes) : f ≠ [43] → f ≠ [35] → Matches fs ts → Matches (f :: fs) (f :: ts)

end Mqtt.Spec
