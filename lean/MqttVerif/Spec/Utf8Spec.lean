/-
  Well-formed UTF-8, transcribed from The Unicode Standard 15.0, Table 3-7
  "Well-Formed UTF-8 Byte Sequences":

      Code points          1st byte   2nd byte   3rd byte   4th byte
      U+0000..U+007F       00..7F
      U+0080..U+07FF       C2..DF     80..BF
      U+0800..U+0FFF       E0         A0..BF     80..BF
      U+1000..U+CFFF       E1..EC     80..BF     80..BF
      U+D000..U+D7FF       ED         80..9F     80..BF
      U+E000..U+FFFF       EE..EF     80..BF     80..BF
      U+10000..U+3FFFF     F0         90..BF     80..BF     80..BF
      U+40000..U+FFFFF     F1..F3     80..BF     80..BF     80..BF
      U+100000..U+10FFFF   F4         80..8F     80..BF     80..BF

  and the scalar value a sequence denotes (Table 3-6 "UTF-8 Bit Distribution"), written with
  arithmetic only. Independent of the model (`Model/Utf8.lean`); the two are related by proof in
  `Props/C05u.lean`.
-/
import MqttVerif.Model.Basic

namespace Mqtt.Spec

/-- a trailing byte `80..BF` -/
def Cont (b : Nat) : Prop := 0x80 ≤ b ∧ b ≤ 0xBF

/-- one well-formed UTF-8 byte sequence (one row of Table 3-7) -/
inductive WFSeq : Bytes → Prop
  | one (b0 : Nat) : b0 ≤ 0x7F → WFSeq [b0]
  | two (b0 b1 : Nat) : 0xC2 ≤ b0 → b0 ≤ 0xDF → Cont b1 → WFSeq [b0, b1]
  | three (b0 b1 b2 : Nat) :
      (b0 = 0xE0 ∧ 0xA0 ≤ b1 ∧ b1 ≤ 0xBF) ∨
      (0xE1 ≤ b0 ∧ b0 ≤ 0xEC ∧ 0x80 ≤ b1 ∧ b1 ≤ 0xBF) ∨
      (b0 = 0xED ∧ 0x80 ≤ b1 ∧ b1 ≤ 0x9F) ∨
      (0xEE ≤ b0 ∧ b0 ≤ 0xEF ∧ 0x80 ≤ b1 ∧ b1 ≤ 0xBF) →
      Cont b2 → WFSeq [b0, b1, b2]
  | four (b0 b1 b2 b3 : Nat) :
      (b0 = 0xF0 ∧ 0x90 ≤ b1 ∧ b1 ≤ 0xBF) ∨
      (0xF1 ≤ b0 ∧ b0 ≤ 0xF3 ∧ 0x80 ≤ b1 ∧ b1 ≤ 0xBF) ∨
      (b0 = 0xF4 ∧ 0x80 ≤ b1 ∧ b1 ≤ 0x8F) →
      Cont b2 → Cont b3 → WFSeq [b0, b1, b2, b3]

/-- a well-formed UTF-8 string: a concatenation of well-formed sequences -/
inductive WellFormed : Bytes → Prop
  | nil : WellFormed []
  | cons (s rest : Bytes) : WFSeq s → WellFormed rest → WellFormed (s ++ rest)

/-- the Unicode scalar value a sequence denotes (Table 3-6):
      0xxxxxxx                              → xxxxxxx
      110yyyyy 10xxxxxx                     → yyyyy xxxxxx
      1110zzzz 10yyyyyy 10xxxxxx            → zzzz yyyyyy xxxxxx
      11110uuu 10uuzzzz 10yyyyyy 10xxxxxx   → uuuuu zzzz yyyyyy xxxxxx -/
def scalarOf : Bytes → Nat
  | [b0] => b0
  | [b0, b1] => b0 % 32 * 64 + b1 % 64
  | [b0, b1, b2] => b0 % 16 * 4096 + b1 % 64 * 64 + b2 % 64
  | [b0, b1, b2, b3] => b0 % 8 * 262144 + b1 % 64 * 4096 + b2 % 64 * 64 + b3 % 64
  | _ => 0

/-- a Unicode scalar value: a code point that is not a surrogate -/
def IsScalar (r : Nat) : Prop := r ≤ 0x10FFFF ∧ ¬ (0xD800 ≤ r ∧ r ≤ 0xDFFF)

instance (b : Nat) : Decidable (Cont b) := by unfold Cont; infer_instance
instance (r : Nat) : Decidable (IsScalar r) := by unfold IsScalar; infer_instance

end Mqtt.Spec
