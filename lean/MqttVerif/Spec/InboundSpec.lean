/-
  MQTT 3.1.1 §4.3 receiver-side delivery rules (client as receiver), stated declaratively over the
  whole list of packets received on one connection — not as a state machine:
    * QoS 0 / QoS 1 PUBLISH at position i: the message is handed over at i; QoS 1 is then
      acknowledged by PUBACK with its identifier.
    * QoS 2 PUBLISH at position i: acknowledged by PUBREC; nothing is handed over at i.
    * PUBREL id at position i is *effective* iff a QoS 2 PUBLISH with that identifier occurs before
      i with no PUBREL of the same identifier in between. Effective: the latest such PUBLISH is handed
      over, then PUBCOMP id is written. Ineffective: nothing happens.
-/
import MqttVerif.Model.Inbound

namespace Mqtt.Spec

/-- scanning the prefix backwards from position i (the reversed prefix, nearest first): the QoS 2
    message that a PUBREL `id` releases, if any -/
def releasable (id : Nat) : List InPkt → Option Message
  | [] => none
  | .pubrel j :: earlier => if j = id then none else releasable id earlier
  | .publish m :: earlier => if m.qos ≥ 2 ∧ m.id = id then some m else releasable id earlier

def ackBytes (kind id : Nat) : Bytes := [kind, 2, (id / 256) % 256, id % 256]

/-- what must happen at position i, given the reversed prefix before it -/
def eventAt (handler : Bool) (revPrefix : List InPkt) : InPkt → List Out
  | .publish m =>
    let ho : List Out := if handler then [.handOver m] else []
    if m.qos = 0 then ho
    else if m.qos = 1 then ho ++ [.write (ackBytes 0x40 m.id)]
    else [.write (ackBytes 0x50 m.id)]
  | .pubrel id =>
    match releasable id revPrefix with
    | some m => (if handler then [.handOver m] else []) ++ [.write (ackBytes 0x70 id)]
    | none => []

def timelineFrom (handler : Bool) : List InPkt → List InPkt → List Out
  | _, [] => []
  | revPrefix, p :: ps => eventAt handler revPrefix p ++ timelineFrom handler (p :: revPrefix) ps

/-- the complete observable timeline (hand-overs and writes, in order) for a received sequence -/
def timeline (handler : Bool) (ps : List InPkt) : List Out := timelineFrom handler [] ps

end Mqtt.Spec
