/-
  Net effect of a history of Subscribe / Unsubscribe calls at an MQTT 3.1.1 broker (§3.8.4, §3.10.4):
  SUBSCRIBE sets the filter's QoS (replacing an existing subscription, last occurrence wins also
  inside one call); UNSUBSCRIBE deletes it. A finite map as a function.
-/
import MqttVerif.Model.Subs

namespace Mqtt.Spec

abbrev SubMap := Bytes → Option Nat

def subMapEmpty : SubMap := fun _ => none

def setSubs (m : SubMap) : List Subscription → SubMap
  | [] => m
  | s :: rest => setSubs (fun t => if t = s.topic then some s.qos else m t) rest

def delSubs (m : SubMap) : List Bytes → SubMap
  | [] => m
  | x :: rest => delSubs (fun t => if t = x then none else m t) rest

def netStep (m : SubMap) : SubCall → SubMap
  | .sub s => setSubs m s
  | .unsub t => delSubs m t

def netEffect (calls : List SubCall) : SubMap := calls.foldl netStep subMapEmpty

/-- the map denoted by a subscription list without duplicate topics (first match) -/
def toMap (d : SubList) : SubMap := fun t => (d.find? (fun e => e.topic = t)).map (·.qos)

end Mqtt.Spec
