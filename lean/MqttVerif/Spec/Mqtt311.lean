/-
  An MQTT 3.1.1 decoder written from the OASIS standard (not from the Go code): the reference
  against which "well-formed and carrying exactly the requested fields" (C05) is stated.
  Sections refer to mqtt-v3.1.1-os.
-/
import MqttVerif.Model.Basic

namespace Mqtt.Spec

/-- §2.2.3 Remaining Length: 1–4 bytes, 7 data bits each, least significant group first,
    continuation bit 0x80; the encoding must be the minimal one (no trailing zero group). -/
def decodeVarInt : Bytes → Option (Nat × Bytes)
  | b0 :: r0 =>
    if b0 < 128 then some (b0, r0) else
    match r0 with
    | b1 :: r1 =>
      if b1 < 128 then (if b1 = 0 then none else some (b0 % 128 + 128 * b1, r1)) else
      match r1 with
      | b2 :: r2 =>
        if b2 < 128 then (if b2 = 0 then none else some (b0 % 128 + 128 * (b1 % 128) + 16384 * b2, r2)) else
        match r2 with
        | b3 :: r3 =>
          if b3 < 128 ∧ b3 ≠ 0 then some (b0 % 128 + 128 * (b1 % 128) + 16384 * (b2 % 128) + 2097152 * b3, r3)
          else none
        | [] => none
      | [] => none
    | [] => none
  | [] => none

/-- Number of bytes of the minimal encoding (§2.2.3 table 2.4). -/
def minimalLen (n : Nat) : Nat :=
  if n ≤ 127 then 1 else if n ≤ 16383 then 2 else if n ≤ 2097151 then 3 else 4

def maxRemainingLength : Nat := 268435455

/-- §1.5.2 two-byte big-endian integer. -/
def decodeU16 : Bytes → Option (Nat × Bytes)
  | b0 :: b1 :: r => some (b0 * 256 + b1, r)
  | _ => none

/-- §1.5.3 length-prefixed string / binary data. -/
def decodeBin (b : Bytes) : Option (Bytes × Bytes) :=
  match decodeU16 b with
  | some (n, r) => if n ≤ r.length then some (r.take n, r.drop n) else none
  | none => none

/-- Decoded control packets (client → server direction and acknowledgements). -/
inductive Pkt
  | connect (level : Nat) (clean : Bool) (keepAlive : Nat) (clientID : Bytes)
      (will : Option (Bytes × Bytes × Nat × Bool)) (user : Option Bytes) (pass : Option Bytes)
  | publish (topic : Bytes) (payload : Bytes) (qos : Nat) (retain dup : Bool) (id : Option Nat)
  | puback (id : Nat) | pubrec (id : Nat) | pubrel (id : Nat) | pubcomp (id : Nat)
  | subscribe (id : Nat) (subs : List (Bytes × Nat))
  | unsubscribe (id : Nat) (filters : List Bytes)
  | pingreq | disconnect
  deriving DecidableEq, Repr

/-- §3.8.3 SUBSCRIBE payload: (filter, requested QoS ≤ 2)+ -/
def decodeSubs : Nat → Bytes → Option (List (Bytes × Nat))
  | 0, _ => none
  | _, [] => some []
  | fuel + 1, b =>
    match decodeBin b with
    | some (f, q :: r) => if q ≤ 2 then (decodeSubs fuel r).map ((f, q) :: ·) else none
    | _ => none

def decodeFilters : Nat → Bytes → Option (List Bytes)
  | 0, _ => none
  | _, [] => some []
  | fuel + 1, b =>
    match decodeBin b with
    | some (f, r) => (decodeFilters fuel r).map (f :: ·)
    | none => none

/-- §3.1 CONNECT variable header + payload. Flags byte: bit0 reserved (0), bit1 clean session,
    bit2 will, bits3-4 will QoS, bit5 will retain, bit6 password, bit7 user name. -/
def decodeConnect (body : Bytes) : Option Pkt :=
  match body with
  | 0 :: 4 :: 0x4D :: 0x51 :: 0x54 :: 0x54 :: level :: flags :: r =>
    match decodeU16 r with
    | some (ka, r) =>
      match decodeBin r with
      | some (cid, r) =>
        let clean := flags / 2 % 2 = 1
        let willF := flags / 4 % 2 = 1
        let willQ := flags / 8 % 4
        let willR := flags / 32 % 2 = 1
        let passF := flags / 64 % 2 = 1
        let userF := flags / 128 % 2 = 1
        if flags % 2 = 1 then none                              -- [MQTT-3.1.2-3]
        else if willQ = 3 then none                             -- [MQTT-3.1.2-14]
        else if ¬ willF ∧ (willQ ≠ 0 ∨ willR) then none        -- [MQTT-3.1.2-11,13,15]
        else if passF ∧ ¬ userF then none                       -- [MQTT-3.1.2-22]
        else
          let willRes : Option (Option (Bytes × Bytes × Nat × Bool) × Bytes) :=
            if willF then
              match decodeBin r with
              | some (wt, r) => match decodeBin r with
                | some (wp, r) => some (some (wt, wp, willQ, willR), r)
                | none => none
              | none => none
            else some (none, r)
          match willRes with
          | some (will, r) =>
            let userRes : Option (Option Bytes × Bytes) :=
              if userF then (decodeBin r).map (fun (u, r) => (some u, r)) else some (none, r)
            match userRes with
            | some (user, r) =>
              let passRes : Option (Option Bytes × Bytes) :=
                if passF then (decodeBin r).map (fun (p, r) => (some p, r)) else some (none, r)
              match passRes with
              | some (pass, []) => some (.connect level clean ka cid will user pass)
              | _ => none
            | none => none
          | none => none
      | none => none
    | none => none
  | _ => none

/-- Body of one packet, by type nibble and flags nibble (§2.2.2 table 2.2 reserved flags). -/
def decodeBody (t f : Nat) (body : Bytes) : Option Pkt :=
  if t = 1 then (if f = 0 then decodeConnect body else none)
  else if t = 3 then
    let qos := f / 2 % 4
    if qos = 3 then none else
    match decodeBin body with
    | some (topic, r) =>
      if qos = 0 then some (.publish topic r 0 (f % 2 = 1) (f / 8 % 2 = 1) none)
      else match decodeU16 r with
        | some (id, payload) => if id = 0 then none else some (.publish topic payload qos (f % 2 = 1) (f / 8 % 2 = 1) (some id))
        | none => none
    | none => none
  else if t = 4 then (match f, decodeU16 body with | 0, some (id, []) => if id = 0 then none else some (.puback id) | _, _ => none)
  else if t = 5 then (match f, decodeU16 body with | 0, some (id, []) => if id = 0 then none else some (.pubrec id) | _, _ => none)
  else if t = 6 then (match f, decodeU16 body with | 2, some (id, []) => if id = 0 then none else some (.pubrel id) | _, _ => none)
  else if t = 7 then (match f, decodeU16 body with | 0, some (id, []) => if id = 0 then none else some (.pubcomp id) | _, _ => none)
  else if t = 8 then
    (if f ≠ 2 then none else
     match decodeU16 body with
     | some (id, r) => if id = 0 ∨ r = [] then none else (decodeSubs (r.length + 1) r).map (.subscribe id ·)
     | none => none)
  else if t = 10 then
    (if f ≠ 2 then none else
     match decodeU16 body with
     | some (id, r) => if id = 0 ∨ r = [] then none else (decodeFilters (r.length + 1) r).map (.unsubscribe id ·)
     | none => none)
  else if t = 12 then (if f = 0 ∧ body = [] then some .pingreq else none)
  else if t = 14 then (if f = 0 ∧ body = [] then some .disconnect else none)
  else none

/-- Decode one control packet from the front of a byte string: fixed header (§2.2), then body. -/
def decode : Bytes → Option (Pkt × Bytes)
  | h :: r =>
    match decodeVarInt r with
    | some (n, r) =>
      if n ≤ r.length then (decodeBody (h / 16) (h % 16) (r.take n)).map (fun p => (p, r.drop n)) else none
    | none => none
  | [] => none

end Mqtt.Spec
