/-
  Helper lemmas for the packet round-trip theorems of C05:
    * normal forms of the encoders (`pack`, `appendBytes`, `subscribePayload`, …),
    * what the standard's decoder (`Spec.decode*`) makes of those normal forms.
-/
import MqttVerif.Proofs.Codec

namespace Mqtt

open Bits Spec

/-! ### two-byte integers and length-prefixed strings -/

/-- big-endian uint16 as emitted by `appendUint16` (arithmetic form) -/
def u16be (v : Nat) : Bytes := [v / 256 % 256, v % 256]

@[simp] theorem u16be_length (v : Nat) : (u16be v).length = 2 := rfl

theorem u16be_cons (v : Nat) (r : Bytes) : u16be v ++ r = (v / 256 % 256) :: (v % 256) :: r := rfl

theorem u16be_append_ne_nil (v : Nat) (r : Bytes) : u16be v ++ r ≠ [] := by simp [u16be]

theorem appendUint16_eq (b : Bytes) (v : Nat) : appendUint16 b v = b ++ u16be v := by
  simp [appendUint16, u16be, shr8]

theorem packUint16_eq (v : Nat) : packUint16 v = u16be v := by
  simp [packUint16, appendUint16_eq]

theorem appendBytes_ok (b s : Bytes) (h : s.length ≤ 65535) :
    appendBytes b s = .ok (b ++ (u16be s.length ++ s)) := by
  have : ¬ s.length > 0xFFFF := by omega
  simp [appendBytes, this, appendUint16_eq]

theorem appendBytes_panic (b s : Bytes) (h : 65535 < s.length) : appendBytes b s = .panic := by
  have : s.length > 0xFFFF := by omega
  simp [appendBytes, this]

theorem appendString_ok (b s : Bytes) (h : s.length ≤ 65535) :
    appendString b s = .ok (b ++ (u16be s.length ++ s)) := appendBytes_ok b s h

theorem appendString_panic (b s : Bytes) (h : 65535 < s.length) : appendString b s = .panic :=
  appendBytes_panic b s h

theorem decodeU16_u16be (v : Nat) (r : Bytes) (h : v < 65536) :
    decodeU16 (u16be v ++ r) = some (v, r) := by
  simp only [u16be_cons, decodeU16]
  congr 2; omega

theorem decodeBin_lp (s r : Bytes) (h : s.length ≤ 65535) :
    decodeBin (u16be s.length ++ (s ++ r)) = some (s, r) := by
  simp [decodeBin, decodeU16_u16be _ _ (show s.length < 65536 by omega)]

theorem decodeBin_lp_nil (s : Bytes) (h : s.length ≤ 65535) :
    decodeBin (u16be s.length ++ s) = some (s, []) := by
  simpa using decodeBin_lp s [] h

/-! ### `pack` and the fixed header -/

theorem foldl_length (cs : List Bytes) (n : Nat) :
    cs.foldl (fun n c => n + c.length) n = n + cs.flatten.length := by
  induction cs generalizing n with
  | nil => simp
  | cons c cs ih => simp [ih]; omega

theorem pack_of_rl (t : Nat) (cs : List Bytes) (rl : Bytes)
    (h : remainingLength cs.flatten.length = .ok rl) :
    pack t cs = .ok (t :: (rl ++ cs.flatten)) := by
  simp only [pack, foldl_length, Nat.zero_add, h]
  rfl

theorem remainingLength_panic_iff (n : Nat) : remainingLength n = .panic ↔ 268435455 < n := by
  by_cases h : n ≤ 268435455
  · rw [remainingLength_eq n h]
    constructor
    · intro h'; cases h'
    · intro h'; omega
  · have h1 : ¬ n ≤ 127 := by omega
    have h2 : ¬ n ≤ 16383 := by omega
    have h3 : ¬ n ≤ 2097151 := by omega
    simp [remainingLength, rlMax1, rlMax2, rlMax3, rlMax4, h, h1, h2, h3]
    omega

theorem pack_panic_iff (t : Nat) (cs : List Bytes) :
    pack t cs = .panic ↔ 268435455 < cs.flatten.length := by
  rw [← remainingLength_panic_iff]
  simp only [pack, foldl_length, Nat.zero_add]
  cases remainingLength cs.flatten.length <;> simp

/-- One framed packet: if the length prefix decodes to the body length, the packet decodes to
    whatever the body decodes to, and the bytes that follow are left untouched. -/
theorem decode_frame (h : Nat) (rl body rest : Bytes)
    (hrl : decodeVarInt (rl ++ (body ++ rest)) = some (body.length, body ++ rest)) :
    decode (h :: (rl ++ body) ++ rest) =
      (decodeBody (h / 16) (h % 16) body).map (fun p => (p, rest)) := by
  simp [decode, hrl]

/-! ### id-only packets -/

theorem decodeU16_id (id : Nat) (h : id < 65536) : decodeU16 (u16be id) = some (id, []) := by
  simpa using decodeU16_u16be id [] h

/-! ### PUBLISH -/

theorem publishHeaderByte_ok (m : Message) (hq : m.qos ≤ 2) :
    ∃ h, publishHeaderByte m = .ok h ∧ h / 16 = 3 ∧ h % 16 / 2 % 4 = m.qos ∧
      decide (h % 16 % 2 = 1) = m.retain ∧ decide (h % 16 / 8 % 2 = 1) = m.dup := by
  obtain ⟨topic, id, qos, retain, dup, payload⟩ := m
  simp only at hq
  have : qos = 0 ∨ qos = 1 ∨ qos = 2 := by omega
  rcases this with rfl | rfl | rfl <;> cases retain <;> cases dup <;>
    exact ⟨_, rfl, by
      simp [packetPublish, publishFlagRetain, publishFlagQoS1, publishFlagQoS2, publishFlagDup]⟩

theorem publishHeaderByte_panic (m : Message) (hq : 2 < m.qos) : publishHeaderByte m = .panic := by
  obtain ⟨topic, id, qos, retain, dup, payload⟩ := m
  simp only at hq
  match qos, hq with
  | n + 3, _ => rfl

/-- variable header + payload of a PUBLISH -/
def publishBody (m : Message) : Bytes :=
  u16be m.topic.length ++ (m.topic ++ ((if m.qos = 0 then [] else u16be m.id) ++ m.payload))

theorem publishBody_length (m : Message) :
    (publishBody m).length = 2 + m.topic.length + (if m.qos = 0 then 0 else 2) + m.payload.length := by
  unfold publishBody
  split <;> simp <;> omega

theorem packPublish_eq (m : Message) (h : Nat) (hh : publishHeaderByte m = .ok h)
    (ht : m.topic.length ≤ 65535) :
    packPublish m = pack h [u16be m.topic.length ++ (m.topic ++ (if m.qos = 0 then [] else u16be m.id)),
      m.payload] := by
  have e : packPublish m = (publishHeaderByte m).bind (fun h => (appendString [] m.topic).bind
      (fun header => pack h [if m.qos ≠ 0 then appendUint16 header m.id else header, m.payload])) := rfl
  rw [e, hh, appendString_ok _ _ ht]
  simp only [Res.bind, appendUint16_eq]
  by_cases hq : m.qos = 0 <;> simp [hq]

theorem publish_flatten (m : Message) :
    [u16be m.topic.length ++ (m.topic ++ (if m.qos = 0 then [] else u16be m.id)), m.payload].flatten
      = publishBody m := by
  simp [publishBody]

theorem decodeBody_publish (f : Nat) (m : Message) (hq : m.qos ≤ 2) (hf : f / 2 % 4 = m.qos)
    (ht : m.topic.length ≤ 65535) (hid : m.qos ≠ 0 → 0 < m.id ∧ m.id < 65536) :
    decodeBody 3 f (publishBody m) =
      some (.publish m.topic m.payload m.qos (f % 2 = 1) (f / 8 % 2 = 1)
        (if m.qos = 0 then none else some m.id)) := by
  have h3 : ¬ (m.qos = 3) := by omega
  unfold publishBody
  simp only [decodeBody, decodeBin_lp _ _ ht, hf, h3]
  by_cases hq0 : m.qos = 0
  · simp [hq0]
  · obtain ⟨h0, h1⟩ := hid hq0
    have : m.id ≠ 0 := by omega
    simp [hq0, decodeU16_u16be _ _ h1, this]

/-! ### SUBSCRIBE -/

/-- payload of a SUBSCRIBE: (length-prefixed filter, requested QoS)* -/
def subsBytes : List Subscription → Bytes
  | [] => []
  | s :: rest => u16be s.topic.length ++ (s.topic ++ (s.qos :: subsBytes rest))

theorem subsBytes_length (subs : List Subscription) :
    (subsBytes subs).length = (subs.map (fun s => 3 + s.topic.length)).sum := by
  induction subs with
  | nil => rfl
  | cons s rest ih => simp [subsBytes, ih]; omega

theorem subsBytes_ne_nil (subs : List Subscription) (h : subs ≠ []) : subsBytes subs ≠ [] := by
  cases subs with
  | nil => contradiction
  | cons s rest => exact u16be_append_ne_nil _ _

theorem subscribePayload_ok (subs : List Subscription) (acc : Bytes)
    (hq : ∀ s ∈ subs, s.qos ≤ 2) (ht : ∀ s ∈ subs, s.topic.length ≤ 65535) :
    subscribePayload subs acc = .ok (acc ++ subsBytes subs) := by
  induction subs generalizing acc with
  | nil => simp [subscribePayload, subsBytes]
  | cons s rest ih =>
    have hq1 : ¬ s.qos > 2 := by have := hq s (by simp); omega
    have e : subscribePayload (s :: rest) acc = (appendString acc s.topic).bind (fun acc =>
        if s.qos > 2 then .panic else subscribePayload rest (acc ++ [s.qos])) := rfl
    rw [e, appendString_ok _ _ (ht s (by simp))]
    simp only [Res.bind, hq1, if_false]
    rw [ih _ (fun s hs => hq s (by simp [hs])) (fun s hs => ht s (by simp [hs]))]
    simp [subsBytes]

theorem decodeSubs_step (fuel : Nat) (b : Bytes) (hb : b ≠ []) :
    decodeSubs (fuel + 1) b =
      match decodeBin b with
      | some (f, q :: r) => if q ≤ 2 then (decodeSubs fuel r).map ((f, q) :: ·) else none
      | _ => none := by
  cases b with
  | nil => contradiction
  | cons x xs => rfl

theorem decodeSubs_subsBytes (subs : List Subscription) (fuel : Nat)
    (hfuel : (subsBytes subs).length + 1 ≤ fuel)
    (hq : ∀ s ∈ subs, s.qos ≤ 2) (ht : ∀ s ∈ subs, s.topic.length ≤ 65535) :
    decodeSubs fuel (subsBytes subs) = some (subs.map fun s => (s.topic, s.qos)) := by
  induction subs generalizing fuel with
  | nil =>
    match fuel, hfuel with
    | n + 1, _ => rfl
  | cons s rest ih =>
    match fuel, hfuel with
    | n + 1, hn =>
      have hlen : (subsBytes rest).length + 1 ≤ n := by
        simp [subsBytes] at hn; omega
      simp only [subsBytes]
      rw [decodeSubs_step _ _ (u16be_append_ne_nil _ _), decodeBin_lp _ _ (ht s (by simp))]
      simp [hq s (by simp),
        ih n hlen (fun s hs => hq s (by simp [hs])) (fun s hs => ht s (by simp [hs]))]

theorem decodeBody_subscribe (id : Nat) (subs : List Subscription) (hid : 0 < id ∧ id < 65536)
    (hne : subs ≠ []) (hq : ∀ s ∈ subs, s.qos ≤ 2) (ht : ∀ s ∈ subs, s.topic.length ≤ 65535) :
    decodeBody 8 2 (u16be id ++ subsBytes subs) =
      some (.subscribe id (subs.map fun s => (s.topic, s.qos))) := by
  have h0 : id ≠ 0 := by omega
  simp [decodeBody, decodeU16_u16be _ _ hid.2, h0, subsBytes_ne_nil _ hne,
    decodeSubs_subsBytes subs _ (Nat.le_refl _) hq ht]

/-! ### UNSUBSCRIBE -/

def filtersBytes : List Bytes → Bytes
  | [] => []
  | t :: rest => u16be t.length ++ (t ++ filtersBytes rest)

theorem filtersBytes_length (ts : List Bytes) :
    (filtersBytes ts).length = (ts.map (fun t => 2 + t.length)).sum := by
  induction ts with
  | nil => rfl
  | cons t rest ih => simp [filtersBytes, ih]; omega

theorem filtersBytes_ne_nil (ts : List Bytes) (h : ts ≠ []) : filtersBytes ts ≠ [] := by
  cases ts with
  | nil => contradiction
  | cons t rest => exact u16be_append_ne_nil _ _

theorem unsubscribePayload_ok (ts : List Bytes) (acc : Bytes)
    (ht : ∀ t ∈ ts, t.length ≤ 65535) :
    unsubscribePayload ts acc = .ok (acc ++ filtersBytes ts) := by
  induction ts generalizing acc with
  | nil => simp [unsubscribePayload, filtersBytes]
  | cons t rest ih =>
    have e : unsubscribePayload (t :: rest) acc = (appendString acc t).bind (fun acc =>
        unsubscribePayload rest acc) := rfl
    rw [e, appendString_ok _ _ (ht t (by simp))]
    simp only [Res.bind]
    rw [ih _ (fun s hs => ht s (by simp [hs]))]
    simp [filtersBytes]

theorem decodeFilters_step (fuel : Nat) (b : Bytes) (hb : b ≠ []) :
    decodeFilters (fuel + 1) b =
      match decodeBin b with
      | some (f, r) => (decodeFilters fuel r).map (f :: ·)
      | none => none := by
  cases b with
  | nil => contradiction
  | cons x xs => rfl

theorem decodeFilters_filtersBytes (ts : List Bytes) (fuel : Nat)
    (hfuel : (filtersBytes ts).length + 1 ≤ fuel) (ht : ∀ t ∈ ts, t.length ≤ 65535) :
    decodeFilters fuel (filtersBytes ts) = some ts := by
  induction ts generalizing fuel with
  | nil =>
    match fuel, hfuel with
    | n + 1, _ => rfl
  | cons t rest ih =>
    match fuel, hfuel with
    | n + 1, hn =>
      have hlen : (filtersBytes rest).length + 1 ≤ n := by
        simp [filtersBytes] at hn; omega
      simp only [filtersBytes]
      rw [decodeFilters_step _ _ (u16be_append_ne_nil _ _), decodeBin_lp _ _ (ht t (by simp))]
      simp [ih n hlen (fun s hs => ht s (by simp [hs]))]

theorem decodeBody_unsubscribe (id : Nat) (ts : List Bytes) (hid : 0 < id ∧ id < 65536)
    (hne : ts ≠ []) (ht : ∀ t ∈ ts, t.length ≤ 65535) :
    decodeBody 10 2 (u16be id ++ filtersBytes ts) = some (.unsubscribe id ts) := by
  have h0 : id ≠ 0 := by omega
  simp [decodeBody, decodeU16_u16be _ _ hid.2, h0, filtersBytes_ne_nil _ hne,
    decodeFilters_filtersBytes ts _ (Nat.le_refl _) ht]

/-! ### CONNECT -/

/-- the flags byte computed by `pktConnect.Pack` -/
def connectFlags (p : ConnectPkt) : Nat :=
  let f := if p.cleanSession then connectFlagCleanSession else 0
  let f := match p.will with
    | none => f
    | some w => f ||| willFlags w
  let f := if p.userName ≠ [] then f ||| connectFlagUserName else f
  if p.password ≠ [] then f ||| connectFlagPassword else f

def willBytes : Option Will → Bytes
  | none => []
  | some w => u16be w.topic.length ++ (w.topic ++ (u16be w.payload.length ++ w.payload))

def willQoS : Option Will → Nat
  | some w => w.qos
  | none => 0

def willRetain : Option Will → Bool
  | some w => w.retain
  | none => false

def optBytes (s : Bytes) : Bytes := if s = [] then [] else u16be s.length ++ s

/-- the CONNECT payload: client id, will topic, will message, user name, password -/
def connectPayload (p : ConnectPkt) : Bytes :=
  u16be p.clientID.length ++ (p.clientID ++ (willBytes p.will ++ (optBytes p.userName ++ optBytes p.password)))

theorem packConnect_eq (p : ConnectPkt)
    (hcid : p.clientID.length ≤ 65535) (hu : p.userName.length ≤ 65535) (hp : p.password.length ≤ 65535)
    (hw : ∀ w, p.will = some w → w.topic.length ≤ 65535 ∧ w.payload.length ≤ 65535) :
    packConnect p = pack packetConnect
      [[0x00, 0x04, 0x4D, 0x51, 0x54, 0x54, p.protocolLevel % 256, connectFlags p],
        u16be p.keepAlive, connectPayload p] := by
  obtain ⟨level, clean, ka, cid, user, pass, will⟩ := p
  simp only at hcid hu hp hw
  cases will with
  | none =>
    by_cases h1 : user = [] <;> by_cases h2 : pass = [] <;>
      simp [packConnect, connectFlags, connectPayload, willBytes, optBytes, bind, Res.bind, pure,
        appendString_ok _ _ hcid, appendString_ok _ _ hu, appendString_ok _ _ hp, h1, h2, packUint16_eq]
  | some w =>
    obtain ⟨hw1, hw2⟩ := hw w rfl
    by_cases h1 : user = [] <;> by_cases h2 : pass = [] <;>
      simp [packConnect, connectFlags, connectPayload, willBytes, optBytes, bind, Res.bind, pure,
        appendString_ok _ _ hcid, appendString_ok _ _ hu, appendString_ok _ _ hp, h1, h2, packUint16_eq,
        appendString_ok _ _ hw1, appendBytes_ok _ _ hw2]

/-- the flags byte, bit by bit (§3.1.2.3) -/
theorem connectFlags_bits (p : ConnectPkt) (hw : ∀ w, p.will = some w → w.qos ≤ 2) :
    connectFlags p % 2 = 0 ∧
    decide (connectFlags p / 2 % 2 = 1) = p.cleanSession ∧
    decide (connectFlags p / 4 % 2 = 1) = p.will.isSome ∧
    connectFlags p / 8 % 4 = willQoS p.will ∧
    decide (connectFlags p / 32 % 2 = 1) = willRetain p.will ∧
    decide (connectFlags p / 64 % 2 = 1) = decide (p.password ≠ []) ∧
    decide (connectFlags p / 128 % 2 = 1) = decide (p.userName ≠ []) := by
  obtain ⟨level, clean, ka, cid, user, pass, will⟩ := p
  simp only at hw
  cases will with
  | none =>
    by_cases h1 : user = [] <;> by_cases h2 : pass = [] <;> cases clean <;>
      simp [connectFlags, willQoS, willRetain, h1, h2, connectFlagCleanSession, connectFlagUserName,
        connectFlagPassword]
  | some w =>
    obtain ⟨wt, wp, wq, wr⟩ := w
    have hq := hw _ rfl
    simp only at hq
    have : wq = 0 ∨ wq = 1 ∨ wq = 2 := by omega
    rcases this with rfl | rfl | rfl <;> cases wr <;>
    by_cases h1 : user = [] <;> by_cases h2 : pass = [] <;> cases clean <;>
      simp [connectFlags, willFlags, willQoS, willRetain, h1, h2, connectFlagCleanSession, connectFlagUserName,
        connectFlagPassword, connectFlagWill, connectFlagWillQoS1, connectFlagWillQoS2,
        connectFlagWillRetain]

/-- Decoding a CONNECT body whose flags byte `F` has exactly the bits that describe the payload. -/
theorem decodeConnect_ok (level F ka : Nat) (clean : Bool) (cid user pass : Bytes) (will : Option Will)
    (hka : ka < 65536) (hcid : cid.length ≤ 65535) (hu : user.length ≤ 65535) (hp : pass.length ≤ 65535)
    (hw : ∀ w, will = some w → w.qos ≤ 2 ∧ w.topic.length ≤ 65535 ∧ w.payload.length ≤ 65535)
    (up : pass ≠ [] → user ≠ [])
    (f0 : F % 2 = 0)
    (f1 : decide (F / 2 % 2 = 1) = clean)
    (f2 : decide (F / 4 % 2 = 1) = will.isSome)
    (f3 : F / 8 % 4 = willQoS will)
    (f5 : decide (F / 32 % 2 = 1) = willRetain will)
    (f6 : decide (F / 64 % 2 = 1) = decide (pass ≠ []))
    (f7 : decide (F / 128 % 2 = 1) = decide (user ≠ [])) :
    decodeConnect (0 :: 4 :: 0x4D :: 0x51 :: 0x54 :: 0x54 :: level :: F ::
        (u16be ka ++ (u16be cid.length ++ (cid ++ (willBytes will ++ (optBytes user ++ optBytes pass))))))
      = some (.connect level clean ka cid (will.map fun w => (w.topic, w.payload, w.qos, w.retain))
          (if user = [] then none else some user) (if pass = [] then none else some pass)) := by
  have g0 : ¬ (F % 2 = 1) := by omega
  simp only [decide_eq_decide] at f6 f7
  cases will with
  | none =>
    simp only [Option.isSome_none, decide_eq_false_iff_not, willQoS, willRetain] at f2 f3 f5
    by_cases h1 : user = [] <;> by_cases h2 : pass = []
    all_goals first | exact absurd h1 (up h2) | skip
    all_goals
      simp only [h1, h2, ne_eq, not_true_eq_false, not_false_eq_true, iff_false, iff_true] at f6 f7
      simp [decodeConnect, decodeU16_u16be _ _ hka, decodeBin_lp _ _ hcid, decodeBin_lp _ _ hu,
        decodeBin_lp_nil _ hu, decodeBin_lp_nil _ hp, decodeBin_lp_nil _ hcid,
        willBytes, optBytes, h1, h2, g0, f1, f2, f3, f5, f6, f7]
  | some w =>
    obtain ⟨hw0, hw1, hw2⟩ := hw w rfl
    simp only [Option.isSome_some, decide_eq_true_eq] at f2
    simp only [willQoS, willRetain] at f3 f5
    have g3 : ¬ (w.qos = 3) := by omega
    by_cases h1 : user = [] <;> by_cases h2 : pass = []
    all_goals first | exact absurd h1 (up h2) | skip
    all_goals
      simp only [h1, h2, ne_eq, not_true_eq_false, not_false_eq_true, iff_false, iff_true] at f6 f7
      simp [decodeConnect, decodeU16_u16be _ _ hka, decodeBin_lp _ _ hcid, decodeBin_lp _ _ hu,
        decodeBin_lp_nil _ hu, decodeBin_lp_nil _ hp, decodeBin_lp_nil _ hw2,
        decodeBin_lp _ _ hw1, decodeBin_lp _ _ hw2, willBytes, optBytes,
        h1, h2, g0, f1, f2, f3, f5, f6, f7, g3]

theorem optBytes_length_le (s : Bytes) (h : s.length ≤ 65535) : (optBytes s).length ≤ 65537 := by
  unfold optBytes; split <;> simp <;> omega

theorem willBytes_length_le (will : Option Will)
    (hw : ∀ w, will = some w → w.topic.length ≤ 65535 ∧ w.payload.length ≤ 65535) :
    (willBytes will).length ≤ 131074 := by
  cases will with
  | none => simp [willBytes]
  | some w => have := hw w rfl; simp [willBytes]; omega

theorem connectPayload_length_le (p : ConnectPkt)
    (hcid : p.clientID.length ≤ 65535) (hu : p.userName.length ≤ 65535) (hp : p.password.length ≤ 65535)
    (hw : ∀ w, p.will = some w → w.topic.length ≤ 65535 ∧ w.payload.length ≤ 65535) :
    (connectPayload p).length ≤ 327685 := by
  have h1 := optBytes_length_le _ hu
  have h2 := optBytes_length_le _ hp
  have h3 := willBytes_length_le _ hw
  simp [connectPayload]; omega

end Mqtt
