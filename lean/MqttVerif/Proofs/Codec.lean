import MqttVerif.Model.Codec
import MqttVerif.Spec.Mqtt311
import MqttVerif.Proofs.Bits

namespace Mqtt

open Bits

/-- arithmetic normal form of `remainingLength` -/
theorem remainingLength_eq (n : Nat) (h : n ≤ 268435455) :
    remainingLength n = .ok (
      if n ≤ 127 then [n]
      else if n ≤ 16383 then [n % 128 + 128, n / 128]
      else if n ≤ 2097151 then [n % 128 + 128, n / 128 % 128 + 128, n / 16384]
      else [n % 128 + 128, n / 128 % 128 + 128, n / 16384 % 128 + 128, n / 2097152]) := by
  unfold remainingLength rlMax1 rlMax2 rlMax3 rlMax4
  simp only [or80, and7f, shr7, shr14, shr21]
  by_cases h1 : n ≤ 127
  · have : n % 256 = n := by omega
    simp [h1, this]
  · by_cases h2 : n ≤ 16383
    · have : n / 128 % 128 = n / 128 := by omega
      simp [h1, h2, this]
    · by_cases h3 : n ≤ 2097151
      · have : n / 16384 % 128 = n / 16384 := by omega
        simp [h1, h2, h3, this]
      · have : n / 2097152 % 128 = n / 2097152 := by omega
        simp [h1, h2, h3, h, this]

end Mqtt
