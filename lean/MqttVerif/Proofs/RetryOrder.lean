/-
  Helper lemmas for property C03 (requests reach the wire in submission order, also when
  retransmitted) about the retry / reconnect stack model `MqttVerif/Model/Retry.lean`.

  The key invariant (`Core`): with `att w` the messages of all PUBLISH attempts of the run in wire
  order and `pend w` the messages of the retry queue followed by those of the task queue,
    * `att w` is non-decreasing,
    * `pend w` is strictly increasing,
    * every attempted message is ≤ every pending message,
    * everything is below the bound `b` under which no message has been submitted yet.

  Last part ("ALL REQUEST KINDS"): the same invariant for requests of all three kinds, over a ghost
  labelling (submission index / library's own) of task queue, retry queue and request packets, and the
  proof that the labelling matches the wire log packet by packet.
-/
import MqttVerif.Model.Retry

namespace Mqtt.C03
open Mqtt.Retry

/-! ### definitions of the property -/

/-- the application numbers its messages in submission order -/
def Script.Increasing (s : Script) : Prop :=
  (s.evs.filterMap (fun e => match e with | .app (.pub m _) => some m | _ => none)).Pairwise (· < ·)

/-- all packets of the run in wire order (connections are used strictly one after the other) -/
def allPkts (w : World) : List (Pkt × Wire) := w.conns.flatMap (·.pkts)

def pubMsgs (l : List (Pkt × Wire)) : List Nat :=
  l.filterMap (fun pw => match pw.1 with | .publish m _ _ _ => some m | _ => none)

/-- first occurrences, in order -/
def firsts : List Nat → List Nat
  | [] => []
  | x :: xs => x :: (firsts xs).filter (· ≠ x)

/-! ### list lemmas -/

theorem flatMap_set_same {α β} (f : α → List β) (d : α) :
    ∀ (l : List α) (k : Nat) (c : α), f c = f (l.getD k d) → (l.set k c).flatMap f = l.flatMap f := by
  intro l
  induction l with
  | nil => intro k c _; simp
  | cons a t ih =>
    intro k c h
    cases k with
    | zero => simp at h; simp [h]
    | succ k => simp at h; simp [ih k c h]

theorem flatMap_set_last {α β} (f : α → List β) (d : α) :
    ∀ (l : List α) (k : Nat) (c : α) (x : List β), k + 1 = l.length → f c = f (l.getD k d) ++ x →
      (l.set k c).flatMap f = l.flatMap f ++ x := by
  intro l
  induction l with
  | nil => intro k c x hk; simp at hk
  | cons a t ih =>
    intro k c x hk h
    cases k with
    | zero =>
      have : t = [] := by cases t with | nil => rfl | cons _ _ => simp at hk
      subst this; simp at h; simp [h]
    | succ k =>
      simp at hk h
      simp [ih k c x (by omega) h]

theorem mem_firsts {x : Nat} : ∀ {l : List Nat}, x ∈ firsts l → x ∈ l
  | [], h => by simp [firsts] at h
  | y :: ys, h => by
    simp only [firsts, List.mem_cons, List.mem_filter] at h
    rcases h with h | ⟨h, _⟩
    · exact h ▸ List.mem_cons_self
    · exact List.mem_cons_of_mem _ (mem_firsts h)

/-- the first occurrences of a non-decreasing list are strictly increasing -/
theorem firsts_pairwise_lt : ∀ {l : List Nat}, l.Pairwise (· ≤ ·) → (firsts l).Pairwise (· < ·)
  | [], _ => by simp [firsts]
  | x :: xs, h => by
    rw [List.pairwise_cons] at h
    simp only [firsts, List.pairwise_cons]
    refine ⟨?_, (firsts_pairwise_lt h.2).sublist List.filter_sublist⟩
    intro y hy
    simp only [List.mem_filter, decide_eq_true_eq] at hy
    have := h.1 y (mem_firsts hy.1)
    omega

@[simp] theorem pubMsgs_nil : pubMsgs [] = [] := rfl
theorem pubMsgs_append (a b) : pubMsgs (a ++ b) = pubMsgs a ++ pubMsgs b := by
  simp [pubMsgs, List.filterMap_append]

/-! ### the abstract view of a world -/

def entryMsg : Entry → Option Nat
  | .rePublish m _ => some m
  | .rePubRel m => some m
  | .qPub m _ => some m
  | _ => none

def taskMsg : Task → Option Nat
  | .req (.pub m _) => some m
  | _ => none

def qMsgs (q : List Entry) : List Nat := q.filterMap entryMsg
def tMsgs (t : List Task) : List Nat := t.filterMap taskMsg

/-- messages of all PUBLISH attempts so far, in wire order -/
def att (w : World) : List Nat := pubMsgs (allPkts w)

/-- messages still owed by the client: retry queue, then task queue -/
def pend (w : World) : List Nat := qMsgs w.retryQ ++ tMsgs w.taskQ

@[simp] theorem qMsgs_nil : qMsgs [] = [] := rfl
@[simp] theorem tMsgs_nil : tMsgs [] = [] := rfl
theorem qMsgs_append (a b) : qMsgs (a ++ b) = qMsgs a ++ qMsgs b := by simp [qMsgs]
theorem tMsgs_append (a b) : tMsgs (a ++ b) = tMsgs a ++ tMsgs b := by simp [tMsgs]
theorem qMsgs_cons (e q) : qMsgs (e :: q) = (entryMsg e).toList ++ qMsgs q := by
  simp only [qMsgs, List.filterMap_cons]; cases entryMsg e <;> simp
theorem tMsgs_cons (t q) : tMsgs (t :: q) = (taskMsg t).toList ++ tMsgs q := by
  simp only [tMsgs, List.filterMap_cons]; cases taskMsg t <;> simp

/-! ### the core invariant on lists -/

structure Core (A P : List Nat) (b : Nat) : Prop where
  attLe : A.Pairwise (· ≤ ·)
  pendLt : P.Pairwise (· < ·)
  le : ∀ a ∈ A, ∀ p ∈ P, a ≤ p
  attB : ∀ a ∈ A, a < b
  pendB : ∀ p ∈ P, p < b

theorem Core.sub {A P P' b} (h : Core A P b) (hs : P'.Sublist P) : Core A P' b :=
  ⟨h.attLe, h.pendLt.sublist hs, fun a ha p hp => h.le a ha p (hs.subset hp), h.attB,
    fun p hp => h.pendB p (hs.subset hp)⟩

/-- the head of the pending list is attempted (and stays pending) -/
theorem Core.attempt {A P m b} (h : Core A (m :: P) b) : Core (A ++ [m]) (m :: P) b := by
  have hp := List.pairwise_cons.1 h.pendLt
  refine ⟨?_, h.pendLt, ?_, ?_, h.pendB⟩
  · rw [List.pairwise_append]
    refine ⟨h.attLe, by simp, ?_⟩
    intro a ha c hc
    simp at hc; subst hc
    exact h.le a ha _ List.mem_cons_self
  · intro a ha p hp'
    simp at ha
    rcases ha with ha | ha
    · exact h.le a ha p hp'
    · subst ha
      simp at hp'
      rcases hp' with rfl | hp'
      · exact Nat.le_refl _
      · exact Nat.le_of_lt (hp.1 p hp')
  · intro a ha
    simp at ha
    rcases ha with ha | ha
    · exact h.attB a ha
    · subst ha; exact h.pendB _ List.mem_cons_self

/-- the head may be attempted or not -/
theorem Core.attempt_opt {A P b} (o : Option Nat) (A' : List Nat) (h : Core A (o.toList ++ P) b)
    (hA : A' = A ∨ ∃ m, o = some m ∧ A' = A ++ [m]) : Core A' (o.toList ++ P) b := by
  rcases hA with rfl | ⟨m, rfl, rfl⟩
  · exact h
  · exact Core.attempt h

/-- a new message is submitted -/
theorem Core.push {A P b m} (h : Core A P b) (hm : b ≤ m) : Core A (P ++ [m]) (m + 1) := by
  refine ⟨h.attLe, ?_, ?_, ?_, ?_⟩
  · rw [List.pairwise_append]
    refine ⟨h.pendLt, by simp, ?_⟩
    intro a ha c hc
    simp at hc; subst hc
    have := h.pendB a ha; omega
  · intro a ha p hp
    simp at hp
    rcases hp with hp | rfl
    · exact h.le a ha p hp
    · have := h.attB a ha; omega
  · intro a ha; have := h.attB a ha; omega
  · intro p hp
    simp at hp
    rcases hp with hp | rfl
    · have := h.pendB p hp; omega
    · omega

/-! ### frame and attempt-log lemmas for the request primitives -/

def pktMsgs : Pkt → List Nat
  | .publish m _ _ _ => [m]
  | _ => []

theorem pubMsgs_single (p : Pkt) (x : Wire) : pubMsgs [(p, x)] = pktMsgs p := by
  cases p <;> rfl

theorem att_setConn_same (w : World) (k : Nat) (c : Conn) (h : c.pkts = (getConn w k).pkts) :
    att (setConn w k c) = att w := by
  unfold att allPkts setConn
  simp only
  rw [flatMap_set_same (·.pkts) ({} : Conn) w.conns k c h]

theorem att_setConn_last (w : World) (k : Nat) (c : Conn) (x) (hk : k + 1 = w.conns.length)
    (h : c.pkts = (getConn w k).pkts ++ x) :
    att (setConn w k c) = att w ++ pubMsgs x := by
  unfold att allPkts setConn
  simp only
  rw [flatMap_set_last (·.pkts) ({} : Conn) w.conns k c x hk h, pubMsgs_append]

theorem att_logPkt (w : World) (k : Nat) (p : Pkt) (x : Wire) (hk : k + 1 = w.conns.length) :
    att (logPkt w k p x) = att w ++ pktMsgs p := by
  unfold logPkt
  rw [att_setConn_last w k _ [(p, x)] hk rfl, pubMsgs_single]

theorem att_kill (w : World) (k : Nat) : att (kill w k) = att w := by
  unfold kill
  exact att_setConn_same w k _ rfl

/-- `att` only looks at the connections -/
theorem att_congr {w w' : World} (h : w'.conns = w.conns) : att w' = att w := by
  unfold att allPkts; rw [h]

structure Fr (w w' : World) : Prop where
  taskQ : w'.taskQ = w.taskQ
  retryQ : w'.retryQ = w.retryQ
  caf : w'.closeAfterTask = w.closeAfterTask
  cli : w'.cli = w.cli
  len : w'.conns.length = w.conns.length

theorem Fr.rfl' (w : World) : Fr w w := ⟨rfl, rfl, rfl, rfl, rfl⟩
theorem Fr.trans {a b c : World} (h1 : Fr a b) (h2 : Fr b c) : Fr a c :=
  ⟨h2.taskQ.trans h1.taskQ, h2.retryQ.trans h1.retryQ, h2.caf.trans h1.caf, h2.cli.trans h1.cli,
    h2.len.trans h1.len⟩

theorem fr_setConn (w k c) : Fr w (setConn w k c) := ⟨rfl, rfl, rfl, rfl, by simp [setConn]⟩
theorem fr_logPkt (w k p x) : Fr w (logPkt w k p x) := fr_setConn _ _ _
theorem fr_kill (w k) : Fr w (kill w k) := fr_setConn _ _ _

theorem fr_nextFault (w : World) : Fr w (nextFault w).2 := by
  unfold nextFault; split <;> exact ⟨rfl, rfl, rfl, rfl, rfl⟩
theorem att_nextFault (w : World) : att (nextFault w).2 = att w := by
  unfold nextFault; split <;> rfl
theorem len_nextFault (w : World) : (nextFault w).2.conns = w.conns := by
  unfold nextFault; split <;> rfl

theorem send_fr (w : World) (k : Nat) (p : Pkt) (waits : Bool) : Fr w (send w k p waits).1 := by
  unfold send
  split
  · exact fr_logPkt _ _ _ _
  · have h1 := fr_nextFault w
    have h2 := fr_logPkt (nextFault w).2 k p (.sent (nextFault w).1)
    have h := h1.trans h2
    simp only
    split
    · exact ⟨h.taskQ, h.retryQ, h.caf, h.cli, h.len⟩
    · exact h.trans (fr_kill _ _)
    · exact h.trans (fr_kill _ _)
    · refine Fr.trans (b := { logPkt (nextFault w).2 k p (.sent (nextFault w).1) with broker := ((logPkt (nextFault w).2 k p (.sent (nextFault w).1)).broker.process p) }) ⟨h.taskQ, h.retryQ, h.caf, h.cli, h.len⟩ (fr_kill _ _)
    · split
      · exact ⟨h.taskQ, h.retryQ, h.caf, h.cli, h.len⟩
      · split <;> exact ⟨h.taskQ, h.retryQ, h.caf, h.cli, h.len⟩

theorem send_att (w : World) (k : Nat) (p : Pkt) (waits : Bool) (hk : k + 1 = w.conns.length) :
    att (send w k p waits).1 = att w ++ pktMsgs p := by
  unfold send
  split
  · exact att_logPkt _ _ _ _ hk
  · have hk' : k + 1 = (nextFault w).2.conns.length := by rw [len_nextFault]; exact hk
    have h := att_logPkt (nextFault w).2 k p (.sent (nextFault w).1) hk'
    rw [att_nextFault] at h
    simp only
    split
    · exact h
    · rw [att_kill]; exact h
    · rw [att_kill]; exact h
    · rw [att_kill]; exact h
    · split
      · exact h
      · split <;> exact h

theorem relAttempt_fr (w : World) (k m id : Nat) : Fr w (relAttempt w k m id).1 := by
  unfold relAttempt
  have h := send_fr w k (.pubrel id m) true
  simp only
  split
  · exact ⟨h.taskQ, h.retryQ, h.caf, h.cli, h.len⟩
  · exact h
  · exact h

theorem relAttempt_att (w : World) (k m id : Nat) (hk : k + 1 = w.conns.length) :
    att (relAttempt w k m id).1 = att w := by
  unfold relAttempt
  have h := send_att w k (.pubrel id m) true hk
  simp only [pktMsgs, List.append_nil] at h
  simp only
  split
  · exact h
  · exact h
  · exact h

theorem relAttempt_handle (w : World) (k m id : Nat) (h : Entry) (e : ErrKind) :
    (relAttempt w k m id).2 = .fail (some h) e → h = .rePubRel m := by
  unfold relAttempt
  simp only
  split <;> simp
  intro h1 _; exact h1.symm

/-- the identifier assignment at the head of `publishImpl` -/
def assignId (w : World) (k m : Nat) : World × Nat :=
  match lookupPid w m with
    | some id => (w, id)
    | none =>
      let c := getConn w k
      let (ctr', id) := newID c.ctr
      (setConn { w with pid := w.pid ++ [(m, id)] } k { c with ctr := ctr' }, id)

theorem pubAttempt_eq (w : World) (k m qos : Nat) (dup : Bool) :
    pubAttempt w k m qos dup =
      (let wi := assignId w k m
       let ws := send wi.1 k (.publish m qos wi.2 dup) (qos ≠ 0)
       match ws.2 with
        | .acked =>
          if qos = 2 then relAttempt ws.1 k m wi.2
          else if qos = 1 then ({ ws.1 with broker := { ws.1.broker with acked := ws.1.broker.acked ++ [.pub m 1] } }, .done)
          else (ws.1, .done)
        | .stuck => (ws.1, .stuck)
        | s => (ws.1, .fail (if qos = 0 then none else some (.rePublish m qos)) (errOf s))) := by
  unfold pubAttempt assignId
  cases lookupPid w m <;> rfl

theorem assignId_fr (w : World) (k m : Nat) : Fr w (assignId w k m).1 := by
  unfold assignId
  split
  · exact Fr.rfl' w
  · exact Fr.trans (b := { w with pid := w.pid ++ [(m, (newID (getConn w k).ctr).2)] }) ⟨rfl, rfl, rfl, rfl, rfl⟩ (fr_setConn _ _ _)

theorem assignId_att (w : World) (k m : Nat) : att (assignId w k m).1 = att w := by
  unfold assignId
  split
  · rfl
  · exact att_setConn_same _ _ _ rfl

theorem pubAttempt_fr (w : World) (k m qos : Nat) (dup : Bool) : Fr w (pubAttempt w k m qos dup).1 := by
  rw [pubAttempt_eq]
  have h1 := assignId_fr w k m
  have h2 := h1.trans (send_fr (assignId w k m).1 k (.publish m qos (assignId w k m).2 dup) (qos ≠ 0))
  simp only
  split
  · split
    · exact h2.trans (relAttempt_fr _ _ _ _)
    · split
      · exact ⟨h2.taskQ, h2.retryQ, h2.caf, h2.cli, h2.len⟩
      · exact h2
  · exact h2
  · exact h2

theorem pubAttempt_att (w : World) (k m qos : Nat) (dup : Bool) (hk : k + 1 = w.conns.length) :
    att (pubAttempt w k m qos dup).1 = att w ++ [m] := by
  rw [pubAttempt_eq]
  have h1 := assignId_fr w k m
  have hk1 : k + 1 = (assignId w k m).1.conns.length := by rw [h1.len]; exact hk
  have h2 := send_att (assignId w k m).1 k (.publish m qos (assignId w k m).2 dup) (qos ≠ 0) hk1
  rw [assignId_att] at h2
  have h3 := send_fr (assignId w k m).1 k (.publish m qos (assignId w k m).2 dup) (qos ≠ 0)
  simp only [pktMsgs] at h2
  simp only
  split
  · split
    · rw [relAttempt_att _ _ _ _ (by rw [h3.len]; exact hk1)]; exact h2
    · split
      · exact h2
      · exact h2
  · exact h2
  · exact h2

theorem pubAttempt_handle (w : World) (k m qos : Nat) (dup : Bool) (h : Entry) (e : ErrKind) :
    (pubAttempt w k m qos dup).2 = .fail (some h) e → entryMsg h = some m := by
  rw [pubAttempt_eq]
  simp only
  split
  · split
    · intro hh; rw [relAttempt_handle _ _ _ _ _ _ hh]; rfl
    · split <;> simp
  · simp
  · split <;> simp
    intro h1 _; rw [← h1]; rfl

/-- a fresh identifier -/
def bumpCtr (w : World) (k : Nat) : World × Nat :=
  (setConn w k { getConn w k with ctr := (newID (getConn w k).ctr).1 }, (newID (getConn w k).ctr).2)

theorem bumpCtr_fr (w : World) (k : Nat) : Fr w (bumpCtr w k).1 := fr_setConn _ _ _
theorem bumpCtr_att (w : World) (k : Nat) : att (bumpCtr w k).1 = att w :=
  att_setConn_same w k { getConn w k with ctr := (newID (getConn w k).ctr).1 } rfl

theorem subAttempt_eq (w : World) (k : Nat) (subs : List Subscription) :
    subAttempt w k subs =
      (let wi := bumpCtr w k
       let ws := send wi.1 k (.subscribe wi.2 subs) true
       match ws.2 with
       | .acked => ({ ws.1 with broker := { ws.1.broker with acked := ws.1.broker.acked ++ [.sub subs] } }, .done)
       | .stuck => (ws.1, .stuck)
       | s => (ws.1, .fail (some (.reSub subs)) (errOf s))) := rfl

theorem unsubAttempt_eq (w : World) (k : Nat) (ts : List Bytes) :
    unsubAttempt w k ts =
      (let wi := bumpCtr w k
       let ws := send wi.1 k (.unsubscribe wi.2 ts) true
       match ws.2 with
       | .acked => ({ ws.1 with broker := { ws.1.broker with acked := ws.1.broker.acked ++ [.unsub ts] } }, .done)
       | .stuck => (ws.1, .stuck)
       | s => (ws.1, .fail (some (.reUnsub ts)) (errOf s))) := rfl

theorem subAttempt_fr (w : World) (k : Nat) (subs) : Fr w (subAttempt w k subs).1 := by
  rw [subAttempt_eq]
  have h2 := (bumpCtr_fr w k).trans (send_fr (bumpCtr w k).1 k (.subscribe (bumpCtr w k).2 subs) true)
  simp only
  split
  · exact ⟨h2.taskQ, h2.retryQ, h2.caf, h2.cli, h2.len⟩
  · exact h2
  · exact h2

theorem subAttempt_att (w : World) (k : Nat) (subs) (hk : k + 1 = w.conns.length) :
    att (subAttempt w k subs).1 = att w := by
  rw [subAttempt_eq]
  have h2 := send_att (bumpCtr w k).1 k (.subscribe (bumpCtr w k).2 subs) true (by rw [(bumpCtr_fr w k).len]; exact hk)
  rw [bumpCtr_att] at h2
  simp only [pktMsgs, List.append_nil] at h2
  simp only
  split
  · exact h2
  · exact h2
  · exact h2

theorem subAttempt_handle (w : World) (k : Nat) (subs) (h : Entry) (e : ErrKind) :
    (subAttempt w k subs).2 = .fail (some h) e → entryMsg h = none := by
  rw [subAttempt_eq]
  simp only
  split <;> simp
  intro h1 _; rw [← h1]; rfl

theorem unsubAttempt_fr (w : World) (k : Nat) (ts) : Fr w (unsubAttempt w k ts).1 := by
  rw [unsubAttempt_eq]
  have h2 := (bumpCtr_fr w k).trans (send_fr (bumpCtr w k).1 k (.unsubscribe (bumpCtr w k).2 ts) true)
  simp only
  split
  · exact ⟨h2.taskQ, h2.retryQ, h2.caf, h2.cli, h2.len⟩
  · exact h2
  · exact h2

theorem unsubAttempt_att (w : World) (k : Nat) (ts) (hk : k + 1 = w.conns.length) :
    att (unsubAttempt w k ts).1 = att w := by
  rw [unsubAttempt_eq]
  have h2 := send_att (bumpCtr w k).1 k (.unsubscribe (bumpCtr w k).2 ts) true (by rw [(bumpCtr_fr w k).len]; exact hk)
  rw [bumpCtr_att] at h2
  simp only [pktMsgs, List.append_nil] at h2
  simp only
  split
  · exact h2
  · exact h2
  · exact h2

theorem unsubAttempt_handle (w : World) (k : Nat) (ts) (h : Entry) (e : ErrKind) :
    (unsubAttempt w k ts).2 = .fail (some h) e → entryMsg h = none := by
  rw [unsubAttempt_eq]
  simp only
  split <;> simp
  intro h1 _; rw [← h1]; rfl

/-! ### closures, loops, tasks -/

structure Fr1 (w w' : World) : Prop where
  taskQ : w'.taskQ = w.taskQ
  cli : w'.cli = w.cli
  len : w'.conns.length = w.conns.length

theorem Fr.fr1 {w w' : World} (h : Fr w w') : Fr1 w w' := ⟨h.taskQ, h.cli, h.len⟩
theorem Fr1.rfl' (w : World) : Fr1 w w := ⟨rfl, rfl, rfl⟩
theorem Fr1.trans {a b c : World} (h1 : Fr1 a b) (h2 : Fr1 b c) : Fr1 a c :=
  ⟨h2.taskQ.trans h1.taskQ, h2.cli.trans h1.cli, h2.len.trans h1.len⟩

/-- what a first-transmission closure does: at most one PUBLISH attempt of `mo`, and on failure
    the handle goes to the end of the retry queue and the connection is marked for closing -/
structure FirstSpec (w w' : World) (mo : Option Nat) : Prop where
  fr : Fr1 w w'
  att : att w' = att w ++ mo.toList
  q : (w'.retryQ = w.retryQ ∧ w'.closeAfterTask = w.closeAfterTask) ∨
      (w'.closeAfterTask = true ∧ ∃ h, w'.retryQ = w.retryQ ++ [h] ∧ entryMsg h = mo)

theorem absorb_spec (w0 w : World) (o : Outcome) (mo : Option Nat) (hfr : Fr w0 w)
    (hatt : att w = att w0 ++ mo.toList) (hh : ∀ h e, o = .fail (some h) e → entryMsg h = mo) :
    FirstSpec w0 (absorb w o) mo := by
  unfold absorb
  split
  · exact ⟨hfr.fr1, hatt, .inl ⟨hfr.retryQ, hfr.caf⟩⟩
  · exact ⟨hfr.fr1, hatt, .inl ⟨hfr.retryQ, hfr.caf⟩⟩
  · exact ⟨hfr.fr1, hatt, .inl ⟨hfr.retryQ, hfr.caf⟩⟩
  · rename_i h e
    refine ⟨⟨hfr.taskQ, hfr.cli, hfr.len⟩, hatt, .inr ⟨rfl, h, ?_, hh h e rfl⟩⟩
    simp [hfr.retryQ]

theorem firstPub_spec (w : World) (k m qos : Nat) (hk : k + 1 = w.conns.length) :
    FirstSpec w (firstPub w k m qos) (some m) := by
  have : firstPub w k m qos = absorb (pubAttempt w k m qos false).1 (pubAttempt w k m qos false).2 := rfl
  rw [this]
  exact absorb_spec w _ _ (some m) (pubAttempt_fr w k m qos false) (pubAttempt_att w k m qos false hk)
    (fun h e => pubAttempt_handle w k m qos false h e)

theorem firstSub_spec (w : World) (k : Nat) (subs) (hk : k + 1 = w.conns.length) :
    FirstSpec w (firstSub w k subs) none := by
  have : firstSub w k subs = absorb (subAttempt w k subs).1 (subAttempt w k subs).2 := rfl
  rw [this]
  exact absorb_spec w _ _ none (subAttempt_fr w k subs) (by rw [subAttempt_att w k subs hk]; simp)
    (fun h e => subAttempt_handle w k subs h e)

theorem firstUnsub_spec (w : World) (k : Nat) (ts) (hk : k + 1 = w.conns.length) :
    FirstSpec w (firstUnsub w k ts) none := by
  have : firstUnsub w k ts = absorb (unsubAttempt w k ts).1 (unsubAttempt w k ts).2 := rfl
  rw [this]
  exact absorb_spec w _ _ none (unsubAttempt_fr w k ts) (by rw [unsubAttempt_att w k ts hk]; simp)
    (fun h e => unsubAttempt_handle w k ts h e)

/-- activity that neither attempts a PUBLISH nor changes the pending messages -/
structure Quiet (w w' : World) : Prop where
  fr : Fr1 w w'
  att : att w' = att w
  qm : qMsgs w'.retryQ = qMsgs w.retryQ

theorem Quiet.trans {a b c : World} (h1 : Quiet a b) (h2 : Quiet b c) : Quiet a c :=
  ⟨h1.fr.trans h2.fr, h2.att.trans h1.att, h2.qm.trans h1.qm⟩

theorem FirstSpec.quiet {w w' : World} (h : FirstSpec w w' none) : Quiet w w' := by
  refine ⟨h.fr, by simpa using h.att, ?_⟩
  rcases h.q with ⟨h1, _⟩ | ⟨_, e, h1, h2⟩
  · rw [h1]
  · rw [h1, qMsgs_append, qMsgs_cons, h2]; simp

theorem subscribeTask_quiet (w : World) (k : Nat) (subs) (hk : k + 1 = w.conns.length) :
    Quiet w (subscribeTask w k subs) := by
  unfold subscribeTask
  simp only
  split
  · exact Quiet.trans (b := { w with subEst := applySubs w.subEst subs }) ⟨⟨rfl, rfl, rfl⟩, rfl, rfl⟩
      (firstSub_spec { w with subEst := applySubs w.subEst subs } k subs hk).quiet
  · refine ⟨⟨rfl, rfl, rfl⟩, rfl, ?_⟩
    simp [qMsgs_append, qMsgs_cons, entryMsg]

theorem resubLoop_quiet (k : Nat) : ∀ (l : List Subscription) (w : World), k + 1 = w.conns.length →
    Quiet w (resubLoop w k l)
  | [], w, _ => ⟨Fr1.rfl' w, rfl, rfl⟩
  | s :: rest, w, hk => by
    unfold resubLoop
    split
    · exact ⟨Fr1.rfl' w, rfl, rfl⟩
    · have h1 := subscribeTask_quiet w k [s] hk
      exact h1.trans (resubLoop_quiet k rest _ (by rw [h1.fr.len]; exact hk))

/-- one element of the retry queue run by `Retry` -/
structure EntrySpec (w w' : World) (o : Outcome) (e : Entry) : Prop where
  fr : Fr1 w w'
  att : att w' = att w ∨ ∃ m, entryMsg e = some m ∧ att w' = att w ++ [m]
  qfail : ∀ h err, o = .fail (some h) err → entryMsg h = entryMsg e ∧ w'.retryQ = w.retryQ
  q : w'.retryQ = w.retryQ ∨
      (w'.closeAfterTask = true ∧ ∃ h, w'.retryQ = w.retryQ ++ [h] ∧ entryMsg h = entryMsg e)

theorem FirstSpec.entry {w w' : World} {e : Entry} (h : FirstSpec w w' (entryMsg e)) :
    EntrySpec w w' .done e := by
  refine ⟨h.fr, ?_, by simp, ?_⟩
  · cases he : entryMsg e with
    | none => left; simpa [he] using h.att
    | some m => right; exact ⟨m, rfl, by simpa [he] using h.att⟩
  · rcases h.q with ⟨h1, _⟩ | h1
    · exact .inl h1
    · exact .inr h1

theorem runEntry_spec (w : World) (k : Nat) (e : Entry) (hk : k + 1 = w.conns.length) :
    EntrySpec w (runEntry w k e).1 (runEntry w k e).2 e := by
  cases e with
  | qPub m qos => exact (firstPub_spec w k m qos hk).entry (e := .qPub m qos)
  | qSub subs => exact (firstSub_spec w k subs hk).entry (e := .qSub subs)
  | qUnsub ts => exact (firstUnsub_spec w k ts hk).entry (e := .qUnsub ts)
  | rePublish m qos =>
    exact ⟨(pubAttempt_fr w k m qos true).fr1, .inr ⟨m, rfl, pubAttempt_att w k m qos true hk⟩,
      fun h err hh => ⟨pubAttempt_handle w k m qos true h err hh, (pubAttempt_fr w k m qos true).retryQ⟩, .inl (pubAttempt_fr w k m qos true).retryQ⟩
  | rePubRel m =>
    exact ⟨(relAttempt_fr w k m _).fr1, .inl (relAttempt_att w k m _ hk),
      fun h err hh => ⟨by rw [relAttempt_handle w k m _ h err hh], (relAttempt_fr w k m _).retryQ⟩, .inl (relAttempt_fr w k m _).retryQ⟩
  | reSub subs =>
    exact ⟨(subAttempt_fr w k subs).fr1, .inl (subAttempt_att w k subs hk),
      fun h err hh => ⟨subAttempt_handle w k subs h err hh, (subAttempt_fr w k subs).retryQ⟩, .inl (subAttempt_fr w k subs).retryQ⟩
  | reUnsub ts =>
    exact ⟨(unsubAttempt_fr w k ts).fr1, .inl (unsubAttempt_att w k ts hk),
      fun h err hh => ⟨unsubAttempt_handle w k ts h err hh, (unsubAttempt_fr w k ts).retryQ⟩, .inl (unsubAttempt_fr w k ts).retryQ⟩

theorem pend_def (w : World) : pend w = qMsgs w.retryQ ++ tMsgs w.taskQ := rfl

theorem retryLoop_cons (w : World) (k : Nat) (e : Entry) (rest : List Entry) :
    retryLoop w k (e :: rest) =
      if w.stuck then w
      else
        let r := runEntry { w with totalRetries := w.totalRetries + 1 } k e
        match r.2 with
        | .fail (some h) err =>
          { r.1 with onErrors := r.1.onErrors ++ [err], retryQ := r.1.retryQ ++ [h] ++ rest, closeAfterTask := true }
        | .stuck => r.1
        | _ => if r.1.closeAfterTask then { r.1 with retryQ := r.1.retryQ ++ rest } else retryLoop r.1 k rest := by
  rw [retryLoop]
  split
  · rfl
  · rfl

theorem retryLoop_core (k b : Nat) : ∀ (old : List Entry) (w : World), k + 1 = w.conns.length →
    qMsgs w.retryQ = [] → Core (att w) (qMsgs old ++ tMsgs w.taskQ) b →
    Fr1 w (retryLoop w k old) ∧ Core (att (retryLoop w k old)) (pend (retryLoop w k old)) b
  | [], w, _, hq, hc => by
    unfold retryLoop
    refine ⟨Fr1.rfl' w, ?_⟩
    rw [pend_def, hq]; simpa using hc
  | e :: rest, w, hk, hq, hc => by
    rw [retryLoop_cons]
    split
    · refine ⟨Fr1.rfl' w, ?_⟩
      rw [pend_def, hq]
      exact hc.sub (by simp)
    · -- the entry is run
      have hs := runEntry_spec { w with totalRetries := w.totalRetries + 1 } k e hk
      generalize runEntry { w with totalRetries := w.totalRetries + 1 } k e = r at hs
      obtain ⟨w2, o⟩ := r
      have hfr : Fr1 w w2 := Fr1.trans (b := { w with totalRetries := w.totalRetries + 1 }) ⟨rfl, rfl, rfl⟩ hs.fr
      rw [qMsgs_cons, List.append_assoc] at hc
      have hc2 : Core (att w2) ((entryMsg e).toList ++ (qMsgs rest ++ tMsgs w.taskQ)) b :=
        Core.attempt_opt (entryMsg e) _ hc hs.att
      have hqq : w2.retryQ = w.retryQ ∨
          (w2.closeAfterTask = true ∧ qMsgs w2.retryQ = (entryMsg e).toList) := by
        rcases hs.q with h1 | ⟨hcaf, h, h1, h2⟩
        · left; exact h1
        · right; refine ⟨hcaf, ?_⟩
          rw [h1, qMsgs_append, qMsgs_cons, h2]
          show qMsgs w.retryQ ++ _ = _
          rw [hq]; simp
      simp only
      split
      · -- a raw handle failed: it goes back in front of the untried rest
        rename_i h err
        refine ⟨⟨hfr.taskQ, hfr.cli, hfr.len⟩, ?_⟩
        have hh := hs.qfail h err rfl
        show Core (att w2) (qMsgs (w2.retryQ ++ [h] ++ rest) ++ tMsgs w2.taskQ) b
        rw [hfr.taskQ, qMsgs_append, qMsgs_append, qMsgs_cons, hh.1, hh.2]
        show Core (att w2) (qMsgs w.retryQ ++ _ ++ _ ++ _) b
        rw [hq]; simpa using hc2
      · refine ⟨hfr, ?_⟩
        rw [pend_def, hfr.taskQ]
        rcases hqq with h0 | ⟨_, h0⟩
        · rw [h0, hq]; exact hc2.sub (by simp)
        · rw [h0]; exact hc2.sub (by simp)
      · split
        · refine ⟨⟨hfr.taskQ, hfr.cli, hfr.len⟩, ?_⟩
          show Core (att w2) (qMsgs (w2.retryQ ++ rest) ++ tMsgs w2.taskQ) b
          rw [hfr.taskQ, qMsgs_append]
          rcases hqq with h0 | ⟨_, h0⟩
          · rw [h0, hq]; exact hc2.sub (by simp)
          · rw [h0]; simpa using hc2
        · rename_i hcaf
          have h0 : w2.retryQ = w.retryQ := by
            rcases hqq with h0 | ⟨h1, _⟩
            · exact h0
            · exact absurd h1 hcaf
          have ih := retryLoop_core k b rest w2 (by rw [hfr.len]; exact hk) (by rw [h0]; exact hq)
            (by rw [hfr.taskQ]; exact hc2.sub (by simp))
          exact ⟨hfr.trans ih.1, ih.2⟩

theorem Quiet.of_fields {w w' : World} (h1 : w'.taskQ = w.taskQ) (h2 : w'.cli = w.cli)
    (h3 : w'.conns = w.conns) (h4 : w'.retryQ = w.retryQ) : Quiet w w' :=
  ⟨⟨h1, h2, by rw [h3]⟩, att_congr h3, by rw [h4]⟩

theorem quiet_core {w w' : World} {b : Nat} (h : Quiet w w') (hc : Core (att w) (pend w) b) :
    Core (att w') (pend w') b := by
  rw [pend_def, h.att, h.qm, h.fr.taskQ]; exact hc

theorem runTask_core (w : World) (k : Nat) (t : Task) (b : Nat) (hk : k + 1 = w.conns.length)
    (hc : Core (att w) (qMsgs w.retryQ ++ ((taskMsg t).toList ++ tMsgs w.taskQ)) b) :
    Fr1 w (runTask w k t) ∧ Core (att (runTask w k t)) (pend (runTask w k t)) b := by
  cases t with
  | req r =>
    cases r with
    | pub m qos =>
      simp only [taskMsg, Option.toList_some] at hc
      simp only [runTask]
      split
      · rename_i he
        have he : w.retryQ = [] := by simpa using he
        have hs := firstPub_spec w k m qos hk
        refine ⟨hs.fr, ?_⟩
        rw [he] at hc
        simp only [qMsgs_nil, List.nil_append, List.singleton_append] at hc
        have hc2 : Core (att (firstPub w k m qos)) (m :: tMsgs w.taskQ) b := by
          rw [hs.att]; exact hc.attempt
        rw [pend_def, hs.fr.taskQ]
        rcases hs.q with ⟨h1, _⟩ | ⟨_, h, h1, h2⟩
        · rw [h1, he]; exact hc2.sub (by simp)
        · rw [h1, he, List.nil_append, qMsgs_cons, h2]; simpa using hc2
      · split
        · refine ⟨⟨rfl, rfl, rfl⟩, ?_⟩
          show Core (att w) (qMsgs (w.retryQ ++ [.qPub m qos]) ++ tMsgs w.taskQ) b
          rw [qMsgs_append, qMsgs_cons]
          simpa [entryMsg] using hc
        · exact ⟨Fr1.rfl' w, hc.sub (by simp [pend_def])⟩
    | sub subs =>
      have h := subscribeTask_quiet w k subs hk
      exact ⟨h.fr, quiet_core h (by simpa [taskMsg, pend_def] using hc)⟩
    | unsub ts =>
      simp only [runTask]
      have hc' : Core (att w) (pend w) b := by simpa [taskMsg, pend_def] using hc
      split
      · have h := (Quiet.of_fields rfl rfl rfl rfl : Quiet w { w with subEst := applyUnsubs w.subEst ts }).trans
          (firstUnsub_spec { w with subEst := applyUnsubs w.subEst ts } k ts hk).quiet
        exact ⟨h.fr, quiet_core h hc'⟩
      · refine ⟨⟨rfl, rfl, rfl⟩, ?_⟩
        show Core (att w) (qMsgs (w.retryQ ++ [.qUnsub ts]) ++ tMsgs w.taskQ) b
        rw [qMsgs_append, qMsgs_cons]
        simpa [entryMsg, pend_def] using hc'
  | resubscribe =>
    have h := (Quiet.of_fields rfl rfl rfl rfl : Quiet w { w with subEst := [] }).trans
      (resubLoop_quiet k w.subEst { w with subEst := [] } hk)
    exact ⟨h.fr, quiet_core h (by simpa [taskMsg, pend_def] using hc)⟩
  | retry =>
    have h := retryLoop_core k b w.retryQ { w with retryQ := [] } hk rfl
      (show Core (att w) (qMsgs w.retryQ ++ tMsgs w.taskQ) b from by simpa [taskMsg] using hc)
    exact ⟨Fr1.trans (b := { w with retryQ := [] }) ⟨rfl, rfl, rfl⟩ h.1, h.2⟩
  | disconnect =>
    have hc' : Core (att w) (pend w) b := by simpa [taskMsg, pend_def] using hc
    simp only [runTask]
    split
    · refine ⟨((fr_logPkt w k .disconnect (.sent .ok)).trans (fr_kill _ k)).fr1, ?_⟩
      have h := (fr_logPkt w k .disconnect (.sent .ok)).trans (fr_kill _ k)
      rw [pend_def, h.retryQ, h.taskQ, att_kill, att_logPkt _ _ _ _ hk]
      simpa [pktMsgs, pend_def] using hc'
    · have h := fr_logPkt w k .disconnect .dead
      refine ⟨h.fr1, ?_⟩
      rw [pend_def, h.retryQ, h.taskQ, att_logPkt _ _ _ _ hk]
      simpa [pktMsgs, pend_def] using hc'

/-- the invariant of the run: the core order facts, and the current connection is the newest one.
    (A `def`, so that worlds that differ only in other fields have definitionally equal invariants.) -/
def Inv (w : World) (b : Nat) : Prop :=
  Core (att w) (pend w) b ∧ ∀ k, w.cli = some k → k + 1 = w.conns.length

theorem Inv.core {w : World} {b : Nat} (h : Inv w b) : Core (att w) (pend w) b := h.1
theorem Inv.cliLast {w : World} {b : Nat} (h : Inv w b) : ∀ k, w.cli = some k → k + 1 = w.conns.length := h.2

/-- changes that do not touch the queues, the connections' logs or `cli` -/
theorem Inv.of_fields {w w' : World} {b : Nat} (h : Inv w b) (h1 : w'.taskQ = w.taskQ)
    (h2 : w'.cli = w.cli) (h3 : w'.conns = w.conns) (h4 : w'.retryQ = w.retryQ) : Inv w' b := by
  refine ⟨?_, ?_⟩
  · rw [pend_def, h1, h4, att_congr h3]; exact h.core
  · intro k hk; rw [h3]; exact h.cliLast k (by rw [← h2]; exact hk)

theorem Inv.kill {w : World} {b : Nat} (h : Inv w b) (k : Nat) : Inv (kill w k) b := by
  have hf := fr_kill w k
  refine ⟨?_, ?_⟩
  · rw [pend_def, hf.taskQ, hf.retryQ, att_kill]; exact h.core
  · intro j hj; rw [hf.len]; exact h.cliLast j (by rw [← hf.cli]; exact hj)

theorem runTasks_inv (b : Nat) : ∀ (fuel : Nat) (w : World), Inv w b → Inv (runTasks fuel w) b
  | 0, w, h => by simpa [runTasks] using h
  | fuel + 1, w, h => by
    rw [runTasks]
    split
    · exact h
    · split
      · exact h
      · simp only
        split
        · exact h.of_fields rfl rfl rfl rfl
        · exact h.of_fields rfl rfl rfl rfl
        · rename_i t rest k htq hcli
          have hk := h.cliLast k hcli
          have hc := h.core
          rw [pend_def, htq, tMsgs_cons] at hc
          have hr := runTask_core { w with gConnected := true, taskQ := rest, totalTasks := w.totalTasks + 1 } k t b hk hc
          generalize runTask { w with gConnected := true, taskQ := rest, totalTasks := w.totalTasks + 1 } k t = w2 at hr
          have hi2 : Inv w2 b := ⟨hr.2, fun j hj => by rw [hr.1.len]; exact h.cliLast j (by rw [← hj, hr.1.cli])⟩
          split
          · exact hi2
          · apply runTasks_inv b fuel
            split
            · exact (hi2.kill k).of_fields rfl rfl rfl rfl
            · exact hi2

theorem loopReact_inv {w : World} {b : Nat} (h : Inv w b) : Inv (loopReact w) b := by
  unfold loopReact
  split
  · split
    · exact h
    · split
      · exact h.of_fields rfl rfl rfl rfl
      · exact h.of_fields rfl rfl rfl rfl
  · exact h

theorem progress_inv {w : World} {b : Nat} (h : Inv w b) : Inv (progress w) b :=
  loopReact_inv (runTasks_inv b _ w h)

theorem att_eq_flatMap (w : World) : att w = w.conns.flatMap (fun c => pubMsgs c.pkts) := by
  unfold att allPkts pubMsgs; rw [List.filterMap_flatMap]

theorem att_setConn_quiet (w : World) (k : Nat) (c : Conn)
    (h : pubMsgs c.pkts = pubMsgs (getConn w k).pkts) : att (setConn w k c) = att w := by
  rw [att_eq_flatMap, att_eq_flatMap]
  exact flatMap_set_same (fun c => pubMsgs c.pkts) ({} : Conn) w.conns k c h

theorem att_logPkt_quiet (w : World) (k : Nat) (p : Pkt) (x : Wire) (h : pktMsgs p = []) :
    att (logPkt w k p x) = att w := by
  unfold logPkt
  apply att_setConn_quiet
  simp only
  rw [pubMsgs_append, pubMsgs_single, h, List.append_nil]

theorem Inv.setConn_quiet {w : World} {b : Nat} (h : Inv w b) (k : Nat) (c : Conn)
    (hc : pubMsgs c.pkts = pubMsgs (getConn w k).pkts) : Inv (setConn w k c) b := by
  have hf := fr_setConn w k c
  refine ⟨?_, ?_⟩
  · rw [pend_def, hf.taskQ, hf.retryQ, att_setConn_quiet w k c hc]; exact h.core
  · intro j hj; rw [hf.len]; exact h.cliLast j (by rw [← hf.cli]; exact hj)

theorem Inv.logPkt_quiet {w : World} {b : Nat} (h : Inv w b) (k : Nat) (p : Pkt) (x : Wire)
    (hp : pktMsgs p = []) : Inv (logPkt w k p x) b := by
  apply Inv.setConn_quiet h
  simp only
  rw [pubMsgs_append, pubMsgs_single, hp, List.append_nil]

theorem deliverInbound_inv {w : World} {b : Nat} (h : Inv w b) (k m qos : Nat) :
    Inv (deliverInbound w k m qos) b := by
  unfold deliverInbound
  simp only
  split
  · exact h
  · have key : ∀ w1 : World, Inv w1 b →
        Inv (if qos = 1 then logPkt w1 k (.puback (m + 1)) (.sent .ok) else w1) b := by
      intro w1 h1
      split
      · exact h1.logPkt_quiet _ _ _ rfl
      · exact h1
    apply key
    split
    · exact h.of_fields rfl rfl rfl rfl
    · exact h

theorem foldl_deliverInbound_inv (k : Nat) {b : Nat} : ∀ (l : List (Nat × Nat)) {w : World}, Inv w b →
    Inv (l.foldl (fun w (mq : Nat × Nat) => deliverInbound w k mq.1 mq.2) w) b
  | [], _, h => h
  | mq :: rest, _, h => by
    simp only [List.foldl_cons]
    exact foldl_deliverInbound_inv k rest (deliverInbound_inv h k mq.1 mq.2)

theorem Inv.pushQuiet {w : World} {b : Nat} (h : Inv w b) (t : Task) (ht : taskMsg t = none) :
    Inv (pushTask w t) b := by
  refine ⟨?_, h.cliLast⟩
  show Core (att w) (qMsgs w.retryQ ++ tMsgs (w.taskQ ++ [t])) b
  rw [tMsgs_append, tMsgs_cons, ht]
  simpa [pend_def] using h.core

theorem Inv.mono {w : World} {b b' : Nat} (h : Inv w b) (hb : b ≤ b') : Inv w b' :=
  ⟨⟨h.core.attLe, h.core.pendLt, h.core.le, fun a ha => Nat.lt_of_lt_of_le (h.core.attB a ha) hb,
    fun a ha => Nat.lt_of_lt_of_le (h.core.pendB a ha) hb⟩, h.cliLast⟩

theorem connectFailed_inv {w : World} {b : Nat} (h : Inv w b) (k : Nat) : Inv (connectFailed w k) b := by
  unfold connectFailed
  have h1 := (h.of_fields (w' := { w with connReady := true }) rfl rfl rfl rfl).kill k
  simp only
  split
  · exact h1.of_fields rfl rfl rfl rfl
  · exact h1.of_fields rfl rfl rfl rfl

theorem connack_tail_inv {w : World} {b : Nat} (h : Inv w b) (c c2 : Prop) [Decidable c] [Decidable c2]
    (ph : Phase) :
    Inv { (if c2 then (if c then pushTask w .resubscribe else w)
           else pushTask (if c then pushTask w .resubscribe else w) .retry) with
          initialized := true, phase := ph } b := by
  have h4 : Inv (if c then pushTask w .resubscribe else w) b := by
    split
    · exact h.pushQuiet _ rfl
    · exact h
  have h5 : Inv (if c2 then (if c then pushTask w .resubscribe else w)
      else pushTask (if c then pushTask w .resubscribe else w) .retry) b := by
    split
    · exact h4
    · exact h4.pushQuiet .retry rfl
  exact h5

theorem att_newConn {w w' : World} (c : Conn) (hc : pubMsgs c.pkts = []) (h3 : w'.conns = w.conns ++ [c]) :
    att w' = att w := by
  rw [att_eq_flatMap, att_eq_flatMap, h3, List.flatMap_append]
  simp only [List.flatMap_cons, List.flatMap_nil, hc, List.append_nil]

/-- a new connection whose log holds no PUBLISH becomes the current one -/
theorem Inv.newConn {w : World} {b : Nat} (h : Inv w b) (c : Conn) (hc : pubMsgs c.pkts = []) (w' : World)
    (h1 : w'.taskQ = w.taskQ) (h4 : w'.retryQ = w.retryQ) (h3 : w'.conns = w.conns ++ [c])
    (h2 : w'.cli = some w.conns.length) : Inv w' b := by
  refine ⟨?_, ?_⟩
  · rw [pend_def, h1, h4, att_eq_flatMap, h3, List.flatMap_append]
    simp only [List.flatMap_cons, List.flatMap_nil, hc, List.append_nil]
    rw [← att_eq_flatMap]; exact h.core
  · intro k hk
    rw [h2] at hk
    simp only [Option.some.injEq] at hk
    rw [h3, ← hk]; simp

/-- the bound after an event: a submitted message raises it -/
def nextBound (b : Nat) : Ev → Nat
  | .app (.pub m _) => m + 1
  | _ => b

theorem step_inv {w : World} {b : Nat} (e : Ev) (h : Inv w b)
    (hb : ∀ m q, e = .app (.pub m q) → b ≤ m) : Inv (step w e) (nextBound b e) := by
  cases e with
  | start =>
    simp only [step, nextBound]
    split
    · exact h
    · split
      · split
        · exact h.of_fields rfl rfl rfl rfl
        · exact h.of_fields rfl rfl rfl rfl
      · exact h.of_fields rfl rfl rfl rfl
  | waitElapsed =>
    simp only [step, nextBound]
    split
    · exact h.of_fields rfl rfl rfl rfl
    · exact h
  | cancelCtx =>
    simp only [step, nextBound]
    split
    · exact h
    · split
      · exact h.of_fields rfl rfl rfl rfl
      · exact h.of_fields rfl rfl rfl rfl
      · split
        · exact h.of_fields rfl rfl rfl rfl
        · exact h.of_fields rfl rfl rfl rfl
      · rename_i k _
        apply progress_inv
        exact ((h.of_fields (w' := { w with ctxCancelled := true, connReady := true }) rfl rfl rfl rfl).kill k).of_fields
          rfl rfl rfl rfl
      · exact h.of_fields rfl rfl rfl rfl
      · exact h.of_fields rfl rfl rfl rfl
  | app r =>
    simp only [step]
    split
    · refine Inv.mono (h.of_fields rfl rfl rfl rfl) ?_
      cases r with
      | pub m q => have := hb m q rfl; simp only [nextBound]; omega
      | sub _ => exact Nat.le_refl _
      | unsub _ => exact Nat.le_refl _
    · apply progress_inv
      have h' : Inv { w with accepted := w.accepted ++ [r] } b := h.of_fields rfl rfl rfl rfl
      cases r with
      | pub m q =>
        refine ⟨?_, h'.cliLast⟩
        show Core (att w) (qMsgs w.retryQ ++ tMsgs (w.taskQ ++ [.req (.pub m q)])) (m + 1)
        rw [tMsgs_append, tMsgs_cons]
        simp only [taskMsg, Option.toList_some, tMsgs_nil, List.append_nil, ← List.append_assoc]
        exact h.core.push (hb m q rfl)
      | sub _ => exact h'.pushQuiet _ rfl
      | unsub _ => exact h'.pushQuiet _ rfl
  | dialOk idStart =>
    simp only [step, nextBound]
    split
    · exact h
    · split
      · -- (deaf dialer) the transport arrives after the cancellation: a dead connection that carries only CONNECT
        apply progress_inv
        exact h.newConn _ rfl _ rfl rfl rfl rfl
      · exact h.newConn _ rfl _ rfl rfl rfl rfl
  | dialFail =>
    simp only [step, nextBound]
    split
    · exact h
    · split
      · exact h.of_fields rfl rfl rfl rfl
      · split
        · exact h.of_fields rfl rfl rfl rfl
        · exact h.of_fields rfl rfl rfl rfl
  | connackOk sp inbound =>
    simp only [step, nextBound]
    split
    · rename_i k _
      apply progress_inv
      apply connack_tail_inv
      have h1 : Inv (setConn w k { getConn w k with connected := true }) b := h.setConn_quiet k _ rfl
      exact foldl_deliverInbound_inv k inbound
        (w := { setConn w k { getConn w k with connected := true } with
          broker := if sp then (setConn w k { getConn w k with connected := true }).broker
                    else (setConn w k { getConn w k with connected := true }).broker.clearSession }) h1
    · exact h
  | connackRefused =>
    simp only [step, nextBound]
    split
    · exact progress_inv (connectFailed_inv h _)
    · exact h
  | connackNever =>
    simp only [step, nextBound]
    split
    · split
      · exact progress_inv (connectFailed_inv h _)
      · exact h
    · exact h
  | peerClose =>
    simp only [step, nextBound]
    split
    · exact progress_inv (h.kill _)
    · exact h
  | inbound m qos =>
    simp only [step, nextBound]
    split
    · exact deliverInbound_inv h _ _ _
    · exact h
  | handle hd =>
    simp only [step, nextBound]
    split
    · exact Inv.setConn_quiet (h.of_fields rfl rfl rfl rfl) _ _ rfl
    · exact h.of_fields rfl rfl rfl rfl
  | disconnect =>
    simp only [step, nextBound]
    split
    · exact h
    · have h1 : Inv (progress { (pushTask w .disconnect) with stopped := true }) b :=
        progress_inv ((h.pushQuiet .disconnect rfl).of_fields rfl rfl rfl rfl)
      generalize progress { (pushTask w .disconnect) with stopped := true } = w2 at h1
      split
      · exact h1.of_fields rfl rfl rfl rfl
      · exact h1.of_fields rfl rfl rfl rfl
      · exact h1

/-! ### the whole run -/

def pubsOf (evs : List Ev) : List Nat :=
  evs.filterMap (fun e => match e with | .app (.pub m _) => some m | _ => none)

theorem init_inv (s : Script) : Inv (init s) 0 := by
  refine ⟨⟨?_, ?_, ?_, ?_, ?_⟩, ?_⟩ <;> simp [init, att, allPkts, pend]

theorem foldl_inv : ∀ (evs : List Ev) (w : World) (b : Nat), Inv w b → (pubsOf evs).Pairwise (· < ·) →
    (∀ m ∈ pubsOf evs, b ≤ m) → ∃ b', Inv (evs.foldl step w) b'
  | [], w, b, h, _, _ => ⟨b, h⟩
  | e :: rest, w, b, h, hp, hb => by
    simp only [List.foldl_cons]
    by_cases he : ∃ m q, e = .app (.pub m q)
    · obtain ⟨m, q, rfl⟩ := he
      have hpo : pubsOf (Ev.app (.pub m q) :: rest) = m :: pubsOf rest := rfl
      rw [hpo] at hp hb
      rw [List.pairwise_cons] at hp
      have h1 := step_inv (.app (.pub m q)) h (fun m' q' heq => by
        cases heq; exact hb _ List.mem_cons_self)
      exact foldl_inv rest _ _ h1 hp.2 (fun m' hm' => by
        have := hp.1 m' hm'; simp only [nextBound]; omega)
    · have hpo : pubsOf (e :: rest) = pubsOf rest := by
        unfold pubsOf
        rw [List.filterMap_cons]
        split
        · rfl
        · rename_i m hm
          split at hm
          · rename_i m' q'; exact absurd ⟨m', q', rfl⟩ he
          · cases hm
      rw [hpo] at hp hb
      have h1 := step_inv e h (fun m q heq => absurd ⟨m, q, heq⟩ he)
      have hnb : nextBound b e = b := by
        unfold nextBound
        split
        · rename_i m q; exact absurd ⟨m, q, rfl⟩ he
        · rfl
      rw [hnb] at h1
      exact foldl_inv rest _ _ h1 hp hb

theorem exec_inv (s : Script) (hi : Script.Increasing s) : ∃ b, Inv (exec s) b :=
  foldl_inv s.evs (init s) 0 (init_inv s) hi (fun _ _ => Nat.zero_le _)

/-- PUBLISH attempts of the whole run are in submission order (retransmissions repeat a message) -/
theorem att_sorted (s : Script) (hi : Script.Increasing s) : (att (exec s)).Pairwise (· ≤ ·) := by
  obtain ⟨b, h⟩ := exec_inv s hi
  exact h.core.attLe

/-! ### the broker side: onward deliveries (for `first_delivery_order`)

  Under "no silently swallowed acknowledgement" (`Fault.silent ∉ faults`) the client never blocks and
  never times out. With valid QoS values (≤ 2) the broker's QoS 2 stash only ever holds the message
  that is at the head of the retry queue (as `rePublish m 2` or `rePubRel m`), so every onward
  delivery is of the largest message attempted so far. -/

theorem nextFault_spec (w : World) (hs : Fault.silent ∉ w.faults) :
    (nextFault w).1 ≠ .silent ∧ (∀ f ∈ (nextFault w).2.faults, f ∈ w.faults) ∧
    (nextFault w).2.stuck = w.stuck ∧ (nextFault w).2.pid = w.pid ∧ (nextFault w).2.broker = w.broker := by
  unfold nextFault
  split
  · simp
  · rename_i f rest hf
    rw [hf] at hs
    simp only [List.mem_cons, not_or] at hs
    refine ⟨fun h => hs.1 h.symm, ?_, rfl, rfl, rfl⟩
    intro g hg; rw [hf]; exact List.mem_cons_of_mem _ hg

/-- one request packet, when the network never swallows an acknowledgement silently -/
theorem send_spec (w : World) (k : Nat) (p : Pkt) (waits : Bool) (hs : Fault.silent ∉ w.faults) :
    (send w k p waits).1.stuck = w.stuck ∧ (send w k p waits).1.pid = w.pid ∧
    (∀ f ∈ (send w k p waits).1.faults, f ∈ w.faults) ∧
    ((send w k p waits).2 = .acked ∨ (send w k p waits).2 = .failed) ∧
    ((send w k p waits).1.broker = w.broker ∨ (send w k p waits).1.broker = w.broker.process p) ∧
    (waits = true → (send w k p waits).2 = .acked → (send w k p waits).1.broker = w.broker.process p) := by
  obtain ⟨h1, h2, h3, h4, h5⟩ := nextFault_spec w hs
  unfold send
  split
  · simp [logPkt, setConn]
  · simp only
    generalize nextFault w = nf at h1 h2 h3 h4 h5
    obtain ⟨f, w1⟩ := nf
    simp only at h1 h2 h3 h4 h5
    cases f with
    | silent => exact absurd rfl h1
    | ok => simp [logPkt, setConn, h3, h4, h5]; exact h2
    | writeFail => simp [logPkt, setConn, kill, getConn, h3, h4, h5]; exact h2
    | lostReq => cases waits <;> simp [logPkt, setConn, kill, getConn, h3, h4, h5] <;> exact h2
    | lostAck => cases waits <;> simp [logPkt, setConn, kill, getConn, h3, h4, h5] <;> exact h2

theorem publish_spec (b : Broker) (m q id : Nat) (hq : q ≤ 2) :
    ((b.publish m q id).delivered = b.delivered ∨ (b.publish m q id).delivered = b.delivered ++ [m]) ∧
    ((b.publish m q id).stash = b.stash ∨ (q = 2 ∧ (b.publish m q id).stash = b.stash ++ [(id, m)])) := by
  unfold Broker.publish
  split
  · simp
  · split
    · simp
    · have : q = 2 := by omega
      split <;> simp [this]

theorem pubrel_spec (b : Broker) (id : Nat) :
    (b.pubrel id).stash = b.stash.filter (fun e => e.1 ≠ id) ∧
    ((b.pubrel id).delivered = b.delivered ∨ ∃ e ∈ b.stash, (b.pubrel id).delivered = b.delivered ++ [e.2]) := by
  unfold Broker.pubrel
  split
  · rename_i id' m hf
    refine ⟨by simp, .inr ⟨(id', m), List.mem_of_find?_eq_some hf, by simp⟩⟩
  · rename_i hf
    simp only [true_or, and_true]
    symm
    rw [List.filter_eq_self]
    intro e he
    have := List.find?_eq_none.1 hf e he
    simpa using this

/-- the broker part of the invariant while message `m` is the one in flight -/
structure Fl (w : World) (m : Nat) : Prop where
  stuck : w.stuck = false
  nosilent : Fault.silent ∉ w.faults
  delAtt : ∀ d ∈ w.broker.delivered, d ∈ att w
  delLe : w.broker.delivered.Pairwise (· ≤ ·)
  attLe : ∀ a ∈ att w, a ≤ m
  stash : ∀ e ∈ w.broker.stash, e.2 = m ∧ lookupPid w m = some e.1 ∧ m ∈ att w

theorem pairwise_le_snoc {l : List Nat} {m : Nat} (h : l.Pairwise (· ≤ ·)) (hm : ∀ a ∈ l, a ≤ m) :
    (l ++ [m]).Pairwise (· ≤ ·) := by
  rw [List.pairwise_append]
  refine ⟨h, by simp, ?_⟩
  intro a ha c hc
  simp at hc; subst hc; exact hm a ha

theorem relAttempt_fl (w : World) (k m id : Nat) (hk : k + 1 = w.conns.length) (h : Fl w m)
    (hid : ∀ e ∈ w.broker.stash, e.1 = id) :
    Fl (relAttempt w k m id).1 m ∧ (relAttempt w k m id).1.pid = w.pid ∧
    (((relAttempt w k m id).2 = .done ∧ (relAttempt w k m id).1.broker.stash = []) ∨
      ∃ err, (relAttempt w k m id).2 = .fail (some (.rePubRel m)) err) := by
  have hatt := relAttempt_att w k m id hk
  revert hatt
  unfold relAttempt
  obtain ⟨s1, s2, s3, s4, s5, s6⟩ := send_spec w k (.pubrel id m) true h.nosilent
  generalize send w k (.pubrel id m) true = r at s1 s2 s3 s4 s5 s6
  obtain ⟨w1, s⟩ := r
  simp only at s1 s2 s3 s4 s5 s6
  have hstash : ∀ e ∈ w1.broker.stash, e ∈ w.broker.stash := by
    rcases s5 with s5 | s5
    · rw [s5]; exact fun e he => he
    · rw [s5]; simp only [Broker.process, (pubrel_spec w.broker id).1]
      intro e he; exact (List.mem_filter.1 he).1
  have hdel : (∀ d ∈ w1.broker.delivered, d ∈ att w) ∧ w1.broker.delivered.Pairwise (· ≤ ·) := by
    rcases s5 with s5 | s5
    · rw [s5]; exact ⟨h.delAtt, h.delLe⟩
    · rw [s5]; simp only [Broker.process]
      rcases (pubrel_spec w.broker id).2 with h1 | ⟨e, he, h1⟩
      · rw [h1]; exact ⟨h.delAtt, h.delLe⟩
      · rw [h1]
        have hem := h.stash e he
        refine ⟨?_, pairwise_le_snoc h.delLe ?_⟩
        · intro d hd
          simp only [List.mem_append, List.mem_singleton] at hd
          rcases hd with hd | rfl
          · exact h.delAtt d hd
          · rw [hem.1]; exact hem.2.2
        · intro a ha; rw [hem.1]; exact h.attLe a (h.delAtt a ha)
  simp only
  intro hatt
  have hlk : ∀ w' : World, w'.pid = w.pid → lookupPid w' m = lookupPid w m := by
    intro w' hp; unfold lookupPid; rw [hp]
  rcases s4 with rfl | rfl
  · -- acknowledged: the broker has processed the PUBREL
    have s6 := s6 trivial rfl
    simp only at hatt ⊢
    refine ⟨⟨s1.trans h.stuck, fun hf => h.nosilent (s3 _ hf), ?_, hdel.2, ?_, ?_⟩, s2, ?_⟩
    · intro d hd; rw [hatt]; exact hdel.1 d hd
    · rw [hatt]; exact h.attLe
    · intro e he
      have := h.stash e (hstash e he)
      rw [hatt]
      exact ⟨this.1, (hlk _ s2).trans this.2.1, this.2.2⟩
    · left
      refine ⟨trivial, ?_⟩
      show w1.broker.stash = []
      rw [s6]; simp only [Broker.process, (pubrel_spec w.broker id).1]
      rw [List.filter_eq_nil_iff]
      intro e he; simp [hid e he]
  · simp only at hatt ⊢
    refine ⟨⟨s1.trans h.stuck, fun hf => h.nosilent (s3 _ hf), ?_, hdel.2, ?_, ?_⟩, s2, .inr ⟨_, rfl⟩⟩
    · intro d hd; rw [hatt]; exact hdel.1 d hd
    · rw [hatt]; exact h.attLe
    · intro e he
      have := h.stash e (hstash e he)
      rw [hatt]
      exact ⟨this.1, (hlk _ s2).trans this.2.1, this.2.2⟩

theorem assignId_spec (w : World) (k m : Nat) :
    lookupPid (assignId w k m).1 m = some (assignId w k m).2 ∧
    (∀ m' id, lookupPid w m' = some id → lookupPid (assignId w k m).1 m' = some id) ∧
    (assignId w k m).1.stuck = w.stuck ∧ (assignId w k m).1.faults = w.faults ∧
    (assignId w k m).1.broker = w.broker := by
  unfold assignId
  split
  · rename_i id h
    exact ⟨h, fun _ _ h => h, rfl, rfl, rfl⟩
  · rename_i h
    simp only [lookupPid, Option.map_eq_none_iff] at h
    refine ⟨?_, ?_, rfl, rfl, rfl⟩
    · simp [lookupPid, setConn, List.find?_append, h]
    · intro m' id hm'
      simp only [lookupPid, setConn, List.find?_append]
      simp only [lookupPid] at hm'
      cases hf : List.find? (fun e => decide (e.1 = m')) w.pid with
      | none => rw [hf] at hm'; simp at hm'
      | some x => rw [hf] at hm'; simpa using hm'

theorem Fl.congr {w w' : World} {m : Nat} (h : Fl w m) (h1 : w'.stuck = w.stuck) (h2 : w'.faults = w.faults)
    (h3 : w'.broker.delivered = w.broker.delivered) (h4 : w'.broker.stash = w.broker.stash)
    (h5 : w'.conns = w.conns) (h6 : w'.pid = w.pid) : Fl w' m := by
  have ha : att w' = att w := att_congr h5
  have hl : lookupPid w' m = lookupPid w m := by unfold lookupPid; rw [h6]
  exact ⟨h1.trans h.stuck, h2 ▸ h.nosilent, by rw [h3, ha]; exact h.delAtt, by rw [h3]; exact h.delLe,
    by rw [ha]; exact h.attLe, by rw [h4, ha, hl]; exact h.stash⟩

theorem pubAttempt_fl (w : World) (k m q : Nat) (dup : Bool) (hk : k + 1 = w.conns.length) (hq : q ≤ 2)
    (h : Fl w m) (h2 : w.broker.stash ≠ [] → q = 2) :
    Fl (pubAttempt w k m q dup).1 m ∧ ((pubAttempt w k m q dup).1.broker.stash ≠ [] → q = 2) ∧
    (∀ m' id, lookupPid w m' = some id → lookupPid (pubAttempt w k m q dup).1 m' = some id) ∧
    (((pubAttempt w k m q dup).2 = .done ∧ (pubAttempt w k m q dup).1.broker.stash = []) ∨
     (∃ e, (pubAttempt w k m q dup).2 = .fail none e ∧ (pubAttempt w k m q dup).1.broker.stash = []) ∨
     (∃ e, (pubAttempt w k m q dup).2 = .fail (some (.rePublish m q)) e) ∨
     (q = 2 ∧ ∃ e, (pubAttempt w k m q dup).2 = .fail (some (.rePubRel m)) e)) := by
  rw [pubAttempt_eq]
  obtain ⟨a1, a2, a3, a4, a5⟩ := assignId_spec w k m
  have a6 := assignId_att w k m
  have a7 := (assignId_fr w k m).len
  generalize assignId w k m = wi at a1 a2 a3 a4 a5 a6 a7
  obtain ⟨w1, id⟩ := wi
  simp only at a1 a2 a3 a4 a5 a6 a7 ⊢
  have hk1 : k + 1 = w1.conns.length := by rw [a7]; exact hk
  have hs1 : Fault.silent ∉ w1.faults := a4 ▸ h.nosilent
  obtain ⟨s1, s2, s3, s4, s5, s6⟩ := send_spec w1 k (.publish m q id dup) (q ≠ 0) hs1
  have s7 := send_att w1 k (.publish m q id dup) (q ≠ 0) hk1
  have s8 := (send_fr w1 k (.publish m q id dup) (q ≠ 0)).len
  generalize send w1 k (.publish m q id dup) (q ≠ 0) = ws at s1 s2 s3 s4 s5 s6 s7 s8
  obtain ⟨w2, s⟩ := ws
  simp only [pktMsgs] at s1 s2 s3 s4 s5 s6 s7 s8 ⊢
  rw [a6] at s7
  have hl2 : ∀ m', lookupPid w2 m' = lookupPid w1 m' := by intro m'; unfold lookupPid; rw [s2]
  have hmem : m ∈ att w2 := by rw [s7]; simp
  -- the state after the PUBLISH
  have hb : (∀ d ∈ w2.broker.delivered, d ∈ att w2) ∧ w2.broker.delivered.Pairwise (· ≤ ·) ∧
      (∀ e ∈ w2.broker.stash, e.2 = m ∧ e.1 = id) ∧ (w2.broker.stash ≠ [] → q = 2) := by
    have hold : ∀ e ∈ w.broker.stash, e.2 = m ∧ e.1 = id := by
      intro e he
      have := h.stash e he
      refine ⟨this.1, ?_⟩
      have := a2 m e.1 this.2.1
      rw [a1] at this; injection this with this; exact this.symm
    rcases s5 with s5 | s5
    · rw [s5, a5, s7]
      exact ⟨fun d hd => List.mem_append_left _ (h.delAtt d hd), h.delLe, hold, h2⟩
    · rw [s5, a5, s7]
      simp only [Broker.process]
      obtain ⟨p1, p2⟩ := publish_spec w.broker m q id hq
      refine ⟨?_, ?_, ?_, ?_⟩
      · rcases p1 with p1 | p1 <;> rw [p1]
        · exact fun d hd => List.mem_append_left _ (h.delAtt d hd)
        · intro d hd
          simp only [List.mem_append, List.mem_singleton] at hd ⊢
          rcases hd with hd | hd
          · exact .inl (h.delAtt d hd)
          · exact .inr hd
      · rcases p1 with p1 | p1 <;> rw [p1]
        · exact h.delLe
        · exact pairwise_le_snoc h.delLe (fun a ha => h.attLe a (h.delAtt a ha))
      · rcases p2 with p2 | ⟨_, p2⟩ <;> rw [p2]
        · exact hold
        · intro e he
          simp only [List.mem_append, List.mem_singleton] at he
          rcases he with he | rfl
          · exact hold e he
          · exact ⟨rfl, rfl⟩
      · rcases p2 with p2 | ⟨p2, _⟩
        · rw [p2]; exact h2
        · exact fun _ => p2
  have hfl2 : Fl w2 m := by
    refine ⟨s1.trans (a3.trans h.stuck), fun hf => hs1 (s3 _ hf), hb.1, hb.2.1, ?_, ?_⟩
    · rw [s7]; intro a ha
      simp only [List.mem_append, List.mem_singleton] at ha
      rcases ha with ha | rfl
      · exact h.attLe a ha
      · exact Nat.le_refl _
    · intro e he
      have := hb.2.2.1 e he
      exact ⟨this.1, by rw [hl2, a1, this.2], hmem⟩
  have hstab2 : ∀ m' id', lookupPid w m' = some id' → lookupPid w2 m' = some id' := by
    intro m' id' hm'; rw [hl2]; exact a2 m' id' hm'
  have hnil : q ≠ 2 → w2.broker.stash = [] := by
    intro hq2
    exact Classical.byContradiction (fun hne => hq2 (hb.2.2.2 hne))
  rcases s4 with rfl | rfl
  · simp only
    split
    · rename_i hq2
      obtain ⟨r1, r2, r3⟩ := relAttempt_fl w2 k m id (by rw [s8]; exact hk1) hfl2 (fun e he => (hb.2.2.1 e he).2)
      refine ⟨r1, fun _ => hq2, ?_, ?_⟩
      · intro m' id' hm'
        have := hstab2 m' id' hm'
        unfold lookupPid at this ⊢
        rw [r2]; exact this
      · rcases r3 with r3 | r3
        · exact .inl r3
        · exact .inr (.inr (.inr ⟨hq2, r3⟩))
    · rename_i hq2
      split
      · exact ⟨hfl2.congr rfl rfl rfl rfl rfl rfl, fun hne => absurd (hb.2.2.2 hne) hq2, hstab2,
          .inl ⟨rfl, hnil hq2⟩⟩
      · exact ⟨hfl2, hb.2.2.2, hstab2, .inl ⟨rfl, hnil hq2⟩⟩
  · simp only
    refine ⟨hfl2, hb.2.2.2, hstab2, ?_⟩
    by_cases hq0 : q = 0
    · simp only [hq0, if_true]
      exact .inr (.inl ⟨_, rfl, hnil (by omega)⟩)
    · simp only [hq0, if_false]
      exact .inr (.inr (.inl ⟨_, rfl⟩))

/-- activity that leaves the broker's publish state alone -/
structure BQ (w w' : World) : Prop where
  stuck : w'.stuck = w.stuck
  faults : ∀ f ∈ w'.faults, f ∈ w.faults
  stash : w'.broker.stash = w.broker.stash
  delivered : w'.broker.delivered = w.broker.delivered
  pid : w'.pid = w.pid

theorem BQ.rfl' (w : World) : BQ w w := ⟨rfl, fun _ h => h, rfl, rfl, rfl⟩
theorem BQ.trans {a b c : World} (h1 : BQ a b) (h2 : BQ b c) : BQ a c :=
  ⟨h2.stuck.trans h1.stuck, fun f hf => h1.faults f (h2.faults f hf), h2.stash.trans h1.stash,
    h2.delivered.trans h1.delivered, h2.pid.trans h1.pid⟩
theorem BQ.of_fields {w w' : World} (h1 : w'.stuck = w.stuck) (h2 : w'.faults = w.faults)
    (h3 : w'.broker.stash = w.broker.stash) (h4 : w'.broker.delivered = w.broker.delivered)
    (h5 : w'.pid = w.pid) : BQ w w' := ⟨h1, fun _ hf => h2 ▸ hf, h3, h4, h5⟩

theorem bumpCtr_bq (w : World) (k : Nat) : BQ w (bumpCtr w k).1 := BQ.of_fields rfl rfl rfl rfl rfl

theorem send_bq (w : World) (k : Nat) (p : Pkt) (waits : Bool) (hs : Fault.silent ∉ w.faults)
    (hp : (w.broker.process p).stash = w.broker.stash ∧ (w.broker.process p).delivered = w.broker.delivered) :
    BQ w (send w k p waits).1 ∧ ((send w k p waits).2 = .acked ∨ (send w k p waits).2 = .failed) := by
  obtain ⟨s1, s2, s3, s4, s5, _⟩ := send_spec w k p waits hs
  refine ⟨⟨s1, s3, ?_, ?_, s2⟩, s4⟩
  · rcases s5 with s5 | s5 <;> rw [s5]; exact hp.1
  · rcases s5 with s5 | s5 <;> rw [s5]; exact hp.2

theorem subAttempt_bq (w : World) (k : Nat) (subs) (hs : Fault.silent ∉ w.faults) :
    BQ w (subAttempt w k subs).1 ∧
    ((subAttempt w k subs).2 = .done ∨ ∃ e, (subAttempt w k subs).2 = .fail (some (.reSub subs)) e) := by
  rw [subAttempt_eq]
  dsimp only
  have h1 := bumpCtr_bq w k
  have h2 := send_bq (bumpCtr w k).1 k (.subscribe (bumpCtr w k).2 subs) true
    (fun hf => hs (h1.faults _ hf)) ⟨rfl, rfl⟩
  generalize send (bumpCtr w k).1 k (.subscribe (bumpCtr w k).2 subs) true = ws at h2
  obtain ⟨w2, s⟩ := ws
  simp only at h2 ⊢
  have h3 := h1.trans h2.1
  rcases h2.2 with rfl | rfl
  · exact ⟨⟨h3.stuck, h3.faults, h3.stash, h3.delivered, h3.pid⟩, .inl rfl⟩
  · exact ⟨h3, .inr ⟨_, rfl⟩⟩

theorem unsubAttempt_bq (w : World) (k : Nat) (ts) (hs : Fault.silent ∉ w.faults) :
    BQ w (unsubAttempt w k ts).1 ∧
    ((unsubAttempt w k ts).2 = .done ∨ ∃ e, (unsubAttempt w k ts).2 = .fail (some (.reUnsub ts)) e) := by
  rw [unsubAttempt_eq]
  dsimp only
  have h1 := bumpCtr_bq w k
  have h2 := send_bq (bumpCtr w k).1 k (.unsubscribe (bumpCtr w k).2 ts) true
    (fun hf => hs (h1.faults _ hf)) ⟨rfl, rfl⟩
  generalize send (bumpCtr w k).1 k (.unsubscribe (bumpCtr w k).2 ts) true = ws at h2
  obtain ⟨w2, s⟩ := ws
  simp only at h2 ⊢
  have h3 := h1.trans h2.1
  rcases h2.2 with rfl | rfl
  · exact ⟨⟨h3.stuck, h3.faults, h3.stash, h3.delivered, h3.pid⟩, .inl rfl⟩
  · exact ⟨h3, .inr ⟨_, rfl⟩⟩

def EntryQ : Entry → Prop
  | .rePublish _ q => q ≤ 2
  | .qPub _ q => q ≤ 2
  | _ => True

def TaskQ : Task → Prop
  | .req (.pub _ q) => q ≤ 2
  | _ => True

/-- the broker part of the invariant, relative to the (virtual) retry queue `Q` -/
def BInv (w : World) (Q : List Entry) : Prop :=
  w.stuck = false ∧ Fault.silent ∉ w.faults ∧ (∀ d ∈ w.broker.delivered, d ∈ att w) ∧
  w.broker.delivered.Pairwise (· ≤ ·) ∧
  (∀ e ∈ w.broker.stash, (Entry.rePublish e.2 2 ∈ Q ∨ Entry.rePubRel e.2 ∈ Q) ∧
    lookupPid w e.2 = some e.1 ∧ e.2 ∈ att w) ∧
  (∀ x ∈ Q, EntryQ x) ∧ (∀ t ∈ w.taskQ, TaskQ t)

theorem BInv.bq {w w' : World} {Q : List Entry} (h : BInv w Q) (hb : BQ w w') (ha : att w' = att w)
    (ht : w'.taskQ = w.taskQ) : BInv w' Q := by
  obtain ⟨h1, h2, h3, h4, h5, h6, h7⟩ := h
  have hl : ∀ m, lookupPid w' m = lookupPid w m := by intro m; unfold lookupPid; rw [hb.pid]
  refine ⟨hb.stuck.trans h1, fun hf => h2 (hb.faults _ hf), ?_, ?_, ?_, h6, ?_⟩
  · rw [hb.delivered, ha]; exact h3
  · rw [hb.delivered]; exact h4
  · rw [hb.stash, ha]; intro e he; rw [hl]; exact h5 e he
  · rw [ht]; exact h7

/-- only the PUBLISH/PUBREL handles of the queue matter -/
theorem BInv.subQ {w : World} {Q Q' : List Entry} (h : BInv w Q)
    (hs : ∀ x ∈ Q, entryMsg x ≠ none → x ∈ Q') (hE : ∀ x ∈ Q', EntryQ x) : BInv w Q' := by
  obtain ⟨h1, h2, h3, h4, h5, _, h7⟩ := h
  refine ⟨h1, h2, h3, h4, ?_, hE, h7⟩
  intro e he
  obtain ⟨h5a, h5b⟩ := h5 e he
  refine ⟨?_, h5b⟩
  rcases h5a with h5a | h5a
  · exact .inl (hs _ h5a (by simp [entryMsg]))
  · exact .inr (hs _ h5a (by simp [entryMsg]))

theorem Fl.binv {w : World} {m : Nat} {Q : List Entry} (h : Fl w m)
    (hQ : w.broker.stash ≠ [] → (Entry.rePublish m 2 ∈ Q ∨ Entry.rePubRel m ∈ Q))
    (hE : ∀ x ∈ Q, EntryQ x) (hT : ∀ t ∈ w.taskQ, TaskQ t) : BInv w Q := by
  refine ⟨h.stuck, h.nosilent, h.delAtt, h.delLe, ?_, hE, hT⟩
  intro e he
  obtain ⟨e1, e2, e3⟩ := h.stash e he
  rw [e1]
  exact ⟨hQ (List.ne_nil_of_mem he), e2, e3⟩

/-- entering the flight of the first pending PUBLISH/PUBREL entry `x` -/
theorem BInv.flight {w : World} {A rest : List Entry} {x : Entry} {m b : Nat} {T : List Nat}
    (hB : BInv w (A ++ x :: rest)) (hA : qMsgs A = []) (hx : entryMsg x = some m)
    (hc : Core (att w) (m :: (qMsgs rest ++ T)) b) :
    Fl w m ∧ (w.broker.stash ≠ [] → (x = .rePublish m 2 ∨ x = .rePubRel m)) := by
  obtain ⟨h1, h2, h3, h4, h5, _, _⟩ := hB
  have hcp := List.pairwise_cons.1 hc.pendLt
  have key : ∀ e ∈ w.broker.stash, e.2 = m ∧ (x = .rePublish m 2 ∨ x = .rePubRel m) := by
    intro e he
    obtain ⟨h5a, _, h5c⟩ := h5 e he
    have hle : e.2 ≤ m := hc.le _ h5c _ List.mem_cons_self
    have hmem : ∀ y : Entry, entryMsg y = some e.2 → y ∈ A ++ x :: rest → y = x := by
      intro y hy hyin
      simp only [List.mem_append, List.mem_cons] at hyin
      rcases hyin with hyin | hyin | hyin
      · have : e.2 ∈ qMsgs A := List.mem_filterMap.2 ⟨y, hyin, hy⟩
        rw [hA] at this; simp at this
      · exact hyin
      · have : e.2 ∈ qMsgs rest := List.mem_filterMap.2 ⟨y, hyin, hy⟩
        have := hcp.1 e.2 (List.mem_append_left _ this)
        omega
    rcases h5a with h5a | h5a
    · have := hmem _ rfl h5a
      rw [← this] at hx; simp only [entryMsg, Option.some.injEq] at hx
      exact ⟨hx, .inl (by rw [← this, hx])⟩
    · have := hmem _ rfl h5a
      rw [← this] at hx; simp only [entryMsg, Option.some.injEq] at hx
      exact ⟨hx, .inr (by rw [← this, hx])⟩
  refine ⟨⟨h1, h2, h3, h4, fun a ha => hc.le a ha _ List.mem_cons_self, ?_⟩, ?_⟩
  · intro e he
    obtain ⟨_, h5b, h5c⟩ := h5 e he
    have := (key e he).1
    rw [this] at h5b h5c
    exact ⟨this, h5b, h5c⟩
  · intro hne
    obtain ⟨e, he⟩ := List.exists_mem_of_ne_nil _ hne
    exact (key e he).2

theorem entryQ_of {Q Q' : List Entry} (hE : ∀ y ∈ Q, EntryQ y) (h : ∀ y ∈ Q', y ∈ Q ∨ EntryQ y) :
    ∀ y ∈ Q', EntryQ y := fun y hy => (h y hy).elim (hE y) id

theorem mem_skip {A rest : List Entry} {x y : Entry} (h : y ∈ A ++ rest) : y ∈ A ++ x :: rest := by
  simp only [List.mem_append, List.mem_cons] at h ⊢
  rcases h with h | h
  · exact .inl h
  · exact .inr (.inr h)

theorem mem_repl {A rest : List Entry} {x h y : Entry} (hy : y ∈ A ++ [h] ++ rest) :
    y ∈ A ++ x :: rest ∨ y = h := by
  simp only [List.mem_append, List.mem_cons, List.not_mem_nil, or_false] at hy ⊢
  rcases hy with (hy | hy) | hy
  · exact .inl (.inl hy)
  · exact .inr hy
  · exact .inl (.inr (.inr hy))

theorem mem_drop_nonpub {A rest : List Entry} {x y : Entry} (hx : entryMsg x = none)
    (hy : y ∈ A ++ x :: rest) (hne : entryMsg y ≠ none) : y ∈ A ++ rest := by
  simp only [List.mem_append, List.mem_cons] at hy ⊢
  rcases hy with hy | hy | hy
  · exact .inl hy
  · rw [hy] at hne; exact absurd hx hne
  · exact .inr hy

theorem mem_ins {A rest : List Entry} {h y : Entry} (hy : y ∈ A ++ rest) : y ∈ A ++ [h] ++ rest := by
  simp only [List.mem_append, List.mem_cons, List.not_mem_nil, or_false] at hy ⊢
  rcases hy with hy | hy
  · exact .inl (.inl hy)
  · exact .inr hy

theorem runEntry_B (w : World) (k : Nat) (x : Entry) (rest : List Entry) (T : List Nat) (b : Nat)
    (hk : k + 1 = w.conns.length) (hq : qMsgs w.retryQ = [])
    (hc : Core (att w) ((entryMsg x).toList ++ (qMsgs rest ++ T)) b)
    (hB : BInv w (w.retryQ ++ x :: rest)) :
    match (runEntry w k x).2 with
    | .fail (some h) _ => BInv (runEntry w k x).1 ((runEntry w k x).1.retryQ ++ [h] ++ rest)
    | .stuck => False
    | _ => BInv (runEntry w k x).1 ((runEntry w k x).1.retryQ ++ rest) := by
  have hE : ∀ y ∈ w.retryQ ++ x :: rest, EntryQ y := hB.2.2.2.2.2.1
  have hT : ∀ t ∈ w.taskQ, TaskQ t := hB.2.2.2.2.2.2
  have hE0 : ∀ y ∈ w.retryQ ++ rest, EntryQ y := fun y hy => hE y (mem_skip hy)
  have hE1 : ∀ h, EntryQ h → ∀ y ∈ w.retryQ ++ [h] ++ rest, EntryQ y := by
    intro h hh y hy
    rcases mem_repl (x := x) hy with hy | rfl
    · exact hE y hy
    · exact hh
  cases x with
  | rePublish m q =>
    simp only [entryMsg, Option.toList_some, List.singleton_append] at hc
    obtain ⟨hfl, hst⟩ := hB.flight hq rfl hc
    have h2 : w.broker.stash ≠ [] → q = 2 := by
      intro hne
      rcases hst hne with h | h
      · injection h
      · cases h
    have qle : q ≤ 2 := hE (.rePublish m q) (by simp)
    obtain ⟨f1, f2, _, f4⟩ := pubAttempt_fl w k m q true hk qle hfl h2
    have hfr := pubAttempt_fr w k m q true
    show match (pubAttempt w k m q true).2 with
      | .fail (some h) _ => BInv (pubAttempt w k m q true).1 ((pubAttempt w k m q true).1.retryQ ++ [h] ++ rest)
      | .stuck => False
      | _ => BInv (pubAttempt w k m q true).1 ((pubAttempt w k m q true).1.retryQ ++ rest)
    generalize pubAttempt w k m q true = r at f1 f2 f4 hfr
    obtain ⟨w', o⟩ := r
    simp only at f1 f2 f4 hfr ⊢
    have hT' : ∀ t ∈ w'.taskQ, TaskQ t := by rw [hfr.taskQ]; exact hT
    rw [hfr.retryQ]
    rcases f4 with ⟨rfl, hnil⟩ | ⟨e, rfl, hnil⟩ | ⟨e, rfl⟩ | ⟨hq2, e, rfl⟩
    · exact f1.binv (fun hne => absurd hnil hne) hE0 hT'
    · exact f1.binv (fun hne => absurd hnil hne) hE0 hT'
    · refine f1.binv (fun hne => .inl ?_) (hE1 _ qle) hT'
      rw [← f2 hne]; simp
    · exact f1.binv (fun hne => .inr (by simp)) (hE1 _ trivial) hT'
  | qPub m q =>
    simp only [entryMsg, Option.toList_some, List.singleton_append] at hc
    obtain ⟨hfl, hst⟩ := hB.flight hq rfl hc
    have hnil0 : w.broker.stash = [] :=
      Classical.byContradiction (fun hne => by rcases hst hne with h | h <;> cases h)
    have qle : q ≤ 2 := hE (.qPub m q) (by simp)
    obtain ⟨f1, f2, _, f4⟩ := pubAttempt_fl w k m q false hk qle hfl (fun hne => absurd hnil0 hne)
    have hfr := pubAttempt_fr w k m q false
    show BInv (absorb (pubAttempt w k m q false).1 (pubAttempt w k m q false).2)
      ((absorb (pubAttempt w k m q false).1 (pubAttempt w k m q false).2).retryQ ++ rest)
    generalize pubAttempt w k m q false = r at f1 f2 f4 hfr
    obtain ⟨w', o⟩ := r
    simp only at f1 f2 f4 hfr ⊢
    have hT' : ∀ t ∈ w'.taskQ, TaskQ t := by rw [hfr.taskQ]; exact hT
    rcases f4 with ⟨rfl, hnil⟩ | ⟨e, rfl, hnil⟩ | ⟨e, rfl⟩ | ⟨hq2, e, rfl⟩
    · show BInv w' (w'.retryQ ++ rest)
      rw [hfr.retryQ]
      exact f1.binv (fun hne => absurd hnil hne) hE0 hT'
    · show BInv w' (w'.retryQ ++ rest)
      rw [hfr.retryQ]
      exact f1.binv (fun hne => absurd hnil hne) hE0 hT'
    · show BInv w' (w'.retryQ ++ [.rePublish m q] ++ rest)
      rw [hfr.retryQ]
      refine f1.binv (fun hne => .inl ?_) (hE1 _ qle) hT'
      rw [← f2 hne]; simp
    · show BInv w' (w'.retryQ ++ [.rePubRel m] ++ rest)
      rw [hfr.retryQ]
      exact f1.binv (fun hne => .inr (by simp)) (hE1 _ trivial) hT'
  | rePubRel m =>
    simp only [entryMsg, Option.toList_some, List.singleton_append] at hc
    obtain ⟨hfl, hst⟩ := hB.flight hq rfl hc
    have hid : ∀ e ∈ w.broker.stash, e.1 = (lookupPid w m).getD 0 := by
      intro e he
      have := (hfl.stash e he).2.1
      rw [this]; rfl
    obtain ⟨r1, _, r3⟩ := relAttempt_fl w k m _ hk hfl hid
    have hfr := relAttempt_fr w k m ((lookupPid w m).getD 0)
    show match (relAttempt w k m ((lookupPid w m).getD 0)).2 with
      | .fail (some h) _ => BInv (relAttempt w k m ((lookupPid w m).getD 0)).1
          ((relAttempt w k m ((lookupPid w m).getD 0)).1.retryQ ++ [h] ++ rest)
      | .stuck => False
      | _ => BInv (relAttempt w k m ((lookupPid w m).getD 0)).1
          ((relAttempt w k m ((lookupPid w m).getD 0)).1.retryQ ++ rest)
    generalize relAttempt w k m ((lookupPid w m).getD 0) = r at r1 r3 hfr
    obtain ⟨w', o⟩ := r
    simp only at r1 r3 hfr ⊢
    have hT' : ∀ t ∈ w'.taskQ, TaskQ t := by rw [hfr.taskQ]; exact hT
    rw [hfr.retryQ]
    rcases r3 with ⟨rfl, hnil⟩ | ⟨e, rfl⟩
    · exact r1.binv (fun hne => absurd hnil hne) hE0 hT'
    · exact r1.binv (fun hne => .inr (by simp)) (hE1 _ trivial) hT'
  | reSub subs =>
    obtain ⟨q1, q2⟩ := subAttempt_bq w k subs hB.2.1
    have hfr := subAttempt_fr w k subs
    have hatt := subAttempt_att w k subs hk
    show match (subAttempt w k subs).2 with
      | .fail (some h) _ => BInv (subAttempt w k subs).1 ((subAttempt w k subs).1.retryQ ++ [h] ++ rest)
      | .stuck => False
      | _ => BInv (subAttempt w k subs).1 ((subAttempt w k subs).1.retryQ ++ rest)
    generalize subAttempt w k subs = r at q1 q2 hfr hatt
    obtain ⟨w', o⟩ := r
    simp only at q1 q2 hfr hatt ⊢
    rw [hfr.retryQ]
    have hB' := hB.bq q1 hatt hfr.taskQ
    rcases q2 with rfl | ⟨e, rfl⟩
    · exact hB'.subQ (fun y hy hne => mem_drop_nonpub rfl hy hne) hE0
    · exact hB'.subQ (fun y hy hne => mem_ins (mem_drop_nonpub rfl hy hne)) (hE1 _ trivial)
  | reUnsub ts =>
    obtain ⟨q1, q2⟩ := unsubAttempt_bq w k ts hB.2.1
    have hfr := unsubAttempt_fr w k ts
    have hatt := unsubAttempt_att w k ts hk
    show match (unsubAttempt w k ts).2 with
      | .fail (some h) _ => BInv (unsubAttempt w k ts).1 ((unsubAttempt w k ts).1.retryQ ++ [h] ++ rest)
      | .stuck => False
      | _ => BInv (unsubAttempt w k ts).1 ((unsubAttempt w k ts).1.retryQ ++ rest)
    generalize unsubAttempt w k ts = r at q1 q2 hfr hatt
    obtain ⟨w', o⟩ := r
    simp only at q1 q2 hfr hatt ⊢
    rw [hfr.retryQ]
    have hB' := hB.bq q1 hatt hfr.taskQ
    rcases q2 with rfl | ⟨e, rfl⟩
    · exact hB'.subQ (fun y hy hne => mem_drop_nonpub rfl hy hne) hE0
    · exact hB'.subQ (fun y hy hne => mem_ins (mem_drop_nonpub rfl hy hne)) (hE1 _ trivial)
  | qSub subs =>
    obtain ⟨q1, q2⟩ := subAttempt_bq w k subs hB.2.1
    have hfr := subAttempt_fr w k subs
    have hatt := subAttempt_att w k subs hk
    show BInv (absorb (subAttempt w k subs).1 (subAttempt w k subs).2)
      ((absorb (subAttempt w k subs).1 (subAttempt w k subs).2).retryQ ++ rest)
    generalize subAttempt w k subs = r at q1 q2 hfr hatt
    obtain ⟨w', o⟩ := r
    simp only at q1 q2 hfr hatt ⊢
    have hB' := hB.bq q1 hatt hfr.taskQ
    rcases q2 with rfl | ⟨e, rfl⟩
    · show BInv w' (w'.retryQ ++ rest)
      rw [hfr.retryQ]
      exact hB'.subQ (fun y hy hne => mem_drop_nonpub rfl hy hne) hE0
    · show BInv w' (w'.retryQ ++ [.reSub subs] ++ rest)
      rw [hfr.retryQ]
      exact hB'.subQ (fun y hy hne => mem_ins (mem_drop_nonpub rfl hy hne)) (hE1 _ trivial)
  | qUnsub ts =>
    obtain ⟨q1, q2⟩ := unsubAttempt_bq w k ts hB.2.1
    have hfr := unsubAttempt_fr w k ts
    have hatt := unsubAttempt_att w k ts hk
    show BInv (absorb (unsubAttempt w k ts).1 (unsubAttempt w k ts).2)
      ((absorb (unsubAttempt w k ts).1 (unsubAttempt w k ts).2).retryQ ++ rest)
    generalize unsubAttempt w k ts = r at q1 q2 hfr hatt
    obtain ⟨w', o⟩ := r
    simp only at q1 q2 hfr hatt ⊢
    have hB' := hB.bq q1 hatt hfr.taskQ
    rcases q2 with rfl | ⟨e, rfl⟩
    · show BInv w' (w'.retryQ ++ rest)
      rw [hfr.retryQ]
      exact hB'.subQ (fun y hy hne => mem_drop_nonpub rfl hy hne) hE0
    · show BInv w' (w'.retryQ ++ [.reUnsub ts] ++ rest)
      rw [hfr.retryQ]
      exact hB'.subQ (fun y hy hne => mem_ins (mem_drop_nonpub rfl hy hne)) (hE1 _ trivial)

theorem retryLoop_B (k b : Nat) : ∀ (old : List Entry) (w : World), k + 1 = w.conns.length →
    qMsgs w.retryQ = [] → Core (att w) (qMsgs old ++ tMsgs w.taskQ) b → BInv w (w.retryQ ++ old) →
    BInv (retryLoop w k old) (retryLoop w k old).retryQ
  | [], w, _, _, _, hB => by
    unfold retryLoop
    simpa using hB
  | e :: rest, w, hk, hq, hc, hB => by
    rw [retryLoop_cons]
    split
    · rename_i hst
      rw [hB.1] at hst; cases hst
    · have hs := runEntry_spec { w with totalRetries := w.totalRetries + 1 } k e hk
      rw [qMsgs_cons, List.append_assoc] at hc
      have hb := runEntry_B { w with totalRetries := w.totalRetries + 1 } k e rest (tMsgs w.taskQ) b hk hq hc hB
      generalize runEntry { w with totalRetries := w.totalRetries + 1 } k e = r at hs hb
      obtain ⟨w2, o⟩ := r
      have hfr : Fr1 w w2 := Fr1.trans (b := { w with totalRetries := w.totalRetries + 1 }) ⟨rfl, rfl, rfl⟩ hs.fr
      have hc2 : Core (att w2) ((entryMsg e).toList ++ (qMsgs rest ++ tMsgs w.taskQ)) b :=
        Core.attempt_opt (entryMsg e) _ hc hs.att
      have hrec : w2.closeAfterTask = false → BInv w2 (w2.retryQ ++ rest) →
          BInv (retryLoop w2 k rest) (retryLoop w2 k rest).retryQ := by
        intro hcaf hb
        have h0 : w2.retryQ = w.retryQ := by
          rcases hs.q with h0 | ⟨h1, _⟩
          · exact h0
          · rw [hcaf] at h1; cases h1
        exact retryLoop_B k b rest w2 (by rw [hfr.len]; exact hk) (by rw [h0]; exact hq)
          (by rw [hfr.taskQ]; exact hc2.sub (by simp)) hb
      cases o with
      | stuck => exact hb.elim
      | done =>
        simp only at hb ⊢
        split
        · exact hb
        · rename_i hcaf
          exact hrec (by simpa using hcaf) hb
      | fail h err =>
        cases h with
        | some h => exact hb
        | none =>
          simp only at hb ⊢
          split
          · exact hb
          · rename_i hcaf
            exact hrec (by simpa using hcaf) hb

theorem BInv.superQ {w : World} {Q Q' : List Entry} (h : BInv w Q) (hs : ∀ x ∈ Q, x ∈ Q')
    (hE : ∀ x ∈ Q', EntryQ x) : BInv w Q' := h.subQ (fun x hx _ => hs x hx) hE

theorem BInv.snoc {w : World} {Q : List Entry} (h : BInv w Q) (x : Entry) (hx : EntryQ x) :
    BInv w (Q ++ [x]) := by
  refine h.superQ (fun y hy => List.mem_append_left _ hy) ?_
  intro y hy
  simp only [List.mem_append, List.mem_singleton] at hy
  rcases hy with hy | rfl
  · exact h.2.2.2.2.2.1 y hy
  · exact hx

theorem firstSub_B (w : World) (k : Nat) (subs) (hk : k + 1 = w.conns.length) (hB : BInv w w.retryQ) :
    BInv (firstSub w k subs) (firstSub w k subs).retryQ := by
  obtain ⟨q1, q2⟩ := subAttempt_bq w k subs hB.2.1
  have hfr := subAttempt_fr w k subs
  have hatt := subAttempt_att w k subs hk
  show BInv (absorb (subAttempt w k subs).1 (subAttempt w k subs).2)
    (absorb (subAttempt w k subs).1 (subAttempt w k subs).2).retryQ
  generalize subAttempt w k subs = r at q1 q2 hfr hatt
  obtain ⟨w', o⟩ := r
  simp only at q1 q2 hfr hatt ⊢
  have hB' := hB.bq q1 hatt hfr.taskQ
  rcases q2 with rfl | ⟨e, rfl⟩
  · show BInv w' w'.retryQ
    rw [hfr.retryQ]; exact hB'
  · show BInv w' (w'.retryQ ++ [.reSub subs])
    rw [hfr.retryQ]; exact hB'.snoc _ trivial

theorem firstUnsub_B (w : World) (k : Nat) (ts) (hk : k + 1 = w.conns.length) (hB : BInv w w.retryQ) :
    BInv (firstUnsub w k ts) (firstUnsub w k ts).retryQ := by
  obtain ⟨q1, q2⟩ := unsubAttempt_bq w k ts hB.2.1
  have hfr := unsubAttempt_fr w k ts
  have hatt := unsubAttempt_att w k ts hk
  show BInv (absorb (unsubAttempt w k ts).1 (unsubAttempt w k ts).2)
    (absorb (unsubAttempt w k ts).1 (unsubAttempt w k ts).2).retryQ
  generalize unsubAttempt w k ts = r at q1 q2 hfr hatt
  obtain ⟨w', o⟩ := r
  simp only at q1 q2 hfr hatt ⊢
  have hB' := hB.bq q1 hatt hfr.taskQ
  rcases q2 with rfl | ⟨e, rfl⟩
  · show BInv w' w'.retryQ
    rw [hfr.retryQ]; exact hB'
  · show BInv w' (w'.retryQ ++ [.reUnsub ts])
    rw [hfr.retryQ]; exact hB'.snoc _ trivial

theorem subscribeTask_B (w : World) (k : Nat) (subs) (hk : k + 1 = w.conns.length) (hB : BInv w w.retryQ) :
    BInv (subscribeTask w k subs) (subscribeTask w k subs).retryQ := by
  unfold subscribeTask
  simp only
  split
  · exact firstSub_B { w with subEst := applySubs w.subEst subs } k subs hk hB
  · exact hB.snoc (.qSub subs) trivial

theorem resubLoop_B (k : Nat) : ∀ (l : List Subscription) (w : World), k + 1 = w.conns.length →
    BInv w w.retryQ → BInv (resubLoop w k l) (resubLoop w k l).retryQ
  | [], _, _, hB => hB
  | s :: rest, w, hk, hB => by
    unfold resubLoop
    split
    · exact hB
    · exact resubLoop_B k rest _ (by rw [(subscribeTask_quiet w k [s] hk).fr.len]; exact hk)
        (subscribeTask_B w k [s] hk hB)

theorem BInv.quiet {w w' : World} (h : BInv w w.retryQ) (h1 : w'.stuck = w.stuck)
    (h2 : w'.faults = w.faults) (h3 : w'.broker.delivered = w.broker.delivered)
    (h4 : w'.broker.stash = w.broker.stash ∨ w'.broker.stash = []) (h5 : att w' = att w)
    (h6 : w'.pid = w.pid) (h7 : w'.retryQ = w.retryQ) (h8 : ∀ t ∈ w'.taskQ, TaskQ t) :
    BInv w' w'.retryQ := by
  obtain ⟨b1, b2, b3, b4, b5, b6, _⟩ := h
  have hl : ∀ m, lookupPid w' m = lookupPid w m := by intro m; unfold lookupPid; rw [h6]
  refine ⟨h1.trans b1, h2 ▸ b2, by rw [h3, h5]; exact b3, by rw [h3]; exact b4, ?_, by rw [h7]; exact b6, h8⟩
  rcases h4 with h4 | h4
  · rw [h4, h5, h7]; intro e he; rw [hl]; exact b5 e he
  · rw [h4]; intro e he; cases he

theorem runTask_B (w : World) (k : Nat) (t : Task) (b : Nat) (hk : k + 1 = w.conns.length)
    (hc : Core (att w) (qMsgs w.retryQ ++ ((taskMsg t).toList ++ tMsgs w.taskQ)) b)
    (hB : BInv w w.retryQ) (ht : TaskQ t) :
    BInv (runTask w k t) (runTask w k t).retryQ := by
  cases t with
  | req r =>
    cases r with
    | pub m q =>
      simp only [runTask]
      split
      · rename_i he
        have he : w.retryQ = [] := by simpa using he
        have h1 := runEntry_B w k (.qPub m q) [] (tMsgs w.taskQ) b hk (by rw [he]; rfl)
          (by rw [he] at hc; simpa [taskMsg, entryMsg] using hc) (hB.snoc _ ht)
        simpa [runEntry] using h1
      · split
        · exact hB.snoc _ ht
        · exact hB
    | sub subs => exact subscribeTask_B w k subs hk hB
    | unsub ts =>
      simp only [runTask]
      split
      · exact firstUnsub_B { w with subEst := applyUnsubs w.subEst ts } k ts hk hB
      · exact hB.snoc (.qUnsub ts) trivial
  | resubscribe => exact resubLoop_B k w.subEst { w with subEst := [] } hk hB
  | retry =>
    refine retryLoop_B k b w.retryQ { w with retryQ := [] } hk rfl ?_ ?_
    · show Core (att w) (qMsgs w.retryQ ++ tMsgs w.taskQ) b
      simpa [taskMsg] using hc
    · show BInv w ([] ++ w.retryQ)
      simpa using hB
  | disconnect =>
    simp only [runTask]
    split
    · refine hB.quiet rfl rfl rfl (.inl rfl) ?_ rfl rfl hB.2.2.2.2.2.2
      rw [att_kill, att_logPkt_quiet _ _ _ _ rfl]
    · refine hB.quiet rfl rfl rfl (.inl rfl) ?_ rfl rfl hB.2.2.2.2.2.2
      rw [att_logPkt_quiet _ _ _ _ rfl]

/-- the full invariant used for the delivery order -/
def Inv3 (w : World) (b : Nat) : Prop := Inv w b ∧ BInv w w.retryQ

theorem BInv.kill {w : World} (h : BInv w w.retryQ) (k : Nat) : BInv (kill w k) (kill w k).retryQ :=
  h.quiet rfl rfl rfl (.inl rfl) (att_kill w k) rfl rfl h.2.2.2.2.2.2

theorem BInv.setConn_quiet {w : World} (h : BInv w w.retryQ) (k : Nat) (c : Conn)
    (hc : pubMsgs c.pkts = pubMsgs (getConn w k).pkts) : BInv (setConn w k c) (setConn w k c).retryQ :=
  h.quiet rfl rfl rfl (.inl rfl) (att_setConn_quiet w k c hc) rfl rfl h.2.2.2.2.2.2

theorem BInv.logPkt_quiet {w : World} (h : BInv w w.retryQ) (k : Nat) (p : Pkt) (x : Wire)
    (hp : pktMsgs p = []) : BInv (logPkt w k p x) (logPkt w k p x).retryQ :=
  h.quiet rfl rfl rfl (.inl rfl) (att_logPkt_quiet w k p x hp) rfl rfl h.2.2.2.2.2.2

theorem BInv.pushTask {w : World} (h : BInv w w.retryQ) (t : Task) (ht : TaskQ t) :
    BInv (pushTask w t) (pushTask w t).retryQ := by
  refine h.quiet rfl rfl rfl (.inl rfl) rfl rfl rfl ?_
  intro t' ht'
  simp only [Retry.pushTask, List.mem_append, List.mem_singleton] at ht'
  rcases ht' with ht' | rfl
  · exact h.2.2.2.2.2.2 t' ht'
  · exact ht

theorem runTasks_inv3 (b : Nat) : ∀ (fuel : Nat) (w : World), Inv3 w b → Inv3 (runTasks fuel w) b
  | 0, w, h => by simpa [runTasks] using h
  | fuel + 1, w, h => by
    rw [runTasks]
    split
    · exact h
    · split
      · exact h
      · simp only
        split
        · exact h
        · exact h
        · rename_i t rest k htq hcli
          have hk := h.1.cliLast k hcli
          have hc := h.1.core
          rw [pend_def, htq, tMsgs_cons] at hc
          have hB0 : BInv { w with gConnected := true, taskQ := rest, totalTasks := w.totalTasks + 1 } w.retryQ := by
            refine h.2.quiet rfl rfl rfl (.inl rfl) rfl rfl rfl ?_
            intro t' ht'
            exact h.2.2.2.2.2.2.2 t' (by rw [htq]; exact List.mem_cons_of_mem _ ht')
          have htq' : TaskQ t := h.2.2.2.2.2.2.2 t (by rw [htq]; exact List.mem_cons_self)
          have hr := runTask_core { w with gConnected := true, taskQ := rest, totalTasks := w.totalTasks + 1 } k t b hk hc
          have hrB := runTask_B { w with gConnected := true, taskQ := rest, totalTasks := w.totalTasks + 1 } k t b hk hc hB0 htq'
          generalize runTask { w with gConnected := true, taskQ := rest, totalTasks := w.totalTasks + 1 } k t = w2 at hr hrB
          have hi2 : Inv w2 b := ⟨hr.2, fun j hj => by rw [hr.1.len]; exact h.1.cliLast j (by rw [← hj, hr.1.cli])⟩
          split
          · exact ⟨hi2, hrB⟩
          · apply runTasks_inv3 b fuel
            split
            · exact ⟨(hi2.kill k).of_fields rfl rfl rfl rfl, hrB.kill k⟩
            · exact ⟨hi2, hrB⟩

theorem loopReact_B {w : World} (h : BInv w w.retryQ) : BInv (loopReact w) (loopReact w).retryQ := by
  unfold loopReact
  split
  · split
    · exact h
    · split
      · exact h
      · exact h
  · exact h

theorem progress_inv3 {w : World} {b : Nat} (h : Inv3 w b) : Inv3 (progress w) b := by
  have h1 := runTasks_inv3 b (w.taskQ.length + 1) w h
  exact ⟨loopReact_inv h1.1, loopReact_B h1.2⟩

theorem deliverInbound_B {w : World} (h : BInv w w.retryQ) (k m qos : Nat) :
    BInv (deliverInbound w k m qos) (deliverInbound w k m qos).retryQ := by
  unfold deliverInbound
  simp only
  split
  · exact h
  · have key : ∀ w1 : World, BInv w1 w1.retryQ →
        BInv (if qos = 1 then logPkt w1 k (.puback (m + 1)) (.sent .ok) else w1)
          (if qos = 1 then logPkt w1 k (.puback (m + 1)) (.sent .ok) else w1).retryQ := by
      intro w1 h1
      split
      · exact h1.logPkt_quiet _ _ _ rfl
      · exact h1
    apply key
    split
    · exact h
    · exact h

theorem foldl_deliverInbound_B (k : Nat) : ∀ (l : List (Nat × Nat)) {w : World}, BInv w w.retryQ →
    BInv (l.foldl (fun w (mq : Nat × Nat) => deliverInbound w k mq.1 mq.2) w)
      (l.foldl (fun w (mq : Nat × Nat) => deliverInbound w k mq.1 mq.2) w).retryQ
  | [], _, h => h
  | mq :: rest, _, h => by
    simp only [List.foldl_cons]
    exact foldl_deliverInbound_B k rest (deliverInbound_B h k mq.1 mq.2)

theorem connectFailed_B {w : World} (h : BInv w w.retryQ) (k : Nat) :
    BInv (connectFailed w k) (connectFailed w k).retryQ := by
  unfold connectFailed
  have h1 := BInv.kill (w := { w with connReady := true }) h k
  simp only
  split
  · exact h1
  · exact h1

theorem connack_tail_B {w : World} (h : BInv w w.retryQ) (c c2 : Prop) [Decidable c] [Decidable c2]
    (ph : Phase) :
    BInv { (if c2 then (if c then pushTask w .resubscribe else w)
            else pushTask (if c then pushTask w .resubscribe else w) .retry) with
           initialized := true, phase := ph }
      ({ (if c2 then (if c then pushTask w .resubscribe else w)
          else pushTask (if c then pushTask w .resubscribe else w) .retry) with
         initialized := true, phase := ph } : World).retryQ := by
  have h4 : BInv (if c then pushTask w .resubscribe else w) (if c then pushTask w .resubscribe else w).retryQ := by
    split
    · exact h.pushTask _ trivial
    · exact h
  have h5 : BInv (if c2 then (if c then pushTask w .resubscribe else w)
      else pushTask (if c then pushTask w .resubscribe else w) .retry)
      (if c2 then (if c then pushTask w .resubscribe else w)
        else pushTask (if c then pushTask w .resubscribe else w) .retry).retryQ := by
    split
    · exact h4
    · exact h4.pushTask .retry trivial
  exact h5

theorem step_inv3 {w : World} {b : Nat} (e : Ev) (h : Inv3 w b)
    (hb : ∀ m q, e = .app (.pub m q) → b ≤ m) (hv : ∀ m q, e = .app (.pub m q) → q ≤ 2) :
    Inv3 (step w e) (nextBound b e) := by
  refine ⟨step_inv e h.1 hb, ?_⟩
  obtain ⟨hi, hB⟩ := h
  cases e with
  | start =>
    simp only [step]
    split
    · exact hB
    · split
      · split
        · exact hB
        · exact hB
      · exact hB
  | waitElapsed =>
    simp only [step]
    split
    · exact hB
    · exact hB
  | cancelCtx =>
    simp only [step]
    split
    · exact hB
    · split
      · exact hB
      · exact hB
      · split
        · exact hB
        · exact hB
      · rename_i k _
        refine (progress_inv3 (b := b) ⟨?_, ?_⟩).2
        · exact ((hi.of_fields (w' := { w with ctxCancelled := true, connReady := true }) rfl rfl rfl rfl).kill k).of_fields
            rfl rfl rfl rfl
        · exact BInv.kill (w := { w with ctxCancelled := true, connReady := true }) hB k
      · exact hB
      · exact hB
  | app r =>
    simp only [step]
    split
    · exact hB
    · refine (progress_inv3 (b := nextBound b (.app r)) ⟨?_, ?_⟩).2
      · -- the `Inv` part as in `step_inv`
        have h' : Inv { w with accepted := w.accepted ++ [r] } b := hi
        cases r with
        | pub m q =>
          refine ⟨?_, h'.cliLast⟩
          show Core (att w) (qMsgs w.retryQ ++ tMsgs (w.taskQ ++ [.req (.pub m q)])) (m + 1)
          rw [tMsgs_append, tMsgs_cons]
          simp only [taskMsg, Option.toList_some, tMsgs_nil, List.append_nil, ← List.append_assoc]
          exact hi.core.push (hb m q rfl)
        | sub _ => exact h'.pushQuiet _ rfl
        | unsub _ => exact h'.pushQuiet _ rfl
      · refine BInv.pushTask (w := { w with accepted := w.accepted ++ [r] }) hB _ ?_
        cases r with
        | pub m q => exact hv m q rfl
        | sub _ => trivial
        | unsub _ => trivial
  | dialOk idStart =>
    simp only [step]
    split
    · exact hB
    · split
      · refine (progress_inv3 (b := b) ⟨?_, ?_⟩).2
        · exact hi.newConn _ rfl _ rfl rfl rfl rfl
        · exact hB.quiet rfl rfl rfl (.inl rfl) (att_newConn _ rfl rfl) rfl rfl hB.2.2.2.2.2.2
      · exact hB.quiet rfl rfl rfl (.inl rfl) (att_newConn _ rfl rfl) rfl rfl hB.2.2.2.2.2.2
  | dialFail =>
    simp only [step]
    split
    · exact hB
    · split
      · exact hB
      · split
        · exact hB
        · exact hB
  | connackOk sp inbound =>
    simp only [step]
    split
    · rename_i k _
      refine (progress_inv3 (b := b) ⟨?_, ?_⟩).2
      · apply connack_tail_inv
        have h1 : Inv (setConn w k { getConn w k with connected := true }) b := hi.setConn_quiet k _ rfl
        exact foldl_deliverInbound_inv k inbound
          (w := { setConn w k { getConn w k with connected := true } with
            broker := if sp then (setConn w k { getConn w k with connected := true }).broker
                      else (setConn w k { getConn w k with connected := true }).broker.clearSession }) h1
      · apply connack_tail_B
        have h1 : BInv (setConn w k { getConn w k with connected := true })
            (setConn w k { getConn w k with connected := true }).retryQ := hB.setConn_quiet k _ rfl
        have h2 : BInv { setConn w k { getConn w k with connected := true } with
            broker := if sp then (setConn w k { getConn w k with connected := true }).broker
                      else (setConn w k { getConn w k with connected := true }).broker.clearSession }
            (setConn w k { getConn w k with connected := true }).retryQ := by
          refine h1.quiet rfl rfl ?_ ?_ rfl rfl rfl h1.2.2.2.2.2.2
          · cases sp <;> rfl
          · cases sp
            · exact .inr rfl
            · exact .inl rfl
        exact foldl_deliverInbound_B k inbound h2
    · exact hB
  | connackRefused =>
    simp only [step]
    split
    · exact (progress_inv3 ⟨connectFailed_inv hi _, connectFailed_B hB _⟩).2
    · exact hB
  | connackNever =>
    simp only [step]
    split
    · split
      · exact (progress_inv3 ⟨connectFailed_inv hi _, connectFailed_B hB _⟩).2
      · exact hB
    · exact hB
  | peerClose =>
    simp only [step]
    split
    · exact (progress_inv3 ⟨hi.kill _, hB.kill _⟩).2
    · exact hB
  | inbound m qos =>
    simp only [step]
    split
    · exact deliverInbound_B hB _ _ _
    · exact hB
  | handle hd =>
    simp only [step]
    split
    · exact BInv.setConn_quiet (w := { w with handler := some hd }) hB _ _ rfl
    · exact hB
  | disconnect =>
    simp only [step]
    split
    · exact hB
    · have h1 : Inv3 (progress { (pushTask w .disconnect) with stopped := true }) b :=
        progress_inv3 ⟨(hi.pushQuiet .disconnect rfl).of_fields rfl rfl rfl rfl, hB.pushTask .disconnect trivial⟩
      generalize progress { (pushTask w .disconnect) with stopped := true } = w2 at h1
      split
      · exact h1.2
      · exact h1.2
      · exact h1.2

theorem init_inv3 (s : Script) (hs : Fault.silent ∉ s.faults) : Inv3 (init s) 0 := by
  refine ⟨init_inv s, rfl, hs, ?_, ?_, ?_, ?_, ?_⟩ <;> simp [init]

theorem foldl_inv3 : ∀ (evs : List Ev) (w : World) (b : Nat), Inv3 w b → (pubsOf evs).Pairwise (· < ·) →
    (∀ m ∈ pubsOf evs, b ≤ m) → (∀ m q, Ev.app (.pub m q) ∈ evs → q ≤ 2) →
    ∃ b', Inv3 (evs.foldl step w) b'
  | [], w, b, h, _, _, _ => ⟨b, h⟩
  | e :: rest, w, b, h, hp, hb, hv => by
    simp only [List.foldl_cons]
    have hv' : ∀ m q, Ev.app (.pub m q) ∈ rest → q ≤ 2 := fun m q hm => hv m q (List.mem_cons_of_mem _ hm)
    have hve : ∀ m q, e = .app (.pub m q) → q ≤ 2 := fun m q he => hv m q (he ▸ List.mem_cons_self)
    by_cases he : ∃ m q, e = .app (.pub m q)
    · obtain ⟨m, q, rfl⟩ := he
      have hpo : pubsOf (Ev.app (.pub m q) :: rest) = m :: pubsOf rest := rfl
      rw [hpo] at hp hb
      rw [List.pairwise_cons] at hp
      have h1 := step_inv3 (.app (.pub m q)) h (fun m' q' heq => by
        cases heq; exact hb _ List.mem_cons_self) hve
      exact foldl_inv3 rest _ _ h1 hp.2 (fun m' hm' => by
        have := hp.1 m' hm'; simp only [nextBound]; omega) hv'
    · have hpo : pubsOf (e :: rest) = pubsOf rest := by
        unfold pubsOf
        rw [List.filterMap_cons]
        split
        · rfl
        · rename_i m hm
          split at hm
          · rename_i m' q'; exact absurd ⟨m', q', rfl⟩ he
          · cases hm
      rw [hpo] at hp hb
      have h1 := step_inv3 e h (fun m q heq => absurd ⟨m, q, heq⟩ he) hve
      have hnb : nextBound b e = b := by
        unfold nextBound
        split
        · rename_i m q; exact absurd ⟨m, q, rfl⟩ he
        · rfl
      rw [hnb] at h1
      exact foldl_inv3 rest _ _ h1 hp hb hv'

/-- onward deliveries of the broker are in submission order (re-deliveries repeat a message) -/
theorem delivered_sorted (s : Script) (hi : Script.Increasing s) (hs : Fault.silent ∉ s.faults)
    (hv : ∀ m q, Ev.app (.pub m q) ∈ s.evs → q ≤ 2) :
    (exec s).broker.delivered.Pairwise (· ≤ ·) := by
  obtain ⟨b, h⟩ := foldl_inv3 s.evs (init s) 0 (init_inv3 s hs) hi (fun _ _ => Nat.zero_le _) hv
  exact h.2.2.2.2.1

/-! ## ALL REQUEST KINDS (publish, subscribe, unsubscribe): a ghost labelling of the run

  The wire log `Conn.pkts` does not say on whose behalf a SUBSCRIBE packet was written: the
  application's Subscribe request, or the library's own re-subscription pass (`resubLoop`, one filter
  per packet). The ghost below replays the run next to the model (same control skeleton; the worlds are
  those of the model, nothing of the model is changed) and carries a label for every element of
  `taskQ` and `retryQ` and for every request packet attempted: `some i` for the application's `i`-th
  request, `none` for the library's own.

  * `gatt_sorted`: the labels `some i` of the attempted request packets are non-decreasing (`Core`
    with the ghost in place of `att` / `pend`), for every script;
  * `gExec_wire`: the labels match the wire log packet by packet (`All2 (LabKey …)`): the ghost is not
    an independent story but an annotation of `Conn.pkts`.
-/

/-- label of a task / retry-queue entry / request packet: `some i` — it belongs to the application's
    `i`-th request (counting every `.app` event of the script from 0); `none` — the library's own
    (re-subscription of one established filter, `Retry`, `Disconnect`) -/
abbrev Lab := Option Nat

/-- the content of a request, QoS aside -/
inductive Key
  | pub (m : Nat)
  | sub (subs : List Subscription)
  | unsub (ts : List Bytes)
  deriving DecidableEq, Repr

def reqKey : Req → Key
  | .pub m _ => .pub m
  | .sub subs => .sub subs
  | .unsub ts => .unsub ts

def entryKey : Entry → Key
  | .rePublish m _ => .pub m
  | .rePubRel m => .pub m
  | .qPub m _ => .pub m
  | .reSub subs => .sub subs
  | .qSub subs => .sub subs
  | .reUnsub ts => .unsub ts
  | .qUnsub ts => .unsub ts

/-- PUBLISH, SUBSCRIBE and UNSUBSCRIBE are the packets that carry a request -/
def pktKey : Pkt → Option Key
  | .publish m _ _ _ => some (.pub m)
  | .subscribe _ subs => some (.sub subs)
  | .unsubscribe _ ts => some (.unsub ts)
  | _ => none

/-- the ghost state that accompanies a world -/
structure Gh where
  tq : List Lab := []      -- labels of `taskQ`, position by position
  rq : List Lab := []      -- labels of `retryQ`, position by position
  out : List Lab := []     -- labels of the request packets attempted so far, in wire order
  deriving Repr

def apps (l : List Lab) : List Nat := l.filterMap id

/-- `l` appended when the queue has grown -/
def extLab (cur : List Lab) (l : Lab) (grown : Bool) : List Lab := if grown then cur ++ [l] else cur

def isRel : Entry → Bool
  | .rePubRel _ => true
  | _ => false

/-- ghost of `retryLoop` (started on an emptied queue): labels of the resulting retry queue and of the
    request packets attempted. `ls` labels `old`. -/
def gRetryLoop (w : World) (k : Nat) : List Entry → List Lab → List Lab × List Lab
  | [], _ => ([], [])
  | e :: rest, ls =>
    if w.stuck then ([], [])
    else
      let l := ls.headD none
      let r := runEntry { w with totalRetries := w.totalRetries + 1 } k e
      -- whatever the entry has put into the (empty) queue is its own handle
      let cur := extLab [] l (! r.1.retryQ.isEmpty)
      let em := if isRel e then [] else [l]
      match r.2 with
      | .fail (some _) _ => (cur ++ [l] ++ ls.tail, em)
      | .stuck => (cur, em)
      | _ =>
        if r.1.closeAfterTask then (cur ++ ls.tail, em)
        else ((gRetryLoop r.1 k rest ls.tail).1, em ++ (gRetryLoop r.1 k rest ls.tail).2)

/-- ghost of `resubLoop`: everything it transmits or queues is the library's own -/
def gResubLoop (w : World) (k : Nat) : List Subscription → List Lab → List Lab × List Lab
  | [], cur => (cur, [])
  | s :: rest, cur =>
    if w.stuck then (cur, [])
    else
      let w' := subscribeTask w k [s]
      let em := if w.retryQ.isEmpty then [none] else []
      let g := gResubLoop w' k rest (extLab cur none (w'.retryQ.length > w.retryQ.length))
      (g.1, em ++ g.2)

/-- ghost of `runTask` for a task labelled `l`; `cur` labels `w.retryQ` -/
def gRunTask (w : World) (k : Nat) (t : Task) (l : Lab) (cur : List Lab) : List Lab × List Lab :=
  match t with
  | .req _ =>
    -- transmitted at once (a failed attempt leaves its handle), queued behind the others, or dropped
    (extLab cur l ((runTask w k t).retryQ.length > w.retryQ.length), if w.retryQ.isEmpty then [l] else [])
  | .resubscribe => gResubLoop { w with subEst := [] } k w.subEst cur
  | .retry => gRetryLoop { w with retryQ := [] } k w.retryQ cur
  | .disconnect => (cur, [])

/-- ghost of `runTasks` (same control skeleton, the worlds are those of the model) -/
def gRunTasks : Nat → World → Gh → Gh
  | 0, _, g => g
  | fuel + 1, w, g =>
    if ¬ w.goroutine ∨ w.stuck then g
    else
      if ¬ w.gConnected ∧ ¬ w.connReady then g
      else
        let w := { w with gConnected := true }
        match w.taskQ, w.cli with
        | [], _ => g
        | _, none => g
        | t :: rest, some k =>
          let w1 := { w with taskQ := rest, totalTasks := w.totalTasks + 1 }
          let r := gRunTask w1 k t (g.tq.headD none) g.rq
          let g' : Gh := { tq := g.tq.tail, rq := r.1, out := g.out ++ r.2 }
          let w2 := runTask w1 k t
          if w2.stuck then g'
          else
            let w3 := if w2.closeAfterTask then { kill w2 k with gConnected := false, closeAfterTask := false } else w2
            gRunTasks fuel w3 g'

def gProgress (w : World) (g : Gh) : Gh := gRunTasks (w.taskQ.length + 1) w g

/-- the head of the `.connackOk` case of `step`: CONNACK accepted, inbound messages served -/
def connackMid (w : World) (sp : Bool) (inbound : List (Nat × Nat)) (k : Nat) : World :=
  let c := getConn w k
  let w := setConn w k { c with connected := true }
  let w := { w with broker := if sp then w.broker else w.broker.clearSession }
  let w := inbound.foldl (fun w (mq : Nat × Nat) => deliverInbound w k mq.1 mq.2) w
  { w with connReady := true, waitExp := 0,
           connectReturned := if w.connectReturned.isNone then some sp else w.connectReturned }

/-- the tail of the `.connackOk` case of `step`: `Resubscribe` / `Retry` are pushed -/
def connackPre (w : World) (sp : Bool) (k : Nat) : World :=
  let w := if w.initialized ∧ (¬ sp ∨ w.cfg.always) ∧ ¬ w.stopped then pushTask w .resubscribe else w
  let w := if w.stopped then w else pushTask w .retry
  { w with initialized := true, phase := if w.stopped then .exited else .up k }

/-- the `.dialOk` case of `step` for a first Connect whose context was cancelled while a dialer that ignores
    its context was dialling (`Cfg.deafDialer`): the new, already dead connection that carries only CONNECT is
    installed, the loop has exited; the world before `progress` -/
def dialDead (w : World) (idStart : Nat) : World :=
  let k := w.conns.length
  let c : Conn := { ctr := idStart, handler := w.handler, pkts := [(.connect, .sent .ok)], alive := false }
  let idleConnected := w.goroutine ∧ w.gConnected ∧ ¬ w.stuck
  { w with conns := w.conns ++ [c], cli := some k, connReady := true, goroutine := true,
           gConnected := if idleConnected then false else w.gConnected,
           phase := .exited }

/-- the world on which `step w e` calls `progress` (`none`: the task goroutine is not given a turn).
    A copy of the corresponding sub-terms of `step`, tied to it by `step_pre`. -/
def preProgress (w : World) : Ev → Option World
  | .app r => if w.stopped then none else some (pushTask { w with accepted := w.accepted ++ [r] } (.req r))
  | .dialOk idStart =>
    if w.phase ≠ .dialGate then none
    else if w.ctxCancelled ∧ w.connectReturned.isNone then some (dialDead w idStart)
    else none
  | .cancelCtx =>
    if w.ctxCancelled ∨ w.connectReturned.isSome then none
    else match w.phase with
      | .connackGate k =>
        some { kill { w with ctxCancelled := true, connReady := true } k with phase := .exited, connectErr := true }
      | _ => none
  | .connackOk sp inbound =>
    match w.phase with
    | .connackGate k => some (connackPre (connackMid w sp inbound k) sp k)
    | _ => none
  | .connackRefused =>
    match w.phase with
    | .connackGate k => some (connectFailed w k)
    | _ => none
  | .connackNever =>
    match w.phase with
    | .connackGate k => if w.cfg.connectTimeout then some (connectFailed w k) else none
    | _ => none
  | .peerClose =>
    match w.phase with
    | .up k => some (kill w k)
    | _ => none
  | .disconnect => if w.stopped then none else some { pushTask w .disconnect with stopped := true }
  | _ => none

/-- ghost of `step`; `n` is the number of `.app` events before this one. Tasks pushed by the event
    are the application's request `n` (`.app`) or the library's (`Resubscribe`, `Retry`, `Disconnect`). -/
def evLab (n : Nat) : Ev → Lab
  | .app _ => some n
  | _ => none

def gStep (w : World) (g : Gh) (n : Nat) (e : Ev) : Gh :=
  match preProgress w e with
  | none => g
  | some w1 => gProgress w1 { g with tq := g.tq ++ List.replicate (w1.taskQ.length - w.taskQ.length) (evLab n e) }

def nextIdx (n : Nat) : Ev → Nat
  | .app _ => n + 1
  | _ => n

def gRun : List Ev → World → Gh → Nat → Gh
  | [], _, g, _ => g
  | e :: rest, w, g, n => gRun rest (step w e) (gStep w g n e) (nextIdx n e)

/-- the ghost of the whole run -/
def gExec (s : Script) : Gh := gRun s.evs (init s) {} 0

def appReqs (evs : List Ev) : List Req := evs.filterMap (fun e => match e with | .app r => some r | _ => none)

/-! ### frame facts without reference to the wire -/

/-- what running one retry-queue entry (or first-transmission closure) with key `κ` does to the queues -/
structure EntryG (w w' : World) (o : Outcome) (κ : Key) : Prop where
  fr : Fr1 w w'
  qfail : ∀ h err, o = .fail (some h) err → entryKey h = κ ∧ w'.retryQ = w.retryQ
  q : (w'.retryQ = w.retryQ ∧ w'.closeAfterTask = w.closeAfterTask) ∨
      (w'.closeAfterTask = true ∧ ∃ h, w'.retryQ = w.retryQ ++ [h] ∧ entryKey h = κ)

theorem absorb_g (w0 w : World) (o : Outcome) (κ : Key) (hfr : Fr w0 w)
    (hh : ∀ h e, o = .fail (some h) e → entryKey h = κ) : EntryG w0 (absorb w o) .done κ := by
  unfold absorb
  split
  · exact ⟨hfr.fr1, by simp, .inl ⟨hfr.retryQ, hfr.caf⟩⟩
  · exact ⟨hfr.fr1, by simp, .inl ⟨hfr.retryQ, hfr.caf⟩⟩
  · exact ⟨hfr.fr1, by simp, .inl ⟨hfr.retryQ, hfr.caf⟩⟩
  · rename_i h e
    refine ⟨⟨hfr.taskQ, hfr.cli, hfr.len⟩, by simp, .inr ⟨rfl, h, ?_, hh h e rfl⟩⟩
    simp [hfr.retryQ]

theorem relAttempt_key (w : World) (k m id : Nat) (h : Entry) (e : ErrKind) :
    (relAttempt w k m id).2 = .fail (some h) e → entryKey h = .pub m := by
  intro hh; rw [relAttempt_handle w k m id h e hh]; rfl

theorem pubAttempt_key (w : World) (k m qos : Nat) (dup : Bool) (h : Entry) (e : ErrKind) :
    (pubAttempt w k m qos dup).2 = .fail (some h) e → entryKey h = .pub m := by
  rw [pubAttempt_eq]
  simp only
  split
  · split
    · exact relAttempt_key _ _ _ _ _ _
    · split <;> simp
  · simp
  · split <;> simp
    intro h1 _; rw [← h1]; rfl

theorem subAttempt_key (w : World) (k : Nat) (subs) (h : Entry) (e : ErrKind) :
    (subAttempt w k subs).2 = .fail (some h) e → entryKey h = .sub subs := by
  rw [subAttempt_eq]
  simp only
  split <;> simp
  intro h1 _; rw [← h1]; rfl

theorem unsubAttempt_key (w : World) (k : Nat) (ts) (h : Entry) (e : ErrKind) :
    (unsubAttempt w k ts).2 = .fail (some h) e → entryKey h = .unsub ts := by
  rw [unsubAttempt_eq]
  simp only
  split <;> simp
  intro h1 _; rw [← h1]; rfl

theorem firstPub_g (w : World) (k m qos : Nat) : EntryG w (firstPub w k m qos) .done (.pub m) :=
  absorb_g w _ _ _ (pubAttempt_fr w k m qos false) (pubAttempt_key w k m qos false)

theorem firstSub_g (w : World) (k : Nat) (subs) : EntryG w (firstSub w k subs) .done (.sub subs) :=
  absorb_g w _ _ _ (subAttempt_fr w k subs) (subAttempt_key w k subs)

theorem firstUnsub_g (w : World) (k : Nat) (ts) : EntryG w (firstUnsub w k ts) .done (.unsub ts) :=
  absorb_g w _ _ _ (unsubAttempt_fr w k ts) (unsubAttempt_key w k ts)

theorem EntryG.ofFr {w w' : World} {o : Outcome} {κ : Key} (hfr : Fr w w')
    (hh : ∀ h e, o = .fail (some h) e → entryKey h = κ) : EntryG w w' o κ :=
  ⟨hfr.fr1, fun h e he => ⟨hh h e he, hfr.retryQ⟩, .inl ⟨hfr.retryQ, hfr.caf⟩⟩

theorem runEntry_g (w : World) (k : Nat) (e : Entry) :
    EntryG w (runEntry w k e).1 (runEntry w k e).2 (entryKey e) := by
  cases e with
  | qPub m qos => exact firstPub_g w k m qos
  | qSub subs => exact firstSub_g w k subs
  | qUnsub ts => exact firstUnsub_g w k ts
  | rePublish m qos => exact .ofFr (pubAttempt_fr w k m qos true) (pubAttempt_key w k m qos true)
  | rePubRel m => exact .ofFr (relAttempt_fr w k m _) (relAttempt_key w k m _)
  | reSub subs => exact .ofFr (subAttempt_fr w k subs) (subAttempt_key w k subs)
  | reUnsub ts => exact .ofFr (unsubAttempt_fr w k ts) (unsubAttempt_key w k ts)

/-! ### the order invariant on the ghost -/

@[simp] theorem apps_nil : apps [] = [] := rfl
theorem apps_cons (l : Lab) (ls : List Lab) : apps (l :: ls) = l.toList ++ apps ls := by
  cases l <;> simp [apps]
theorem apps_append (a b : List Lab) : apps (a ++ b) = apps a ++ apps b := by simp [apps]
theorem apps_single (l : Lab) : apps [l] = l.toList := by rw [apps_cons]; simp

theorem Core.attemptLab {A P b} (l : Lab) (h : Core A (l.toList ++ P) b) :
    Core (A ++ l.toList) (l.toList ++ P) b := by
  cases l with
  | none => simpa using h
  | some i => exact Core.attempt h

theorem Core.mono {A P b b'} (h : Core A P b) (hb : b ≤ b') : Core A P b' :=
  ⟨h.attLe, h.pendLt, h.le, fun a ha => Nat.lt_of_lt_of_le (h.attB a ha) hb,
    fun a ha => Nat.lt_of_lt_of_le (h.pendB a ha) hb⟩

theorem extLab_false (cur : List Lab) (l : Lab) : extLab cur l false = cur := rfl
theorem extLab_true (cur : List Lab) (l : Lab) : extLab cur l true = cur ++ [l] := rfl

theorem gRetryLoop_cons (w : World) (k : Nat) (e : Entry) (rest : List Entry) (ls : List Lab) :
    gRetryLoop w k (e :: rest) ls =
      if w.stuck then ([], [])
      else
        let l := ls.headD none
        let r := runEntry { w with totalRetries := w.totalRetries + 1 } k e
        let cur := extLab [] l (! r.1.retryQ.isEmpty)
        let em := if isRel e then [] else [l]
        match r.2 with
        | .fail (some _) _ => (cur ++ [l] ++ ls.tail, em)
        | .stuck => (cur, em)
        | _ =>
          if r.1.closeAfterTask then (cur ++ ls.tail, em)
          else ((gRetryLoop r.1 k rest ls.tail).1, em ++ (gRetryLoop r.1 k rest ls.tail).2) := by
  rw [gRetryLoop]
  try rfl

theorem gRetryLoop_core (k b : Nat) (T : List Nat) : ∀ (old : List Entry) (w : World) (ls : List Lab)
    (A : List Nat), ls.length = old.length → w.retryQ = [] → Core A (apps ls ++ T) b →
    Fr1 w (retryLoop w k old) ∧
    Core (A ++ apps (gRetryLoop w k old ls).2) (apps (gRetryLoop w k old ls).1 ++ T) b ∧
    (gRetryLoop w k old ls).1.length = (retryLoop w k old).retryQ.length
  | [], w, ls, A, hl, hq, hc => by
    have : ls = [] := by simpa using hl
    subst this
    simp only [retryLoop, gRetryLoop, hq]
    exact ⟨Fr1.rfl' w, by simpa using hc, rfl⟩
  | e :: rest, w, ls, A, hl, hq, hc => by
    obtain ⟨l, ls', rfl⟩ : ∃ l ls', ls = l :: ls' := by
      cases ls with
      | nil => simp at hl
      | cons l ls' => exact ⟨l, ls', rfl⟩
    have hl' : ls'.length = rest.length := by simpa using hl
    rw [retryLoop_cons, gRetryLoop_cons]
    split
    · refine ⟨Fr1.rfl' w, ?_, by simp [hq]⟩
      simp only [apps_nil, List.append_nil, List.nil_append]
      exact hc.sub (by simp)
    · have hs := runEntry_g { w with totalRetries := w.totalRetries + 1 } k e
      generalize runEntry { w with totalRetries := w.totalRetries + 1 } k e = r at hs
      obtain ⟨w2, o⟩ := r
      simp only [List.headD_cons, List.tail_cons] at hs ⊢
      have hfr : Fr1 w w2 := Fr1.trans (b := { w with totalRetries := w.totalRetries + 1 }) ⟨rfl, rfl, rfl⟩ hs.fr
      rw [apps_cons, List.append_assoc] at hc
      have hc2 : Core (A ++ apps (if isRel e then [] else [l])) (l.toList ++ (apps ls' ++ T)) b := by
        split
        · simpa using hc
        · rw [apps_single]; exact hc.attemptLab
      generalize (if isRel e then [] else [l]) = em at hc2
      -- the queue after the entry: still empty, or the entry's own handle
      have hqq : (w2.retryQ = [] ∧ w2.closeAfterTask = w.closeAfterTask ∧ extLab [] l (! w2.retryQ.isEmpty) = []) ∨
          (w2.closeAfterTask = true ∧ w2.retryQ.length = 1 ∧ extLab [] l (! w2.retryQ.isEmpty) = [l]) := by
        rcases hs.q with ⟨h1, h2⟩ | ⟨hcaf, h, h1, _⟩
        · left
          have : w2.retryQ = [] := by rw [h1]; exact hq
          exact ⟨this, h2, by rw [this]; rfl⟩
        · right
          have : w2.retryQ = [h] := by rw [h1]; show w.retryQ ++ [h] = [h]; rw [hq]; rfl
          exact ⟨hcaf, by rw [this]; rfl, by rw [this]; rfl⟩
      cases o with
      | stuck =>
        refine ⟨hfr, ?_, ?_⟩
        · rcases hqq with ⟨_, _, h0⟩ | ⟨_, _, h0⟩ <;> rw [h0]
          · exact hc2.sub (by simp)
          · rw [apps_single]; exact hc2.sub (by simp)
        · rcases hqq with ⟨h1, _, h0⟩ | ⟨_, h1, h0⟩ <;> rw [h0, h1] <;> rfl
      | fail ho err =>
        cases ho with
        | some h =>
          have hh := (hs.qfail h err rfl).2
          have hw2 : w2.retryQ = [] := by rw [hh]; exact hq
          refine ⟨⟨hfr.taskQ, hfr.cli, hfr.len⟩, ?_, ?_⟩
          · simp only [hw2, List.isEmpty_nil, Bool.not_true, extLab_false, List.nil_append]
            rw [apps_append, apps_single, List.append_assoc]; exact hc2
          · simp [hw2, extLab_false, hl']
        | none =>
          simp only
          split
          · refine ⟨⟨hfr.taskQ, hfr.cli, hfr.len⟩, ?_, ?_⟩
            · rcases hqq with ⟨_, _, h0⟩ | ⟨_, _, h0⟩ <;> rw [h0]
              · exact hc2.sub (by simp)
              · rw [apps_append, apps_single, List.append_assoc]; exact hc2
            · rcases hqq with ⟨h1, _, h0⟩ | ⟨_, h1, h0⟩ <;> rw [h0] <;> simp only [List.length_append, List.length_cons, List.length_nil, h1, hl'] <;> omega
          · rename_i hcaf
            have h0 : w2.retryQ = [] := by
              rcases hqq with ⟨h0, _⟩ | ⟨h1, _⟩
              · exact h0
              · exact absurd h1 hcaf
            have ih := gRetryLoop_core k b T rest w2 ls' (A ++ apps em) hl' h0 (hc2.sub (by simp))
            refine ⟨hfr.trans ih.1, ?_, ih.2.2⟩
            rw [apps_append, ← List.append_assoc]; exact ih.2.1
      | done =>
        simp only
        split
        · refine ⟨⟨hfr.taskQ, hfr.cli, hfr.len⟩, ?_, ?_⟩
          · rcases hqq with ⟨_, _, h0⟩ | ⟨_, _, h0⟩ <;> rw [h0]
            · exact hc2.sub (by simp)
            · rw [apps_append, apps_single, List.append_assoc]; exact hc2
          · rcases hqq with ⟨h1, _, h0⟩ | ⟨_, h1, h0⟩ <;> rw [h0] <;> simp only [List.length_append, List.length_cons, List.length_nil, h1, hl'] <;> omega
        · rename_i hcaf
          have h0 : w2.retryQ = [] := by
            rcases hqq with ⟨h0, _⟩ | ⟨h1, _⟩
            · exact h0
            · exact absurd h1 hcaf
          have ih := gRetryLoop_core k b T rest w2 ls' (A ++ apps em) hl' h0 (hc2.sub (by simp))
          refine ⟨hfr.trans ih.1, ?_, ih.2.2⟩
          rw [apps_append, ← List.append_assoc]; exact ih.2.1

/-- a request task (or one step of `Resubscribe`) with key `κ`: the queue is unchanged or has one
    more entry, of that key, at its end -/
structure Grow1 (w w' : World) (κ : Key) : Prop where
  fr : Fr1 w w'
  q : w'.retryQ = w.retryQ ∨ ∃ x, w'.retryQ = w.retryQ ++ [x] ∧ entryKey x = κ

theorem EntryG.grow1 {w w' : World} {o : Outcome} {κ : Key} (h : EntryG w w' o κ) : Grow1 w w' κ := by
  refine ⟨h.fr, ?_⟩
  rcases h.q with ⟨h1, _⟩ | ⟨_, x, h1, h2⟩
  · exact .inl h1
  · exact .inr ⟨x, h1, h2⟩

theorem subscribeTask_g (w : World) (k : Nat) (subs) : Grow1 w (subscribeTask w k subs) (.sub subs) := by
  unfold subscribeTask
  simp only
  split
  · have h := (firstSub_g { w with subEst := applySubs w.subEst subs } k subs).grow1
    exact ⟨⟨h.fr.taskQ, h.fr.cli, h.fr.len⟩, h.q⟩
  · exact ⟨⟨rfl, rfl, rfl⟩, .inr ⟨_, rfl, rfl⟩⟩

theorem runTask_req_g (w : World) (k : Nat) (r : Req) : Grow1 w (runTask w k (.req r)) (reqKey r) := by
  cases r with
  | pub m qos =>
    simp only [runTask]
    split
    · exact (firstPub_g w k m qos).grow1
    · split
      · exact ⟨⟨rfl, rfl, rfl⟩, .inr ⟨_, rfl, rfl⟩⟩
      · exact ⟨Fr1.rfl' w, .inl rfl⟩
  | sub subs => exact subscribeTask_g w k subs
  | unsub ts =>
    simp only [runTask]
    split
    · have h := (firstUnsub_g { w with subEst := applyUnsubs w.subEst ts } k ts).grow1
      exact ⟨⟨h.fr.taskQ, h.fr.cli, h.fr.len⟩, h.q⟩
    · exact ⟨⟨rfl, rfl, rfl⟩, .inr ⟨_, rfl, rfl⟩⟩

theorem Grow1.extLab {w w' : World} {κ : Key} (h : Grow1 w w' κ) (cur : List Lab) (l : Lab) :
    (w'.retryQ = w.retryQ ∧ extLab cur l (w'.retryQ.length > w.retryQ.length) = cur) ∨
    ((∃ x, w'.retryQ = w.retryQ ++ [x] ∧ entryKey x = κ) ∧
      extLab cur l (w'.retryQ.length > w.retryQ.length) = cur ++ [l]) := by
  rcases h.q with h1 | ⟨x, h1, h2⟩
  · left; refine ⟨h1, ?_⟩; rw [h1]; simp [C03.extLab]
  · right; refine ⟨⟨x, h1, h2⟩, ?_⟩; rw [h1]; simp [C03.extLab]

theorem gResubLoop_spec (k : Nat) : ∀ (l : List Subscription) (w : World) (cur : List Lab),
    cur.length = w.retryQ.length →
    Fr1 w (resubLoop w k l) ∧ apps (gResubLoop w k l cur).1 = apps cur ∧
    apps (gResubLoop w k l cur).2 = [] ∧
    (gResubLoop w k l cur).1.length = (resubLoop w k l).retryQ.length
  | [], w, cur, hlen => ⟨Fr1.rfl' w, rfl, rfl, hlen⟩
  | s :: rest, w, cur, hlen => by
    unfold resubLoop gResubLoop
    split
    · exact ⟨Fr1.rfl' w, rfl, rfl, hlen⟩
    · have hg := subscribeTask_g w k [s]
      have he := hg.extLab cur none
      simp only
      generalize C03.extLab cur none (decide ((subscribeTask w k [s]).retryQ.length > w.retryQ.length)) = cur' at he
      have hlen' : cur'.length = (subscribeTask w k [s]).retryQ.length := by
        rcases he with ⟨h1, h2⟩ | ⟨⟨x, h1, _⟩, h2⟩
        · rw [h2, h1]; exact hlen
        · rw [h2, h1]; simp [hlen]
      have hap : apps cur' = apps cur := by
        rcases he with ⟨_, h2⟩ | ⟨_, h2⟩
        · rw [h2]
        · rw [h2, apps_append]; simp [apps]
      have ih := gResubLoop_spec k rest (subscribeTask w k [s]) cur' hlen'
      refine ⟨hg.fr.trans ih.1, ih.2.1.trans hap, ?_, ih.2.2.2⟩
      rw [apps_append, ih.2.2.1]
      split <;> simp [apps]

theorem gRunTask_core (w : World) (k : Nat) (t : Task) (l : Lab) (cur : List Lab) (b : Nat)
    (A T : List Nat) (hlen : cur.length = w.retryQ.length)
    (hc : Core A (apps cur ++ (l.toList ++ T)) b) :
    Fr1 w (runTask w k t) ∧
    Core (A ++ apps (gRunTask w k t l cur).2) (apps (gRunTask w k t l cur).1 ++ T) b ∧
    (gRunTask w k t l cur).1.length = (runTask w k t).retryQ.length := by
  have hc0 : Core A (apps cur ++ T) b := hc.sub (by simp)
  cases t with
  | req r =>
    have hg := runTask_req_g w k r
    have he := hg.extLab cur l
    simp only [gRunTask]
    generalize C03.extLab cur l (decide ((runTask w k (.req r)).retryQ.length > w.retryQ.length)) = cur' at he
    refine ⟨hg.fr, ?_, ?_⟩
    · by_cases hemp : w.retryQ.isEmpty
      · have hcur : cur = [] := by
          have : w.retryQ = [] := by simpa using hemp
          rw [this] at hlen; simpa using hlen
        subst hcur
        simp only [hemp, if_true, apps_single]
        simp only [apps_nil, List.nil_append] at hc
        rcases he with ⟨_, h2⟩ | ⟨_, h2⟩ <;> rw [h2]
        · exact hc.attemptLab.sub (by simp)
        · simp only [List.nil_append, apps_single]; exact hc.attemptLab
      · simp only [hemp, Bool.false_eq_true, if_false, apps_nil, List.append_nil]
        rcases he with ⟨_, h2⟩ | ⟨_, h2⟩ <;> rw [h2]
        · exact hc0
        · rw [apps_append, apps_single, List.append_assoc]; exact hc
    · rcases he with ⟨h1, h2⟩ | ⟨⟨x, h1, _⟩, h2⟩
      · rw [h2, h1]; exact hlen
      · rw [h2, h1]; simp [hlen]
  | resubscribe =>
    have h := gResubLoop_spec k w.subEst { w with subEst := [] } cur hlen
    refine ⟨Fr1.trans (b := { w with subEst := [] }) ⟨rfl, rfl, rfl⟩ h.1, ?_, h.2.2.2⟩
    show Core (A ++ apps (gResubLoop { w with subEst := [] } k w.subEst cur).2)
      (apps (gResubLoop { w with subEst := [] } k w.subEst cur).1 ++ T) b
    rw [h.2.1, h.2.2.1]; simpa using hc0
  | retry =>
    have h := gRetryLoop_core k b T w.retryQ { w with retryQ := [] } cur A hlen rfl hc0
    exact ⟨Fr1.trans (b := { w with retryQ := [] }) ⟨rfl, rfl, rfl⟩ h.1, h.2.1, h.2.2⟩
  | disconnect =>
    have hfr : Fr w (runTask w k .disconnect) := by
      simp only [runTask]
      split
      · exact (fr_logPkt w k .disconnect (.sent .ok)).trans (fr_kill _ k)
      · exact fr_logPkt w k .disconnect .dead
    refine ⟨hfr.fr1, ?_, ?_⟩
    · simpa [gRunTask] using hc0
    · simp only [gRunTask]; rw [hfr.retryQ]; exact hlen

/-- the invariant of the ghost run -/
structure GInv (w : World) (g : Gh) (b : Nat) : Prop where
  core : Core (apps g.out) (apps g.rq ++ apps g.tq) b
  lenT : g.tq.length = w.taskQ.length
  lenR : g.rq.length = w.retryQ.length

theorem GInv.of_fields {w w' : World} {g : Gh} {b : Nat} (h : GInv w g b) (h1 : w'.taskQ = w.taskQ)
    (h2 : w'.retryQ = w.retryQ) : GInv w' g b := ⟨h.core, by rw [h1]; exact h.lenT, by rw [h2]; exact h.lenR⟩

theorem gRunTasks_inv (b : Nat) : ∀ (fuel : Nat) (w : World) (g : Gh), GInv w g b →
    GInv (runTasks fuel w) (gRunTasks fuel w g) b
  | 0, w, g, h => by simpa [runTasks, gRunTasks] using h
  | fuel + 1, w, g, h => by
    rw [runTasks, gRunTasks]
    split
    · exact h
    · split
      · exact h
      · simp only
        cases htq' : w.taskQ with
        | nil => dsimp only; exact h.of_fields htq'.symm rfl
        | cons t rest =>
        cases hcli : w.cli with
        | none => dsimp only; exact h.of_fields htq'.symm rfl
        | some k =>
          obtain ⟨l, ls, hg⟩ : ∃ l ls, g.tq = l :: ls := by
            have := h.lenT; rw [htq'] at this
            cases hh : g.tq with
            | nil => rw [hh] at this; simp at this
            | cons l ls => exact ⟨l, ls, rfl⟩
          have hls : ls.length = rest.length := by
            have := h.lenT; rw [htq', hg] at this; simpa using this
          have hc := h.core
          rw [hg, apps_cons] at hc
          have hr := gRunTask_core { w with gConnected := true, taskQ := rest, totalTasks := w.totalTasks + 1 } k t l g.rq b
            (apps g.out) (apps ls) h.lenR hc
          dsimp only
          simp only [← hcli, hg, List.headD_cons, List.tail_cons]
          generalize gRunTask { w with gConnected := true, taskQ := rest, totalTasks := w.totalTasks + 1 } k t l g.rq = gr at hr
          generalize runTask { w with gConnected := true, taskQ := rest, totalTasks := w.totalTasks + 1 } k t = w2 at hr
          have hi2 : GInv w2 { tq := ls, rq := gr.1, out := g.out ++ gr.2 } b :=
            ⟨by rw [apps_append]; exact hr.2.1, by rw [hr.1.taskQ]; exact hls, hr.2.2⟩
          split
          · exact hi2
          · apply gRunTasks_inv b fuel
            split
            · exact hi2.of_fields (fr_kill w2 k).taskQ (fr_kill w2 k).retryQ
            · exact hi2

theorem loopReact_ginv {w : World} {g : Gh} {b : Nat} (h : GInv w g b) : GInv (loopReact w) g b := by
  unfold loopReact
  split
  · split
    · exact h
    · split
      · exact h.of_fields rfl rfl
      · exact h.of_fields rfl rfl
  · exact h

theorem progress_ginv {w : World} {g : Gh} {b : Nat} (h : GInv w g b) : GInv (progress w) (gProgress w g) b :=
  loopReact_ginv (gRunTasks_inv b _ w g h)

/-! ### the ghost labels and the wire log -/

def keysOf (l : List (Pkt × Wire)) : List Key := l.filterMap (fun pw => pktKey pw.1)

/-- the keys of all request packets (PUBLISH, SUBSCRIBE, UNSUBSCRIBE) of the run, in wire order -/
def wireKeys (w : World) : List Key := keysOf (allPkts w)

theorem keysOf_append (a b) : keysOf (a ++ b) = keysOf a ++ keysOf b := by
  simp [keysOf, List.filterMap_append]

theorem keysOf_single (p : Pkt) (x : Wire) : keysOf [(p, x)] = (pktKey p).toList := by
  unfold keysOf
  simp only [List.filterMap_cons, List.filterMap_nil]
  cases pktKey p <;> rfl

theorem wireKeys_eq_flatMap (w : World) : wireKeys w = w.conns.flatMap (fun c => keysOf c.pkts) := by
  unfold wireKeys allPkts keysOf; rw [List.filterMap_flatMap]

theorem wk_congr {w w' : World} (h : w'.conns = w.conns) : wireKeys w' = wireKeys w := by
  unfold wireKeys allPkts; rw [h]

theorem wk_setConn_same (w : World) (k : Nat) (c : Conn)
    (h : keysOf c.pkts = keysOf (getConn w k).pkts) : wireKeys (setConn w k c) = wireKeys w := by
  rw [wireKeys_eq_flatMap, wireKeys_eq_flatMap]
  exact flatMap_set_same (fun c => keysOf c.pkts) ({} : Conn) w.conns k c h

theorem wk_setConn_last (w : World) (k : Nat) (c : Conn) (x) (hk : k + 1 = w.conns.length)
    (h : c.pkts = (getConn w k).pkts ++ x) : wireKeys (setConn w k c) = wireKeys w ++ keysOf x := by
  unfold wireKeys allPkts setConn
  simp only
  rw [flatMap_set_last (·.pkts) ({} : Conn) w.conns k c x hk h, keysOf_append]

theorem wk_logPkt (w : World) (k : Nat) (p : Pkt) (x : Wire) (hk : k + 1 = w.conns.length) :
    wireKeys (logPkt w k p x) = wireKeys w ++ (pktKey p).toList := by
  unfold logPkt
  rw [wk_setConn_last w k _ [(p, x)] hk rfl, keysOf_single]

theorem wk_logPkt_quiet (w : World) (k : Nat) (p : Pkt) (x : Wire) (h : pktKey p = none) :
    wireKeys (logPkt w k p x) = wireKeys w := by
  unfold logPkt
  apply wk_setConn_same
  simp only
  rw [keysOf_append, keysOf_single, h]; simp

theorem wk_kill (w : World) (k : Nat) : wireKeys (kill w k) = wireKeys w := by
  unfold kill
  exact wk_setConn_same w k _ rfl

theorem wk_nextFault (w : World) : wireKeys (nextFault w).2 = wireKeys w := by
  unfold nextFault; split <;> rfl

theorem send_wk (w : World) (k : Nat) (p : Pkt) (waits : Bool) (hk : k + 1 = w.conns.length) :
    wireKeys (send w k p waits).1 = wireKeys w ++ (pktKey p).toList := by
  unfold send
  split
  · exact wk_logPkt _ _ _ _ hk
  · have hk' : k + 1 = (nextFault w).2.conns.length := by rw [len_nextFault]; exact hk
    have h := wk_logPkt (nextFault w).2 k p (.sent (nextFault w).1) hk'
    rw [wk_nextFault] at h
    simp only
    split
    · exact h
    · rw [wk_kill]; exact h
    · rw [wk_kill]; exact h
    · rw [wk_kill]; exact h
    · split
      · exact h
      · split <;> exact h

theorem relAttempt_wk (w : World) (k m id : Nat) (hk : k + 1 = w.conns.length) :
    wireKeys (relAttempt w k m id).1 = wireKeys w := by
  unfold relAttempt
  have h := send_wk w k (.pubrel id m) true hk
  simp only [pktKey, Option.toList_none, List.append_nil] at h
  simp only
  split
  · exact h
  · exact h
  · exact h

theorem assignId_wk (w : World) (k m : Nat) : wireKeys (assignId w k m).1 = wireKeys w := by
  unfold assignId
  split
  · rfl
  · exact wk_setConn_same _ _ _ rfl

theorem pubAttempt_wk (w : World) (k m qos : Nat) (dup : Bool) (hk : k + 1 = w.conns.length) :
    wireKeys (pubAttempt w k m qos dup).1 = wireKeys w ++ [.pub m] := by
  rw [pubAttempt_eq]
  have h1 := assignId_fr w k m
  have hk1 : k + 1 = (assignId w k m).1.conns.length := by rw [h1.len]; exact hk
  have h2 := send_wk (assignId w k m).1 k (.publish m qos (assignId w k m).2 dup) (qos ≠ 0) hk1
  rw [assignId_wk] at h2
  have h3 := send_fr (assignId w k m).1 k (.publish m qos (assignId w k m).2 dup) (qos ≠ 0)
  simp only [pktKey, Option.toList_some] at h2
  simp only
  split
  · split
    · rw [relAttempt_wk _ _ _ _ (by rw [h3.len]; exact hk1)]; exact h2
    · split
      · exact h2
      · exact h2
  · exact h2
  · exact h2

theorem bumpCtr_wk (w : World) (k : Nat) : wireKeys (bumpCtr w k).1 = wireKeys w :=
  wk_setConn_same w k { getConn w k with ctr := (newID (getConn w k).ctr).1 } rfl

theorem subAttempt_wk (w : World) (k : Nat) (subs) (hk : k + 1 = w.conns.length) :
    wireKeys (subAttempt w k subs).1 = wireKeys w ++ [.sub subs] := by
  rw [subAttempt_eq]
  have h2 := send_wk (bumpCtr w k).1 k (.subscribe (bumpCtr w k).2 subs) true (by rw [(bumpCtr_fr w k).len]; exact hk)
  rw [bumpCtr_wk] at h2
  simp only [pktKey, Option.toList_some] at h2
  simp only
  split
  · exact h2
  · exact h2
  · exact h2

theorem unsubAttempt_wk (w : World) (k : Nat) (ts) (hk : k + 1 = w.conns.length) :
    wireKeys (unsubAttempt w k ts).1 = wireKeys w ++ [.unsub ts] := by
  rw [unsubAttempt_eq]
  have h2 := send_wk (bumpCtr w k).1 k (.unsubscribe (bumpCtr w k).2 ts) true (by rw [(bumpCtr_fr w k).len]; exact hk)
  rw [bumpCtr_wk] at h2
  simp only [pktKey, Option.toList_some] at h2
  simp only
  split
  · exact h2
  · exact h2
  · exact h2

theorem absorb_conns (w : World) (o : Outcome) : (absorb w o).conns = w.conns := by
  unfold absorb; split <;> rfl

theorem firstPub_wk (w : World) (k m qos : Nat) (hk : k + 1 = w.conns.length) :
    wireKeys (firstPub w k m qos) = wireKeys w ++ [.pub m] :=
  (wk_congr (absorb_conns _ _)).trans (pubAttempt_wk w k m qos false hk)

theorem firstSub_wk (w : World) (k : Nat) (subs) (hk : k + 1 = w.conns.length) :
    wireKeys (firstSub w k subs) = wireKeys w ++ [.sub subs] :=
  (wk_congr (absorb_conns _ _)).trans (subAttempt_wk w k subs hk)

theorem firstUnsub_wk (w : World) (k : Nat) (ts) (hk : k + 1 = w.conns.length) :
    wireKeys (firstUnsub w k ts) = wireKeys w ++ [.unsub ts] :=
  (wk_congr (absorb_conns _ _)).trans (unsubAttempt_wk w k ts hk)

/-- every retry-queue entry puts exactly one request packet on the wire, of its own key — except a
    PUBREL handle, which puts none -/
theorem runEntry_wk (w : World) (k : Nat) (e : Entry) (hk : k + 1 = w.conns.length) :
    wireKeys (runEntry w k e).1 = wireKeys w ++ (if isRel e then [] else [entryKey e]) := by
  cases e with
  | qPub m qos => exact firstPub_wk w k m qos hk
  | qSub subs => exact firstSub_wk w k subs hk
  | qUnsub ts => exact firstUnsub_wk w k ts hk
  | rePublish m qos => exact pubAttempt_wk w k m qos true hk
  | rePubRel m =>
    show wireKeys (relAttempt w k m ((lookupPid w m).getD 0)).1 = wireKeys w ++ []
    rw [List.append_nil]; exact relAttempt_wk w k m _ hk
  | reSub subs => exact subAttempt_wk w k subs hk
  | reUnsub ts => exact unsubAttempt_wk w k ts hk

theorem subscribeTask_wk (w : World) (k : Nat) (subs) (hk : k + 1 = w.conns.length) :
    wireKeys (subscribeTask w k subs) = wireKeys w ++ (if w.retryQ.isEmpty then [.sub subs] else []) := by
  unfold subscribeTask
  simp only
  split
  · exact firstSub_wk { w with subEst := applySubs w.subEst subs } k subs hk
  · simp; rfl

theorem runTask_req_wk (w : World) (k : Nat) (r : Req) (hk : k + 1 = w.conns.length) :
    wireKeys (runTask w k (.req r)) = wireKeys w ++ (if w.retryQ.isEmpty then [reqKey r] else []) := by
  cases r with
  | pub m qos =>
    simp only [runTask]
    split
    · exact firstPub_wk w k m qos hk
    · split <;> simp <;> rfl
  | sub subs => exact subscribeTask_wk w k subs hk
  | unsub ts =>
    simp only [runTask]
    split
    · exact firstUnsub_wk { w with subEst := applyUnsubs w.subEst ts } k ts hk
    · simp; rfl

/-- two lists of the same length, related position by position -/
inductive All2 {α β : Type} (R : α → β → Prop) : List α → List β → Prop
  | nil : All2 R [] []
  | cons {a b as bs} : R a b → All2 R as bs → All2 R (a :: as) (b :: bs)

theorem All2.append {α β : Type} {R : α → β → Prop} : ∀ {a a' : List α} {b b' : List β},
    All2 R a b → All2 R a' b' → All2 R (a ++ a') (b ++ b')
  | _, _, _, _, .nil, h => h
  | _, _, _, _, .cons h t, h' => .cons h (t.append h')

theorem All2.single {α β : Type} {R : α → β → Prop} {a : α} {b : β} (h : R a b) : All2 R [a] [b] :=
  .cons h .nil

theorem All2.length_eq {α β : Type} {R : α → β → Prop} : ∀ {a : List α} {b : List β},
    All2 R a b → a.length = b.length
  | _, _, .nil => rfl
  | _, _, .cons _ t => by simp [t.length_eq]

/-- what a label says about the key of the task / entry / packet it labels -/
def LabKey (reqs : List Req) (l : Lab) (κ : Key) : Prop :=
  match l with
  | some i => (reqs[i]?).map reqKey = some κ     -- the application's request number `i`
  | none => ∃ s, κ = .sub [s]                     -- the library's re-subscription of one filter

def EntOk (reqs : List Req) (l : Lab) (e : Entry) : Prop := LabKey reqs l (entryKey e)
def TaskOk (reqs : List Req) (l : Lab) (t : Task) : Prop := ∀ r, t = .req r → LabKey reqs l (reqKey r)

theorem emit_ok {reqs : List Req} {l : Lab} {κ : Key} (h : LabKey reqs l κ) (c : Bool) :
    All2 (LabKey reqs) (if c then [] else [l]) (if c then [] else [κ]) := by
  cases c
  · exact .single h
  · exact .nil

theorem emit_ok' {reqs : List Req} {l : Lab} {κ : Key} (h : LabKey reqs l κ) (c : Bool) :
    All2 (LabKey reqs) (if c then [l] else []) (if c then [κ] else []) := by
  cases c
  · exact .nil
  · exact .single h

theorem gRetryLoop_wire (reqs : List Req) (k : Nat) : ∀ (old : List Entry) (w : World) (ls : List Lab),
    k + 1 = w.conns.length → w.retryQ = [] → All2 (EntOk reqs) ls old →
    Fr1 w (retryLoop w k old) ∧
    ∃ X, wireKeys (retryLoop w k old) = wireKeys w ++ X ∧
      All2 (LabKey reqs) (gRetryLoop w k old ls).2 X ∧
      All2 (EntOk reqs) (gRetryLoop w k old ls).1 (retryLoop w k old).retryQ
  | [], w, ls, _, hq, hok => by
    simp only [retryLoop, gRetryLoop, hq]
    exact ⟨Fr1.rfl' w, [], by simp, .nil, .nil⟩
  | e :: rest, w, ls, hk, hq, hok => by
    obtain ⟨l, ls', rfl, hl, hls⟩ : ∃ l ls', ls = l :: ls' ∧ EntOk reqs l e ∧ All2 (EntOk reqs) ls' rest := by
      cases hok with
      | cons h t => exact ⟨_, _, rfl, h, t⟩
    rw [retryLoop_cons, gRetryLoop_cons]
    split
    · exact ⟨Fr1.rfl' w, [], by simp, .nil, by rw [hq]; exact .nil⟩
    · have hs := runEntry_g { w with totalRetries := w.totalRetries + 1 } k e
      have hwk := runEntry_wk { w with totalRetries := w.totalRetries + 1 } k e hk
      generalize runEntry { w with totalRetries := w.totalRetries + 1 } k e = r at hs hwk
      obtain ⟨w2, o⟩ := r
      simp only [List.headD_cons, List.tail_cons] at hs hwk ⊢
      have hwk : wireKeys w2 = wireKeys w ++ (if isRel e then [] else [entryKey e]) := hwk
      have hfr : Fr1 w w2 := Fr1.trans (b := { w with totalRetries := w.totalRetries + 1 }) ⟨rfl, rfl, rfl⟩ hs.fr
      have hem := emit_ok hl (isRel e)
      generalize (if isRel e then [] else [l]) = em at hem
      generalize (if isRel e then [] else [entryKey e]) = X0 at hem hwk
      -- the queue after the entry: still empty, or the entry's own handle
      have hqq : (w2.retryQ = [] ∧ extLab [] l (! w2.retryQ.isEmpty) = []) ∨
          (w2.closeAfterTask = true ∧ extLab [] l (! w2.retryQ.isEmpty) = [l] ∧
            ∃ h, w2.retryQ = [h] ∧ entryKey h = entryKey e) := by
        rcases hs.q with ⟨h1, _⟩ | ⟨hcaf, h, h1, h2⟩
        · left
          have : w2.retryQ = [] := by rw [h1]; exact hq
          exact ⟨this, by rw [this]; rfl⟩
        · right
          have : w2.retryQ = [h] := by rw [h1]; show w.retryQ ++ [h] = [h]; rw [hq]; rfl
          exact ⟨hcaf, by rw [this]; rfl, h, this, h2⟩
      have hcur : All2 (EntOk reqs) (extLab [] l (! w2.retryQ.isEmpty)) w2.retryQ := by
        rcases hqq with ⟨h1, h0⟩ | ⟨_, h0, h, h1, h2⟩ <;> rw [h0, h1]
        · exact .nil
        · exact .single (show LabKey reqs l (entryKey h) by rw [h2]; exact hl)
      generalize extLab [] l (! w2.retryQ.isEmpty) = cur at hqq hcur
      have hstop : All2 (EntOk reqs) (cur ++ ls') (w2.retryQ ++ rest) := hcur.append hls
      have hrec : w2.closeAfterTask = false →
          Fr1 w (retryLoop w2 k rest) ∧
          ∃ X, wireKeys (retryLoop w2 k rest) = wireKeys w ++ X ∧
            All2 (LabKey reqs) (em ++ (gRetryLoop w2 k rest ls').2) X ∧
            All2 (EntOk reqs) (gRetryLoop w2 k rest ls').1 (retryLoop w2 k rest).retryQ := by
        intro hcaf
        have h0 : w2.retryQ = [] := by
          rcases hqq with ⟨h0, _⟩ | ⟨h1, _⟩
          · exact h0
          · rw [hcaf] at h1; cases h1
        obtain ⟨i1, X, i2, i3, i4⟩ := gRetryLoop_wire reqs k rest w2 ls' (by rw [hfr.len]; exact hk) h0 hls
        exact ⟨hfr.trans i1, X0 ++ X, by rw [i2, hwk, List.append_assoc], hem.append i3, i4⟩
      cases o with
      | stuck => exact ⟨hfr, X0, hwk, hem, hcur⟩
      | fail ho err =>
        cases ho with
        | some h =>
          obtain ⟨hh1, hh2⟩ := hs.qfail h err rfl
          refine ⟨⟨hfr.taskQ, hfr.cli, hfr.len⟩, X0, hwk, hem, ?_⟩
          show All2 (EntOk reqs) (cur ++ [l] ++ ls') (w2.retryQ ++ [h] ++ rest)
          exact (hcur.append (.single (show LabKey reqs l (entryKey h) by rw [hh1]; exact hl))).append hls
        | none =>
          simp only
          split
          · exact ⟨⟨hfr.taskQ, hfr.cli, hfr.len⟩, X0, hwk, hem, hstop⟩
          · rename_i hcaf
            exact hrec (by simpa using hcaf)
      | done =>
        simp only
        split
        · exact ⟨⟨hfr.taskQ, hfr.cli, hfr.len⟩, X0, hwk, hem, hstop⟩
        · rename_i hcaf
          exact hrec (by simpa using hcaf)

theorem Grow1.extLab_ok {reqs : List Req} {w w' : World} {κ : Key} (h : Grow1 w w' κ) (cur : List Lab) (l : Lab)
    (hcur : All2 (EntOk reqs) cur w.retryQ) (hl : LabKey reqs l κ) :
    All2 (EntOk reqs) (C03.extLab cur l (w'.retryQ.length > w.retryQ.length)) w'.retryQ := by
  rcases h.extLab cur l with ⟨h1, h2⟩ | ⟨⟨x, h1, hx⟩, h2⟩ <;> rw [h2, h1]
  · exact hcur
  · exact hcur.append (.single (show LabKey reqs l (entryKey x) by rw [hx]; exact hl))

theorem gResubLoop_wire (reqs : List Req) (k : Nat) : ∀ (l : List Subscription) (w : World) (cur : List Lab),
    k + 1 = w.conns.length → All2 (EntOk reqs) cur w.retryQ →
    Fr1 w (resubLoop w k l) ∧
    ∃ X, wireKeys (resubLoop w k l) = wireKeys w ++ X ∧
      All2 (LabKey reqs) (gResubLoop w k l cur).2 X ∧
      All2 (EntOk reqs) (gResubLoop w k l cur).1 (resubLoop w k l).retryQ
  | [], w, cur, _, hcur => ⟨Fr1.rfl' w, [], by simp [resubLoop], .nil, hcur⟩
  | s :: rest, w, cur, hk, hcur => by
    unfold resubLoop gResubLoop
    split
    · exact ⟨Fr1.rfl' w, [], by simp, .nil, hcur⟩
    · have hg := subscribeTask_g w k [s]
      have hwk := subscribeTask_wk w k [s] hk
      have he := hg.extLab_ok (reqs := reqs) cur none hcur ⟨s, rfl⟩
      obtain ⟨i1, X, i2, i3, i4⟩ := gResubLoop_wire reqs k rest (subscribeTask w k [s]) _
        (by rw [hg.fr.len]; exact hk) he
      refine ⟨hg.fr.trans i1, (if w.retryQ.isEmpty then [Key.sub [s]] else []) ++ X,
        by rw [i2, hwk, List.append_assoc], ?_, i4⟩
      exact (emit_ok' (reqs := reqs) (l := none) ⟨s, rfl⟩ w.retryQ.isEmpty).append i3

theorem gRunTask_wire (reqs : List Req) (w : World) (k : Nat) (t : Task) (l : Lab) (cur : List Lab)
    (hk : k + 1 = w.conns.length) (hcur : All2 (EntOk reqs) cur w.retryQ) (hl : TaskOk reqs l t) :
    Fr1 w (runTask w k t) ∧
    ∃ X, wireKeys (runTask w k t) = wireKeys w ++ X ∧
      All2 (LabKey reqs) (gRunTask w k t l cur).2 X ∧
      All2 (EntOk reqs) (gRunTask w k t l cur).1 (runTask w k t).retryQ := by
  cases t with
  | req r =>
    have hg := runTask_req_g w k r
    exact ⟨hg.fr, _, runTask_req_wk w k r hk, emit_ok' (hl r rfl) w.retryQ.isEmpty,
      hg.extLab_ok cur l hcur (hl r rfl)⟩
  | resubscribe =>
    obtain ⟨i1, X, i2, i3, i4⟩ := gResubLoop_wire reqs k w.subEst { w with subEst := [] } cur hk hcur
    exact ⟨Fr1.trans (b := { w with subEst := [] }) ⟨rfl, rfl, rfl⟩ i1, X, i2, i3, i4⟩
  | retry =>
    obtain ⟨i1, X, i2, i3, i4⟩ := gRetryLoop_wire reqs k w.retryQ { w with retryQ := [] } cur hk rfl hcur
    exact ⟨Fr1.trans (b := { w with retryQ := [] }) ⟨rfl, rfl, rfl⟩ i1, X, i2, i3, i4⟩
  | disconnect =>
    have hfr : Fr w (runTask w k .disconnect) ∧ wireKeys (runTask w k .disconnect) = wireKeys w := by
      simp only [runTask]
      split
      · exact ⟨(fr_logPkt w k .disconnect (.sent .ok)).trans (fr_kill _ k),
          by rw [wk_kill, wk_logPkt_quiet _ _ _ _ rfl]⟩
      · exact ⟨fr_logPkt w k .disconnect .dead, wk_logPkt_quiet _ _ _ _ rfl⟩
    refine ⟨hfr.1.fr1, [], by rw [hfr.2]; simp, .nil, ?_⟩
    simp only [gRunTask]; rw [hfr.1.retryQ]; exact hcur

/-- the invariant that ties the ghost to the queues and to the wire log -/
structure WInv (reqs : List Req) (w : World) (g : Gh) : Prop where
  okT : All2 (TaskOk reqs) g.tq w.taskQ
  okR : All2 (EntOk reqs) g.rq w.retryQ
  wire : All2 (LabKey reqs) g.out (wireKeys w)
  cli : ∀ k, w.cli = some k → k + 1 = w.conns.length

theorem gRunTasks_winv (reqs : List Req) : ∀ (fuel : Nat) (w : World) (g : Gh), WInv reqs w g →
    WInv reqs (runTasks fuel w) (gRunTasks fuel w g)
  | 0, w, g, h => by simpa [runTasks, gRunTasks] using h
  | fuel + 1, w, g, h => by
    rw [runTasks, gRunTasks]
    split
    · exact h
    · split
      · exact h
      · simp only
        cases htq' : w.taskQ with
        | nil => dsimp only; exact ⟨by rw [← htq']; exact h.okT, h.okR, h.wire, h.cli⟩
        | cons t rest =>
        cases hcli : w.cli with
        | none => dsimp only; exact ⟨by rw [← htq']; exact h.okT, h.okR, h.wire, by simp⟩
        | some k =>
          obtain ⟨l, ls, hg, hl, hls⟩ : ∃ l ls, g.tq = l :: ls ∧ TaskOk reqs l t ∧ All2 (TaskOk reqs) ls rest := by
            have := h.okT; rw [htq'] at this
            cases hh : g.tq with
            | nil => rw [hh] at this; cases this
            | cons l ls => rw [hh] at this; cases this with | cons a b => exact ⟨l, ls, rfl, a, b⟩
          have hk := h.cli k hcli
          have hr := gRunTask_wire reqs { w with gConnected := true, taskQ := rest, totalTasks := w.totalTasks + 1 } k t l g.rq
            hk h.okR hl
          dsimp only
          simp only [← hcli, hg, List.headD_cons, List.tail_cons]
          generalize gRunTask { w with gConnected := true, taskQ := rest, totalTasks := w.totalTasks + 1 } k t l g.rq = gr at hr
          generalize runTask { w with gConnected := true, taskQ := rest, totalTasks := w.totalTasks + 1 } k t = w2 at hr
          obtain ⟨hfr, X, hx1, hx2, hx3⟩ := hr
          have hi2 : WInv reqs w2 { tq := ls, rq := gr.1, out := g.out ++ gr.2 } :=
            ⟨by rw [hfr.taskQ]; exact hls, hx3, by rw [hx1]; exact h.wire.append hx2,
              fun j hj => by rw [hfr.len]; exact h.cli j (by rw [← hj, hfr.cli])⟩
          split
          · exact hi2
          · apply gRunTasks_winv reqs fuel
            split
            · have hf := fr_kill w2 k
              exact ⟨by rw [show ({ kill w2 k with gConnected := false, closeAfterTask := false } : World).taskQ = w2.taskQ from hf.taskQ]; exact hi2.okT,
                by rw [show ({ kill w2 k with gConnected := false, closeAfterTask := false } : World).retryQ = w2.retryQ from hf.retryQ]; exact hi2.okR,
                by rw [show wireKeys ({ kill w2 k with gConnected := false, closeAfterTask := false } : World) = wireKeys w2 from wk_kill w2 k]; exact hi2.wire,
                fun j hj => by
                  show j + 1 = (kill w2 k).conns.length
                  rw [hf.len]; exact hi2.cli j (by rw [← hf.cli]; exact hj)⟩
            · exact hi2

theorem loopReact_winv {reqs : List Req} {w : World} {g : Gh} (h : WInv reqs w g) : WInv reqs (loopReact w) g := by
  unfold loopReact
  split
  · split
    · exact h
    · split
      · exact ⟨h.okT, h.okR, h.wire, h.cli⟩
      · exact ⟨h.okT, h.okR, h.wire, h.cli⟩
  · exact h

theorem progress_winv {reqs : List Req} {w : World} {g : Gh} (h : WInv reqs w g) :
    WInv reqs (progress w) (gProgress w g) :=
  loopReact_winv (gRunTasks_winv reqs _ w g h)

/-- the current connection is the newest one -/
def CL (w : World) : Prop := ∀ k, w.cli = some k → k + 1 = w.conns.length

/-- same request packets on the wire; "the current connection is the newest" is kept -/
def SameW (a b : World) : Prop := wireKeys b = wireKeys a ∧ (CL a → CL b)

/-- same queues, same request packets on the wire -/
def SameQ (a b : World) : Prop := b.taskQ = a.taskQ ∧ b.retryQ = a.retryQ ∧ SameW a b

theorem SameQ.rfl' (w : World) : SameQ w w := ⟨rfl, rfl, rfl, id⟩

theorem Fr.sameW {a b : World} (h : Fr a b) (hw : wireKeys b = wireKeys a) : SameW a b :=
  ⟨hw, fun hc k hk => by rw [h.len]; exact hc k (by rw [← h.cli]; exact hk)⟩

theorem Fr.sameQ {a b : World} (h : Fr a b) (hw : wireKeys b = wireKeys a) : SameQ a b :=
  ⟨h.taskQ, h.retryQ, h.sameW hw⟩

theorem deliverInbound_fr (w : World) (k m qos : Nat) :
    Fr w (deliverInbound w k m qos) ∧ wireKeys (deliverInbound w k m qos) = wireKeys w := by
  unfold deliverInbound
  simp only
  split
  · exact ⟨Fr.rfl' w, rfl⟩
  · have key : ∀ w1 : World, Fr w w1 ∧ wireKeys w1 = wireKeys w →
        Fr w (if qos = 1 then logPkt w1 k (.puback (m + 1)) (.sent .ok) else w1) ∧
        wireKeys (if qos = 1 then logPkt w1 k (.puback (m + 1)) (.sent .ok) else w1) = wireKeys w := by
      intro w1 h1
      split
      · exact ⟨h1.1.trans (fr_logPkt _ _ _ _), by rw [wk_logPkt_quiet _ _ _ _ rfl]; exact h1.2⟩
      · exact h1
    apply key
    split
    · exact ⟨⟨rfl, rfl, rfl, rfl, rfl⟩, rfl⟩
    · exact ⟨Fr.rfl' w, rfl⟩

theorem foldl_deliverInbound_fr (k : Nat) : ∀ (l : List (Nat × Nat)) (w : World),
    Fr w (l.foldl (fun w (mq : Nat × Nat) => deliverInbound w k mq.1 mq.2) w) ∧
    wireKeys (l.foldl (fun w (mq : Nat × Nat) => deliverInbound w k mq.1 mq.2) w) = wireKeys w
  | [], w => ⟨Fr.rfl' w, rfl⟩
  | mq :: rest, w => by
    simp only [List.foldl_cons]
    have h1 := deliverInbound_fr w k mq.1 mq.2
    have h2 := foldl_deliverInbound_fr k rest (deliverInbound w k mq.1 mq.2)
    exact ⟨h1.1.trans h2.1, h2.2.trans h1.2⟩

theorem connectFailed_fr (w : World) (k : Nat) :
    Fr w (connectFailed w k) ∧ wireKeys (connectFailed w k) = wireKeys w := by
  unfold connectFailed
  have h1 : Fr w (kill { w with connReady := true } k) :=
    Fr.trans (b := { w with connReady := true }) ⟨rfl, rfl, rfl, rfl, rfl⟩ (fr_kill _ k)
  have h2 : wireKeys (kill { w with connReady := true } k) = wireKeys w := wk_kill _ k
  simp only
  split
  · exact ⟨⟨h1.taskQ, h1.retryQ, h1.caf, h1.cli, h1.len⟩, h2⟩
  · exact ⟨⟨h1.taskQ, h1.retryQ, h1.caf, h1.cli, h1.len⟩, h2⟩

theorem connackMid_fr (w : World) (sp : Bool) (inbound : List (Nat × Nat)) (k : Nat) :
    Fr w (connackMid w sp inbound k) ∧ wireKeys (connackMid w sp inbound k) = wireKeys w := by
  have h1 : wireKeys ({ setConn w k { getConn w k with connected := true } with
        broker := if sp then (setConn w k { getConn w k with connected := true }).broker
                  else (setConn w k { getConn w k with connected := true }).broker.clearSession } : World) =
      wireKeys w := wk_setConn_same w k _ rfl
  have h2 := foldl_deliverInbound_fr k inbound { setConn w k { getConn w k with connected := true } with
        broker := if sp then (setConn w k { getConn w k with connected := true }).broker
                  else (setConn w k { getConn w k with connected := true }).broker.clearSession }
  have h0 := Fr.trans (a := w) (b := { setConn w k { getConn w k with connected := true } with
        broker := if sp then (setConn w k { getConn w k with connected := true }).broker
                  else (setConn w k { getConn w k with connected := true }).broker.clearSession })
      ⟨rfl, rfl, rfl, rfl, by simp [setConn]⟩ h2.1
  exact ⟨⟨h0.taskQ, h0.retryQ, h0.caf, h0.cli, h0.len⟩, h2.2.trans h1⟩

/-- the tasks an event pushes: the application's request, or tasks of the library -/
def PushedOk (e : Ev) (ts : List Task) : Prop :=
  (∀ r, e = .app r → ts = [.req r]) ∧ ((∀ r, e ≠ .app r) → ∀ t ∈ ts, ∀ r, t ≠ .req r)

theorem connackPre_q (w : World) (sp : Bool) (k : Nat) :
    (connackPre w sp k).retryQ = w.retryQ ∧ (connackPre w sp k).conns = w.conns ∧
    (connackPre w sp k).cli = w.cli ∧
    ∃ ts, (connackPre w sp k).taskQ = w.taskQ ++ ts ∧ ∀ t ∈ ts, ∀ r, t ≠ .req r := by
  unfold connackPre
  simp only
  split <;> split
  · exact ⟨rfl, rfl, rfl, [.resubscribe], rfl, by simp⟩
  · exact ⟨rfl, rfl, rfl, [.resubscribe, .retry], by simp [pushTask], by simp⟩
  · exact ⟨rfl, rfl, rfl, [], by simp, by simp⟩
  · exact ⟨rfl, rfl, rfl, [.retry], rfl, by simp⟩

theorem sameQ_post (w : World) :
    SameQ w (match w.phase with
      | .up _ => { w with phase := .exited }
      | .backoff => { w with phase := .exited }
      | _ => w) := by
  split <;> exact ⟨rfl, rfl, rfl, id⟩

/-- `preProgress` is the world on which `step` lets the task goroutine run, with the pushed tasks -/
theorem step_pre (w : World) (e : Ev) :
    (preProgress w e = none ∧ SameQ w (step w e)) ∨
    (∃ w1 ts, preProgress w e = some w1 ∧ SameQ (progress w1) (step w e) ∧ w1.retryQ = w.retryQ ∧
      w1.taskQ = w.taskQ ++ ts ∧ PushedOk e ts ∧ SameW w w1) := by
  have nonapp : ∀ {e : Ev} {ts : List Task}, (∀ r, e ≠ .app r) → (∀ t ∈ ts, ∀ r, t ≠ .req r) → PushedOk e ts :=
    fun h1 h2 => ⟨fun r h => absurd h (h1 r), fun _ => h2⟩
  cases e with
  | start =>
    refine .inl ⟨rfl, ?_⟩
    simp only [step]
    split
    · exact ⟨rfl, rfl, rfl, id⟩
    · split
      · split <;> exact ⟨rfl, rfl, rfl, id⟩
      · exact ⟨rfl, rfl, rfl, id⟩
  | app r =>
    by_cases hs : w.stopped = true
    · refine .inl ⟨by simp [preProgress, hs], ?_⟩
      simp only [step, hs, if_true]; exact ⟨rfl, rfl, rfl, id⟩
    · refine .inr ⟨pushTask { w with accepted := w.accepted ++ [r] } (.req r), [.req r],
        by simp only [preProgress, hs, Bool.false_eq_true, if_false], ?_, rfl, rfl,
        ⟨fun r' h => by cases h; rfl, fun h => absurd rfl (h r)⟩, rfl, id⟩
      simp only [step, hs, Bool.false_eq_true, if_false]; exact SameQ.rfl' _
  | dialOk idStart =>
    -- a new connection that carries only CONNECT becomes the current one
    have hnew : ∀ (c : Conn) (w' : World), c.pkts = [(.connect, .sent .ok)] → w'.conns = w.conns ++ [c] →
        w'.cli = some w.conns.length → SameW w w' := by
      intro c w' hc h3 h2
      refine ⟨?_, ?_⟩
      · rw [wireKeys_eq_flatMap, wireKeys_eq_flatMap, h3, List.flatMap_append]
        simp [hc, keysOf, pktKey]
      · intro _ k hk
        rw [h2] at hk
        simp only [Option.some.injEq] at hk
        rw [h3, ← hk]; simp
    by_cases hph : w.phase = .dialGate
    · by_cases hc : w.ctxCancelled = true ∧ w.connectReturned.isNone = true
      · refine .inr ⟨dialDead w idStart, [],
          by simp only [preProgress, hph, hc, ne_eq, not_true_eq_false, and_self, if_true, if_false], ?_, rfl,
          by simp [dialDead], nonapp (fun r h => by cases h) (by simp), hnew _ _ rfl rfl rfl⟩
        simp only [step, hph, ne_eq, not_true_eq_false, if_false]
        rw [if_pos hc]
        exact SameQ.rfl' _
      · refine .inl ⟨by simp only [preProgress, hph, hc, ne_eq, not_true_eq_false, if_false], ?_⟩
        simp only [step, hph, hc, ne_eq, not_true_eq_false, if_false]
        exact ⟨rfl, rfl, hnew _ _ rfl rfl rfl⟩
    · refine .inl ⟨by simp only [preProgress, hph, ne_eq, not_false_eq_true, if_true], ?_⟩
      simp only [step, hph, ne_eq, not_false_eq_true, if_true]; exact ⟨rfl, rfl, rfl, id⟩
  | dialFail =>
    refine .inl ⟨rfl, ?_⟩
    simp only [step]
    split
    · exact ⟨rfl, rfl, rfl, id⟩
    · split
      · exact ⟨rfl, rfl, rfl, id⟩
      · split <;> exact ⟨rfl, rfl, rfl, id⟩
  | waitElapsed =>
    refine .inl ⟨rfl, ?_⟩
    simp only [step]
    split <;> exact ⟨rfl, rfl, rfl, id⟩
  | inbound m qos =>
    refine .inl ⟨rfl, ?_⟩
    simp only [step]
    split
    · exact (deliverInbound_fr w _ m qos).1.sameQ (deliverInbound_fr w _ m qos).2
    · exact ⟨rfl, rfl, rfl, id⟩
  | handle hd =>
    refine .inl ⟨rfl, ?_⟩
    simp only [step]
    split
    · rename_i k _
      refine ⟨rfl, rfl, wk_setConn_same { w with handler := some hd } k _ rfl, ?_⟩
      intro hc j hj
      simp only [setConn, List.length_set]
      exact hc j hj
    · exact ⟨rfl, rfl, rfl, id⟩
  | cancelCtx =>
    by_cases hc : w.ctxCancelled = true ∨ w.connectReturned.isSome = true
    · refine .inl ⟨by simp only [preProgress, hc, if_true], ?_⟩
      simp only [step, hc, if_true]; exact ⟨rfl, rfl, rfl, id⟩
    · cases hph : w.phase with
      | connackGate k =>
        have hf : Fr w (kill { w with ctxCancelled := true, connReady := true } k) :=
          Fr.trans (b := { w with ctxCancelled := true, connReady := true }) ⟨rfl, rfl, rfl, rfl, rfl⟩ (fr_kill _ k)
        have hw : wireKeys (kill { w with ctxCancelled := true, connReady := true } k) = wireKeys w := wk_kill _ k
        refine .inr ⟨{ kill { w with ctxCancelled := true, connReady := true } k with phase := .exited, connectErr := true },
          [], by simp only [preProgress, hc, hph, if_false], ?_, hf.retryQ, by simpa using hf.taskQ,
          nonapp (fun r h => by cases h) (by simp), (hf.sameW hw)⟩
        simp only [step, hc, hph, if_false]; exact SameQ.rfl' _
      | _ =>
        refine .inl ⟨by simp only [preProgress, hc, hph, if_false], ?_⟩
        simp only [step, hc, hph, if_false]
        first
          | exact ⟨rfl, rfl, rfl, id⟩
          | (split <;> exact ⟨rfl, rfl, rfl, id⟩)
  | connackOk sp inbound =>
    cases hph : w.phase with
    | connackGate k =>
      obtain ⟨h0, hw0⟩ := connackMid_fr w sp inbound k
      obtain ⟨q1, q2, q3, ts, q4, q5⟩ := connackPre_q (connackMid w sp inbound k) sp k
      refine .inr ⟨connackPre (connackMid w sp inbound k) sp k, ts, by simp only [preProgress, hph], ?_,
        q1.trans h0.retryQ, by rw [q4, h0.taskQ], nonapp (fun r h => by cases h) q5, ?_, ?_⟩
      · simp only [step, hph]; exact SameQ.rfl' _
      · exact (wk_congr q2).trans hw0
      · intro hc j hj
        rw [q2, h0.len]; exact hc j (by rw [← h0.cli, ← q3]; exact hj)
    | _ =>
      refine .inl ⟨by simp only [preProgress, hph], ?_⟩
      simp only [step, hph]; exact ⟨rfl, rfl, rfl, id⟩
  | connackRefused =>
    cases hph : w.phase with
    | connackGate k =>
      obtain ⟨hf, hw⟩ := connectFailed_fr w k
      refine .inr ⟨connectFailed w k, [], by simp only [preProgress, hph], ?_, hf.retryQ, by simpa using hf.taskQ,
        nonapp (fun r h => by cases h) (by simp), hf.sameW hw⟩
      simp only [step, hph]; exact SameQ.rfl' _
    | _ =>
      refine .inl ⟨by simp only [preProgress, hph], ?_⟩
      simp only [step, hph]; exact ⟨rfl, rfl, rfl, id⟩
  | connackNever =>
    cases hph : w.phase with
    | connackGate k =>
      by_cases hct : w.cfg.connectTimeout = true
      · obtain ⟨hf, hw⟩ := connectFailed_fr w k
        refine .inr ⟨connectFailed w k, [], by simp only [preProgress, hph, hct, if_true], ?_, hf.retryQ,
          by simpa using hf.taskQ, nonapp (fun r h => by cases h) (by simp), hf.sameW hw⟩
        simp only [step, hph, hct, if_true]; exact SameQ.rfl' _
      · refine .inl ⟨by simp only [preProgress, hph, hct, Bool.false_eq_true, if_false], ?_⟩
        simp only [step, hph, hct, Bool.false_eq_true, if_false]; exact ⟨rfl, rfl, rfl, id⟩
    | _ =>
      refine .inl ⟨by simp only [preProgress, hph], ?_⟩
      simp only [step, hph]; exact ⟨rfl, rfl, rfl, id⟩
  | peerClose =>
    cases hph : w.phase with
    | up k =>
      refine .inr ⟨kill w k, [], by simp only [preProgress, hph], ?_, (fr_kill w k).retryQ,
        by simpa using (fr_kill w k).taskQ, nonapp (fun r h => by cases h) (by simp), (fr_kill w k).sameW (wk_kill w k)⟩
      simp only [step, hph]; exact SameQ.rfl' _
    | _ =>
      refine .inl ⟨by simp only [preProgress, hph], ?_⟩
      simp only [step, hph]; exact ⟨rfl, rfl, rfl, id⟩
  | disconnect =>
    by_cases hs : w.stopped = true
    · refine .inl ⟨by simp [preProgress, hs], ?_⟩
      simp only [step, hs, if_true]; exact ⟨rfl, rfl, rfl, id⟩
    · refine .inr ⟨{ pushTask w .disconnect with stopped := true }, [.disconnect],
        by simp only [preProgress, hs, Bool.false_eq_true, if_false], ?_, rfl, rfl,
        nonapp (fun r h => by cases h) (by simp), rfl, id⟩
      simp only [step, hs, Bool.false_eq_true, if_false]
      exact sameQ_post _

theorem apps_replicate_none (j : Nat) : apps (List.replicate j none) = [] := by
  induction j with
  | zero => rfl
  | succ j ih => rw [List.replicate_succ, apps_cons, ih]; rfl

theorem gStep_inv {w : World} {g : Gh} {n : Nat} (e : Ev) (h : GInv w g n) :
    GInv (step w e) (gStep w g n e) (nextIdx n e) := by
  unfold gStep
  have hmono : n ≤ nextIdx n e := by cases e <;> simp [nextIdx]
  rcases step_pre w e with ⟨hpre, hp⟩ | ⟨w1, ts, hpre, hs, hrq, htq, hts, _⟩
  · rw [hpre]
    exact ⟨h.core.mono hmono, by rw [hp.1]; exact h.lenT, by rw [hp.2.1]; exact h.lenR⟩
  · rw [hpre]
    simp only
    have hlen : w1.taskQ.length - w.taskQ.length = ts.length := by rw [htq]; simp
    rw [hlen]
    have h1 : GInv w1 { g with tq := g.tq ++ List.replicate ts.length (evLab n e) } (nextIdx n e) := by
      refine ⟨?_, ?_, by rw [hrq]; exact h.lenR⟩
      · show Core (apps g.out) (apps g.rq ++ apps (g.tq ++ _)) _
        by_cases he : ∃ r, e = .app r
        · obtain ⟨r, rfl⟩ := he
          rw [hts.1 r rfl]
          simp only [List.length_singleton, List.replicate_one, apps_append, apps_single, Option.toList_some,
            nextIdx, evLab, ← List.append_assoc]
          exact h.core.push (Nat.le_refl _)
        · have : evLab n e = none := by
            cases e <;> first | rfl | exact absurd ⟨_, rfl⟩ he
          rw [this, apps_append, apps_replicate_none, List.append_nil]
          exact h.core.mono hmono
      · show (g.tq ++ _).length = _
        rw [htq]; simp [h.lenT]
    have h2 := progress_ginv h1
    exact ⟨h2.core, by rw [hs.1]; exact h2.lenT, by rw [hs.2.1]; exact h2.lenR⟩

theorem gRun_inv : ∀ (evs : List Ev) (w : World) (g : Gh) (n : Nat), GInv w g n →
    ∃ b, GInv (evs.foldl step w) (gRun evs w g n) b
  | [], _, _, n, h => ⟨n, h⟩
  | e :: rest, w, g, n, h => by
    simp only [List.foldl_cons, gRun]
    exact gRun_inv rest _ _ _ (gStep_inv e h)

theorem init_ginv (s : Script) : GInv (init s) {} 0 := by
  refine ⟨⟨?_, ?_, ?_, ?_, ?_⟩, rfl, rfl⟩ <;> simp [apps]

theorem gExec_inv (s : Script) : ∃ b, GInv (exec s) (gExec s) b :=
  gRun_inv s.evs (init s) {} 0 (init_ginv s)

/-- attempts of the application's requests (all kinds), in wire order, are non-decreasing in the
    submission index (retransmissions repeat an index) -/
theorem gatt_sorted (s : Script) : (apps (gExec s).out).Pairwise (· ≤ ·) := by
  obtain ⟨b, h⟩ := gExec_inv s
  exact h.core.attLe

/-! ### the ghost and the wire log, whole run -/

theorem all2_replicate_lib (reqs : List Req) (l : Lab) : ∀ (ts : List Task), (∀ t ∈ ts, ∀ r, t ≠ .req r) →
    All2 (TaskOk reqs) (List.replicate ts.length l) ts
  | [], _ => .nil
  | t :: rest, h => by
    rw [List.length_cons, List.replicate_succ]
    exact .cons (fun r hr => absurd hr (h t List.mem_cons_self r))
      (all2_replicate_lib reqs l rest (fun t' ht' => h t' (List.mem_cons_of_mem _ ht')))

theorem gStep_winv {reqs : List Req} {w : World} {g : Gh} {n : Nat} (e : Ev) (h : WInv reqs w g)
    (hreq : ∀ r, e = .app r → reqs[n]? = some r) : WInv reqs (step w e) (gStep w g n e) := by
  unfold gStep
  rcases step_pre w e with ⟨hpre, hp⟩ | ⟨w1, ts, hpre, hs, hrq, htq, hts, hw⟩
  · rw [hpre]
    exact ⟨by rw [hp.1]; exact h.okT, by rw [hp.2.1]; exact h.okR, by rw [hp.2.2.1]; exact h.wire, hp.2.2.2 h.cli⟩
  · rw [hpre]
    simp only
    have hlen : w1.taskQ.length - w.taskQ.length = ts.length := by rw [htq]; simp
    rw [hlen]
    have hpush : All2 (TaskOk reqs) (List.replicate ts.length (evLab n e)) ts := by
      by_cases he : ∃ r, e = .app r
      · obtain ⟨r, rfl⟩ := he
        rw [hts.1 r rfl]
        refine .single ?_
        intro r' hr'
        cases hr'
        show (reqs[n]?).map reqKey = some (reqKey r)
        rw [hreq r rfl]; rfl
      · exact all2_replicate_lib reqs _ ts (hts.2 (fun r hr => he ⟨r, hr⟩))
    have h1 : WInv reqs w1 { g with tq := g.tq ++ List.replicate ts.length (evLab n e) } :=
      ⟨by rw [htq]; exact h.okT.append hpush, by rw [hrq]; exact h.okR, by rw [hw.1]; exact h.wire, hw.2 h.cli⟩
    have h2 := progress_winv h1
    exact ⟨by rw [hs.1]; exact h2.okT, by rw [hs.2.1]; exact h2.okR, by rw [hs.2.2.1]; exact h2.wire,
      hs.2.2.2 h2.cli⟩

theorem appReqs_cons_app (r : Req) (rest : List Ev) : appReqs (.app r :: rest) = r :: appReqs rest := rfl

theorem appReqs_cons_other (e : Ev) (rest : List Ev) (he : ∀ r, e ≠ .app r) :
    appReqs (e :: rest) = appReqs rest := by
  cases e <;> first | rfl | exact absurd rfl (he _)

theorem gRun_winv (reqs : List Req) : ∀ (evs : List Ev) (w : World) (g : Gh) (n : Nat), WInv reqs w g →
    (∀ j r, (appReqs evs)[j]? = some r → reqs[n + j]? = some r) →
    WInv reqs (evs.foldl step w) (gRun evs w g n)
  | [], _, _, _, h, _ => h
  | e :: rest, w, g, n, h, hr => by
    simp only [List.foldl_cons, gRun]
    by_cases he : ∃ r, e = .app r
    · obtain ⟨r, rfl⟩ := he
      refine gRun_winv reqs rest _ _ _ (gStep_winv _ h (fun r' hr' => ?_)) (fun j r' hj => ?_)
      · cases hr'
        exact hr 0 r rfl
      · have := hr (j + 1) r' (by rw [appReqs_cons_app]; simpa using hj)
        simp only [nextIdx]
        rw [show n + 1 + j = n + (j + 1) by omega]; exact this
    · have he' : ∀ r, e ≠ .app r := fun r hr => he ⟨r, hr⟩
      refine gRun_winv reqs rest _ _ _ (gStep_winv _ h (fun r' hr' => absurd hr' (he' r'))) (fun j r' hj => ?_)
      have hn : nextIdx n e = n := by cases e <;> first | rfl | exact absurd rfl (he' _)
      rw [hn]
      exact hr j r' (by rw [appReqs_cons_other e rest he']; exact hj)

theorem init_winv (reqs : List Req) (s : Script) : WInv reqs (init s) {} :=
  ⟨.nil, .nil, .nil, fun k hk => by simp [init] at hk⟩

/-- The ghost labels the request packets of the wire log one by one, in order: a packet labelled
    `some i` carries the content of the application's `i`-th request, a packet labelled `none`
    is a SUBSCRIBE with a single filter (the library's re-subscription). -/
theorem gExec_wire (s : Script) : All2 (LabKey (appReqs s.evs)) (gExec s).out (wireKeys (exec s)) :=
  (gRun_winv (appReqs s.evs) s.evs (init s) {} 0 (init_winv _ s) (fun j r hj => by simpa using hj)).wire

/-- picking the elements at strictly increasing positions gives a subsequence -/
theorem filterMap_getElem_sublist {α : Type} : ∀ (l : List α) (d : Nat) (is : List Nat),
    is.Pairwise (· < ·) → (∀ i ∈ is, d ≤ i) → (is.filterMap (fun i => l[i - d]?)).Sublist l
  | [], _, is, _, _ => by simp
  | a :: t, d, [], _, _ => by simp
  | a :: t, d, i :: is', hp, hd => by
    rw [List.pairwise_cons] at hp
    have hshift : ∀ js : List Nat, (∀ j ∈ js, d + 1 ≤ j) →
        js.filterMap (fun j => (a :: t)[j - d]?) = js.filterMap (fun j => t[j - (d + 1)]?) := by
      intro js
      induction js with
      | nil => intro _; rfl
      | cons j js ih =>
        intro hjs
        have := hjs j List.mem_cons_self
        rw [List.filterMap_cons, List.filterMap_cons, ih (fun j' hj' => hjs j' (List.mem_cons_of_mem _ hj')),
          show j - d = (j - (d + 1)) + 1 by omega, List.getElem?_cons_succ]
    have hrest : ∀ j ∈ is', d + 1 ≤ j := fun j hj => by
      have := hp.1 j hj; have := hd i List.mem_cons_self; omega
    by_cases hi : i = d
    · subst hi
      rw [List.filterMap_cons]
      simp only [Nat.sub_self, List.getElem?_cons_zero]
      rw [hshift is' hrest]
      exact (filterMap_getElem_sublist t (i + 1) is' hp.2 hrest).cons_cons a
    · have hall : ∀ j ∈ i :: is', d + 1 ≤ j := by
        intro j hj
        rcases List.mem_cons.1 hj with rfl | hj
        · have := hd j List.mem_cons_self; omega
        · exact hrest j hj
      rw [hshift _ hall]
      exact (filterMap_getElem_sublist t (d + 1) (i :: is') (List.pairwise_cons.2 hp) hall).cons a

end Mqtt.C03
