/-
  Helper lemmas for property C08 (second layer): the subscription bookkeeping of the retry /
  reconnect stack (`Model/Retry.lean`) against the broker's table.
-/
import MqttVerif.Model.Retry
import MqttVerif.Props.C08a

namespace Mqtt.Retry
open Mqtt Mqtt.Spec

/-! ### pure map facts: every call acts on every filter separately -/

theorem setSubs_local (s : List Subscription) (t : Bytes) :
    ∃ o : Option (Option Nat), ∀ m : SubMap, setSubs m s t = o.getD (m t) := by
  induction s with
  | nil => exact ⟨none, fun m => rfl⟩
  | cons x rest ih =>
    obtain ⟨o, ho⟩ := ih
    by_cases h : t = x.topic
    · refine ⟨some (o.getD (some x.qos)), fun m => ?_⟩
      simp only [setSubs, ho, if_pos h, Option.getD_some]
    · refine ⟨o, fun m => ?_⟩
      simp only [setSubs, ho, if_neg h]

theorem delSubs_local (s : List Bytes) (t : Bytes) :
    ∃ o : Option (Option Nat), ∀ m : SubMap, delSubs m s t = o.getD (m t) := by
  induction s with
  | nil => exact ⟨none, fun m => rfl⟩
  | cons x rest ih =>
    obtain ⟨o, ho⟩ := ih
    by_cases h : t = x
    · refine ⟨some (o.getD none), fun m => ?_⟩
      simp only [delSubs, ho, if_pos h, Option.getD_some]
    · refine ⟨o, fun m => ?_⟩
      simp only [delSubs, ho, if_neg h]

theorem netStep_local (c : SubCall) (t : Bytes) :
    ∃ o : Option (Option Nat), ∀ m : SubMap, netStep m c t = o.getD (m t) := by
  cases c with
  | sub s => exact setSubs_local s t
  | unsub s => exact delSubs_local s t

theorem fold_local (cs : List SubCall) (t : Bytes) :
    ∃ o : Option (Option Nat), ∀ m : SubMap, cs.foldl netStep m t = o.getD (m t) := by
  induction cs with
  | nil => exact ⟨none, fun m => rfl⟩
  | cons c rest ih =>
    obtain ⟨o, ho⟩ := ih
    obtain ⟨o1, ho1⟩ := netStep_local c t
    cases o with
    | none => exact ⟨o1, fun m => by simp only [List.foldl_cons, ho, ho1, Option.getD_none]⟩
    | some v => exact ⟨some v, fun m => by simp only [List.foldl_cons, ho, Option.getD_some]⟩

/-- applying the same Subscribe / Unsubscribe call twice in a row is the same as applying it once -/
theorem netStep_idem (m : SubMap) (c : SubCall) : netStep (netStep m c) c = netStep m c := by
  funext t
  obtain ⟨o, ho⟩ := netStep_local c t
  rw [ho, ho]
  cases o <;> rfl

/-- `P ≤ E`: wherever `P` is defined it agrees with `E` -/
def RWeak (P E : SubMap) : Prop := ∀ t, P t = E t ∨ P t = none

/-- `E ≤ P`: every filter of `E` is in `P` with the same QoS -/
def RSup (P E : SubMap) : Prop := ∀ t q, E t = some q → P t = some q

theorem rweak_refl (P : SubMap) : RWeak P P := fun _ => Or.inl rfl
theorem rsup_refl (P : SubMap) : RSup P P := fun _ _ h => h

theorem eq_of_rweak_rsup {P E : SubMap} (h1 : RWeak P E) (h2 : RSup P E) : P = E := by
  funext t
  cases h1 t with
  | inl h => exact h
  | inr h =>
    cases hE : E t with
    | none => exact h
    | some q => rw [h2 t q hE]

theorem rweak_step {P E : SubMap} (h : RWeak P E) (c : SubCall) :
    RWeak (netStep P c) (netStep E c) := by
  intro t
  obtain ⟨o, ho⟩ := netStep_local c t
  rw [ho, ho]
  cases o with
  | none => exact h t
  | some v => exact Or.inl rfl

theorem rsup_step {P E : SubMap} (h : RSup P E) (c : SubCall) :
    RSup (netStep P c) (netStep E c) := by
  intro t q
  obtain ⟨o, ho⟩ := netStep_local c t
  rw [ho, ho]
  cases o with
  | none => exact h t q
  | some v => exact id

/-- losing the session: replaying the pending calls on the empty table gives a sub-map of what
    replaying them on the old table gave -/
theorem rweak_clear {m : SubMap} {E : SubMap} (cs : List SubCall)
    (h : RWeak (cs.foldl netStep m) E) : RWeak (cs.foldl netStep subMapEmpty) E := by
  intro t
  obtain ⟨o, ho⟩ := fold_local cs t
  have := h t
  rw [ho] at this
  rw [ho]
  cases o with
  | none => exact Or.inr rfl
  | some v => exact this

/-- re-subscribing the entries of a duplicate-free list one by one overlays its map -/
theorem resub_fold (l : SubList) (h : NoDupTopics l) (m : SubMap) (t : Bytes) :
    (l.map (fun x => SubCall.sub [x])).foldl netStep m t = (toMap l t).or (m t) := by
  induction l generalizing m with
  | nil => simp [toMap_nil]
  | cons x l ih =>
    rw [noDupTopics_cons] at h
    simp only [List.map_cons, List.foldl_cons]
    rw [ih h.2, toMap_cons]
    simp only [netStep, setSubs]
    by_cases hx : x.topic = t
    · have : toMap l t = none := toMap_eq_none_iff.2 (fun e he => hx ▸ h.1 e he)
      simp [this, hx]
    · have : ¬ t = x.topic := fun h => hx h.symm
      simp [hx, this]

theorem resub_fold_self (l : SubList) (h : NoDupTopics l) :
    (l.map (fun x => SubCall.sub [x])).foldl netStep subMapEmpty = toMap l := by
  funext t
  rw [resub_fold l h]
  simp [subMapEmpty]

/-- a filter present after replaying calls was present before or was set by one of them -/
theorem fold_some_origin (cs : List SubCall) (m : SubMap) (t : Bytes) (q : Nat)
    (h : cs.foldl netStep m t = some q) :
    m t = some q ∨ ∃ s, SubCall.sub s ∈ cs ∧ (⟨t, q⟩ : Subscription) ∈ s := by
  induction cs generalizing m with
  | nil => exact Or.inl h
  | cons c rest ih =>
    simp only [List.foldl_cons] at h
    cases ih _ h with
    | inr h' =>
      obtain ⟨s, hs, hm⟩ := h'
      exact Or.inr ⟨s, List.mem_cons_of_mem _ hs, hm⟩
    | inl h' =>
      cases c with
      | unsub ts =>
        left
        simp only [netStep] at h'
        clear ih h
        induction ts generalizing m with
        | nil => exact h'
        | cons x ts ih2 =>
          have := ih2 _ h'
          by_cases hx : t = x <;> simp_all
      | sub s =>
        simp only [netStep] at h'
        clear ih h
        suffices m t = some q ∨ (⟨t, q⟩ : Subscription) ∈ s by
          cases this with
          | inl h => exact Or.inl h
          | inr h => exact Or.inr ⟨s, List.mem_cons_self, h⟩
        induction s generalizing m with
        | nil => exact Or.inl h'
        | cons x s ih2 =>
          cases ih2 _ h' with
          | inr h => exact Or.inr (List.mem_cons_of_mem _ h)
          | inl h =>
            by_cases hx : t = x.topic
            · right
              simp only [if_pos hx, Option.some.injEq] at h
              cases x
              simp_all
            · simp only [if_neg hx] at h
              exact Or.inl h

/-! ### connections -/

theorem getConn_setConn (w : World) (k : Nat) (c : Conn) (j : Nat) :
    getConn (setConn w k c) j = if j = k ∧ k < w.conns.length then c else getConn w j := by
  simp only [getConn, setConn, List.getD_eq_getElem?_getD, List.getElem?_set]
  by_cases hj : k = j
  · subst hj
    by_cases hk : k < w.conns.length <;> simp [hk]
  · have : ¬ j = k := fun h => hj h.symm
    simp [hj, this]

/-- the part of the world no request attempt and no task touches, plus: connections never come
    back to life, and nothing reaches the broker over a dead connection `k` -/
structure TFrame (k : Nat) (w w' : World) : Prop where
  taskQ : w'.taskQ = w.taskQ
  accepted : w'.accepted = w.accepted
  initialized : w'.initialized = w.initialized
  cli : w'.cli = w.cli
  goroutine : w'.goroutine = w.goroutine
  gConnected : w'.gConnected = w.gConnected
  connReady : w'.connReady = w.connReady
  alive : ∀ j, (getConn w' j).alive = true → (getConn w j).alive = true
  dead : (getConn w k).alive = false → w'.broker.subs = w.broker.subs ∧ w'.stuck = w.stuck
  len : w'.conns.length = w.conns.length
  phase : w'.phase = w.phase
  stopped : w'.stopped = w.stopped
  ctxCancelled : w'.ctxCancelled = w.ctxCancelled
  cfg : w'.cfg = w.cfg
  connectReturned : w'.connectReturned = w.connectReturned

theorem TFrame.refl (k : Nat) (w : World) : TFrame k w w :=
  ⟨rfl, rfl, rfl, rfl, rfl, rfl, rfl, fun _ h => h, fun _ => ⟨rfl, rfl⟩, rfl, rfl, rfl, rfl, rfl, rfl⟩

theorem TFrame.trans {k : Nat} {a b c : World} (h1 : TFrame k a b) (h2 : TFrame k b c) :
    TFrame k a c where
  taskQ := h2.taskQ.trans h1.taskQ
  accepted := h2.accepted.trans h1.accepted
  initialized := h2.initialized.trans h1.initialized
  cli := h2.cli.trans h1.cli
  goroutine := h2.goroutine.trans h1.goroutine
  gConnected := h2.gConnected.trans h1.gConnected
  connReady := h2.connReady.trans h1.connReady
  alive := fun j h => h1.alive j (h2.alive j h)
  dead := fun h => by
    have hb : (getConn b k).alive = false := by
      cases hx : (getConn b k).alive with
      | false => rfl
      | true => rw [h1.alive k hx] at h; cases h
    exact ⟨(h2.dead hb).1.trans (h1.dead h).1, (h2.dead hb).2.trans (h1.dead h).2⟩
  len := h2.len.trans h1.len
  phase := h2.phase.trans h1.phase
  stopped := h2.stopped.trans h1.stopped
  ctxCancelled := h2.ctxCancelled.trans h1.ctxCancelled
  cfg := h2.cfg.trans h1.cfg
  connectReturned := h2.connectReturned.trans h1.connectReturned

/-- the sub/unsub call an entry of the retry queue stands for -/
def entryCall : Entry → Option SubCall
  | .reSub s => some (.sub s)
  | .qSub s => some (.sub s)
  | .reUnsub t => some (.unsub t)
  | .qUnsub t => some (.unsub t)
  | _ => none

def pendOf (q : List Entry) : List SubCall := q.filterMap entryCall

/-- the broker table after it processed the call (if any) -/
def post (oc : Option SubCall) (b : SubList) : SubList :=
  match oc with
  | none => b
  | some c => applyCall b c

def netStepO (m : SubMap) : Option SubCall → SubMap
  | none => m
  | some c => netStep m c

/-- what one `…Impl` call (an attempt standing for the call `oc`) does -/
structure AttSpec (k : Nat) (oc : Option SubCall) (w : World) (r : World × Outcome) : Prop where
  frame : TFrame k w r.1
  retryQ : r.1.retryQ = w.retryQ
  subEst : r.1.subEst = w.subEst
  closeAfterTask : r.1.closeAfterTask = w.closeAfterTask
  stuck : r.2 = .stuck → r.1.stuck = true
  nstuck : r.2 ≠ .stuck → r.1.stuck = w.stuck
  handle : ∀ h e, r.2 = .fail (some h) e → entryCall h = oc
  nohandle : ∀ e, r.2 = .fail none e → oc = none
  subs : r.1.broker.subs = w.broker.subs ∨ r.1.broker.subs = post oc w.broker.subs
  done : r.2 = .done → r.1.broker.subs = post oc w.broker.subs

/-- the packet stands for this call at the broker -/
def pktCall : Pkt → Option SubCall
  | .subscribe _ s => some (.sub s)
  | .unsubscribe _ t => some (.unsub t)
  | _ => none

theorem process_subs (b : Broker) (p : Pkt) : (b.process p).subs = post (pktCall p) b.subs := by
  cases p <;> simp [Broker.process, pktCall, post, applyCall, Broker.publish, Broker.pubrel]
  all_goals (repeat' split) <;> rfl

structure SendSpec (k : Nat) (p : Pkt) (waits : Bool) (w : World) (r : World × Sent) : Prop where
  frame : TFrame k w r.1
  retryQ : r.1.retryQ = w.retryQ
  subEst : r.1.subEst = w.subEst
  closeAfterTask : r.1.closeAfterTask = w.closeAfterTask
  stuck : r.2 = .stuck → r.1.stuck = true
  nstuck : r.2 ≠ .stuck → r.1.stuck = w.stuck
  subs : r.1.broker.subs = w.broker.subs ∨ r.1.broker.subs = post (pktCall p) w.broker.subs
  acked : waits = true → r.2 = .acked → r.1.broker.subs = post (pktCall p) w.broker.subs

@[simp] theorem len_setConn (w : World) (k : Nat) (c : Conn) :
    (setConn w k c).conns.length = w.conns.length := by simp [setConn]
@[simp] theorem len_logPkt (w : World) (k : Nat) (p : Pkt) (x : Wire) :
    (logPkt w k p x).conns.length = w.conns.length := by simp [logPkt]
@[simp] theorem len_kill (w : World) (k : Nat) : (kill w k).conns.length = w.conns.length := by
  simp [kill]

theorem alive_setConn_same (w : World) (k : Nat) (c : Conn) (hc : c.alive = (getConn w k).alive)
    (j : Nat) : (getConn (setConn w k c) j).alive = (getConn w j).alive := by
  rw [getConn_setConn]
  split
  · next h => rw [h.1, hc]
  · rfl

theorem alive_setConn_dead (w : World) (k : Nat) (c : Conn) (hc : c.alive = false)
    (j : Nat) (h : (getConn (setConn w k c) j).alive = true) : (getConn w j).alive = true := by
  rw [getConn_setConn] at h
  split at h
  · rw [hc] at h; cases h
  · exact h

theorem alive_logPkt (w : World) (k : Nat) (p : Pkt) (x : Wire) (j : Nat) :
    (getConn (logPkt w k p x) j).alive = (getConn w j).alive := by
  exact alive_setConn_same w k { getConn w k with pkts := (getConn w k).pkts ++ [(p, x)] } rfl j

theorem alive_kill (w : World) (k : Nat) (j : Nat) (h : (getConn (kill w k) j).alive = true) :
    (getConn w j).alive = true := by
  unfold kill at h
  exact alive_setConn_dead w k _ rfl j h

theorem send_spec (w : World) (k : Nat) (p : Pkt) (waits : Bool) :
    SendSpec k p waits w (send w k p waits) := by
  unfold send
  by_cases ha : (getConn w k).alive = true
  · simp only [ha, not_true_eq_false, if_false]
    cases hf : w.faults with
    | nil =>
      simp only [nextFault, hf]
      exact ⟨⟨rfl, rfl, rfl, rfl, rfl, rfl, rfl, fun j h => (alive_logPkt w k p _ j) ▸ h,
        fun h => (by rw [ha] at h; cases h), by simp, rfl, rfl, rfl, rfl, rfl⟩, rfl, rfl, rfl, by simp, fun _ => rfl,
        Or.inr (process_subs _ _), fun _ _ => process_subs _ _⟩
    | cons f rest =>
      simp only [nextFault, hf]
      have hal : ∀ j, (getConn (logPkt { w with faults := rest } k p (.sent f)) j).alive = true →
          (getConn w j).alive = true := fun j h => by
        rw [alive_logPkt] at h; exact h
      have hd : (getConn w k).alive = false → ∀ (P : Prop), P := fun h => by rw [ha] at h; cases h
      cases f with
      | ok =>
        exact ⟨⟨rfl, rfl, rfl, rfl, rfl, rfl, rfl, hal, fun h => hd h _, by simp, rfl, rfl, rfl, rfl, rfl⟩, rfl, rfl, rfl, by simp,
          fun _ => rfl, Or.inr (process_subs _ _), fun _ _ => process_subs _ _⟩
      | writeFail =>
        exact ⟨⟨rfl, rfl, rfl, rfl, rfl, rfl, rfl, fun j h => hal j (alive_kill _ _ j h),
          fun h => hd h _, by simp, rfl, rfl, rfl, rfl, rfl⟩, rfl, rfl, rfl, by simp, fun _ => rfl, Or.inl rfl, by simp⟩
      | lostReq =>
        refine ⟨⟨rfl, rfl, rfl, rfl, rfl, rfl, rfl, fun j h => hal j (alive_kill _ _ j h),
          fun h => hd h _, by simp, rfl, rfl, rfl, rfl, rfl⟩, rfl, rfl, rfl, ?_, fun _ => rfl, Or.inl rfl, ?_⟩
        · cases waits <;> simp
        · intro hw; simp [hw]
      | lostAck =>
        refine ⟨⟨rfl, rfl, rfl, rfl, rfl, rfl, rfl, fun j h => hal j (alive_kill _ _ j h),
          fun h => hd h _, by simp, rfl, rfl, rfl, rfl, rfl⟩, rfl, rfl, rfl, ?_, fun _ => rfl, Or.inr (process_subs _ _), ?_⟩
        · cases waits <;> simp
        · intro hw; simp [hw]
      | silent =>
        cases waits with
        | false =>
          exact ⟨⟨rfl, rfl, rfl, rfl, rfl, rfl, rfl, hal, fun h => hd h _, by simp, rfl, rfl, rfl, rfl, rfl⟩, rfl, rfl, rfl, by simp,
            fun _ => rfl, Or.inr (process_subs _ _), by simp⟩
        | true =>
          simp only [not_true_eq_false, if_false]
          split
          · exact ⟨⟨rfl, rfl, rfl, rfl, rfl, rfl, rfl, hal, fun h => hd h _, by simp, rfl, rfl, rfl, rfl, rfl⟩, rfl, rfl, rfl, by simp,
              fun _ => rfl, Or.inr (process_subs _ _), by simp⟩
          · exact ⟨⟨rfl, rfl, rfl, rfl, rfl, rfl, rfl, hal, fun h => hd h _, by simp, rfl, rfl, rfl, rfl, rfl⟩, rfl, rfl, rfl,
              fun _ => rfl, by simp, Or.inr (process_subs _ _), by simp⟩
  · simp only [ha]
    exact ⟨⟨rfl, rfl, rfl, rfl, rfl, rfl, rfl, fun j h => (alive_logPkt w k p _ j) ▸ h,
      fun _ => ⟨rfl, rfl⟩, by simp, rfl, rfl, rfl, rfl, rfl⟩, rfl, rfl, rfl, by simp, fun _ => rfl, Or.inl rfl, by simp⟩

/-- a silent step: nothing of interest changes -/
structure PreFrame (k : Nat) (w w' : World) : Prop where
  frame : TFrame k w w'
  retryQ : w'.retryQ = w.retryQ
  subEst : w'.subEst = w.subEst
  closeAfterTask : w'.closeAfterTask = w.closeAfterTask
  stuck : w'.stuck = w.stuck
  subs : w'.broker.subs = w.broker.subs

theorem PreFrame.refl (k : Nat) (w : World) : PreFrame k w w :=
  ⟨TFrame.refl k w, rfl, rfl, rfl, rfl, rfl⟩

theorem AttSpec.pre {k : Nat} {oc : Option SubCall} {w w1 : World} {r : World × Outcome}
    (h : PreFrame k w w1) (a : AttSpec k oc w1 r) : AttSpec k oc w r where
  frame := h.frame.trans a.frame
  retryQ := a.retryQ.trans h.retryQ
  subEst := a.subEst.trans h.subEst
  closeAfterTask := a.closeAfterTask.trans h.closeAfterTask
  stuck := a.stuck
  nstuck := fun hn => (a.nstuck hn).trans h.stuck
  handle := a.handle
  nohandle := a.nohandle
  subs := by rw [← h.subs]; exact a.subs
  done := by rw [← h.subs]; exact a.done

theorem preFrame_ctr (w : World) (k : Nat) (n : Nat) :
    PreFrame k w (setConn w k { getConn w k with ctr := n }) :=
  ⟨⟨rfl, rfl, rfl, rfl, rfl, rfl, rfl,
    fun j h => (alive_setConn_same w k { getConn w k with ctr := n } rfl j) ▸ h,
    fun _ => ⟨rfl, rfl⟩, by simp, rfl, rfl, rfl, rfl, rfl⟩, rfl, rfl, rfl, rfl, rfl⟩

/-- the common tail of `subAttempt`, `unsubAttempt`, `relAttempt` -/
def finish (r : World × Sent) (rq : Req) (h : Entry) : World × Outcome :=
  match r.2 with
  | .acked => ({ r.1 with broker := { r.1.broker with acked := r.1.broker.acked ++ [rq] } }, .done)
  | .stuck => (r.1, .stuck)
  | s => (r.1, .fail (some h) (errOf s))

theorem finish_spec {k : Nat} {p : Pkt} {w : World} {r : World × Sent} (rq : Req) (h : Entry)
    (hs : SendSpec k p true w r) (hc : entryCall h = pktCall p) :
    AttSpec k (pktCall p) w (finish r rq h) := by
  obtain ⟨w2, s⟩ := r
  have fr : TFrame k w w2 := hs.frame
  cases s with
  | acked =>
    exact ⟨⟨fr.taskQ, fr.accepted, fr.initialized, fr.cli, fr.goroutine, fr.gConnected, fr.connReady,
      fr.alive, fr.dead, fr.len, fr.phase, fr.stopped, fr.ctxCancelled, fr.cfg, fr.connectReturned⟩, hs.retryQ, hs.subEst, hs.closeAfterTask, by simp [finish],
      fun _ => hs.nstuck (by simp), by simp [finish], by simp [finish],
      Or.inr (hs.acked rfl rfl), fun _ => hs.acked rfl rfl⟩
  | stuck =>
    exact ⟨fr, hs.retryQ, hs.subEst, hs.closeAfterTask, fun _ => hs.stuck rfl, by simp [finish],
      by simp [finish], by simp [finish], hs.subs, by simp [finish]⟩
  | failed =>
    exact ⟨fr, hs.retryQ, hs.subEst, hs.closeAfterTask, by simp [finish],
      fun _ => hs.nstuck (by simp), by simp [finish, hc], by simp [finish], hs.subs, by simp [finish]⟩
  | timedOut =>
    exact ⟨fr, hs.retryQ, hs.subEst, hs.closeAfterTask, by simp [finish],
      fun _ => hs.nstuck (by simp), by simp [finish, hc], by simp [finish], hs.subs, by simp [finish]⟩

theorem subAttempt_eq (w : World) (k : Nat) (subs : List Subscription) :
    subAttempt w k subs =
      finish (send (setConn w k { getConn w k with ctr := (newID (getConn w k).ctr).1 }) k
        (.subscribe (newID (getConn w k).ctr).2 subs) true) (.sub subs) (.reSub subs) := rfl

theorem unsubAttempt_eq (w : World) (k : Nat) (ts : List Bytes) :
    unsubAttempt w k ts =
      finish (send (setConn w k { getConn w k with ctr := (newID (getConn w k).ctr).1 }) k
        (.unsubscribe (newID (getConn w k).ctr).2 ts) true) (.unsub ts) (.reUnsub ts) := rfl

theorem relAttempt_eq (w : World) (k m id : Nat) :
    relAttempt w k m id = finish (send w k (.pubrel id m) true) (.pub m 2) (.rePubRel m) := rfl

theorem subAttempt_spec (w : World) (k : Nat) (subs : List Subscription) :
    AttSpec k (some (.sub subs)) w (subAttempt w k subs) := by
  rw [subAttempt_eq]
  exact (finish_spec (p := .subscribe (newID (getConn w k).ctr).2 subs) _ _
    (send_spec _ _ _ _) rfl).pre (preFrame_ctr w k _)

theorem unsubAttempt_spec (w : World) (k : Nat) (ts : List Bytes) :
    AttSpec k (some (.unsub ts)) w (unsubAttempt w k ts) := by
  rw [unsubAttempt_eq]
  exact (finish_spec (p := .unsubscribe (newID (getConn w k).ctr).2 ts) _ _
    (send_spec _ _ _ _) rfl).pre (preFrame_ctr w k _)

theorem relAttempt_spec (w : World) (k m id : Nat) :
    AttSpec k none w (relAttempt w k m id) := by
  rw [relAttempt_eq]
  exact finish_spec (p := .pubrel id m) _ _ (send_spec _ _ _ _) rfl

def pubFinish (r : World × Sent) (k m qos id : Nat) : World × Outcome :=
  match r.2 with
  | .acked =>
    if qos = 2 then relAttempt r.1 k m id
    else if qos = 1 then
      ({ r.1 with broker := { r.1.broker with acked := r.1.broker.acked ++ [.pub m 1] } }, .done)
    else (r.1, .done)
  | .stuck => (r.1, .stuck)
  | s => (r.1, .fail (if qos = 0 then none else some (.rePublish m qos)) (errOf s))

theorem SendSpec.subs_same {k : Nat} {p : Pkt} {b : Bool} {w : World} {r : World × Sent}
    (hs : SendSpec k p b w r) (hp : pktCall p = none) : r.1.broker.subs = w.broker.subs := by
  have := hs.subs
  rw [hp] at this
  cases this with
  | inl h => exact h
  | inr h => exact h

theorem pubFinish_spec {k m qos id : Nat} {dup b : Bool} {w : World} {r : World × Sent}
    (hs : SendSpec k (.publish m qos id dup) b w r) : AttSpec k none w (pubFinish r k m qos id) := by
  obtain ⟨w2, s⟩ := r
  have fr : TFrame k w w2 := hs.frame
  have hsub : w2.broker.subs = w.broker.subs := hs.subs_same rfl
  cases s with
  | acked =>
    have hst : w2.stuck = w.stuck := hs.nstuck (by simp)
    have pf : PreFrame k w w2 := ⟨fr, hs.retryQ, hs.subEst, hs.closeAfterTask, hst, hsub⟩
    simp only [pubFinish]
    split
    · exact (relAttempt_spec w2 k m id).pre pf
    · split
      · exact ⟨⟨fr.taskQ, fr.accepted, fr.initialized, fr.cli, fr.goroutine, fr.gConnected,
          fr.connReady, fr.alive, fr.dead, fr.len, fr.phase, fr.stopped, fr.ctxCancelled, fr.cfg, fr.connectReturned⟩, hs.retryQ, hs.subEst, hs.closeAfterTask, by simp,
          fun _ => hst, by simp, by simp, Or.inl hsub, fun _ => hsub⟩
      · exact ⟨fr, hs.retryQ, hs.subEst, hs.closeAfterTask, by simp,
          fun _ => hst, by simp, by simp, Or.inl hsub, fun _ => hsub⟩
  | stuck =>
    exact ⟨fr, hs.retryQ, hs.subEst, hs.closeAfterTask, fun _ => hs.stuck rfl, by simp [pubFinish],
      by simp [pubFinish], by simp [pubFinish], Or.inl hsub, by simp [pubFinish]⟩
  | failed =>
    refine ⟨fr, hs.retryQ, hs.subEst, hs.closeAfterTask, by simp [pubFinish],
      fun _ => hs.nstuck (by simp), ?_, by simp [pubFinish], Or.inl hsub, by simp [pubFinish]⟩
    intro h e he
    simp only [pubFinish, Outcome.fail.injEq] at he
    split at he <;> simp at he
    rw [← he.1]; rfl
  | timedOut =>
    refine ⟨fr, hs.retryQ, hs.subEst, hs.closeAfterTask, by simp [pubFinish],
      fun _ => hs.nstuck (by simp), ?_, by simp [pubFinish], Or.inl hsub, by simp [pubFinish]⟩
    intro h e he
    simp only [pubFinish, Outcome.fail.injEq] at he
    split at he <;> simp at he
    rw [← he.1]; rfl

theorem pubAttempt_spec (w : World) (k m qos : Nat) (dup : Bool) :
    AttSpec k none w (pubAttempt w k m qos dup) := by
  cases hl : lookupPid w m with
  | some id =>
    have : pubAttempt w k m qos dup =
        pubFinish (send w k (.publish m qos id dup) (qos ≠ 0)) k m qos id := by
      simp only [pubAttempt, hl]; rfl
    rw [this]
    exact pubFinish_spec (send_spec _ _ _ _)
  | none =>
    have : pubAttempt w k m qos dup =
        pubFinish (send (setConn { w with pid := w.pid ++ [(m, (newID (getConn w k).ctr).2)] } k
          { getConn w k with ctr := (newID (getConn w k).ctr).1 }) k
          (.publish m qos (newID (getConn w k).ctr).2 dup) (qos ≠ 0)) k m qos
          (newID (getConn w k).ctr).2 := by
      simp only [pubAttempt, hl]; rfl
    rw [this]
    refine (pubFinish_spec (send_spec _ _ _ _)).pre ?_
    exact ⟨⟨rfl, rfl, rfl, rfl, rfl, rfl, rfl,
      fun j h => (alive_setConn_same { w with pid := w.pid ++ [(m, (newID (getConn w k).ctr).2)] } k
        { getConn w k with ctr := (newID (getConn w k).ctr).1 } rfl j) ▸ h,
      fun _ => ⟨rfl, rfl⟩, by simp, rfl, rfl, rfl, rfl, rfl⟩, rfl, rfl, rfl, rfl, rfl⟩

/-- what a first-transmission closure (attempt + `absorb`) standing for the call `oc` does -/
structure FirstSpec (k : Nat) (oc : Option SubCall) (w w' : World) : Prop where
  frame : TFrame k w w'
  subEst : w'.subEst = w.subEst
  cases : (w'.stuck = true ∧ w'.retryQ = w.retryQ) ∨ (w'.stuck = w.stuck ∧
    ((w'.retryQ = w.retryQ ∧ w'.closeAfterTask = w.closeAfterTask ∧
        w'.broker.subs = post oc w.broker.subs) ∨
      (∃ h, w'.retryQ = w.retryQ ++ [h] ∧ entryCall h = oc ∧ w'.closeAfterTask = true ∧
        (w'.broker.subs = w.broker.subs ∨ w'.broker.subs = post oc w.broker.subs))))

theorem absorb_spec {k : Nat} {oc : Option SubCall} {w : World} {r : World × Outcome}
    (a : AttSpec k oc w r) : FirstSpec k oc w (absorb r.1 r.2) := by
  obtain ⟨w1, o⟩ := r
  have fr : TFrame k w w1 := a.frame
  cases o with
  | done =>
    exact ⟨fr, a.subEst, Or.inr ⟨a.nstuck (by simp), Or.inl ⟨a.retryQ, a.closeAfterTask, a.done rfl⟩⟩⟩
  | stuck => exact ⟨fr, a.subEst, Or.inl ⟨a.stuck rfl, a.retryQ⟩⟩
  | fail h e =>
    cases h with
    | none =>
      have hoc := a.nohandle e rfl
      refine ⟨fr, a.subEst, Or.inr ⟨a.nstuck (by simp), Or.inl ⟨a.retryQ, a.closeAfterTask, ?_⟩⟩⟩
      have := a.subs
      rw [hoc] at this ⊢
      cases this with
      | inl h => exact h
      | inr h => exact h
    | some h =>
      refine ⟨⟨fr.taskQ, fr.accepted, fr.initialized, fr.cli, fr.goroutine, fr.gConnected,
        fr.connReady, fr.alive, fr.dead, fr.len, fr.phase, fr.stopped, fr.ctxCancelled, fr.cfg, fr.connectReturned⟩, a.subEst, Or.inr ⟨a.nstuck (by simp), Or.inr ⟨h, ?_,
        a.handle h e rfl, rfl, a.subs⟩⟩⟩
      show w1.retryQ ++ [h] = w.retryQ ++ [h]
      rw [a.retryQ]

theorem firstPub_spec (w : World) (k m qos : Nat) : FirstSpec k none w (firstPub w k m qos) :=
  absorb_spec (pubAttempt_spec w k m qos false)

theorem firstSub_spec (w : World) (k : Nat) (s : List Subscription) :
    FirstSpec k (some (.sub s)) w (firstSub w k s) :=
  absorb_spec (subAttempt_spec w k s)

theorem firstUnsub_spec (w : World) (k : Nat) (ts : List Bytes) :
    FirstSpec k (some (.unsub ts)) w (firstUnsub w k ts) :=
  absorb_spec (unsubAttempt_spec w k ts)

/-! ### the three maps -/

/-- the broker's table -/
def Bm (w : World) : SubMap := toMap w.broker.subs
/-- the client's record -/
def Em (w : World) : SubMap := toMap w.subEst
/-- the broker's table after replaying what is pending in the retry queue -/
def Pm (w : World) : SubMap := (pendOf w.retryQ).foldl netStep (Bm w)

theorem post_spec (oc : Option SubCall) (b : SubList) (h : NoDupTopics b) :
    NoDupTopics (post oc b) ∧ toMap (post oc b) = netStepO (toMap b) oc := by
  cases oc with
  | none => exact ⟨h, rfl⟩
  | some c => exact ⟨C08.applyCall_nodup b c h, C08.applyCall_toMap b c h⟩

theorem netStepO_idem (m : SubMap) (oc : Option SubCall) :
    netStepO (netStepO m oc) oc = netStepO m oc := by
  cases oc with
  | none => rfl
  | some c => exact netStep_idem m c

theorem pendOf_append_single (q : List Entry) (h : Entry) (m : SubMap) :
    (pendOf (q ++ [h])).foldl netStep m = netStepO ((pendOf q).foldl netStep m) (entryCall h) := by
  simp only [pendOf, List.filterMap_append, List.foldl_append, List.filterMap_cons,
    List.filterMap_nil]
  cases entryCall h <;> rfl

/-- a first transmission with an empty retry queue: the pending view absorbs the call -/
theorem FirstSpec.pm {k : Nat} {oc : Option SubCall} {w w' : World} (f : FirstSpec k oc w w')
    (hq : w.retryQ = []) (hb : NoDupTopics w.broker.subs) (hs : w'.stuck = false) :
    Pm w' = netStepO (Pm w) oc ∧ NoDupTopics w'.broker.subs := by
  have hp := post_spec oc _ hb
  have hPw : Pm w = Bm w := by simp [Pm, hq, pendOf]
  cases f.cases with
  | inl h => rw [h.1] at hs; cases hs
  | inr h =>
    cases h.2 with
    | inl h1 =>
      obtain ⟨h1, _, h3⟩ := h1
      refine ⟨?_, h3 ▸ hp.1⟩
      rw [hPw]
      simp only [Pm, h1, hq, pendOf, List.filterMap_nil, List.foldl_nil, Bm, h3, hp.2]
    | inr h1 =>
      obtain ⟨e, h1, h2, _, h4⟩ := h1
      rw [hPw]
      unfold Pm
      rw [h1, pendOf_append_single, hq, h2]
      simp only [pendOf, List.filterMap_nil, List.foldl_nil, Bm]
      cases h4 with
      | inl h4 => rw [h4]; exact ⟨rfl, hb⟩
      | inr h4 => rw [h4, hp.2, netStepO_idem]; exact ⟨rfl, hp.1⟩

/-! ### request tasks -/

def reqCall : Req → Option SubCall
  | .sub s => some (.sub s)
  | .unsub t => some (.unsub t)
  | .pub _ _ => none

/-- a task that processes the call `oc`: the client's record and the pending view both absorb it -/
structure ReqSpec (k : Nat) (oc : Option SubCall) (w w' : World) : Prop where
  frame : TFrame k w w'
  nodupE : NoDupTopics w'.subEst
  em : Em w' = netStepO (Em w) oc
  pm : w'.stuck = false → Pm w' = netStepO (Pm w) oc ∧ NoDupTopics w'.broker.subs

theorem tframe_of_eqs {k : Nat} {w w' : World} (h1 : w'.taskQ = w.taskQ) (h2 : w'.accepted = w.accepted)
    (h3 : w'.initialized = w.initialized) (h4 : w'.cli = w.cli) (h5 : w'.goroutine = w.goroutine)
    (h6 : w'.gConnected = w.gConnected) (h7 : w'.connReady = w.connReady) (h8 : w'.conns = w.conns)
    (h9 : w'.broker = w.broker) (h10 : w'.stuck = w.stuck) (h11 : w'.phase = w.phase) (h12 : w'.stopped = w.stopped)
    (h13 : w'.ctxCancelled = w.ctxCancelled) (h14 : w'.cfg = w.cfg)
    (h15 : w'.connectReturned = w.connectReturned) :
    TFrame k w w' :=
  ⟨h1, h2, h3, h4, h5, h6, h7, fun j h => by simpa [getConn, h8] using h, fun _ => ⟨by rw [h9], h10⟩, by rw [h8], h11, h12, h13,
    h14, h15⟩

/-- shared shape of the three request tasks: update the record, then transmit or queue -/
theorem reqTask_spec {k : Nat} {oc : Option SubCall} {w w1 wf : World} (q : Entry)
    (hq : entryCall q = oc)
    (hb : NoDupTopics w.broker.subs)
    (h1 : TFrame k w w1) (h1r : w1.retryQ = w.retryQ) (h1b : w1.broker = w.broker)
    (h1e : NoDupTopics w1.subEst ∧ Em w1 = netStepO (Em w) oc)
    (hf : FirstSpec k oc w1 wf) :
    ReqSpec k oc w (if w1.retryQ.isEmpty then wf else { w1 with retryQ := w1.retryQ ++ [q] }) := by
  have hP1 : Pm w1 = Pm w := by simp [Pm, Bm, h1r, h1b]
  by_cases hem : w1.retryQ.isEmpty = true
  · rw [if_pos hem]
    have hq0 : w1.retryQ = [] := List.isEmpty_iff.1 hem
    refine ⟨h1.trans hf.frame, hf.subEst ▸ h1e.1, ?_, fun hs => ?_⟩
    · simp only [Em, hf.subEst]; exact h1e.2
    · have := hf.pm hq0 (h1b ▸ hb) hs
      rw [hP1] at this
      exact this
  · rw [if_neg hem]
    refine ⟨h1.trans (tframe_of_eqs rfl rfl rfl rfl rfl rfl rfl rfl rfl rfl rfl rfl rfl rfl rfl), h1e.1, h1e.2,
      fun _ => ⟨?_, h1b ▸ hb⟩⟩
    show (pendOf (w1.retryQ ++ [q])).foldl netStep (Bm w1) = _
    rw [pendOf_append_single, hq, ← hP1]
    rfl

theorem subscribeTask_spec (w : World) (k : Nat) (s : List Subscription)
    (hb : NoDupTopics w.broker.subs) (he : NoDupTopics w.subEst) :
    ReqSpec k (some (.sub s)) w (subscribeTask w k s) := by
  have hsp := applySubs_spec w.subEst s he
  exact reqTask_spec (w1 := { w with subEst := applySubs w.subEst s }) (.qSub s) rfl hb
    (tframe_of_eqs rfl rfl rfl rfl rfl rfl rfl rfl rfl rfl rfl rfl rfl rfl rfl) rfl rfl ⟨hsp.1, hsp.2⟩
    (firstSub_spec _ k s)

theorem runTask_req_spec (w : World) (k : Nat) (r : Req)
    (hb : NoDupTopics w.broker.subs) (he : NoDupTopics w.subEst) :
    ReqSpec k (reqCall r) w (runTask w k (.req r)) := by
  cases r with
  | sub s => exact subscribeTask_spec w k s hb he
  | unsub ts =>
    have hsp := applyUnsubs_spec w.subEst ts he
    exact reqTask_spec (w1 := { w with subEst := applyUnsubs w.subEst ts }) (.qUnsub ts) rfl hb
      (tframe_of_eqs rfl rfl rfl rfl rfl rfl rfl rfl rfl rfl rfl rfl rfl rfl rfl) rfl rfl ⟨hsp.1, hsp.2⟩
      (firstUnsub_spec _ k ts)
  | pub m qos =>
    by_cases hq : 0 < qos
    · have := reqTask_spec (w1 := w) (wf := firstPub w k m qos) (oc := none) (.qPub m qos) rfl hb
        (TFrame.refl k w) rfl rfl ⟨he, rfl⟩ (firstPub_spec w k m qos)
      simpa [runTask, hq, reqCall] using this
    · have := reqTask_spec (w1 := w) (wf := firstPub w k m qos) (oc := none) (.qPub m qos) rfl hb
        (TFrame.refl k w) rfl rfl ⟨he, rfl⟩ (firstPub_spec w k m qos)
      by_cases hem : w.retryQ.isEmpty = true
      · simpa [runTask, hem, reqCall] using this
      · simp only [runTask, hem, reqCall, gt_iff_lt, hq, if_false, Bool.false_eq_true]
        exact ⟨TFrame.refl k w, he, rfl, fun _ => ⟨rfl, hb⟩⟩

/-! ### Resubscribe -/

def resubCalls (l : SubList) : List SubCall := l.map (fun x => SubCall.sub [x])

theorem resubLoop_nonstuck (w : World) (k : Nat) (l : SubList)
    (h : (resubLoop w k l).stuck = false) : w.stuck = false := by
  cases l with
  | nil => exact h
  | cons x rest =>
    simp only [resubLoop] at h
    split at h
    · next hs => rw [hs] at h; cases h
    · next hs => simpa using hs

theorem subscribeTask_frame (w : World) (k : Nat) (s : List Subscription) :
    TFrame k w (subscribeTask w k s) := by
  simp only [subscribeTask]
  split
  · exact (tframe_of_eqs (w := w) (w' := { w with subEst := applySubs w.subEst s })
      rfl rfl rfl rfl rfl rfl rfl rfl rfl rfl rfl rfl rfl rfl rfl).trans (firstSub_spec _ k s).frame
  · exact tframe_of_eqs rfl rfl rfl rfl rfl rfl rfl rfl rfl rfl rfl rfl rfl rfl rfl

theorem resubLoop_frame (l : SubList) (w : World) (k : Nat) : TFrame k w (resubLoop w k l) := by
  induction l generalizing w with
  | nil => exact TFrame.refl k w
  | cons x rest ih =>
    simp only [resubLoop]
    split
    · exact TFrame.refl k w
    · exact (subscribeTask_frame w k [x]).trans (ih _)

theorem resubLoop_spec (l : SubList) (w : World) (k : Nat)
    (hb : NoDupTopics w.broker.subs) (he : NoDupTopics w.subEst) :
    TFrame k w (resubLoop w k l) ∧
      ((resubLoop w k l).stuck = false →
        NoDupTopics (resubLoop w k l).subEst ∧ NoDupTopics (resubLoop w k l).broker.subs ∧
        Em (resubLoop w k l) = (resubCalls l).foldl netStep (Em w) ∧
        Pm (resubLoop w k l) = (resubCalls l).foldl netStep (Pm w)) := by
  induction l generalizing w with
  | nil => exact ⟨TFrame.refl k w, fun _ => ⟨he, hb, rfl, rfl⟩⟩
  | cons x rest ih =>
    simp only [resubLoop]
    split
    · next hs => exact ⟨TFrame.refl k w, fun h => by rw [hs] at h; cases h⟩
    · have sp := subscribeTask_spec w k [x] hb he
      refine ⟨sp.frame.trans (resubLoop_frame _ _ _), fun hs => ?_⟩
      · have h1 := resubLoop_nonstuck _ _ _ hs
        obtain ⟨hp, hb1⟩ := sp.pm h1
        obtain ⟨_, ih2⟩ := ih _ hb1 sp.nodupE
        obtain ⟨a, b, c, d⟩ := ih2 hs
        refine ⟨a, b, ?_, ?_⟩
        · rw [c, sp.em]; rfl
        · rw [d, hp]; rfl

theorem runTask_resub_spec (w : World) (k : Nat)
    (hb : NoDupTopics w.broker.subs) (he : NoDupTopics w.subEst) :
    TFrame k w (runTask w k .resubscribe) ∧
      ((runTask w k .resubscribe).stuck = false →
        NoDupTopics (runTask w k .resubscribe).subEst ∧
        NoDupTopics (runTask w k .resubscribe).broker.subs ∧
        Em (runTask w k .resubscribe) = Em w ∧
        ∀ t, Pm (runTask w k .resubscribe) t = (Em w t).or (Pm w t)) := by
  have sp := resubLoop_spec w.subEst { w with subEst := [] } k hb noDupTopics_nil
  refine ⟨(tframe_of_eqs (w := w) (w' := { w with subEst := [] })
    rfl rfl rfl rfl rfl rfl rfl rfl rfl rfl rfl rfl rfl rfl rfl).trans sp.1, fun hs => ?_⟩
  obtain ⟨a, b, c, d⟩ := sp.2 hs
  refine ⟨a, b, ?_, fun t => ?_⟩
  · show Em (resubLoop { w with subEst := [] } k w.subEst) = _
    rw [c]
    exact resub_fold_self w.subEst he
  · show Pm (resubLoop { w with subEst := [] } k w.subEst) t = _
    rw [d]
    exact resub_fold w.subEst he _ t

/-! ### Retry -/

def retryTail (r : World × Outcome) (k : Nat) (rest : List Entry) : World :=
  match r.2 with
  | .fail (some h) err =>
    { r.1 with onErrors := r.1.onErrors ++ [err], retryQ := r.1.retryQ ++ [h] ++ rest,
               closeAfterTask := true }
  | .stuck => r.1
  | _ => if r.1.closeAfterTask then { r.1 with retryQ := r.1.retryQ ++ rest } else retryLoop r.1 k rest

theorem retryLoop_cons (w : World) (k : Nat) (e : Entry) (rest : List Entry) :
    retryLoop w k (e :: rest) =
      if w.stuck then { w with retryQ := w.retryQ }
      else retryTail (runEntry { w with totalRetries := w.totalRetries + 1 } k e) k rest := rfl

/-- every entry, raw handle or queued closure, behaves like a first transmission followed by
    "stop and keep the rest" or "go on" -/
theorem retryTail_cases (w : World) (k : Nat) (e : Entry) (rest : List Entry) :
    ∃ W, FirstSpec k (entryCall e) w W ∧
      ((retryTail (runEntry w k e) k rest = W ∧ W.stuck = true) ∨
       (W.closeAfterTask = true ∧
         retryTail (runEntry w k e) k rest = { W with retryQ := W.retryQ ++ rest }) ∨
       (W.closeAfterTask = false ∧ retryTail (runEntry w k e) k rest = retryLoop W k rest)) := by
  have queued : ∀ W, FirstSpec k (entryCall e) w W → runEntry w k e = (W, .done) →
      ∃ W, FirstSpec k (entryCall e) w W ∧
      ((retryTail (runEntry w k e) k rest = W ∧ W.stuck = true) ∨
       (W.closeAfterTask = true ∧
         retryTail (runEntry w k e) k rest = { W with retryQ := W.retryQ ++ rest }) ∨
       (W.closeAfterTask = false ∧ retryTail (runEntry w k e) k rest = retryLoop W k rest)) := by
    intro W f hr
    refine ⟨W, f, Or.inr ?_⟩
    rw [hr]
    by_cases hc : W.closeAfterTask = true
    · exact Or.inl ⟨hc, by simp [retryTail, hc]⟩
    · exact Or.inr ⟨by simpa using hc, by simp [retryTail, hc]⟩
  have raw : AttSpec k (entryCall e) w (runEntry w k e) →
      ∃ W, FirstSpec k (entryCall e) w W ∧
      ((retryTail (runEntry w k e) k rest = W ∧ W.stuck = true) ∨
       (W.closeAfterTask = true ∧
         retryTail (runEntry w k e) k rest = { W with retryQ := W.retryQ ++ rest }) ∨
       (W.closeAfterTask = false ∧ retryTail (runEntry w k e) k rest = retryLoop W k rest)) := by
    intro a
    refine ⟨absorb (runEntry w k e).1 (runEntry w k e).2, absorb_spec a, ?_⟩
    generalize runEntry w k e = r at a
    obtain ⟨w1, o⟩ := r
    cases o with
    | done =>
      right
      by_cases hc : w1.closeAfterTask = true
      · exact Or.inl ⟨hc, by simp [retryTail, absorb, hc]⟩
      · exact Or.inr ⟨by simpa [absorb] using hc, by simp [retryTail, absorb, hc]⟩
    | stuck => exact Or.inl ⟨rfl, a.stuck rfl⟩
    | fail h err =>
      cases h with
      | none =>
        right
        by_cases hc : w1.closeAfterTask = true
        · exact Or.inl ⟨hc, by simp [retryTail, absorb, hc]⟩
        · exact Or.inr ⟨by simpa [absorb] using hc, by simp [retryTail, absorb, hc]⟩
      | some h =>
        right; left
        exact ⟨rfl, by simp [retryTail, absorb, List.append_assoc]⟩
  cases e with
  | qPub m qos => exact queued _ (firstPub_spec w k m qos) rfl
  | qSub s => exact queued _ (firstSub_spec w k s) rfl
  | qUnsub ts => exact queued _ (firstUnsub_spec w k ts) rfl
  | rePublish m qos => exact raw (pubAttempt_spec w k m qos true)
  | rePubRel m => exact raw (relAttempt_spec w k m _)
  | reSub s => exact raw (subAttempt_spec w k s)
  | reUnsub ts => exact raw (unsubAttempt_spec w k ts)

theorem retryLoop_stuck (w : World) (k : Nat) (l : List Entry) (h : w.stuck = true) :
    (retryLoop w k l).stuck = true := by
  cases l with
  | nil => exact h
  | cons e rest => rw [retryLoop_cons, if_pos h]; exact h

theorem retryLoop_frame (l : List Entry) (w : World) (k : Nat) :
    TFrame k w (retryLoop w k l) ∧ (retryLoop w k l).subEst = w.subEst := by
  induction l generalizing w with
  | nil => exact ⟨TFrame.refl k w, rfl⟩
  | cons e rest ih =>
    rw [retryLoop_cons]
    split
    · exact ⟨tframe_of_eqs rfl rfl rfl rfl rfl rfl rfl rfl rfl rfl rfl rfl rfl rfl rfl, rfl⟩
    · have h0 : TFrame k w { w with totalRetries := w.totalRetries + 1 } :=
        tframe_of_eqs rfl rfl rfl rfl rfl rfl rfl rfl rfl rfl rfl rfl rfl rfl rfl
      obtain ⟨W, f, hc⟩ := retryTail_cases { w with totalRetries := w.totalRetries + 1 } k e rest
      rcases hc with ⟨h, _⟩ | ⟨_, h⟩ | ⟨_, h⟩
      · rw [h]; exact ⟨h0.trans f.frame, f.subEst⟩
      · rw [h]
        exact ⟨h0.trans (f.frame.trans (tframe_of_eqs rfl rfl rfl rfl rfl rfl rfl rfl rfl rfl rfl rfl rfl rfl rfl)),
          f.subEst⟩
      · rw [h]
        exact ⟨h0.trans (f.frame.trans (ih W).1), (ih W).2.trans f.subEst⟩

theorem pendOf_cons (e : Entry) (rest : List Entry) (m : SubMap) :
    (pendOf (e :: rest)).foldl netStep m = (pendOf rest).foldl netStep (netStepO m (entryCall e)) := by
  simp only [pendOf, List.filterMap_cons]
  cases entryCall e <;> rfl

/-- `Retry` on an emptied queue: afterwards replaying the new queue on the new broker table gives
    what replaying the old queue on the old table gave -/
theorem retryLoop_spec (l : List Entry) (w : World) (k : Nat) (hq : w.retryQ = [])
    (hb : NoDupTopics w.broker.subs) (hs : (retryLoop w k l).stuck = false) :
    NoDupTopics (retryLoop w k l).broker.subs ∧
      Pm (retryLoop w k l) = (pendOf l).foldl netStep (Bm w) := by
  induction l generalizing w with
  | nil => exact ⟨hb, by simp [Pm, hq, pendOf, retryLoop]⟩
  | cons e rest ih =>
    rw [retryLoop_cons] at hs ⊢
    split at hs
    · next h => rw [if_pos h]; simp only [h] at hs; cases hs
    · next hst =>
      rw [if_neg hst]
      obtain ⟨W, f, hc⟩ := retryTail_cases { w with totalRetries := w.totalRetries + 1 } k e rest
      have hp := post_spec (entryCall e) _ hb
      rw [pendOf_cons]
      rcases hc with ⟨h, h2⟩ | ⟨hcl, h⟩ | ⟨hcl, h⟩
      · rw [h] at hs; rw [h2] at hs; cases hs
      · rw [h] at hs ⊢
        have hWs : W.stuck = false := hs
        cases f.cases with
        | inl h1 => rw [h1.1] at hWs; cases hWs
        | inr h1 =>
          cases h1.2 with
          | inl h2 =>
            obtain ⟨q1, _, b1⟩ := h2
            refine ⟨b1 ▸ hp.1, ?_⟩
            show (pendOf (W.retryQ ++ rest)).foldl netStep (toMap W.broker.subs) = _
            rw [q1, b1]
            simp only [hq, List.nil_append, hp.2]
            rfl
          | inr h2 =>
            obtain ⟨h', q1, c1, _, b1⟩ := h2
            show NoDupTopics W.broker.subs ∧
              (pendOf (W.retryQ ++ rest)).foldl netStep (toMap W.broker.subs) = _
            rw [q1]
            simp only [hq, List.nil_append, List.cons_append, pendOf_cons, c1]
            cases b1 with
            | inl b1 => rw [b1]; exact ⟨hb, rfl⟩
            | inr b1 => rw [b1, hp.2, netStepO_idem]; exact ⟨hp.1, rfl⟩
      · rw [h] at hs ⊢
        cases f.cases with
        | inl h1 => rw [retryLoop_stuck W k rest h1.1] at hs; cases hs
        | inr h1 =>
          cases h1.2 with
          | inl h2 =>
            obtain ⟨q1, _, b1⟩ := h2
            have := ih W (q1.trans hq) (b1 ▸ hp.1) hs
            refine ⟨this.1, ?_⟩
            rw [this.2]
            simp only [Bm, b1, hp.2]
          | inr h2 =>
            obtain ⟨_, _, _, c1, _⟩ := h2
            rw [c1] at hcl; cases hcl

theorem runTask_retry_spec (w : World) (k : Nat) (hb : NoDupTopics w.broker.subs) :
    TFrame k w (runTask w k .retry) ∧ (runTask w k .retry).subEst = w.subEst ∧
      ((runTask w k .retry).stuck = false →
        NoDupTopics (runTask w k .retry).broker.subs ∧ Pm (runTask w k .retry) = Pm w) := by
  have fr := retryLoop_frame w.retryQ { w with retryQ := [] } k
  refine ⟨(tframe_of_eqs (w := w) (w' := { w with retryQ := [] })
    rfl rfl rfl rfl rfl rfl rfl rfl rfl rfl rfl rfl rfl rfl rfl).trans fr.1, fr.2, fun hs => ?_⟩
  exact retryLoop_spec w.retryQ { w with retryQ := [] } k rfl hb hs

theorem runTask_disconnect_spec (w : World) (k : Nat) :
    TFrame k w (runTask w k .disconnect) ∧ (runTask w k .disconnect).subEst = w.subEst ∧
      (runTask w k .disconnect).retryQ = w.retryQ ∧
      (runTask w k .disconnect).broker = w.broker ∧ (runTask w k .disconnect).stuck = w.stuck := by
  simp only [runTask]
  split
  · exact ⟨⟨rfl, rfl, rfl, rfl, rfl, rfl, rfl,
      fun j h => (alive_logPkt w k _ _ j) ▸ (alive_kill _ _ j h), fun _ => ⟨rfl, rfl⟩, by simp, rfl, rfl, rfl, rfl, rfl⟩,
      rfl, rfl, rfl, rfl⟩
  · exact ⟨⟨rfl, rfl, rfl, rfl, rfl, rfl, rfl,
      fun j h => (alive_logPkt w k _ _ j) ▸ h, fun _ => ⟨rfl, rfl⟩, by simp, rfl, rfl, rfl, rfl, rfl⟩, rfl, rfl, rfl, rfl⟩

/-! ### the task goroutine -/

theorem runTasks_induct (P : World → Prop)
    (hg : ∀ w, P w → w.stuck = false → w.goroutine = true →
      (w.gConnected = true ∨ w.connReady = true) → P { w with gConnected := true })
    (hstep : ∀ w k t rest, P w → w.taskQ = t :: rest → w.cli = some k → w.stuck = false →
      w.goroutine = true → w.gConnected = true →
      P (runTask { w with taskQ := rest, totalTasks := w.totalTasks + 1 } k t))
    (hclose : ∀ w k, P w → w.cli = some k → w.stuck = false →
      P { kill w k with gConnected := false, closeAfterTask := false })
    (hcli : ∀ w k t, (runTask w k t).cli = w.cli) :
    ∀ n w, P w → P (runTasks n w) := by
  intro n
  induction n with
  | zero => intro w h; exact h
  | succ n ih =>
    intro w h
    unfold runTasks
    split
    · exact h
    · next h1 =>
      split
      · exact h
      · next h2 =>
        have hgo : w.goroutine = true ∧ w.stuck = false := by
          simp only [not_or, Bool.not_eq_true, Bool.not_eq_false] at h1
          exact ⟨by simpa using h1.1, by simpa using h1.2⟩
        have hrun : w.gConnected = true ∨ w.connReady = true := by
          cases hA : w.gConnected <;> cases hB : w.connReady <;> simp [hA, hB] at h2 ⊢
        have h' := hg w h hgo.2 hgo.1 hrun
        dsimp only
        split
        · exact h'
        · exact h'
        · next t rest k htq hcl =>
          have hs := hstep { w with gConnected := true } k t rest h' htq hcl hgo.2 hgo.1 rfl
          split
          · exact hs
          · next hns =>
            apply ih
            split
            · refine hclose _ k hs ?_ (by simpa using hns)
              rw [hcli]; exact hcl
            · exact hs

/-! ### the invariant -/

def taskReq : Task → Option Req
  | .req r => some r
  | _ => none

/-- the requests still waiting in the task queue -/
def reqsOf (q : List Task) : List Req := q.filterMap taskReq

/-- the Subscribe / Unsubscribe calls among the requests -/
def callsOf (reqs : List Req) : List SubCall := reqs.filterMap reqCall

theorem callsOf_append_single (l : List Req) (r : Req) (m : SubMap) :
    (callsOf (l ++ [r])).foldl netStep m = netStepO ((callsOf l).foldl netStep m) (reqCall r) := by
  simp only [callsOf, List.filterMap_append, List.foldl_append, List.filterMap_cons,
    List.filterMap_nil]
  cases reqCall r <;> rfl

/-- `sup`: the pending calls replayed on the broker's table cover the record, unless a `Resubscribe`
    is waiting, or the loop has exited AFTER DISCONNECT (then an accepted CONNACK with the session lost
    no longer re-subscribes). An exit caused by the cancellation of the context given to Connect
    (`stopped = false`) does not need the exemption: no CONNACK is accepted afterwards — also with a
    dialer that ignores its context (`cfg.deafDialer`): the transport that arrives after the cancellation
    gets CONNECT, is closed at once, and the loop exits without waiting for a CONNACK. -/
structure Good (w : World) : Prop where
  nodupE : NoDupTopics w.subEst
  nodupB : NoDupTopics w.broker.subs
  procd : ∃ processed, w.accepted = processed ++ reqsOf w.taskQ ∧
    Em w = netEffect (callsOf processed)
  weak : RWeak (Pm w) (Em w)
  sup : (w.phase = .exited ∧ w.stopped = true) ∨ Task.resubscribe ∈ w.taskQ ∨ RSup (Pm w) (Em w)

/-- the invariant: as long as the client is not blocked for ever inside a request -/
def Inv (w : World) : Prop := w.stuck = false → Good w

theorem rweak_stepO {P E : SubMap} (h : RWeak P E) (oc : Option SubCall) :
    RWeak (netStepO P oc) (netStepO E oc) := by
  cases oc with
  | none => exact h
  | some c => exact rweak_step h c

theorem rsup_stepO {P E : SubMap} (h : RSup P E) (oc : Option SubCall) :
    RSup (netStepO P oc) (netStepO E oc) := by
  cases oc with
  | none => exact h
  | some c => exact rsup_step h c

theorem reqsOf_cons_req (r : Req) (rest : List Task) : reqsOf (.req r :: rest) = r :: reqsOf rest := rfl
theorem reqsOf_cons_resub (rest : List Task) : reqsOf (.resubscribe :: rest) = reqsOf rest := rfl
theorem reqsOf_cons_retry (rest : List Task) : reqsOf (.retry :: rest) = reqsOf rest := rfl
theorem reqsOf_cons_disc (rest : List Task) : reqsOf (.disconnect :: rest) = reqsOf rest := rfl

theorem good_runTask (w w1 : World) (k : Nat) (t : Task) (rest : List Task) (g : Good w)
    (htq : w.taskQ = t :: rest) (e1 : w1.taskQ = rest) (e2 : w1.accepted = w.accepted)
    (e3 : w1.subEst = w.subEst) (e4 : w1.retryQ = w.retryQ) (e5 : w1.broker = w.broker)
    (e6 : w1.phase = w.phase) (e7 : w1.stopped = w.stopped) :
    Inv (runTask w1 k t) := by
  intro hs
  obtain ⟨pr, hacc, hem⟩ := g.procd
  have hE1 : Em w1 = Em w := by simp only [Em, e3]
  have hP1 : Pm w1 = Pm w := by simp only [Pm, Bm, e4, e5]
  have nb : NoDupTopics w1.broker.subs := e5 ▸ g.nodupB
  have ne : NoDupTopics w1.subEst := e3 ▸ g.nodupE
  cases t with
  | req r =>
    have sp := runTask_req_spec w1 k r nb ne
    obtain ⟨hp, hb⟩ := sp.pm hs
    refine ⟨sp.nodupE, hb, ⟨pr ++ [r], ?_, ?_⟩, ?_, ?_⟩
    · rw [sp.frame.accepted, sp.frame.taskQ, e1, e2, hacc, htq, reqsOf_cons_req]
      simp
    · rw [sp.em, hE1, hem]
      simp only [netEffect]
      rw [callsOf_append_single]
    · rw [sp.em, hp, hE1, hP1]; exact rweak_stepO g.weak _
    · rw [sp.frame.taskQ, e1, sp.frame.phase, e6, sp.frame.stopped, e7]
      rcases g.sup with h | h | h
      · exact Or.inl h
      · rw [htq] at h; simp at h; exact Or.inr (Or.inl h)
      · rw [sp.em, hp, hE1, hP1]; exact Or.inr (Or.inr (rsup_stepO h _))
  | resubscribe =>
    have sp := runTask_resub_spec w1 k nb ne
    obtain ⟨a, b, c, d⟩ := sp.2 hs
    have hPE : Pm (runTask w1 k .resubscribe) = Em w := by
      funext x
      rw [d, hE1, hP1]
      cases hE : Em w x with
      | some q => rfl
      | none =>
        cases g.weak x with
        | inl h => rw [h, hE]; rfl
        | inr h => rw [h]; rfl
    refine ⟨a, b, ⟨pr, ?_, ?_⟩, ?_, Or.inr (Or.inr ?_)⟩
    · rw [sp.1.accepted, sp.1.taskQ, e1, e2, hacc, htq, reqsOf_cons_resub]
    · rw [c, hE1]; exact hem
    · rw [c, hPE, hE1]; exact rweak_refl _
    · rw [c, hPE, hE1]; exact rsup_refl _
  | retry =>
    have sp := runTask_retry_spec w1 k nb
    obtain ⟨b, hp⟩ := sp.2.2 hs
    have hE : Em (runTask w1 k .retry) = Em w := by
      simp only [Em, sp.2.1, e3]
    refine ⟨sp.2.1 ▸ ne, b, ⟨pr, ?_, hE.trans hem⟩, ?_, ?_⟩
    · rw [sp.1.accepted, sp.1.taskQ, e1, e2, hacc, htq, reqsOf_cons_retry]
    · rw [hE, hp, hP1]; exact g.weak
    · rw [sp.1.taskQ, hE, hp, hP1, e1, sp.1.phase, e6, sp.1.stopped, e7]
      rcases g.sup with h | h | h
      · exact Or.inl h
      · rw [htq] at h; simp at h; exact Or.inr (Or.inl h)
      · exact Or.inr (Or.inr h)
  | disconnect =>
    obtain ⟨fr, h1, h2, h3, _⟩ := runTask_disconnect_spec w1 k
    have hE : Em (runTask w1 k .disconnect) = Em w := by simp only [Em, h1, e3]
    have hP : Pm (runTask w1 k .disconnect) = Pm w := by simp only [Pm, Bm, h2, h3, e4, e5]
    refine ⟨h1 ▸ ne, h3 ▸ nb, ⟨pr, ?_, hE.trans hem⟩, ?_, ?_⟩
    · rw [fr.accepted, fr.taskQ, e1, e2, hacc, htq, reqsOf_cons_disc]
    · rw [hE, hP]; exact g.weak
    · rw [fr.taskQ, hE, hP, e1, fr.phase, e6, fr.stopped, e7]
      rcases g.sup with h | h | h
      · exact Or.inl h
      · rw [htq] at h; simp at h; exact Or.inr (Or.inl h)
      · exact Or.inr (Or.inr h)

theorem runTask_req_frame (w : World) (k : Nat) (r : Req) : TFrame k w (runTask w k (.req r)) := by
  cases r with
  | sub s => exact subscribeTask_frame w k s
  | unsub ts =>
    simp only [runTask]
    split
    · exact (tframe_of_eqs (w := w) (w' := { w with subEst := applyUnsubs w.subEst ts })
        rfl rfl rfl rfl rfl rfl rfl rfl rfl rfl rfl rfl rfl rfl rfl).trans (firstUnsub_spec _ k ts).frame
    · exact tframe_of_eqs rfl rfl rfl rfl rfl rfl rfl rfl rfl rfl rfl rfl rfl rfl rfl
  | pub m qos =>
    simp only [runTask]
    split
    · exact (firstPub_spec w k m qos).frame
    · split
      · exact tframe_of_eqs rfl rfl rfl rfl rfl rfl rfl rfl rfl rfl rfl rfl rfl rfl rfl
      · exact TFrame.refl k w

theorem runTask_frame (w : World) (k : Nat) (t : Task) : TFrame k w (runTask w k t) := by
  cases t with
  | req r => exact runTask_req_frame w k r
  | resubscribe => exact (tframe_of_eqs (k := k) (w := w) (w' := { w with subEst := [] })
      rfl rfl rfl rfl rfl rfl rfl rfl rfl rfl rfl rfl rfl rfl rfl).trans (resubLoop_frame _ _ k)
  | retry => exact (tframe_of_eqs (k := k) (w := w) (w' := { w with retryQ := [] })
      rfl rfl rfl rfl rfl rfl rfl rfl rfl rfl rfl rfl rfl rfl rfl).trans (retryLoop_frame _ _ k).1
  | disconnect => exact (runTask_disconnect_spec w k).1


theorem runTask_cli (w : World) (k : Nat) (t : Task) : (runTask w k t).cli = w.cli :=
  (runTask_frame w k t).cli

theorem good_of_eqs {w w' : World} (g : Good w) (h1 : w'.taskQ = w.taskQ)
    (h2 : w'.accepted = w.accepted) (h3 : w'.subEst = w.subEst) (h4 : w'.retryQ = w.retryQ)
    (h5 : w'.broker.subs = w.broker.subs)
    (h6 : (w.phase = .exited ∧ w.stopped = true) → (w'.phase = .exited ∧ w'.stopped = true)) :
    Good w' := by
  have hE : Em w' = Em w := by simp only [Em, h3]
  have hP : Pm w' = Pm w := by simp only [Pm, Bm, h4, h5]
  obtain ⟨pr, a, b⟩ := g.procd
  exact ⟨h3 ▸ g.nodupE, h5 ▸ g.nodupB, ⟨pr, by rw [h1, h2, a], hE.trans b⟩,
    by rw [hE, hP]; exact g.weak, by
      rw [hE, hP, h1]
      rcases g.sup with h | h | h
      · exact Or.inl (h6 h)
      · exact Or.inr (Or.inl h)
      · exact Or.inr (Or.inr h)⟩

theorem inv_of_eqs {w w' : World} (g : Inv w) (h0 : w'.stuck = w.stuck) (h1 : w'.taskQ = w.taskQ)
    (h2 : w'.accepted = w.accepted) (h3 : w'.subEst = w.subEst) (h4 : w'.retryQ = w.retryQ)
    (h5 : w'.broker.subs = w.broker.subs)
    (h6 : (w.phase = .exited ∧ w.stopped = true) → (w'.phase = .exited ∧ w'.stopped = true)) : Inv w' :=
  fun hs => good_of_eqs (g (h0 ▸ hs)) h1 h2 h3 h4 h5 h6

theorem runTasks_inv (n : Nat) (w : World) (h : Inv w) : Inv (runTasks n w) := by
  refine runTasks_induct Inv ?_ ?_ ?_ runTask_cli n w h
  · intro w h _ _ _
    exact inv_of_eqs h rfl rfl rfl rfl rfl rfl id
  · intro w k t rest h htq _ hs _ _
    exact good_runTask w _ k t rest (h hs) htq rfl rfl rfl rfl rfl rfl rfl
  · intro w k h _ _
    exact inv_of_eqs h rfl rfl rfl rfl rfl rfl id

theorem loopReact_eqs (w : World) :
    (loopReact w).stuck = w.stuck ∧ (loopReact w).taskQ = w.taskQ ∧
    (loopReact w).accepted = w.accepted ∧ (loopReact w).subEst = w.subEst ∧
    (loopReact w).retryQ = w.retryQ ∧ (loopReact w).broker = w.broker ∧
    (loopReact w).initialized = w.initialized ∧ (loopReact w).cli = w.cli ∧
    (loopReact w).goroutine = w.goroutine ∧ (loopReact w).gConnected = w.gConnected ∧
    (loopReact w).connReady = w.connReady ∧ (loopReact w).conns = w.conns ∧
    (∀ k, (loopReact w).phase = .connackGate k → w.phase = .connackGate k) ∧
    (w.phase = .exited → (loopReact w).phase = .exited) := by
  unfold loopReact
  split
  · split
    · simp
    · split <;> simp_all
  · simp

theorem runTasks_stopped (n : Nat) (w : World) : (runTasks n w).stopped = w.stopped := by
  refine runTasks_induct (fun w' => w'.stopped = w.stopped) ?_ ?_ ?_ runTask_cli n w rfl
  · intro w' h _ _ _; exact h
  · intro w' k t rest h _ _ _ _ _
    exact (runTask_frame { w' with taskQ := rest, totalTasks := w'.totalTasks + 1 } k t).stopped.trans h
  · intro w' k h _ _; exact h

theorem runTasks_ctx (n : Nat) (w : World) : (runTasks n w).ctxCancelled = w.ctxCancelled := by
  refine runTasks_induct (fun w' => w'.ctxCancelled = w.ctxCancelled) ?_ ?_ ?_ runTask_cli n w rfl
  · intro w' h _ _ _; exact h
  · intro w' k t rest h _ _ _ _ _
    exact (runTask_frame { w' with taskQ := rest, totalTasks := w'.totalTasks + 1 } k t).ctxCancelled.trans h
  · intro w' k h _ _; exact h

theorem loopReact_ctx (w : World) : (loopReact w).ctxCancelled = w.ctxCancelled := by
  unfold loopReact
  split
  · split
    · rfl
    · split <;> rfl
  · rfl

theorem progress_ctx (w : World) : (progress w).ctxCancelled = w.ctxCancelled := by
  unfold progress
  rw [loopReact_ctx, runTasks_ctx]

theorem loopReact_stopped (w : World) : (loopReact w).stopped = w.stopped := by
  unfold loopReact
  split
  · split
    · rfl
    · split <;> rfl
  · rfl

theorem progress_stopped (w : World) : (progress w).stopped = w.stopped := by
  unfold progress
  rw [loopReact_stopped, runTasks_stopped]

theorem progress_inv (w : World) (h : Inv w) : Inv (progress w) := by
  obtain ⟨a, b, c, d, e, f, _, _, _, _, _, _, _, hx⟩ := loopReact_eqs (runTasks (w.taskQ.length + 1) w)
  exact inv_of_eqs (runTasks_inv _ w h) a b c d e (congrArg Broker.subs f)
    (fun hh => ⟨hx hh.1, (loopReact_stopped _).trans hh.2⟩)

/-- before the first accepted CONNACK nothing has reached the broker: the task goroutine can only
    run on a connection that is already dead -/
def InvK (w : World) : Prop :=
  w.initialized = false →
    w.broker.subs = [] ∧ w.stuck = false ∧
    ((w.gConnected = true ∨ w.connReady = true) → ∀ k, w.cli = some k → (getConn w k).alive = false) ∧
    (w.goroutine = false → w.gConnected = false)

/-- while the reconnect loop waits for CONNACK on connection `k`, the client uses `k` -/
def InvL (w : World) : Prop :=
  ∀ k, w.phase = .connackGate k → w.cli = some k ∧ w.goroutine = true ∧ k < w.conns.length

theorem dead_of_mono {w w' : World} {k : Nat}
    (hm : (getConn w' k).alive = true → (getConn w k).alive = true)
    (h : (getConn w k).alive = false) : (getConn w' k).alive = false := by
  cases hx : (getConn w' k).alive with
  | false => rfl
  | true => rw [hm hx] at h; cases h

theorem invK_of {w w' : World} (h : InvK w) (h0 : w'.initialized = w.initialized)
    (h1 : w'.broker.subs = w.broker.subs) (h2 : w'.stuck = w.stuck)
    (h3 : w'.gConnected = true → w.gConnected = true) (h4 : w'.connReady = w.connReady)
    (h5 : w'.cli = w.cli) (h6 : w'.goroutine = w.goroutine)
    (h7 : ∀ j, (getConn w' j).alive = true → (getConn w j).alive = true) : InvK w' := by
  intro hi
  obtain ⟨a, b, c, d⟩ := h (h0 ▸ hi)
  refine ⟨h1 ▸ a, h2 ▸ b, fun hr k hk => ?_, fun hg => ?_⟩
  · refine dead_of_mono (h7 k) (c ?_ k (h5 ▸ hk))
    cases hr with
    | inl hr => exact Or.inl (h3 hr)
    | inr hr => exact Or.inr (h4 ▸ hr)
  · cases hx : w'.gConnected with
    | false => rfl
    | true => rw [d (h6 ▸ hg)] at h3; exact absurd (h3 hx) (by simp)

theorem runTasks_invK (n : Nat) (w : World) (h : InvK w) : InvK (runTasks n w) := by
  refine runTasks_induct InvK ?_ ?_ ?_ runTask_cli n w h
  · intro w h _ hg hr hi
    obtain ⟨a, b, c, _⟩ := h hi
    exact ⟨a, b, fun _ => c hr, fun h => by rw [hg] at h; cases h⟩
  · intro w k t rest h _ hcl _ _ hgc hi
    have fr := runTask_frame { w with taskQ := rest, totalTasks := w.totalTasks + 1 } k t
    have hi' : w.initialized = false := by rw [← hi]; exact fr.initialized.symm
    obtain ⟨a, b, c, d⟩ := h hi'
    have hd := c (Or.inl hgc) k hcl
    obtain ⟨e, f⟩ := fr.dead hd
    refine ⟨e.trans a, f.trans b, fun _ k' hk' => ?_, fun hg => ?_⟩
    · rw [fr.cli] at hk'
      exact dead_of_mono (fr.alive k') (c (Or.inl hgc) k' hk')
    · rw [fr.goroutine] at hg
      rw [fr.gConnected]
      exact d hg
  · intro w k h hcl _
    refine invK_of h rfl rfl rfl (fun h => by cases h) rfl rfl rfl (fun j hj => alive_kill w k j ?_)
    exact hj

theorem runTasks_field (n : Nat) (w : World) :
    (runTasks n w).initialized = w.initialized ∧ (runTasks n w).phase = w.phase ∧
    (runTasks n w).cli = w.cli ∧ (runTasks n w).goroutine = w.goroutine ∧
    (runTasks n w).conns.length = w.conns.length := by
  refine runTasks_induct (fun w' => w'.initialized = w.initialized ∧ w'.phase = w.phase ∧
    w'.cli = w.cli ∧ w'.goroutine = w.goroutine ∧ w'.conns.length = w.conns.length)
    ?_ ?_ ?_ runTask_cli n w ⟨rfl, rfl, rfl, rfl, rfl⟩
  · intro w' h _ _ _; exact h
  · intro w' k t rest h _ _ _ _ _
    have fr := runTask_frame { w' with taskQ := rest, totalTasks := w'.totalTasks + 1 } k t
    exact ⟨fr.initialized.trans h.1, fr.phase.trans h.2.1, fr.cli.trans h.2.2.1,
      fr.goroutine.trans h.2.2.2.1, fr.len.trans h.2.2.2.2⟩
  · intro w' k h _ _
    exact ⟨h.1, h.2.1, h.2.2.1, h.2.2.2.1, (len_kill w' k).trans h.2.2.2.2⟩

theorem progress_invK (w : World) (h : InvK w) : InvK (progress w) := by
  obtain ⟨a, _, _, _, _, f, g, h1, h2, h3, h4, h5, _⟩ := loopReact_eqs (runTasks (w.taskQ.length + 1) w)
  exact invK_of (runTasks_invK _ w h) g (congrArg Broker.subs f) a (fun h => h3 ▸ h) h4 h1 h2
    (fun j hj => by unfold progress at hj; simpa [getConn, h5] using hj)

theorem progress_invL (w : World) (h : InvL w) : InvL (progress w) := by
  intro k hk
  obtain ⟨_, _, _, _, _, _, _, h1, h2, _, _, h5, h6, _⟩ := loopReact_eqs (runTasks (w.taskQ.length + 1) w)
  obtain ⟨_, b, c, d, e⟩ := runTasks_field (w.taskQ.length + 1) w
  have := h k (b ▸ h6 k hk)
  unfold progress
  rw [h1, h2, h5, c, d, e]
  exact this

/-! ### environment events -/

/-- nothing the invariants talk about changes -/
structure Same (w w' : World) : Prop where
  stuck : w'.stuck = w.stuck
  taskQ : w'.taskQ = w.taskQ
  accepted : w'.accepted = w.accepted
  subEst : w'.subEst = w.subEst
  retryQ : w'.retryQ = w.retryQ
  broker : w'.broker = w.broker
  initialized : w'.initialized = w.initialized
  cli : w'.cli = w.cli
  goroutine : w'.goroutine = w.goroutine
  gConnected : w'.gConnected = w.gConnected
  connReady : w'.connReady = w.connReady
  cfg : w'.cfg = w.cfg
  phase : w'.phase = w.phase
  len : w'.conns.length = w.conns.length
  alive : ∀ j, (getConn w' j).alive = (getConn w j).alive
  stopped : w'.stopped = w.stopped
  ctxCancelled : w'.ctxCancelled = w.ctxCancelled
  connectReturned : w'.connectReturned = w.connectReturned

theorem Same.refl (w : World) : Same w w :=
  ⟨rfl, rfl, rfl, rfl, rfl, rfl, rfl, rfl, rfl, rfl, rfl, rfl, rfl, rfl, fun _ => rfl, rfl, rfl, rfl⟩

theorem Same.trans {a b c : World} (h1 : Same a b) (h2 : Same b c) : Same a c :=
  ⟨h2.stuck.trans h1.stuck, h2.taskQ.trans h1.taskQ, h2.accepted.trans h1.accepted,
    h2.subEst.trans h1.subEst, h2.retryQ.trans h1.retryQ, h2.broker.trans h1.broker,
    h2.initialized.trans h1.initialized, h2.cli.trans h1.cli, h2.goroutine.trans h1.goroutine,
    h2.gConnected.trans h1.gConnected, h2.connReady.trans h1.connReady, h2.cfg.trans h1.cfg,
    h2.phase.trans h1.phase, h2.len.trans h1.len, fun j => (h2.alive j).trans (h1.alive j),
    h2.stopped.trans h1.stopped, h2.ctxCancelled.trans h1.ctxCancelled,
    h2.connectReturned.trans h1.connectReturned⟩

theorem deliverInbound_same (w : World) (k m qos : Nat) : Same w (deliverInbound w k m qos) := by
  unfold deliverInbound
  dsimp only
  split
  · exact Same.refl w
  · split <;> split
    all_goals first
      | exact ⟨rfl, rfl, rfl, rfl, rfl, rfl, rfl, rfl, rfl, rfl, rfl, rfl, rfl, by simp,
          fun j => alive_logPkt _ _ _ _ j, rfl, rfl, rfl⟩
      | exact ⟨rfl, rfl, rfl, rfl, rfl, rfl, rfl, rfl, rfl, rfl, rfl, rfl, rfl, rfl, fun _ => rfl, rfl, rfl, rfl⟩

theorem inbFold_same (inb : List (Nat × Nat)) (w : World) (k : Nat) :
    Same w (inb.foldl (fun w (mq : Nat × Nat) => deliverInbound w k mq.1 mq.2) w) := by
  induction inb generalizing w with
  | nil => exact Same.refl w
  | cons x rest ih => exact (deliverInbound_same w k x.1 x.2).trans (ih _)

theorem inv_of_same {w w' : World} (s : Same w w') (h : Inv w) : Inv w' :=
  inv_of_eqs h s.stuck s.taskQ s.accepted s.subEst s.retryQ (congrArg Broker.subs s.broker)
    (fun hx => ⟨s.phase ▸ hx.1, s.stopped ▸ hx.2⟩)

theorem invK_of_same {w w' : World} (s : Same w w') (h : InvK w) : InvK w' :=
  invK_of h s.initialized (congrArg Broker.subs s.broker) s.stuck (fun h => s.gConnected ▸ h)
    s.connReady s.cli s.goroutine (fun j hj => (s.alive j) ▸ hj)

theorem invL_of_same {w w' : World} (s : Same w w') (h : InvL w) : InvL w' := by
  intro k hk
  rw [s.cli, s.goroutine, s.len]
  exact h k (s.phase ▸ hk)

def cp1 (w : World) (k : Nat) (sp : Bool) : World :=
  let w1 := setConn w k { getConn w k with connected := true }
  { w1 with broker := if sp then w1.broker else w1.broker.clearSession }

def cp3 (w : World) (k : Nat) (sp : Bool) (inb : List (Nat × Nat)) : World :=
  let w2 := inb.foldl (fun w (mq : Nat × Nat) => deliverInbound w k mq.1 mq.2) (cp1 w k sp)
  { w2 with connReady := true, waitExp := 0,
            connectReturned := if w2.connectReturned.isNone then some sp else w2.connectReturned }

/-- the world in `step w (.connackOk sp inb)` just before the task goroutine and the loop run -/
def connackPre (w : World) (k : Nat) (sp : Bool) (inb : List (Nat × Nat)) : World :=
  let w3 := cp3 w k sp inb
  let w4 := if w3.initialized ∧ (¬ sp ∨ w3.cfg.always) ∧ ¬ w3.stopped then pushTask w3 .resubscribe else w3
  let w5 := if w4.stopped then w4 else pushTask w4 .retry
  { w5 with initialized := true, phase := if w5.stopped then .exited else .up k }

theorem step_connackOk (w : World) (k : Nat) (sp : Bool) (inb : List (Nat × Nat))
    (h : w.phase = .connackGate k) :
    step w (.connackOk sp inb) = progress (connackPre w k sp inb) := by
  simp only [step, h]
  rfl

theorem cp3_fields (w : World) (k : Nat) (sp : Bool) (inb : List (Nat × Nat)) :
    (cp3 w k sp inb).stuck = w.stuck ∧ (cp3 w k sp inb).taskQ = w.taskQ ∧
    (cp3 w k sp inb).accepted = w.accepted ∧ (cp3 w k sp inb).subEst = w.subEst ∧
    (cp3 w k sp inb).retryQ = w.retryQ ∧
    (cp3 w k sp inb).broker.subs = (if sp then w.broker.subs else []) ∧
    (cp3 w k sp inb).initialized = w.initialized ∧ (cp3 w k sp inb).cfg = w.cfg ∧
    (cp3 w k sp inb).cli = w.cli ∧ (cp3 w k sp inb).goroutine = w.goroutine ∧
    (cp3 w k sp inb).conns.length = w.conns.length ∧ (cp3 w k sp inb).connReady = true ∧
    (cp3 w k sp inb).stopped = w.stopped := by
  have s := inbFold_same inb (cp1 w k sp) k
  refine ⟨s.stuck, s.taskQ, s.accepted, s.subEst, s.retryQ, ?_, s.initialized, s.cfg, s.cli,
    s.goroutine, ?_, rfl, s.stopped⟩
  · show (inb.foldl _ (cp1 w k sp)).broker.subs = _
    rw [s.broker]
    cases sp <;> rfl
  · show (inb.foldl _ (cp1 w k sp)).conns.length = _
    rw [s.len]
    simp [cp1]

theorem reqsOf_append (a b : List Task) : reqsOf (a ++ b) = reqsOf a ++ reqsOf b := by
  simp [reqsOf]

theorem connackPre_fields (w : World) (k : Nat) (sp : Bool) (inb : List (Nat × Nat)) :
    (connackPre w k sp inb).stuck = (cp3 w k sp inb).stuck ∧
    (connackPre w k sp inb).accepted = (cp3 w k sp inb).accepted ∧
    (connackPre w k sp inb).subEst = (cp3 w k sp inb).subEst ∧
    (connackPre w k sp inb).retryQ = (cp3 w k sp inb).retryQ ∧
    (connackPre w k sp inb).broker = (cp3 w k sp inb).broker ∧
    (connackPre w k sp inb).taskQ = (cp3 w k sp inb).taskQ ++
      (if (cp3 w k sp inb).initialized = true ∧ (¬ sp = true ∨ (cp3 w k sp inb).cfg.always = true) ∧
          ¬ (cp3 w k sp inb).stopped = true
        then [Task.resubscribe] else []) ++
      (if (cp3 w k sp inb).stopped = true then [] else [.retry]) ∧
    (connackPre w k sp inb).cli = (cp3 w k sp inb).cli ∧
    (connackPre w k sp inb).goroutine = (cp3 w k sp inb).goroutine ∧
    (connackPre w k sp inb).conns = (cp3 w k sp inb).conns ∧
    (connackPre w k sp inb).connReady = (cp3 w k sp inb).connReady ∧
    (connackPre w k sp inb).initialized = true ∧
    (connackPre w k sp inb).phase = (if (cp3 w k sp inb).stopped = true then .exited else .up k) ∧
    (connackPre w k sp inb).stopped = (cp3 w k sp inb).stopped := by
  by_cases hs : (cp3 w k sp inb).stopped = true
  · have hc : ¬ ((cp3 w k sp inb).initialized = true ∧
        (¬ sp = true ∨ (cp3 w k sp inb).cfg.always = true) ∧ ¬ (cp3 w k sp inb).stopped = true) :=
      fun h => h.2.2 hs
    unfold connackPre
    dsimp only
    simp only [if_neg hc, if_pos hs, List.append_nil]
    simp
  · by_cases hc : (cp3 w k sp inb).initialized = true ∧
        (¬ sp = true ∨ (cp3 w k sp inb).cfg.always = true) ∧ ¬ (cp3 w k sp inb).stopped = true
    · have hs' : ¬ (pushTask (cp3 w k sp inb) .resubscribe).stopped = true := hs
      unfold connackPre
      dsimp only
      have hs'' : ¬ (pushTask (pushTask (cp3 w k sp inb) .resubscribe) .retry).stopped = true := hs
      simp only [if_pos hc, if_neg hs', if_neg hs, if_neg hs'']
      exact ⟨rfl, rfl, rfl, rfl, rfl, rfl, rfl, rfl, rfl, rfl, trivial, trivial, rfl⟩
    · unfold connackPre
      dsimp only
      have hs'' : ¬ (pushTask (cp3 w k sp inb) .retry).stopped = true := hs
      simp only [if_neg hc, if_neg hs, if_neg hs'', List.append_nil]
      exact ⟨rfl, rfl, rfl, rfl, rfl, rfl, rfl, rfl, rfl, rfl, trivial, trivial, rfl⟩

/-- the task queue of the pre-progress world in terms of the pre-state -/
theorem connackPre_taskQ' (w : World) (k : Nat) (sp : Bool) (inb : List (Nat × Nat)) :
    (connackPre w k sp inb).taskQ =
      w.taskQ ++ (if w.initialized = true ∧ (¬ sp = true ∨ w.cfg.always = true) ∧ ¬ w.stopped = true
        then [Task.resubscribe] else []) ++ (if w.stopped = true then [] else [.retry]) := by
  obtain ⟨_, f2, _, _, _, _, f7, f8, _, _, _, _, f13⟩ := cp3_fields w k sp inb
  obtain ⟨_, _, _, _, _, p6, _⟩ := connackPre_fields w k sp inb
  rw [p6, f2, f7, f8, f13]

theorem connackPre_inv (w : World) (k : Nat) (sp : Bool) (inb : List (Nat × Nat))
    (hph : w.phase = .connackGate k) (h : Inv w) (hk : InvK w) : Inv (connackPre w k sp inb) := by
  obtain ⟨f1, f2, f3, f4, f5, f6, f7, f8, _, _, _, _, f13⟩ := cp3_fields w k sp inb
  obtain ⟨p1, p2, p3, p4, p5, p6, _, _, _, _, _, p12, p13⟩ := connackPre_fields w k sp inb
  intro hs
  have hs' : w.stuck = false := by rw [← f1, ← p1]; exact hs
  have g := h hs'
  obtain ⟨pr, hacc, hem⟩ := g.procd
  have e3 : (connackPre w k sp inb).subEst = w.subEst := p3.trans f4
  have e4 : (connackPre w k sp inb).retryQ = w.retryQ := p4.trans f5
  have e2 : (connackPre w k sp inb).accepted = w.accepted := p2.trans f3
  have e5 : (connackPre w k sp inb).broker.subs = (if sp then w.broker.subs else []) := by
    rw [p5]; exact f6
  have e1 := connackPre_taskQ' w k sp inb
  have hE : Em (connackPre w k sp inb) = Em w := by simp only [Em, e3]
  have hP : Pm (connackPre w k sp inb) =
      (pendOf w.retryQ).foldl netStep (if sp then Bm w else subMapEmpty) := by
    simp only [Pm, Bm, e4, e5]
    cases sp <;> rfl
  refine ⟨e3 ▸ g.nodupE, ?_, ⟨pr, ?_, hE.trans hem⟩, ?_, ?_⟩
  · rw [e5]; cases sp
    · exact noDupTopics_nil
    · exact g.nodupB
  · rw [e2, e1, hacc, reqsOf_append, reqsOf_append]
    have r1 : reqsOf (if w.initialized = true ∧ (¬ sp = true ∨ w.cfg.always = true) ∧ ¬ w.stopped = true
        then [Task.resubscribe] else []) = [] := by split <;> rfl
    have r2 : reqsOf (if w.stopped = true then [] else [Task.retry]) = [] := by split <;> rfl
    rw [r1, r2]; simp
  · rw [hE, hP]
    cases sp
    · exact rweak_clear _ g.weak
    · exact g.weak
  · rw [hE, hP, e1, p12, p13, f13]
    by_cases hst : w.stopped = true
    · left; rw [if_pos hst]; exact ⟨rfl, hst⟩
    · by_cases hc : w.initialized = true ∧ (¬ sp = true ∨ w.cfg.always = true) ∧ ¬ w.stopped = true
      · right; left; rw [if_pos hc]; simp
      · right
        rcases g.sup with h | h | h
        · have h1 := h.1; rw [hph] at h1; cases h1
        · left; exact List.mem_append_left _ (List.mem_append_left _ h)
        · right
          cases sp with
          | true => exact h
          | false =>
            have hi : w.initialized = false := by
              cases hx : w.initialized with
              | false => rfl
              | true => exact absurd ⟨hx, Or.inl (by simp), hst⟩ hc
            have hb := (hk hi).1
            have : Bm w = subMapEmpty := by simp only [Bm, hb]; rfl
            simp only [Bool.false_eq_true, if_false, ← this]
            exact h

theorem progress_fields (w : World) :
    (progress w).initialized = w.initialized ∧
    (∀ k, (progress w).phase = .connackGate k → w.phase = .connackGate k) ∧
    (w.phase = .exited → (progress w).phase = .exited) := by
  obtain ⟨_, _, _, _, _, _, g, _, _, _, _, _, h6, h7⟩ := loopReact_eqs (runTasks (w.taskQ.length + 1) w)
  obtain ⟨a, b, _⟩ := runTasks_field (w.taskQ.length + 1) w
  exact ⟨g.trans a, fun k hk => b ▸ h6 k hk, fun hx => h7 (b ▸ hx)⟩

theorem invL_of_eqs {w w' : World} (h : InvL w) (h1 : ∀ k, w'.phase = .connackGate k → w.phase = .connackGate k)
    (h2 : w'.cli = w.cli) (h3 : w'.goroutine = w.goroutine) (h4 : w'.conns.length = w.conns.length) :
    InvL w' := by
  intro k hk
  rw [h2, h3, h4]
  exact h k (h1 k hk)

/-- a task that is no request appended to the queue -/
theorem push_inv (w : World) (t : Task) (ht : taskReq t = none) (h : Inv w) : Inv (pushTask w t) := by
  intro hs
  have g := h hs
  obtain ⟨pr, a, b⟩ := g.procd
  refine ⟨g.nodupE, g.nodupB, ⟨pr, ?_, b⟩, g.weak, ?_⟩
  · show w.accepted = pr ++ reqsOf (w.taskQ ++ [t])
    rw [reqsOf_append, a]
    simp [reqsOf, ht]
  · rcases g.sup with h | h | h
    · exact Or.inl h
    · exact Or.inr (Or.inl (List.mem_append_left _ h))
    · exact Or.inr (Or.inr h)

theorem push_req_inv (w : World) (r : Req) (h : Inv w) :
    Inv (pushTask { w with accepted := w.accepted ++ [r] } (.req r)) := by
  intro hs
  have g := h hs
  obtain ⟨pr, a, b⟩ := g.procd
  refine ⟨g.nodupE, g.nodupB, ⟨pr, ?_, b⟩, g.weak, ?_⟩
  · show w.accepted ++ [r] = pr ++ reqsOf (w.taskQ ++ [.req r])
    rw [reqsOf_append, a]
    simp [reqsOf, taskReq]
  · rcases g.sup with h | h | h
    · exact Or.inl h
    · exact Or.inr (Or.inl (List.mem_append_left _ h))
    · exact Or.inr (Or.inr h)

theorem connectFailed_all (w : World) (k : Nat) (hph : w.phase = .connackGate k)
    (h : Inv w) (hk : InvK w) (hl : InvL w) :
    Inv (connectFailed w k) ∧ InvK (connectFailed w k) ∧ InvL (connectFailed w k) := by
  obtain ⟨l1, l2, l3⟩ := hl k hph
  have hdead : (getConn (kill { w with connReady := true } k) k).alive = false := by
    unfold kill
    rw [getConn_setConn, if_pos ⟨rfl, l3⟩]
  have hx : w.phase = .exited → ∀ (P : Prop), P := fun hx => by rw [hph] at hx; cases hx
  unfold connectFailed
  dsimp only
  split
  · refine ⟨inv_of_eqs h rfl rfl rfl rfl rfl rfl (fun h => hx h.1 _), ?_, fun k' hk' => by cases hk'⟩
    intro hi
    obtain ⟨a, b, c, d⟩ := hk hi
    refine ⟨a, b, fun _ k' hk' => ?_, d⟩
    have hk'' : w.cli = some k' := hk'
    rw [l1] at hk''
    cases hk''
    exact hdead
  · refine ⟨inv_of_eqs h rfl rfl rfl rfl rfl rfl (fun h => hx h.1 _), ?_, fun k' hk' => by cases hk'⟩
    intro hi
    obtain ⟨a, b, c, d⟩ := hk hi
    refine ⟨a, b, fun _ k' hk' => ?_, d⟩
    have hk'' : w.cli = some k' := hk'
    rw [l1] at hk''
    cases hk''
    exact hdead

theorem kill_dead (w : World) (k : Nat) (hk : k < w.conns.length) :
    (getConn (kill w k) k).alive = false := by
  unfold kill
  rw [getConn_setConn, if_pos ⟨rfl, hk⟩]

/-- the context given to Connect is cancelled while the loop waits for CONNACK on `k`: the
    connection is closed, Connect returns on it, the loop exits -/
theorem cancelGate_all (w : World) (k : Nat) (hph : w.phase = .connackGate k)
    (h : Inv w) (hk : InvK w) (hl : InvL w) :
    Inv { kill { w with ctxCancelled := true, connReady := true } k with
            phase := .exited, connectErr := true } ∧
    InvK { kill { w with ctxCancelled := true, connReady := true } k with
            phase := .exited, connectErr := true } ∧
    InvL { kill { w with ctxCancelled := true, connReady := true } k with
            phase := .exited, connectErr := true } := by
  obtain ⟨l1, l2, l3⟩ := hl k hph
  have hdead := kill_dead { w with ctxCancelled := true, connReady := true } k l3
  refine ⟨inv_of_eqs h rfl rfl rfl rfl rfl rfl
      (fun hh => by have := hh.1; rw [hph] at this; cases this), ?_, fun k' hk' => by cases hk'⟩
  intro hi
  obtain ⟨a, b, c, d⟩ := hk hi
  refine ⟨a, b, fun _ k' hk' => ?_, d⟩
  have hk'' : w.cli = some k' := hk'
  rw [l1] at hk''
  cases hk''
  exact hdead

theorem step_all (w : World) (e : Ev) (h : Inv w) (hk : InvK w) (hl : InvL w) :
    Inv (step w e) ∧ InvK (step w e) ∧ InvL (step w e) := by
  cases e with
  | start =>
    simp only [step]
    split
    · exact ⟨h, hk, hl⟩
    · next hc =>
      have hi : w.phase = .idle := Decidable.of_not_not hc
      have hx : (w.phase = .exited ∧ w.stopped = true) → ∀ (P : Prop), P :=
        fun hx => by have := hx.1; rw [hi] at this; cases this
      split
      · split
        · exact ⟨inv_of_eqs h rfl rfl rfl rfl rfl rfl (fun hh => hx hh _),
            invK_of hk rfl rfl rfl id rfl rfl rfl (fun _ h => h), fun k hk => by cases hk⟩
        · exact ⟨inv_of_eqs h rfl rfl rfl rfl rfl rfl (fun hh => hx hh _),
            invK_of hk rfl rfl rfl id rfl rfl rfl (fun _ h => h), fun k hk => by cases hk⟩
      · exact ⟨inv_of_eqs h rfl rfl rfl rfl rfl rfl (fun hh => hx hh _),
          invK_of hk rfl rfl rfl id rfl rfl rfl (fun _ h => h), fun k hk => by cases hk⟩
  | waitElapsed =>
    simp only [step]
    split
    · next hc =>
      exact ⟨inv_of_eqs h rfl rfl rfl rfl rfl rfl
          (fun hh => by have := hh.1; rw [hc] at this; cases this),
        invK_of hk rfl rfl rfl id rfl rfl rfl (fun _ h => h), fun k hk => by cases hk⟩
    · exact ⟨h, hk, hl⟩
  | cancelCtx =>
    simp only [step]
    split
    · exact ⟨h, hk, hl⟩
    · cases hph : w.phase with
      | idle =>
        simp only
        exact ⟨inv_of_eqs h rfl rfl rfl rfl rfl rfl
            (fun hh => by have := hh.1; rw [hph] at this; cases this),
          invK_of hk rfl rfl rfl id rfl rfl rfl (fun _ h => h), fun k hk => by cases hk⟩
      | backoff =>
        simp only
        exact ⟨inv_of_eqs h rfl rfl rfl rfl rfl rfl
            (fun hh => by have := hh.1; rw [hph] at this; cases this),
          invK_of hk rfl rfl rfl id rfl rfl rfl (fun _ h => h), fun k hk => by cases hk⟩
      | dialGate =>
        simp only
        split
        · exact ⟨inv_of_eqs h rfl rfl rfl rfl rfl rfl
              (fun hh => by have := hh.1; rw [hph] at this; cases this),
            invK_of hk rfl rfl rfl id rfl rfl rfl (fun _ h => h), fun k hk => by cases hk⟩
        · exact ⟨inv_of_eqs h rfl rfl rfl rfl rfl rfl
              (fun hh => by have := hh.1; rw [hph] at this; cases this),
            invK_of hk rfl rfl rfl id rfl rfl rfl (fun _ h => h), fun k hk => by cases hk⟩
      | connackGate k =>
        simp only
        obtain ⟨a, b, c⟩ := cancelGate_all w k hph h hk hl
        exact ⟨progress_inv _ a, progress_invK _ b, progress_invL _ c⟩
      | up k =>
        simp only
        exact ⟨inv_of_eqs h rfl rfl rfl rfl rfl rfl
            (fun hh => by have := hh.1; rw [hph] at this; cases this),
          invK_of hk rfl rfl rfl id rfl rfl rfl (fun _ h => h), fun k hk => by cases hk⟩
      | exited =>
        simp only
        exact ⟨inv_of_eqs h rfl rfl rfl rfl rfl rfl (fun hh => ⟨rfl, hh.2⟩),
          invK_of hk rfl rfl rfl id rfl rfl rfl (fun _ h => h), fun k hk => by cases hk⟩
  | app r =>
    simp only [step]
    split
    · exact ⟨inv_of_eqs h rfl rfl rfl rfl rfl rfl id,
        invK_of hk rfl rfl rfl id rfl rfl rfl (fun _ h => h), invL_of_eqs hl (fun _ h => h) rfl rfl rfl⟩
    · exact ⟨progress_inv _ (push_req_inv w r h),
        progress_invK _ (invK_of hk rfl rfl rfl id rfl rfl rfl (fun _ h => h)),
        progress_invL _ (invL_of_eqs hl (fun _ h => h) rfl rfl rfl)⟩
  | dialOk idStart =>
    simp only [step]
    split
    · exact ⟨h, hk, hl⟩
    · next hc =>
      have hd : w.phase = .dialGate := Decidable.of_not_not hc
      split
      · -- (deaf dialer) the transport arrives after the cancellation: a dead connection, the loop exits
        refine ⟨progress_inv _ (inv_of_eqs h rfl rfl rfl rfl rfl rfl
            (fun hx => by have := hx.1; rw [hd] at this; cases this)),
          progress_invK _ ?_, progress_invL _ (fun k hk => by cases hk)⟩
        intro hi
        obtain ⟨a, b, c, d⟩ := hk hi
        refine ⟨a, b, fun _ k' hk' => ?_, fun hg => by cases hg⟩
        have hk'' : w.conns.length = k' := Option.some.inj hk'
        subst hk''
        simp [getConn]
      · refine ⟨inv_of_eqs h rfl rfl rfl rfl rfl rfl (fun hx => by rw [hx.1] at hc; simp at hc), ?_, ?_⟩
        · intro hi
          obtain ⟨a, b, c, d⟩ := hk hi
          have b' : w.stuck = false := b
          refine ⟨a, b, fun hr => ?_, fun hg => by cases hg⟩
          exfalso
          cases hr with
          | inr hr => cases hr
          | inl hr =>
            cases hg : w.goroutine with
            | false => simp [d hg, hg] at hr
            | true => cases hc : w.gConnected <;> simp [hg, hc, b'] at hr
        · intro k hk
          simp only [Phase.connackGate.injEq] at hk
          subst hk
          exact ⟨rfl, rfl, by simp⟩
  | dialFail =>
    simp only [step]
    split
    · exact ⟨h, hk, hl⟩
    · next hc =>
      have hd : w.phase = .dialGate := Decidable.of_not_not hc
      split
      · next hs =>
        exact ⟨inv_of_eqs h rfl rfl rfl rfl rfl rfl (fun _ => ⟨rfl, hs⟩),
          invK_of hk rfl rfl rfl id rfl rfl rfl (fun _ h => h), fun k hk => by cases hk⟩
      · split
        · exact ⟨inv_of_eqs h rfl rfl rfl rfl rfl rfl
              (fun hh => by have := hh.1; rw [hd] at this; cases this),
            invK_of hk rfl rfl rfl id rfl rfl rfl (fun _ h => h), fun k hk => by cases hk⟩
        · exact ⟨inv_of_eqs h rfl rfl rfl rfl rfl rfl
              (fun hh => by have := hh.1; rw [hd] at this; cases this),
            invK_of hk rfl rfl rfl id rfl rfl rfl (fun _ h => h), fun k hk => by cases hk⟩
  | connackOk sp inb =>
    cases hph : w.phase with
    | connackGate k =>
      rw [step_connackOk w k sp inb hph]
      obtain ⟨_, _, _, _, _, _, _, _, _, _, p11, p12, _⟩ := connackPre_fields w k sp inb
      obtain ⟨q1, q2, _⟩ := progress_fields (connackPre w k sp inb)
      refine ⟨progress_inv _ (connackPre_inv w k sp inb hph h hk), fun hi => ?_, fun k' hk' => ?_⟩
      · rw [q1, p11] at hi; cases hi
      · have := q2 k' hk'
        rw [p12] at this
        split at this <;> cases this
    | idle => simp only [step, hph]; exact ⟨h, hk, hl⟩
    | dialGate => simp only [step, hph]; exact ⟨h, hk, hl⟩
    | backoff => simp only [step, hph]; exact ⟨h, hk, hl⟩
    | up k => simp only [step, hph]; exact ⟨h, hk, hl⟩
    | exited => simp only [step, hph]; exact ⟨h, hk, hl⟩
  | connackRefused =>
    cases hph : w.phase with
    | connackGate k =>
      simp only [step, hph]
      obtain ⟨a, b, c⟩ := connectFailed_all w k hph h hk hl
      exact ⟨progress_inv _ a, progress_invK _ b, progress_invL _ c⟩
    | idle => simp only [step, hph]; exact ⟨h, hk, hl⟩
    | dialGate => simp only [step, hph]; exact ⟨h, hk, hl⟩
    | backoff => simp only [step, hph]; exact ⟨h, hk, hl⟩
    | up k => simp only [step, hph]; exact ⟨h, hk, hl⟩
    | exited => simp only [step, hph]; exact ⟨h, hk, hl⟩
  | connackNever =>
    cases hph : w.phase with
    | connackGate k =>
      simp only [step, hph]
      split
      · obtain ⟨a, b, c⟩ := connectFailed_all w k hph h hk hl
        exact ⟨progress_inv _ a, progress_invK _ b, progress_invL _ c⟩
      · exact ⟨h, hk, hl⟩
    | idle => simp only [step, hph]; exact ⟨h, hk, hl⟩
    | dialGate => simp only [step, hph]; exact ⟨h, hk, hl⟩
    | backoff => simp only [step, hph]; exact ⟨h, hk, hl⟩
    | up k => simp only [step, hph]; exact ⟨h, hk, hl⟩
    | exited => simp only [step, hph]; exact ⟨h, hk, hl⟩
  | peerClose =>
    cases hph : w.phase with
    | up k =>
      simp only [step, hph]
      exact ⟨progress_inv _ (inv_of_eqs h rfl rfl rfl rfl rfl rfl id),
        progress_invK _ (invK_of hk rfl rfl rfl id rfl rfl rfl (fun j hj => alive_kill w k j hj)),
        progress_invL _ (invL_of_eqs hl (fun _ h => h) rfl rfl (len_kill w k))⟩
    | idle => simp only [step, hph]; exact ⟨h, hk, hl⟩
    | dialGate => simp only [step, hph]; exact ⟨h, hk, hl⟩
    | backoff => simp only [step, hph]; exact ⟨h, hk, hl⟩
    | connackGate k => simp only [step, hph]; exact ⟨h, hk, hl⟩
    | exited => simp only [step, hph]; exact ⟨h, hk, hl⟩
  | inbound m qos =>
    cases hph : w.phase with
    | up k =>
      simp only [step, hph]
      have s := deliverInbound_same w k m qos
      exact ⟨inv_of_same s h, invK_of_same s hk, invL_of_same s hl⟩
    | idle => simp only [step, hph]; exact ⟨h, hk, hl⟩
    | dialGate => simp only [step, hph]; exact ⟨h, hk, hl⟩
    | backoff => simp only [step, hph]; exact ⟨h, hk, hl⟩
    | connackGate k => simp only [step, hph]; exact ⟨h, hk, hl⟩
    | exited => simp only [step, hph]; exact ⟨h, hk, hl⟩
  | handle hd =>
    simp only [step]
    split
    · next k _ =>
      exact ⟨inv_of_eqs h rfl rfl rfl rfl rfl rfl id,
        invK_of hk rfl rfl rfl id rfl rfl rfl
          (fun j hj => (alive_setConn_same { w with handler := some hd } k
            { getConn { w with handler := some hd } k with handler := some hd } rfl j) ▸ hj),
        invL_of_eqs hl (fun _ h => h) rfl rfl (by simp)⟩
    · exact ⟨inv_of_eqs h rfl rfl rfl rfl rfl rfl id,
        invK_of hk rfl rfl rfl id rfl rfl rfl (fun _ h => h), invL_of_eqs hl (fun _ h => h) rfl rfl rfl⟩
  | disconnect =>
    simp only [step]
    split
    · exact ⟨h, hk, hl⟩
    · have a : Inv (progress { pushTask w .disconnect with stopped := true }) :=
        progress_inv _ (inv_of_eqs (push_inv w .disconnect rfl h) rfl rfl rfl rfl rfl rfl
          (fun hh => ⟨hh.1, rfl⟩))
      have b : InvK (progress { pushTask w .disconnect with stopped := true }) :=
        progress_invK _ (invK_of hk rfl rfl rfl id rfl rfl rfl (fun _ h => h))
      have c : InvL (progress { pushTask w .disconnect with stopped := true }) :=
        progress_invL _ (invL_of_eqs hl (fun _ h => h) rfl rfl rfl)
      have hst : (progress { pushTask w .disconnect with stopped := true }).stopped = true :=
        progress_stopped _
      split
      · exact ⟨inv_of_eqs a rfl rfl rfl rfl rfl rfl (fun _ => ⟨rfl, hst⟩),
          invK_of b rfl rfl rfl id rfl rfl rfl (fun _ h => h), fun k hk => by cases hk⟩
      · exact ⟨inv_of_eqs a rfl rfl rfl rfl rfl rfl (fun _ => ⟨rfl, hst⟩),
          invK_of b rfl rfl rfl id rfl rfl rfl (fun _ h => h), fun k hk => by cases hk⟩
      · exact ⟨a, b, c⟩

theorem init_all (s : Script) : Inv (init s) ∧ InvK (init s) ∧ InvL (init s) := by
  refine ⟨fun _ => ⟨noDupTopics_nil, noDupTopics_nil, ⟨[], rfl, rfl⟩, rweak_refl _, Or.inr (Or.inr (rsup_refl _))⟩,
    fun _ => ⟨rfl, rfl, fun h => ?_, fun _ => rfl⟩, fun k hk => by cases hk⟩
  cases h with
  | inl h => cases h
  | inr h => cases h

theorem foldl_all (evs : List Ev) (w : World) (h : Inv w ∧ InvK w ∧ InvL w) :
    Inv (evs.foldl step w) ∧ InvK (evs.foldl step w) ∧ InvL (evs.foldl step w) := by
  induction evs generalizing w with
  | nil => exact h
  | cons e rest ih => exact ih _ (step_all w e h.1 h.2.1 h.2.2)

theorem exec_all (s : Script) : Inv (exec s) ∧ InvK (exec s) ∧ InvL (exec s) :=
  foldl_all s.evs (init s) (init_all s)

/-! ### facts for the re-subscription guard -/

theorem runTasks_more (n : Nat) (w : World) :
    (runTasks n w).accepted = w.accepted ∧ (runTasks n w).taskQ <:+ w.taskQ := by
  refine runTasks_induct (fun w' => w'.accepted = w.accepted ∧ w'.taskQ <:+ w.taskQ)
    ?_ ?_ ?_ runTask_cli n w ⟨rfl, List.suffix_refl _⟩
  · intro w' h _ _ _; exact h
  · intro w' k t rest h htq _ _ _ _
    have fr := runTask_frame { w' with taskQ := rest, totalTasks := w'.totalTasks + 1 } k t
    refine ⟨fr.accepted.trans h.1, ?_⟩
    rw [fr.taskQ]
    exact List.IsSuffix.trans (htq ▸ List.suffix_cons t rest) h.2
  · intro w' k h _ _
    exact h

theorem progress_more (w : World) :
    (progress w).accepted = w.accepted ∧ (progress w).taskQ <:+ w.taskQ := by
  obtain ⟨_, b, c, _⟩ := loopReact_eqs (runTasks (w.taskQ.length + 1) w)
  obtain ⟨d, e⟩ := runTasks_more (w.taskQ.length + 1) w
  exact ⟨c.trans d, by unfold progress; rw [b]; exact e⟩

/-- with a goroutine, a returned Connect and a client, the task queue is drained (or the goroutine
    blocks for ever inside a request) -/
theorem runTasks_done (n : Nat) (w : World) (k : Nat) (hg : w.goroutine = true)
    (hc : w.connReady = true) (hcli : w.cli = some k) (hn : w.taskQ.length < n) :
    (runTasks n w).stuck = true ∨ (runTasks n w).taskQ = [] := by
  induction n generalizing w with
  | zero => omega
  | succ n ih =>
    unfold runTasks
    split
    · next h1 =>
      left
      cases h1 with
      | inl h => rw [hg] at h; exact absurd rfl h
      | inr h => exact h
    · split
      · next h2 => rw [hc] at h2; exact absurd rfl h2.2
      · dsimp only
        split
        · next h => exact Or.inr h
        · simp_all
        · next t rest k' htq hcl =>
          split
          · next h => exact Or.inl h
          · have fr := runTask_frame
              { w with gConnected := true, taskQ := rest, totalTasks := w.totalTasks + 1 } k' t
            have hlen : rest.length < n := by
              have : w.taskQ.length = rest.length + 1 := by
                have : w.taskQ = t :: rest := htq
                rw [this]; rfl
              omega
            split
            · apply ih
              · exact fr.goroutine.trans hg
              · exact fr.connReady.trans hc
              · exact fr.cli.trans hcli
              · show (kill _ k').taskQ.length < n
                show (runTask _ k' t).taskQ.length < n
                rw [fr.taskQ]; exact hlen
            · apply ih
              · exact fr.goroutine.trans hg
              · exact fr.connReady.trans hc
              · exact fr.cli.trans hcli
              · rw [fr.taskQ]; exact hlen

theorem progress_done (w : World) (k : Nat) (hg : w.goroutine = true)
    (hc : w.connReady = true) (hcli : w.cli = some k) :
    (progress w).stuck = true ∨ (progress w).taskQ = [] := by
  obtain ⟨a, b, _⟩ := loopReact_eqs (runTasks (w.taskQ.length + 1) w)
  unfold progress
  rw [a, b]
  exact runTasks_done _ w k hg hc hcli (Nat.lt_succ_self _)

/-- the cancellation of the context given to Connect leaves the client's bookkeeping alone -/
theorem step_cancel_eqs (w : World) :
    (step w .cancelCtx).initialized = w.initialized ∧
    (step w .cancelCtx).taskQ <:+ w.taskQ ∧
    (step w .cancelCtx).stopped = w.stopped ∧
    (step w .cancelCtx).accepted = w.accepted := by
  simp only [step]
  split
  · exact ⟨rfl, List.suffix_refl _, rfl, rfl⟩
  · cases hph : w.phase with
    | connackGate k =>
      simp only
      exact ⟨(progress_fields _).1, (progress_more _).2, progress_stopped _, (progress_more _).1⟩
    | idle =>
      simp only
      refine ⟨?_, ?_, ?_, ?_⟩ <;> first | trivial | rfl | exact List.suffix_refl _
    | backoff =>
      simp only
      refine ⟨?_, ?_, ?_, ?_⟩ <;> first | trivial | rfl | exact List.suffix_refl _
    | dialGate =>
      simp only
      split <;> (refine ⟨?_, ?_, ?_, ?_⟩ <;> first | trivial | rfl | exact List.suffix_refl _)
    | up k =>
      simp only
      refine ⟨?_, ?_, ?_, ?_⟩ <;> first | trivial | rfl | exact List.suffix_refl _
    | exited =>
      simp only
      refine ⟨?_, ?_, ?_, ?_⟩ <;> first | trivial | rfl | exact List.suffix_refl _

theorem connectFailed_eqs (w : World) (k : Nat) :
    (connectFailed w k).initialized = w.initialized ∧ (connectFailed w k).taskQ = w.taskQ := by
  unfold connectFailed
  dsimp only
  split <;> exact ⟨rfl, rfl⟩

/-- `initialized` is set by an accepted CONNACK only -/
theorem step_initialized (w : World) (e : Ev) (h : (step w e).initialized = true) :
    w.initialized = true ∨ ∃ sp inb, e = .connackOk sp inb := by
  cases e with
  | connackOk sp inb => exact Or.inr ⟨sp, inb, rfl⟩
  | start =>
    left; simp only [step] at h
    split at h
    · exact h
    · split at h
      · split at h <;> exact h
      · exact h
  | waitElapsed => left; simp only [step] at h; split at h <;> exact h
  | cancelCtx => left; rw [(step_cancel_eqs w).1] at h; exact h
  | app r =>
    left; simp only [step] at h
    split at h
    · exact h
    · rw [(progress_fields _).1] at h; exact h
  | dialOk i =>
    left; simp only [step] at h
    split at h
    · exact h
    · split at h
      · rw [(progress_fields _).1] at h; exact h
      · exact h
  | dialFail =>
    left; simp only [step] at h
    split at h
    · exact h
    · split at h
      · exact h
      · split at h <;> exact h
  | connackRefused =>
    left; simp only [step] at h
    split at h
    · rw [(progress_fields _).1, (connectFailed_eqs _ _).1] at h; exact h
    · exact h
  | connackNever =>
    left; simp only [step] at h
    split at h
    · split at h
      · rw [(progress_fields _).1, (connectFailed_eqs _ _).1] at h; exact h
      · exact h
    · exact h
  | peerClose =>
    left; simp only [step] at h
    split at h
    · rw [(progress_fields _).1] at h; exact h
    · exact h
  | inbound m qos =>
    left; simp only [step] at h
    split at h
    · rw [(deliverInbound_same _ _ _ _).initialized] at h; exact h
    · exact h
  | handle hd => left; simp only [step] at h; split at h <;> exact h
  | disconnect =>
    left; simp only [step] at h
    split at h
    · exact h
    · have : (progress { pushTask w .disconnect with stopped := true }).initialized = true := by
        split at h <;> exact h
      rw [(progress_fields _).1] at this; exact this

/-- a `resubscribe` task enters the queue only at an accepted CONNACK of an initialized client -/
theorem step_resub_mem (w : World) (e : Ev) (h : Task.resubscribe ∈ (step w e).taskQ) :
    Task.resubscribe ∈ w.taskQ ∨ (w.initialized = true ∧ ∃ sp inb, e = .connackOk sp inb) := by
  have push : ∀ (w0 : World) (t : Task), t ≠ .resubscribe → w0.taskQ = w.taskQ →
      Task.resubscribe ∈ (progress (pushTask w0 t)).taskQ → Task.resubscribe ∈ w.taskQ := by
    intro w0 t ht h0 hm
    have := (progress_more (pushTask w0 t)).2.subset hm
    simp only [pushTask, List.mem_append, List.mem_singleton] at this
    cases this with
    | inl h => exact h0 ▸ h
    | inr h => exact absurd h.symm ht
  have prog : ∀ (w0 : World), w0.taskQ = w.taskQ →
      Task.resubscribe ∈ (progress w0).taskQ → Task.resubscribe ∈ w.taskQ := by
    intro w0 h0 hm
    exact h0 ▸ (progress_more w0).2.subset hm
  cases e with
  | connackOk sp inb =>
    cases hph : w.phase with
    | connackGate k =>
      rw [step_connackOk w k sp inb hph] at h
      have hm := (progress_more _).2.subset h
      rw [connackPre_taskQ'] at hm
      by_cases hc : w.initialized = true ∧ (¬ sp = true ∨ w.cfg.always = true) ∧ ¬ w.stopped = true
      · exact Or.inr ⟨hc.1, sp, inb, rfl⟩
      · rw [if_neg hc] at hm
        left
        simp only [List.append_nil, List.mem_append] at hm
        cases hm with
        | inl hm => exact hm
        | inr hm => split at hm <;> simp at hm
    | idle => simp only [step, hph] at h; exact Or.inl h
    | dialGate => simp only [step, hph] at h; exact Or.inl h
    | backoff => simp only [step, hph] at h; exact Or.inl h
    | up k => simp only [step, hph] at h; exact Or.inl h
    | exited => simp only [step, hph] at h; exact Or.inl h
  | start =>
    left; simp only [step] at h
    split at h
    · exact h
    · split at h
      · split at h <;> exact h
      · exact h
  | waitElapsed => left; simp only [step] at h; split at h <;> exact h
  | cancelCtx => left; exact (step_cancel_eqs w).2.1.subset h
  | app r =>
    left; simp only [step] at h
    split at h
    · exact h
    · exact push _ _ (by simp) (by rfl) h
  | dialOk i =>
    left; simp only [step] at h
    split at h
    · exact h
    · split at h
      · exact prog _ (by rfl) h
      · exact h
  | dialFail =>
    left; simp only [step] at h
    split at h
    · exact h
    · split at h
      · exact h
      · split at h <;> exact h
  | connackRefused =>
    left; simp only [step] at h
    split at h
    · exact prog _ (connectFailed_eqs _ _).2 h
    · exact h
  | connackNever =>
    left; simp only [step] at h
    split at h
    · split at h
      · exact prog _ (connectFailed_eqs _ _).2 h
      · exact h
    · exact h
  | peerClose =>
    left; simp only [step] at h
    split at h
    · exact prog _ (by rfl) h
    · exact h
  | inbound m qos =>
    left; simp only [step] at h
    split at h
    · rw [(deliverInbound_same _ _ _ _).taskQ] at h; exact h
    · exact h
  | handle hd => left; simp only [step] at h; split at h <;> exact h
  | disconnect =>
    left; simp only [step] at h
    split at h
    · exact h
    · have : Task.resubscribe ∈ (progress { pushTask w .disconnect with stopped := true }).taskQ := by
        split at h <;> exact h
      have := (progress_more _).2.subset this
      simp only [pushTask, List.mem_append, List.mem_singleton] at this
      cases this with
      | inl h => exact h
      | inr h => cases h

/-! ### what `Resubscribe` puts on the wire and into the queue -/

/-- the packet logs only grow, and every new packet satisfies `Q` -/
def PktsExt (Q : Pkt → Prop) (w w' : World) : Prop :=
  ∀ j, ∃ new, (getConn w' j).pkts = (getConn w j).pkts ++ new ∧ ∀ q ∈ new, Q q.1

theorem PktsExt.of_eq {Q : Pkt → Prop} {w w' : World}
    (h : ∀ j, (getConn w' j).pkts = (getConn w j).pkts) : PktsExt Q w w' :=
  fun j => ⟨[], by simp [h j], by simp⟩

theorem PktsExt.refl (Q : Pkt → Prop) (w : World) : PktsExt Q w w := PktsExt.of_eq (fun _ => rfl)

theorem PktsExt.trans {Q : Pkt → Prop} {a b c : World} (h1 : PktsExt Q a b) (h2 : PktsExt Q b c) :
    PktsExt Q a c := by
  intro j
  obtain ⟨n1, e1, q1⟩ := h1 j
  obtain ⟨n2, e2, q2⟩ := h2 j
  refine ⟨n1 ++ n2, by rw [e2, e1, List.append_assoc], fun q hq => ?_⟩
  cases List.mem_append.1 hq with
  | inl h => exact q1 q h
  | inr h => exact q2 q h

theorem PktsExt.mono {Q Q' : Pkt → Prop} {w w' : World} (h : PktsExt Q w w')
    (hq : ∀ p, Q p → Q' p) : PktsExt Q' w w' := by
  intro j
  obtain ⟨n, e, q⟩ := h j
  exact ⟨n, e, fun x hx => hq _ (q x hx)⟩

theorem pktsExt_logPkt {Q : Pkt → Prop} (w : World) (k : Nat) (p : Pkt) (x : Wire) (hp : Q p) :
    PktsExt Q w (logPkt w k p x) := by
  intro j
  unfold logPkt
  rw [getConn_setConn]
  split
  · next h => exact ⟨[(p, x)], by rw [h.1], by simp [hp]⟩
  · exact ⟨[], by simp, by simp⟩

theorem pktsExt_kill {Q : Pkt → Prop} (w : World) (k : Nat) : PktsExt Q w (kill w k) := by
  apply PktsExt.of_eq
  intro j
  unfold kill
  rw [getConn_setConn]
  split
  · next h => rw [h.1]
  · rfl

theorem pktsExt_ctr {Q : Pkt → Prop} (w : World) (k n : Nat) :
    PktsExt Q w (setConn w k { getConn w k with ctr := n }) := by
  apply PktsExt.of_eq
  intro j
  rw [getConn_setConn]
  split
  · next h => rw [h.1]
  · rfl

theorem send_pkts {Q : Pkt → Prop} (w : World) (k : Nat) (p : Pkt) (waits : Bool) (hp : Q p) :
    PktsExt Q w (send w k p waits).1 := by
  unfold send
  split
  · exact pktsExt_logPkt w k p _ hp
  · cases hf : w.faults with
    | nil =>
      simp only [nextFault, hf]
      exact pktsExt_logPkt w k p _ hp
    | cons f rest =>
      simp only [nextFault, hf]
      have h0 : PktsExt Q w (logPkt { w with faults := rest } k p (.sent f)) :=
        pktsExt_logPkt { w with faults := rest } k p _ hp
      cases f with
      | ok => exact h0
      | writeFail => exact h0.trans (pktsExt_kill _ k)
      | lostReq => exact h0.trans (pktsExt_kill _ k)
      | lostAck => exact h0.trans (pktsExt_kill _ k)
      | silent =>
        dsimp only
        split
        · exact h0
        · split
          · exact h0
          · exact h0

theorem finish_pkts {Q : Pkt → Prop} {w : World} (r : World × Sent) (rq : Req) (h : Entry)
    (hr : PktsExt Q w r.1) : PktsExt Q w (finish r rq h).1 := by
  obtain ⟨w1, s⟩ := r
  cases s <;> exact hr

theorem absorb_pkts {Q : Pkt → Prop} {w : World} (w1 : World) (o : Outcome)
    (hr : PktsExt Q w w1) : PktsExt Q w (absorb w1 o) := by
  cases o with
  | done => exact hr
  | stuck => exact hr
  | fail h e => cases h <;> exact hr

theorem firstSub_pkts (w : World) (k : Nat) (s : List Subscription) :
    PktsExt (fun p => ∃ id, p = .subscribe id s) w (firstSub w k s) := by
  have h : PktsExt (fun p => ∃ id, p = .subscribe id s) w (subAttempt w k s).1 := by
    rw [subAttempt_eq]
    exact finish_pkts _ _ _ ((pktsExt_ctr w k _).trans (send_pkts _ k _ true ⟨_, rfl⟩))
  exact absorb_pkts _ _ h

theorem subscribeTask_pkts (w : World) (k : Nat) (s : List Subscription) :
    PktsExt (fun p => ∃ id, p = .subscribe id s) w (subscribeTask w k s) := by
  simp only [subscribeTask]
  split
  · exact (PktsExt.of_eq (w := w) (w' := { w with subEst := applySubs w.subEst s })
      (fun _ => rfl)).trans (firstSub_pkts { w with subEst := applySubs w.subEst s } k s)
  · exact PktsExt.of_eq (fun _ => rfl)

theorem entryCall_sub {h : Entry} {s : List Subscription} (hh : entryCall h = some (.sub s)) :
    h = .qSub s ∨ h = .reSub s := by
  cases h <;> simp [entryCall] at hh <;> simp [hh]

theorem subscribeTask_retryQ (w : World) (k : Nat) (s : List Subscription) :
    ∀ e ∈ (subscribeTask w k s).retryQ, e ∈ w.retryQ ∨ e = .qSub s ∨ e = .reSub s := by
  simp only [subscribeTask]
  split
  · have f := firstSub_spec { w with subEst := applySubs w.subEst s } k s
    intro e he
    rcases f.cases with ⟨_, h⟩ | ⟨_, ⟨h, _⟩ | ⟨hd, h, hc, _⟩⟩
    · rw [h] at he; exact Or.inl he
    · rw [h] at he; exact Or.inl he
    · rw [h] at he
      cases List.mem_append.1 he with
      | inl h1 => exact Or.inl h1
      | inr h1 =>
        rw [List.mem_singleton] at h1
        subst h1
        exact Or.inr (entryCall_sub hc)
  · intro e he
    simp only [List.mem_append, List.mem_singleton] at he
    cases he with
    | inl h => exact Or.inl h
    | inr h => exact Or.inr (Or.inl h)

theorem replaceQoS_mem {d d' : SubList} {s : Subscription} (h : replaceQoS d s = some d') :
    ∀ e ∈ d', e ∈ d ∨ e = s := by
  induction d generalizing d' with
  | nil => simp [replaceQoS] at h
  | cons x d ih =>
    simp only [replaceQoS] at h
    split at h
    · next hx =>
      simp only [Option.some.injEq] at h
      subst h
      intro e he
      cases List.mem_cons.1 he with
      | inl h1 => right; rw [h1]; cases s; cases x; simp_all
      | inr h1 => exact Or.inl (List.mem_cons_of_mem _ h1)
    · simp only [Option.map_eq_some_iff] at h
      obtain ⟨d1, h1, rfl⟩ := h
      intro e he
      cases List.mem_cons.1 he with
      | inl h2 => exact Or.inl (h2 ▸ List.mem_cons_self)
      | inr h2 =>
        cases ih h1 e h2 with
        | inl h3 => exact Or.inl (List.mem_cons_of_mem _ h3)
        | inr h3 => exact Or.inr h3

theorem applySubs_single_mem (d : SubList) (x : Subscription) :
    ∀ e ∈ applySubs d [x], e ∈ d ∨ e = x := by
  simp only [applySubs]
  split
  · next d' h => exact replaceQoS_mem h
  · intro e he
    simp only [List.mem_append, List.mem_singleton] at he
    exact he

theorem subscribeTask_subEst (w : World) (k : Nat) (s : List Subscription) :
    (subscribeTask w k s).subEst = applySubs w.subEst s := by
  simp only [subscribeTask]
  split
  · exact (firstSub_spec { w with subEst := applySubs w.subEst s } k s).subEst
  · rfl

/-- `Resubscribe` over the list `l`: every new packet is a SUBSCRIBE of one entry of `l`, every new
    queue entry stands for one entry of `l`, and the record only receives entries of `l` -/
theorem resubLoop_only (l : SubList) (w : World) (k : Nat) :
    PktsExt (fun p => ∃ id x, x ∈ l ∧ p = .subscribe id [x]) w (resubLoop w k l) ∧
    (∀ e ∈ (resubLoop w k l).retryQ, e ∈ w.retryQ ∨ ∃ x ∈ l, e = .qSub [x] ∨ e = .reSub [x]) ∧
    (∀ e ∈ (resubLoop w k l).subEst, e ∈ w.subEst ∨ e ∈ l) := by
  induction l generalizing w with
  | nil => exact ⟨PktsExt.refl _ _, fun e he => Or.inl he, fun e he => Or.inl he⟩
  | cons x rest ih =>
    simp only [resubLoop]
    split
    · exact ⟨PktsExt.refl _ _, fun e he => Or.inl he, fun e he => Or.inl he⟩
    · obtain ⟨i1, i2, i3⟩ := ih (subscribeTask w k [x])
      refine ⟨?_, fun e he => ?_, fun e he => ?_⟩
      · refine ((subscribeTask_pkts w k [x]).mono ?_).trans (i1.mono ?_)
        · rintro p ⟨id, rfl⟩; exact ⟨id, x, List.mem_cons_self, rfl⟩
        · rintro p ⟨id, y, hy, rfl⟩; exact ⟨id, y, List.mem_cons_of_mem _ hy, rfl⟩
      · cases i2 e he with
        | inl h =>
          cases subscribeTask_retryQ w k [x] e h with
          | inl h1 => exact Or.inl h1
          | inr h1 => exact Or.inr ⟨x, List.mem_cons_self, h1⟩
        | inr h =>
          obtain ⟨y, hy, h⟩ := h
          exact Or.inr ⟨y, List.mem_cons_of_mem _ hy, h⟩
      · cases i3 e he with
        | inl h =>
          rw [subscribeTask_subEst] at h
          cases applySubs_single_mem _ _ e h with
          | inl h1 => exact Or.inl h1
          | inr h1 => exact Or.inr (h1 ▸ List.mem_cons_self)
        | inr h => exact Or.inr (List.mem_cons_of_mem _ h)

/-- `initialized` is never reset -/
theorem step_initialized_mono (w : World) (e : Ev) (h : w.initialized = true) :
    (step w e).initialized = true := by
  cases e with
  | connackOk sp inb =>
    cases hph : w.phase with
    | connackGate k =>
      rw [step_connackOk w k sp inb hph, (progress_fields _).1]
      exact (connackPre_fields w k sp inb).2.2.2.2.2.2.2.2.2.2.1
    | idle => simp only [step, hph]; exact h
    | dialGate => simp only [step, hph]; exact h
    | backoff => simp only [step, hph]; exact h
    | up k => simp only [step, hph]; exact h
    | exited => simp only [step, hph]; exact h
  | start =>
    simp only [step]
    split
    · exact h
    · split
      · split <;> exact h
      · exact h
  | waitElapsed => simp only [step]; split <;> exact h
  | cancelCtx => rw [(step_cancel_eqs w).1]; exact h
  | app r =>
    simp only [step]
    split
    · exact h
    · rw [(progress_fields _).1]; exact h
  | dialOk i =>
    simp only [step]
    split
    · exact h
    · split
      · rw [(progress_fields _).1]; exact h
      · exact h
  | dialFail =>
    simp only [step]
    split
    · exact h
    · split
      · exact h
      · split <;> exact h
  | connackRefused =>
    simp only [step]
    split
    · rw [(progress_fields _).1, (connectFailed_eqs _ _).1]; exact h
    · exact h
  | connackNever =>
    simp only [step]
    split
    · split
      · rw [(progress_fields _).1, (connectFailed_eqs _ _).1]; exact h
      · exact h
    · exact h
  | peerClose =>
    simp only [step]
    split
    · rw [(progress_fields _).1]; exact h
    · exact h
  | inbound m qos =>
    simp only [step]
    split
    · rw [(deliverInbound_same _ _ _ _).initialized]; exact h
    · exact h
  | handle hd => simp only [step]; split <;> exact h
  | disconnect =>
    simp only [step]
    split
    · exact h
    · have : (progress { pushTask w .disconnect with stopped := true }).initialized = true := by
        rw [(progress_fields _).1]; exact h
      split <;> exact this

theorem runTasks_of_stuck (n : Nat) (w : World) (h : w.stuck = true) : runTasks n w = w := by
  cases n <;> simp [runTasks, h]

theorem progress_stuck (w : World) (h : w.stuck = true) : (progress w).stuck = true := by
  unfold progress
  rw [runTasks_of_stuck _ w h, (loopReact_eqs w).1]
  exact h

theorem mem_pendOf_sub {q : List Entry} {l : List Subscription} (h : SubCall.sub l ∈ pendOf q) :
    Entry.qSub l ∈ q ∨ Entry.reSub l ∈ q := by
  simp only [pendOf, List.mem_filterMap] at h
  obtain ⟨e, he, hc⟩ := h
  cases entryCall_sub hc with
  | inl h => exact Or.inl (h ▸ he)
  | inr h => exact Or.inr (h ▸ he)

theorem loopReact_exited (w : World) (h : (loopReact w).phase = .exited) :
    w.phase = .exited ∨ w.stopped = true := by
  unfold loopReact at h
  split at h
  · split at h
    · next hp _ => rw [hp] at h; cases h
    · split at h
      · next hs => exact Or.inr hs
      · cases h
  · exact Or.inl h

/-- the reconnect loop exits only after Disconnect -/
theorem progress_exited (w : World) (h : (progress w).phase = .exited) :
    w.phase = .exited ∨ w.stopped = true := by
  cases loopReact_exited _ h with
  | inl h1 => exact Or.inl ((runTasks_field _ w).2.1 ▸ h1)
  | inr h1 => exact Or.inr ((runTasks_stopped _ w) ▸ h1)

theorem connectFailed_stopped (w : World) (k : Nat) :
    (connectFailed w k).stopped = w.stopped ∧
    ((connectFailed w k).phase = .exited → w.stopped = true) := by
  unfold connectFailed
  dsimp only
  split
  · next h => exact ⟨rfl, fun _ => h⟩
  · exact ⟨rfl, fun h => by cases h⟩

def evIsDisconnect : Ev → Bool
  | .disconnect => true
  | _ => false

/-- `stopped` is set by the Disconnect event only, and the reconnect loop exits only when stopped or
    when the context given to Connect was cancelled before Connect returned -/
theorem step_stopped_exited (w : World) (e : Ev) :
    ((step w e).stopped = true → w.stopped = true ∨ evIsDisconnect e = true) ∧
    ((w.phase = .exited → w.stopped = true ∨ w.ctxCancelled = true) →
      (step w e).phase = .exited → (step w e).stopped = true ∨ (step w e).ctxCancelled = true) := by
  have pr : ∀ w0 : World, (w0.phase = .exited → w0.stopped = true ∨ w0.ctxCancelled = true) →
      (progress w0).phase = .exited →
        (progress w0).stopped = true ∨ (progress w0).ctxCancelled = true := by
    intro w0 h0 hp
    rw [progress_stopped, progress_ctx]
    cases progress_exited w0 hp with
    | inl h => exact h0 h
    | inr h => exact Or.inl h
  cases e with
  | start =>
    simp only [step]
    split
    · exact ⟨fun h => Or.inl h, fun h0 h => h0 h⟩
    · split
      · next hcc =>
        split
        · exact ⟨fun h => Or.inl h, fun _ h => by cases h⟩
        · exact ⟨fun h => Or.inl h, fun _ _ => Or.inr hcc⟩
      · exact ⟨fun h => Or.inl h, fun _ h => by cases h⟩
  | waitElapsed =>
    simp only [step]
    split
    · exact ⟨fun h => Or.inl h, fun _ h => by cases h⟩
    · exact ⟨fun h => Or.inl h, fun h0 h => h0 h⟩
  | cancelCtx =>
    refine ⟨fun h => Or.inl ((step_cancel_eqs w).2.2.1 ▸ h), fun h0 h => ?_⟩
    by_cases hg : w.ctxCancelled = true ∨ w.connectReturned.isSome = true
    · have hw : step w .cancelCtx = w := by simp only [step, if_pos hg]
      rw [hw] at h ⊢
      exact h0 h
    · right
      simp only [step, if_neg hg]
      cases hph : w.phase with
      | connackGate k => simp only; rw [progress_ctx]; rfl
      | idle => simp only
      | backoff => simp only
      | dialGate => simp only; split <;> rfl
      | up k => simp only
      | exited => simp only
  | app r =>
    simp only [step]
    split
    · exact ⟨fun h => Or.inl h, fun h0 h => h0 h⟩
    · exact ⟨fun h => Or.inl (by rw [progress_stopped] at h; exact h), fun h0 h => pr _ h0 h⟩
  | dialOk i =>
    simp only [step]
    split
    · exact ⟨fun h => Or.inl h, fun h0 h => h0 h⟩
    · split
      · next hcc =>
        exact ⟨fun h => Or.inl (by rw [progress_stopped] at h; exact h),
          fun _ _ => Or.inr (by rw [progress_ctx]; exact hcc.1)⟩
      · exact ⟨fun h => Or.inl h, fun _ h => by cases h⟩
  | dialFail =>
    simp only [step]
    split
    · exact ⟨fun h => Or.inl h, fun h0 h => h0 h⟩
    · split
      · next hs => exact ⟨fun h => Or.inl h, fun _ _ => Or.inl hs⟩
      · split
        · next hcc => exact ⟨fun h => Or.inl h, fun _ _ => Or.inr hcc.1⟩
        · exact ⟨fun h => Or.inl h, fun _ h => by cases h⟩
  | connackOk sp inb =>
    cases hph : w.phase with
    | connackGate k =>
      rw [step_connackOk w k sp inb hph]
      obtain ⟨_, _, _, _, _, _, _, _, _, _, _, p12, p13⟩ := connackPre_fields w k sp inb
      have f13 := (cp3_fields w k sp inb).2.2.2.2.2.2.2.2.2.2.2.2
      refine ⟨fun h => Or.inl ?_, fun _ h => pr _ ?_ h⟩
      · rw [progress_stopped, p13, f13] at h; exact h
      · intro hx
        left
        rw [p12] at hx
        rw [p13]
        split at hx
        · next hs => exact hs
        · cases hx
    | idle => simp only [step, hph]; exact ⟨fun h => Or.inl h, fun h0 h => h0 (hph ▸ h)⟩
    | backoff => simp only [step, hph]; exact ⟨fun h => Or.inl h, fun h0 h => h0 (hph ▸ h)⟩
    | dialGate => simp only [step, hph]; exact ⟨fun h => Or.inl h, fun h0 h => h0 (hph ▸ h)⟩
    | up k => simp only [step, hph]; exact ⟨fun h => Or.inl h, fun h0 h => h0 (hph ▸ h)⟩
    | exited => simp only [step, hph]; exact ⟨fun h => Or.inl h, fun h0 _ => h0 trivial⟩
  | connackRefused =>
    cases hph : w.phase with
    | connackGate k =>
      simp only [step, hph]
      obtain ⟨c1, c2⟩ := connectFailed_stopped w k
      exact ⟨fun h => Or.inl (by rw [progress_stopped, c1] at h; exact h),
        fun _ h => pr _ (fun hx => Or.inl (c1.trans (c2 hx))) h⟩
    | idle => simp only [step, hph]; exact ⟨fun h => Or.inl h, fun h0 h => h0 (hph ▸ h)⟩
    | backoff => simp only [step, hph]; exact ⟨fun h => Or.inl h, fun h0 h => h0 (hph ▸ h)⟩
    | dialGate => simp only [step, hph]; exact ⟨fun h => Or.inl h, fun h0 h => h0 (hph ▸ h)⟩
    | up k => simp only [step, hph]; exact ⟨fun h => Or.inl h, fun h0 h => h0 (hph ▸ h)⟩
    | exited => simp only [step, hph]; exact ⟨fun h => Or.inl h, fun h0 _ => h0 trivial⟩
  | connackNever =>
    cases hph : w.phase with
    | connackGate k =>
      simp only [step, hph]
      split
      · obtain ⟨c1, c2⟩ := connectFailed_stopped w k
        exact ⟨fun h => Or.inl (by rw [progress_stopped, c1] at h; exact h),
          fun _ h => pr _ (fun hx => Or.inl (c1.trans (c2 hx))) h⟩
      · exact ⟨fun h => Or.inl h, fun h0 h => h0 (hph ▸ h)⟩
    | idle => simp only [step, hph]; exact ⟨fun h => Or.inl h, fun h0 h => h0 (hph ▸ h)⟩
    | backoff => simp only [step, hph]; exact ⟨fun h => Or.inl h, fun h0 h => h0 (hph ▸ h)⟩
    | dialGate => simp only [step, hph]; exact ⟨fun h => Or.inl h, fun h0 h => h0 (hph ▸ h)⟩
    | up k => simp only [step, hph]; exact ⟨fun h => Or.inl h, fun h0 h => h0 (hph ▸ h)⟩
    | exited => simp only [step, hph]; exact ⟨fun h => Or.inl h, fun h0 _ => h0 trivial⟩
  | peerClose =>
    cases hph : w.phase with
    | up k =>
      simp only [step, hph]
      exact ⟨fun h => Or.inl (by rw [progress_stopped] at h; exact h),
        fun _ h => pr _ (fun hx => by
          have : w.phase = .exited := hx
          rw [hph] at this; cases this) h⟩
    | idle => simp only [step, hph]; exact ⟨fun h => Or.inl h, fun h0 h => h0 (hph ▸ h)⟩
    | backoff => simp only [step, hph]; exact ⟨fun h => Or.inl h, fun h0 h => h0 (hph ▸ h)⟩
    | dialGate => simp only [step, hph]; exact ⟨fun h => Or.inl h, fun h0 h => h0 (hph ▸ h)⟩
    | connackGate k => simp only [step, hph]; exact ⟨fun h => Or.inl h, fun h0 h => h0 (hph ▸ h)⟩
    | exited => simp only [step, hph]; exact ⟨fun h => Or.inl h, fun h0 _ => h0 trivial⟩
  | inbound m qos =>
    cases hph : w.phase with
    | up k =>
      simp only [step, hph]
      have sm := deliverInbound_same w k m qos
      exact ⟨fun h => Or.inl (sm.stopped ▸ h), fun _ h => by rw [sm.phase, hph] at h; cases h⟩
    | idle => simp only [step, hph]; exact ⟨fun h => Or.inl h, fun h0 h => h0 (hph ▸ h)⟩
    | backoff => simp only [step, hph]; exact ⟨fun h => Or.inl h, fun h0 h => h0 (hph ▸ h)⟩
    | dialGate => simp only [step, hph]; exact ⟨fun h => Or.inl h, fun h0 h => h0 (hph ▸ h)⟩
    | connackGate k => simp only [step, hph]; exact ⟨fun h => Or.inl h, fun h0 h => h0 (hph ▸ h)⟩
    | exited => simp only [step, hph]; exact ⟨fun h => Or.inl h, fun h0 _ => h0 trivial⟩
  | handle hd =>
    simp only [step]
    split
    · exact ⟨fun h => Or.inl h, fun h0 h => h0 h⟩
    · exact ⟨fun h => Or.inl h, fun h0 h => h0 h⟩
  | disconnect =>
    refine ⟨fun _ => Or.inr rfl, fun h0 h => ?_⟩
    simp only [step] at h ⊢
    split
    · next hs => exact Or.inl hs
    · have : (progress { pushTask w .disconnect with stopped := true }).stopped = true := by
        rw [progress_stopped]
      split <;> exact Or.inl this

def evIsCancel : Ev → Bool
  | .cancelCtx => true
  | _ => false

theorem connackPre_ctx (w : World) (k : Nat) (sp : Bool) (inb : List (Nat × Nat)) :
    (connackPre w k sp inb).ctxCancelled = w.ctxCancelled := by
  have s := inbFold_same inb (cp1 w k sp) k
  have h3 : (cp3 w k sp inb).ctxCancelled = w.ctxCancelled := s.ctxCancelled
  rw [← h3]
  unfold connackPre
  dsimp only
  split <;> split <;> rfl

theorem connectFailed_ctx (w : World) (k : Nat) :
    (connectFailed w k).ctxCancelled = w.ctxCancelled := by
  unfold connectFailed
  dsimp only
  split <;> rfl

/-- `ctxCancelled` is set by the `.cancelCtx` event only -/
theorem step_ctx (w : World) (e : Ev) (h : (step w e).ctxCancelled = true) :
    w.ctxCancelled = true ∨ evIsCancel e = true := by
  cases e with
  | cancelCtx => exact Or.inr rfl
  | start =>
    left; simp only [step] at h
    split at h
    · exact h
    · split at h
      · split at h <;> exact h
      · exact h
  | waitElapsed => left; simp only [step] at h; split at h <;> exact h
  | app r =>
    left; simp only [step] at h
    split at h
    · exact h
    · rw [progress_ctx] at h; exact h
  | dialOk i =>
    left; simp only [step] at h
    split at h
    · exact h
    · split at h
      · rw [progress_ctx] at h; exact h
      · exact h
  | dialFail =>
    left; simp only [step] at h
    split at h
    · exact h
    · split at h
      · exact h
      · split at h <;> exact h
  | connackOk sp inb =>
    left
    cases hph : w.phase with
    | connackGate k =>
      rw [step_connackOk w k sp inb hph, progress_ctx, connackPre_ctx] at h; exact h
    | idle => simp only [step, hph] at h; exact h
    | backoff => simp only [step, hph] at h; exact h
    | dialGate => simp only [step, hph] at h; exact h
    | up k => simp only [step, hph] at h; exact h
    | exited => simp only [step, hph] at h; exact h
  | connackRefused =>
    left; simp only [step] at h
    split at h
    · rw [progress_ctx, connectFailed_ctx] at h; exact h
    · exact h
  | connackNever =>
    left; simp only [step] at h
    split at h
    · split at h
      · rw [progress_ctx, connectFailed_ctx] at h; exact h
      · exact h
    · exact h
  | peerClose =>
    left; simp only [step] at h
    split at h
    · rw [progress_ctx] at h; exact h
    · exact h
  | inbound m qos =>
    left; simp only [step] at h
    split at h
    · rw [(deliverInbound_same _ _ _ _).ctxCancelled] at h; exact h
    · exact h
  | handle hd => left; simp only [step] at h; split at h <;> exact h
  | disconnect =>
    left; simp only [step] at h
    split at h
    · exact h
    · have : (progress { pushTask w .disconnect with stopped := true }).ctxCancelled = true := by
        split at h <;> exact h
      rw [progress_ctx] at this; exact this

/-! ### a dialer that ignores its context (`cfg.deafDialer`): configuration, `connectReturned`, and the
    unreachability of the late-transport branches of `.dialOk` / `.dialFail` for every other dialer -/

theorem runTasks_cfg (n : Nat) (w : World) :
    (runTasks n w).cfg = w.cfg ∧ (runTasks n w).connectReturned = w.connectReturned := by
  refine runTasks_induct (fun w' => w'.cfg = w.cfg ∧ w'.connectReturned = w.connectReturned)
    ?_ ?_ ?_ runTask_cli n w ⟨rfl, rfl⟩
  · intro w' h _ _ _; exact h
  · intro w' k t rest h _ _ _ _ _
    have fr := runTask_frame { w' with taskQ := rest, totalTasks := w'.totalTasks + 1 } k t
    exact ⟨fr.cfg.trans h.1, fr.connectReturned.trans h.2⟩
  · intro w' k h _ _; exact h

theorem loopReact_cfg (w : World) :
    (loopReact w).cfg = w.cfg ∧ (loopReact w).connectReturned = w.connectReturned := by
  unfold loopReact
  split
  · split
    · exact ⟨rfl, rfl⟩
    · split <;> exact ⟨rfl, rfl⟩
  · exact ⟨rfl, rfl⟩

theorem progress_cfg (w : World) :
    (progress w).cfg = w.cfg ∧ (progress w).connectReturned = w.connectReturned := by
  unfold progress
  exact ⟨(loopReact_cfg _).1.trans (runTasks_cfg _ w).1, (loopReact_cfg _).2.trans (runTasks_cfg _ w).2⟩

theorem loopReact_phase (w : World) :
    (∀ k, (loopReact w).phase = .up k → w.phase = .up k) ∧
    (w.phase = .idle → (loopReact w).phase = .idle) := by
  unfold loopReact
  split
  · next k hk =>
    split
    · exact ⟨fun _ h => h, fun h => h⟩
    · split
      · exact ⟨(fun _ h => by cases h), fun h => by rw [hk] at h; cases h⟩
      · exact ⟨(fun _ h => by cases h), fun h => by rw [hk] at h; cases h⟩
  · exact ⟨fun _ h => h, fun h => h⟩

theorem progress_phase (w : World) :
    (∀ k, (progress w).phase = .up k → w.phase = .up k) ∧
    (w.phase = .idle → (progress w).phase = .idle) ∧
    (w.phase = .exited → (progress w).phase = .exited) := by
  have b := (runTasks_field (w.taskQ.length + 1) w).2.1
  obtain ⟨l1, l2⟩ := loopReact_phase (runTasks (w.taskQ.length + 1) w)
  exact ⟨fun k hk => b ▸ l1 k hk, fun hx => l2 (b ▸ hx), (progress_fields w).2.2⟩

theorem connackPre_cfg (w : World) (k : Nat) (sp : Bool) (inb : List (Nat × Nat)) :
    (connackPre w k sp inb).cfg = w.cfg ∧ (connackPre w k sp inb).connectReturned.isSome = true := by
  have s := inbFold_same inb (cp1 w k sp) k
  have h3 : (cp3 w k sp inb).cfg = w.cfg := s.cfg
  have h4 : (cp3 w k sp inb).connectReturned.isSome = true := by
    show (if _ then some sp else _ : Option Bool).isSome = true
    split
    · rfl
    · next hx => cases hy : (List.foldl _ (cp1 w k sp) inb).connectReturned <;> simp_all
  rw [← h3]
  unfold connackPre
  dsimp only
  split <;> split <;> exact ⟨rfl, h4⟩

theorem connectFailed_cfg (w : World) (k : Nat) :
    (connectFailed w k).cfg = w.cfg ∧ (connectFailed w k).connectReturned = w.connectReturned ∧
    ((connectFailed w k).phase = .exited ∨ (connectFailed w k).phase = .backoff) := by
  unfold connectFailed
  dsimp only
  split
  · exact ⟨rfl, rfl, Or.inl rfl⟩
  · exact ⟨rfl, rfl, Or.inr rfl⟩

/-- the configuration never changes -/
theorem step_cfg (w : World) (e : Ev) : (step w e).cfg = w.cfg := by
  cases e with
  | start =>
    simp only [step]
    split
    · rfl
    · split
      · split <;> rfl
      · rfl
  | waitElapsed => simp only [step]; split <;> rfl
  | cancelCtx =>
    simp only [step]
    split
    · rfl
    · cases hph : w.phase with
      | connackGate k => simp only; rw [(progress_cfg _).1]; rfl
      | idle => simp only
      | backoff => simp only
      | dialGate => simp only; split <;> rfl
      | up k => simp only
      | exited => simp only
  | app r =>
    simp only [step]
    split
    · rfl
    · rw [(progress_cfg _).1]; rfl
  | dialOk i =>
    simp only [step]
    split
    · rfl
    · split
      · rw [(progress_cfg _).1]
      · rfl
  | dialFail =>
    simp only [step]
    split
    · rfl
    · split
      · rfl
      · split <;> rfl
  | connackOk sp inb =>
    cases hph : w.phase with
    | connackGate k => rw [step_connackOk w k sp inb hph, (progress_cfg _).1, (connackPre_cfg w k sp inb).1]
    | idle => simp only [step, hph]
    | dialGate => simp only [step, hph]
    | backoff => simp only [step, hph]
    | up k => simp only [step, hph]
    | exited => simp only [step, hph]
  | connackRefused =>
    simp only [step]
    split
    · rw [(progress_cfg _).1, (connectFailed_cfg _ _).1]
    · rfl
  | connackNever =>
    simp only [step]
    split
    · split
      · rw [(progress_cfg _).1, (connectFailed_cfg _ _).1]
      · rfl
    · rfl
  | peerClose =>
    simp only [step]
    split
    · rw [(progress_cfg _).1]; rfl
    · rfl
  | inbound m qos =>
    simp only [step]
    split
    · exact (deliverInbound_same _ _ _ _).cfg
    · rfl
  | handle hd => simp only [step]; split <;> rfl
  | disconnect =>
    simp only [step]
    split
    · rfl
    · have : (progress { pushTask w .disconnect with stopped := true }).cfg = w.cfg := by
        rw [(progress_cfg _).1]; rfl
      split <;> exact this

theorem exec_cfg (s : Script) : (exec s).cfg = s.cfg := by
  have gen : ∀ (evs : List Ev) (w : World), (evs.foldl step w).cfg = w.cfg := by
    intro evs
    induction evs with
    | nil => intro w; rfl
    | cons e rest ih => intro w; exact (ih _).trans (step_cfg w e)
  exact gen s.evs (init s)

/-- as long as ReconnectClient.Connect has not returned a session: the loop is not in `.up`, and once
    the context is cancelled the loop is not running (Connect not called yet, or exited) — for a dialer
    that honours its context -/
def CtxInv (w : World) : Prop :=
  w.connectReturned.isNone = true →
    (∀ k, w.phase ≠ .up k) ∧ (w.ctxCancelled = true → w.phase = .idle ∨ w.phase = .exited)

theorem ctxInv_of {w w' : World} (h : CtxInv w) (h1 : w'.connectReturned = w.connectReturned)
    (h2 : w'.ctxCancelled = w.ctxCancelled)
    (hA : ∀ k, w'.phase = .up k → ∃ k', w.phase = .up k')
    (hB : w.phase = .idle ∨ w.phase = .exited → w'.phase = .idle ∨ w'.phase = .exited) :
    CtxInv w' := by
  intro hn
  obtain ⟨a, b⟩ := h (h1 ▸ hn)
  refine ⟨fun k hk => ?_, fun hc => hB (b (h2 ▸ hc))⟩
  obtain ⟨k', hk'⟩ := hA k hk
  exact a k' hk'

theorem ctxInv_progress (w : World) (h : CtxInv w) : CtxInv (progress w) := by
  obtain ⟨p1, p2, p3⟩ := progress_phase w
  refine ctxInv_of h (progress_cfg w).2 (progress_ctx w) (fun k hk => ⟨k, p1 k hk⟩) (fun hx => ?_)
  cases hx with
  | inl hx => exact Or.inl (p2 hx)
  | inr hx => exact Or.inr (p3 hx)

theorem step_ctxInv (w : World) (e : Ev) (hd : w.cfg.deafDialer = false) (h : CtxInv w) :
    CtxInv (step w e) := by
  cases e with
  | start =>
    simp only [step]
    split
    · exact h
    · next hc =>
      have hi : w.phase = .idle := Decidable.of_not_not hc
      split
      · simp only [hd, Bool.false_eq_true, if_false]
        exact ctxInv_of h rfl rfl (fun k hk => by cases hk) (fun _ => Or.inr rfl)
      · next hcc =>
        intro _
        exact ⟨(fun k hk => by cases hk), fun hx => absurd hx hcc⟩
  | waitElapsed =>
    simp only [step]
    split
    · next hc =>
      exact ctxInv_of h rfl rfl (fun k hk => by cases hk)
        (fun hx => by rw [hc] at hx; cases hx with
          | inl hx => cases hx
          | inr hx => cases hx)
    · exact h
  | cancelCtx =>
    simp only [step]
    split
    · exact h
    · next hg =>
      have hn : w.connectReturned.isNone = true := by
        cases hx : w.connectReturned with
        | none => rfl
        | some b => exact absurd (Or.inr (by rw [hx]; rfl)) hg
      have hup := (h hn).1
      cases hph : w.phase with
      | connackGate k =>
        simp only
        intro _
        have pex : ∀ w0 : World, w0.phase = .exited →
            (∀ k, (progress w0).phase ≠ .up k) ∧
            ((progress w0).ctxCancelled = true → (progress w0).phase = .idle ∨ (progress w0).phase = .exited) :=
          fun w0 h0 => by
            have hex := (progress_fields w0).2.2 h0
            exact ⟨(fun k' hk' => by rw [hex] at hk'; cases hk'), fun _ => Or.inr hex⟩
        apply pex
        rfl
      | idle => simp only; intro _; exact ⟨(fun k hk => by cases hk), fun _ => Or.inl rfl⟩
      | backoff => simp only; intro _; exact ⟨(fun k hk => by cases hk), fun _ => Or.inr rfl⟩
      | dialGate =>
        simp only [hd, Bool.false_eq_true, if_false]
        intro _; exact ⟨(fun k hk => by cases hk), fun _ => Or.inr rfl⟩
      | up k => exact absurd hph (hup k)
      | exited => simp only; intro _; exact ⟨(fun k hk => by cases hk), fun _ => Or.inr rfl⟩
  | app r =>
    simp only [step]
    split
    · exact ctxInv_of h rfl rfl (fun k hk => ⟨k, hk⟩) id
    · exact ctxInv_progress _ (ctxInv_of h rfl rfl (fun k hk => ⟨k, hk⟩) id)
  | dialOk i =>
    simp only [step]
    split
    · exact h
    · next hc =>
      have hdg : w.phase = .dialGate := Decidable.of_not_not hc
      have hB : w.phase = .idle ∨ w.phase = .exited → ∀ (P : Prop), P := fun hx => by
        rw [hdg] at hx
        cases hx with
        | inl hx => cases hx
        | inr hx => cases hx
      split
      · next hcc => exact hB ((h hcc.2).2 hcc.1) _
      · exact ctxInv_of h rfl rfl (fun k hk => by cases hk) (fun hx => hB hx _)
  | dialFail =>
    simp only [step]
    split
    · exact h
    · next hc =>
      have hdg : w.phase = .dialGate := Decidable.of_not_not hc
      split
      · exact ctxInv_of h rfl rfl (fun k hk => by cases hk) (fun _ => Or.inr rfl)
      · split
        · exact ctxInv_of h rfl rfl (fun k hk => by cases hk) (fun _ => Or.inr rfl)
        · exact ctxInv_of h rfl rfl (fun k hk => by cases hk)
            (fun hx => by rw [hdg] at hx; cases hx with
              | inl hx => cases hx
              | inr hx => cases hx)
  | connackOk sp inb =>
    cases hph : w.phase with
    | connackGate k =>
      rw [step_connackOk w k sp inb hph]
      intro hn
      rw [(progress_cfg _).2] at hn
      have := (connackPre_cfg w k sp inb).2
      cases hx : (connackPre w k sp inb).connectReturned <;> simp_all
    | idle => simp only [step, hph]; exact h
    | dialGate => simp only [step, hph]; exact h
    | backoff => simp only [step, hph]; exact h
    | up k => simp only [step, hph]; exact h
    | exited => simp only [step, hph]; exact h
  | connackRefused =>
    cases hph : w.phase with
    | connackGate k =>
      simp only [step, hph]
      obtain ⟨_, c2, c3⟩ := connectFailed_cfg w k
      refine ctxInv_progress _ (ctxInv_of h c2 (connectFailed_ctx w k) (fun k' hk' => ?_) (fun hx => ?_))
      · cases c3 with
        | inl c3 => rw [c3] at hk'; cases hk'
        | inr c3 => rw [c3] at hk'; cases hk'
      · rw [hph] at hx
        cases hx with
        | inl hx => cases hx
        | inr hx => cases hx
    | idle => simp only [step, hph]; exact h
    | dialGate => simp only [step, hph]; exact h
    | backoff => simp only [step, hph]; exact h
    | up k => simp only [step, hph]; exact h
    | exited => simp only [step, hph]; exact h
  | connackNever =>
    cases hph : w.phase with
    | connackGate k =>
      simp only [step, hph]
      split
      · obtain ⟨_, c2, c3⟩ := connectFailed_cfg w k
        refine ctxInv_progress _ (ctxInv_of h c2 (connectFailed_ctx w k) (fun k' hk' => ?_) (fun hx => ?_))
        · cases c3 with
          | inl c3 => rw [c3] at hk'; cases hk'
          | inr c3 => rw [c3] at hk'; cases hk'
        · rw [hph] at hx
          cases hx with
          | inl hx => cases hx
          | inr hx => cases hx
      · exact h
    | idle => simp only [step, hph]; exact h
    | dialGate => simp only [step, hph]; exact h
    | backoff => simp only [step, hph]; exact h
    | up k => simp only [step, hph]; exact h
    | exited => simp only [step, hph]; exact h
  | peerClose =>
    cases hph : w.phase with
    | up k =>
      simp only [step, hph]
      exact ctxInv_progress _ (ctxInv_of h rfl rfl (fun k' hk' => ⟨k', hk'⟩) id)
    | idle => simp only [step, hph]; exact h
    | dialGate => simp only [step, hph]; exact h
    | backoff => simp only [step, hph]; exact h
    | connackGate k => simp only [step, hph]; exact h
    | exited => simp only [step, hph]; exact h
  | inbound m qos =>
    cases hph : w.phase with
    | up k =>
      simp only [step, hph]
      have sm := deliverInbound_same w k m qos
      exact ctxInv_of h sm.connectReturned sm.ctxCancelled (fun k' hk' => ⟨k', sm.phase ▸ hk'⟩)
        (fun hx => sm.phase ▸ hx)
    | idle => simp only [step, hph]; exact h
    | dialGate => simp only [step, hph]; exact h
    | backoff => simp only [step, hph]; exact h
    | connackGate k => simp only [step, hph]; exact h
    | exited => simp only [step, hph]; exact h
  | handle hd' =>
    simp only [step]
    split
    · exact ctxInv_of h rfl rfl (fun k hk => ⟨k, hk⟩) id
    · exact ctxInv_of h rfl rfl (fun k hk => ⟨k, hk⟩) id
  | disconnect =>
    simp only [step]
    split
    · exact h
    · have a : CtxInv (progress { pushTask w .disconnect with stopped := true }) :=
        ctxInv_progress _ (ctxInv_of h rfl rfl (fun k hk => ⟨k, hk⟩) id)
      split
      · exact ctxInv_of a rfl rfl (fun k hk => by cases hk) (fun _ => Or.inr rfl)
      · exact ctxInv_of a rfl rfl (fun k hk => by cases hk) (fun _ => Or.inr rfl)
      · exact a

theorem exec_ctxInv (s : Script) (hd : s.cfg.deafDialer = false) : CtxInv (exec s) := by
  have gen : ∀ (evs : List Ev) (w : World), w.cfg.deafDialer = false → CtxInv w →
      CtxInv (evs.foldl step w) := by
    intro evs
    induction evs with
    | nil => intro w _ h; exact h
    | cons e rest ih =>
      intro w hc h
      exact ih _ (by rw [step_cfg]; exact hc) (step_ctxInv w e hc h)
  exact gen s.evs (init s) hd (fun _ => ⟨(fun k hk => by cases hk), fun _ => Or.inl rfl⟩)

/-- connections never come back to life while the task goroutine runs -/
theorem runTasks_alive (n : Nat) (w : World) :
    ∀ j, (getConn (runTasks n w) j).alive = true → (getConn w j).alive = true := by
  refine runTasks_induct (fun w' => ∀ j, (getConn w' j).alive = true → (getConn w j).alive = true)
    ?_ ?_ ?_ runTask_cli n w (fun _ h => h)
  · intro w' h _ _ _; exact h
  · intro w' k t rest h _ _ _ _ _ j hj
    exact h j ((runTask_frame { w' with taskQ := rest, totalTasks := w'.totalTasks + 1 } k t).alive j hj)
  · intro w' k h _ _ j hj
    exact h j (alive_kill w' k j hj)

theorem progress_alive (w : World) (j : Nat) (h : (getConn (progress w) j).alive = true) :
    (getConn w j).alive = true := by
  have h5 := (loopReact_eqs (runTasks (w.taskQ.length + 1) w)).2.2.2.2.2.2.2.2.2.2.2.1
  apply runTasks_alive (w.taskQ.length + 1) w j
  unfold progress at h
  simpa [getConn, h5] using h

theorem progress_len (w : World) : (progress w).conns.length = w.conns.length := by
  have h5 := (loopReact_eqs (runTasks (w.taskQ.length + 1) w)).2.2.2.2.2.2.2.2.2.2.2.1
  unfold progress
  rw [h5, (runTasks_field _ w).2.2.2.2]

theorem progress_cli (w : World) : (progress w).cli = w.cli := by
  have h1 := (loopReact_eqs (runTasks (w.taskQ.length + 1) w)).2.2.2.2.2.2.2.1
  unfold progress
  rw [h1, (runTasks_field _ w).2.2.1]

/-- the transport of a dialer that ignores its context arriving after the cancellation of the first
    Connect (the new branch of `.dialOk`): one more connection, dead from the start and for ever, the
    loop has exited, the client's flags and the accepted requests are what they were -/
theorem step_dialOk_late (w : World) (i : Nat) (hph : w.phase = .dialGate)
    (hc : w.ctxCancelled = true) (hn : w.connectReturned.isNone = true) :
    (step w (.dialOk i)).phase = .exited ∧
    (step w (.dialOk i)).conns.length = w.conns.length + 1 ∧
    (getConn (step w (.dialOk i)) w.conns.length).alive = false ∧
    (step w (.dialOk i)).cli = some w.conns.length ∧
    (step w (.dialOk i)).stopped = w.stopped ∧ (step w (.dialOk i)).ctxCancelled = true ∧
    (step w (.dialOk i)).connectReturned = w.connectReturned ∧
    (step w (.dialOk i)).initialized = w.initialized ∧
    (step w (.dialOk i)).accepted = w.accepted := by
  have hcc : w.ctxCancelled = true ∧ w.connectReturned.isNone = true := ⟨hc, hn⟩
  simp only [step, hph, ne_eq, not_true_eq_false, if_false, hcc, and_self, if_true]
  refine ⟨(progress_fields _).2.2 rfl, ?_, ?_, ?_, progress_stopped _, ?_, (progress_cfg _).2,
    (progress_fields _).1, (progress_more _).1⟩
  · rw [progress_len]; simp
  · cases hx : (getConn (progress _) w.conns.length).alive with
    | false => rfl
    | true =>
      have := progress_alive _ _ hx
      simp [getConn] at this
  · rw [progress_cli]
  · rw [progress_ctx]

end Mqtt.Retry
