/-
  Helper lemmas for property C02 (QoS 2 exactly once) about the retry stack model:
    * pure lemmas on the broker's QoS 2 receiver state (`q2`, `stash`, `delivered`): `BBase`
      (no assumption on QoS values), `BIdle` / `BHeld` (every accepted QoS ≤ 2)
    * the world invariant `Base` / `State` / `Run` and its preservation by `relAttempt`,
      `pubAttempt`, `runEntry`, `retryLoop`, `runTask`, `runTasks`, `step` (`Inv02`), using that the
      retry queue holds at most one raw handle, at its head (`TailQ`): at most one message is in
      flight, so identifiers can never collide at the broker, whatever `idStart` the dialer chooses
    * requests on a dead connection never reach the broker (`DK`), hence the broker is untouched
      before the first accepted CONNACK (`KInv`) and a first CONNACK without session clears nothing
    * the fold over a whole script (`exec_full`)
-/
import MqttVerif.Proofs.RetryMsg

namespace Mqtt.Retry

/-! ### pure broker lemmas -/

/-- onward deliveries of message `m` -/
def cnt (b : Broker) (m : Nat) : Nat := b.delivered.count m

/-- stashed copies of message `m` (method `onPubrel`) -/
def stashed (b : Broker) (m : Nat) : Nat := b.stash.countP (fun e => e.2 == m)

/-- deliveries done or still to come from the stash -/
def load (b : Broker) (m : Nat) : Nat := cnt b m + stashed b m

theorem countP_filter_le {α : Type} (p q : α → Bool) (l : List α) :
    (l.filter q).countP p ≤ l.countP p := by
  induction l with
  | nil => simp
  | cons a t ih =>
    rw [List.filter_cons]
    split
    · rw [List.countP_cons, List.countP_cons]; omega
    · rw [List.countP_cons]; omega

theorem countP_filter_found {α : Type} (p q : α → Bool) (l : List α) (a : α) (h : a ∈ l)
    (hq : q a = false) (hp : p a = true) : (l.filter q).countP p + 1 ≤ l.countP p := by
  induction l with
  | nil => cases h
  | cons c t ih =>
    rcases List.mem_cons.1 h with h' | h'
    · subst h'
      have := countP_filter_le p q t
      rw [List.filter_cons, hq, List.countP_cons, hp]
      simp only [Bool.false_eq_true, if_false, if_true]
      omega
    · have := ih h'
      rw [List.filter_cons]
      split
      · rw [List.countP_cons, List.countP_cons]; omega
      · rw [List.countP_cons]; omega

/-- the effect of a QoS ≥ 2 PUBLISH that the broker had not seen -/
theorem publish_new (b : Broker) (m q i : Nat) (hq : 2 ≤ q) (hi : i ∉ b.q2) :
    (b.publish m q i).q2 = b.q2 ++ [i] ∧
    ((b.method = .onPublish ∧ (b.publish m q i).delivered = b.delivered ++ [m] ∧
        (b.publish m q i).stash = b.stash) ∨
     (b.method = .onPubrel ∧ (b.publish m q i).delivered = b.delivered ∧
        (b.publish m q i).stash = b.stash ++ [(i, m)])) ∧
    (b.publish m q i).acked = b.acked ∧ (b.publish m q i).method = b.method := by
  unfold Broker.publish
  have h1 : ¬ q < 2 := by omega
  have h2 : b.q2.contains i = false := by simpa using hi
  simp only [h1, if_false, h2, Bool.false_eq_true]
  cases hm : b.method <;> simp

theorem publish_seen (b : Broker) (m q i : Nat) (hq : 2 ≤ q) (hi : i ∈ b.q2) :
    b.publish m q i = b := by
  unfold Broker.publish
  have h1 : ¬ q < 2 := by omega
  simp [h1, hi]

theorem publish_low (b : Broker) (m q i : Nat) (hq : q < 2) :
    b.publish m q i = { b with delivered := b.delivered ++ [m] } := by
  unfold Broker.publish; simp [hq]

/-- the invariant of the broker's receiver state that needs no assumption on the QoS values:
    `ok m` = message `m` was accepted with QoS ≥ 2 only; `logged m` = some packet of `m` is in the log -/
structure BBase (b : Broker) (ok logged : Nat → Prop) : Prop where
  atMost : ∀ m, ok m → load b m ≤ 1
  stashQ2 : ∀ e ∈ b.stash, e.1 ∈ b.q2
  loaded : ∀ m, 1 ≤ load b m → logged m

theorem load_publish_other (b : Broker) (m q i m' : Nat) (h : m' ≠ m) :
    load (b.publish m q i) m' = load b m' := by
  unfold Broker.publish
  split
  · simp [load, cnt, stashed, List.count_append, Ne.symm h]
  · split
    · rfl
    · split <;> simp [load, cnt, stashed, List.count_append, Ne.symm h]

theorem BBase.publish {b : Broker} {ok logged : Nat → Prop} (hb : BBase b ok logged)
    (m q i : Nat) (hl : logged m) (hlow : q < 2 → ¬ ok m)
    (hnew : 2 ≤ q → i ∉ b.q2 → load b m = 0) : BBase (b.publish m q i) ok logged := by
  refine ⟨?_, ?_, ?_⟩
  · intro m' hok
    by_cases hm : m' = m
    · subst hm
      by_cases hq : q < 2
      · exact absurd hok (hlow hq)
      · have hq' : 2 ≤ q := by omega
        by_cases hi : i ∈ b.q2
        · rw [publish_seen b m' q i hq' hi]; exact hb.atMost m' hok
        · have h0 := hnew hq' hi
          obtain ⟨_, h2, _⟩ := publish_new b m' q i hq' hi
          unfold load cnt stashed at h0 ⊢
          rcases h2 with ⟨_, hd, hs⟩ | ⟨_, hd, hs⟩
          · rw [hd, hs]; simp [List.count_append]; omega
          · rw [hd, hs]; simp [List.countP_append]; omega
    · rw [load_publish_other b m q i m' hm]; exact hb.atMost m' hok
  · by_cases hq : q < 2
    · rw [publish_low b m q i hq]; exact hb.stashQ2
    · have hq' : 2 ≤ q := by omega
      by_cases hi : i ∈ b.q2
      · rw [publish_seen b m q i hq' hi]; exact hb.stashQ2
      · obtain ⟨h1, h2, _⟩ := publish_new b m q i hq' hi
        intro e he
        rw [h1]
        rcases h2 with ⟨_, _, hs⟩ | ⟨_, _, hs⟩
        · rw [hs] at he; exact List.mem_append_left _ (hb.stashQ2 e he)
        · rw [hs] at he
          rcases List.mem_append.1 he with h | h
          · exact List.mem_append_left _ (hb.stashQ2 e h)
          · simp at h; subst h; simp
  · intro m' h1
    by_cases hm : m' = m
    · subst hm; exact hl
    · rw [load_publish_other b m q i m' hm] at h1; exact hb.loaded m' h1

theorem pubrel_none (b : Broker) (i : Nat) (hf : b.stash.find? (fun e => e.1 = i) = none) :
    b.pubrel i = { b with q2 := b.q2.filter (· ≠ i) } := by
  unfold Broker.pubrel; rw [hf]

theorem pubrel_some (b : Broker) (i j m : Nat) (hf : b.stash.find? (fun e => e.1 = i) = some (j, m)) :
    b.pubrel i = { b with delivered := b.delivered ++ [m],
                          stash := b.stash.filter (fun e => e.1 ≠ i),
                          q2 := b.q2.filter (· ≠ i) } := by
  unfold Broker.pubrel; rw [hf]

theorem load_pubrel_le (b : Broker) (i m : Nat) : load (b.pubrel i) m ≤ load b m := by
  cases hf : b.stash.find? (fun e => e.1 = i) with
  | none => rw [pubrel_none b i hf]; exact Nat.le_refl _
  | some e =>
    obtain ⟨j, m'⟩ := e
    have hj : j = i := by simpa using List.find?_some hf
    subst hj
    have hmem : (j, m') ∈ b.stash := List.mem_of_find?_eq_some hf
    rw [pubrel_some b j j m' hf]
    unfold load cnt stashed
    simp only [List.count_append, List.count_singleton]
    by_cases hm : m' = m
    · subst hm
      have := countP_filter_found (fun e : Nat × Nat => e.2 == m') (fun e => decide (e.1 ≠ j))
        b.stash (j, m') hmem (by simp) (by simp)
      simp only [beq_self_eq_true, if_true]
      omega
    · have := countP_filter_le (fun e : Nat × Nat => e.2 == m) (fun e => decide (e.1 ≠ j)) b.stash
      have hne : (m' == m) = false := by simpa using hm
      simp only [hne, Bool.false_eq_true, if_false]
      omega

theorem BBase.pubrel {b : Broker} {ok logged : Nat → Prop} (hb : BBase b ok logged) (i : Nat) :
    BBase (b.pubrel i) ok logged := by
  refine ⟨fun m hok => Nat.le_trans (load_pubrel_le b i m) (hb.atMost m hok), ?_,
    fun m h1 => hb.loaded m (Nat.le_trans h1 (load_pubrel_le b i m))⟩
  intro e he
  have hq2 : (b.pubrel i).q2 = b.q2.filter (· ≠ i) := by
    unfold Broker.pubrel; split <;> rfl
  have hst : (b.pubrel i).stash = b.stash.filter (fun e => e.1 ≠ i) ∨ (b.pubrel i).stash = b.stash := by
    unfold Broker.pubrel; split
    · exact Or.inl rfl
    · exact Or.inr rfl
  rw [hq2]
  rcases hst with h | h
  · rw [h] at he
    obtain ⟨h1, h2⟩ := List.mem_filter.1 he
    exact List.mem_filter.2 ⟨hb.stashQ2 e h1, h2⟩
  · rw [h] at he
    -- no stash entry has identifier `i`
    have hnone : b.stash.find? (fun e => e.1 = i) = none := by
      unfold Broker.pubrel at h
      cases hf : b.stash.find? (fun e => e.1 = i) with
      | none => rfl
      | some e' =>
        exfalso
        obtain ⟨j, m'⟩ := e'
        have hj : j = i := by simpa using List.find?_some hf
        have hmem : (j, m') ∈ b.stash := List.mem_of_find?_eq_some hf
        rw [hf] at h
        simp only at h
        have : (j, m') ∈ b.stash.filter (fun e => e.1 ≠ i) := by rw [h]; exact hmem
        simp [hj] at this
    have hne : e.1 ≠ i := by
      have := List.find?_eq_none.1 hnone e he
      simpa using this
    exact List.mem_filter.2 ⟨hb.stashQ2 e he, by simpa using hne⟩

/-! ### the receiver state when every accepted QoS is ≤ 2: at most one identifier in flight -/

def BIdle (b : Broker) : Prop := b.q2 = [] ∧ b.stash = []

/-- message `m` (identifier `i`) has been received and not yet released -/
def BHeld (b : Broker) (m i : Nat) : Prop :=
  b.q2 = [i] ∧ ((cnt b m = 1 ∧ b.stash = []) ∨ (cnt b m = 0 ∧ b.stash = [(i, m)]))

theorem BIdle.publish2 {b : Broker} (h : BIdle b) (m i : Nat) (h0 : cnt b m = 0) :
    BHeld (b.publish m 2 i) m i := by
  obtain ⟨h1, h2, _⟩ := publish_new b m 2 i (Nat.le_refl 2) (by rw [h.1]; simp)
  refine ⟨by rw [h1, h.1]; rfl, ?_⟩
  rcases h2 with ⟨_, hd, hs⟩ | ⟨_, hd, hs⟩
  · left; unfold cnt at *; rw [hd, hs, h.2]; simp [List.count_append, h0]
  · right; unfold cnt at *; rw [hd, hs, h.2]; exact ⟨h0, rfl⟩

theorem BHeld.publish2 {b : Broker} {m i : Nat} (h : BHeld b m i) : b.publish m 2 i = b :=
  publish_seen b m 2 i (Nat.le_refl 2) (by rw [h.1]; simp)

theorem BIdle.publishLow {b : Broker} (h : BIdle b) (m q i : Nat) (hq : q < 2) :
    BIdle (b.publish m q i) := by
  rw [publish_low b m q i hq]; exact h

theorem BIdle.pubrel {b : Broker} (h : BIdle b) (i : Nat) :
    BIdle (b.pubrel i) ∧ (b.pubrel i).delivered = b.delivered := by
  have hf : b.stash.find? (fun e => e.1 = i) = none := by rw [h.2]; rfl
  rw [pubrel_none b i hf]
  exact ⟨⟨by simp [h.1], h.2⟩, rfl⟩

theorem BHeld.pubrel {b : Broker} {m i : Nat} (h : BHeld b m i) :
    BIdle (b.pubrel i) ∧ cnt (b.pubrel i) m = 1 := by
  rcases h.2 with ⟨hc, hs⟩ | ⟨hc, hs⟩
  · have hf : b.stash.find? (fun e => e.1 = i) = none := by rw [hs]; rfl
    rw [pubrel_none b i hf]
    exact ⟨⟨by simp [h.1], hs⟩, hc⟩
  · have hf : b.stash.find? (fun e => e.1 = i) = some (i, m) := by rw [hs]; simp
    rw [pubrel_some b i i m hf]
    refine ⟨⟨by simp [h.1], by simp [hs]⟩, ?_⟩
    unfold cnt at *; simp [List.count_append, hc]

theorem cnt_publish_le (b : Broker) (m q i m' : Nat) : cnt b m' ≤ cnt (b.publish m q i) m' := by
  unfold Broker.publish cnt
  split
  · simp [List.count_append]
  · split
    · exact Nat.le_refl _
    · split <;> simp [List.count_append]

theorem cnt_pubrel_le (b : Broker) (i m' : Nat) : cnt b m' ≤ cnt (b.pubrel i) m' := by
  unfold Broker.pubrel cnt
  split <;> simp [List.count_append]

theorem publish_acked (b : Broker) (m q i : Nat) : (b.publish m q i).acked = b.acked := by
  unfold Broker.publish
  split
  · rfl
  · split
    · rfl
    · split <;> rfl

theorem pubrel_acked (b : Broker) (i : Nat) : (b.pubrel i).acked = b.acked := by
  unfold Broker.pubrel; split <;> rfl

/-! ### the broker invariant of a world -/

/-- every accepted PUBLISH request has a valid QoS -/
def ValidAcc (w : World) : Prop := ∀ m q, Req.pub m q ∈ w.accepted → q ≤ 2

/-- message `m` was accepted with QoS ≥ 2 only -/
def Q2ok (w : World) (m : Nat) : Prop := ∀ q, Req.pub m q ∈ w.accepted → 2 ≤ q

def Logged (w : World) (m : Nat) : Prop := msgPkts w m ≠ []

structure Base (w : World) (es : List Entry) : Prop where
  bb : BBase w.broker (Q2ok w) (Logged w)
  held : ∀ m q, Entry.rePublish m q ∈ es → 2 ≤ q → 1 ≤ load w.broker m →
    ∃ i, lookupPid w m = some i ∧ i ∈ w.broker.q2
  ackedAcc : ∀ m, Req.pub m 2 ∈ w.broker.acked → Req.pub m 2 ∈ w.accepted
  ackedCnt : ValidAcc w → ∀ m, Req.pub m 2 ∈ w.broker.acked → 1 ≤ cnt w.broker m

/-- the receiver state matches the raw handles in `es` (when every accepted QoS is ≤ 2) -/
def State (w : World) (es : List Entry) : Prop :=
  ValidAcc w → w.stuck = true ∨
    (BIdle w.broker ∧ ∀ m, Entry.rePubRel m ∈ es → cnt w.broker m = 1) ∨
    (∃ m i, (Entry.rePublish m 2 ∈ es ∨ Entry.rePubRel m ∈ es) ∧ lookupPid w m = some i ∧
      BHeld w.broker m i)

/-- the receiver state while message `m` (identifier `i`, QoS `q`) is being attempted;
    `rel`: PUBLISH has been acknowledged -/
structure Run (w : World) (m i q : Nat) (rel : Bool) : Prop where
  weak : rel = false → 2 ≤ q → 1 ≤ load w.broker m → i ∈ w.broker.q2
  strong : ValidAcc w → w.stuck = true ∨
    (BIdle w.broker ∧ (rel = true → cnt w.broker m = 1)) ∨ (q = 2 ∧ BHeld w.broker m i)

theorem BBase.mono {b : Broker} {ok ok' lg lg' : Nat → Prop} (h : BBase b ok lg)
    (hok : ∀ m, ok' m → ok m) (hlg : ∀ m, lg m → lg' m) : BBase b ok' lg' :=
  ⟨fun m hm => h.atMost m (hok m hm), h.stashQ2, fun m hm => hlg m (h.loaded m hm)⟩

theorem BBase.congr {b b' : Broker} {ok lg : Nat → Prop} (h : BBase b ok lg)
    (h1 : b'.q2 = b.q2) (h2 : b'.stash = b.stash) (h3 : b'.delivered = b.delivered) :
    BBase b' ok lg := by
  have hl : ∀ m, load b' m = load b m := by intro m; unfold load cnt stashed; rw [h2, h3]
  exact ⟨fun m hm => by rw [hl]; exact h.atMost m hm, by rw [h1, h2]; exact h.stashQ2,
    fun m hm => h.loaded m (by rw [← hl]; exact hm)⟩

theorem queued_not_rePublish {es : List Entry} (hq : ∀ e ∈ es, e.queued = true) (m q : Nat) :
    Entry.rePublish m q ∉ es := fun h => by have := hq _ h; simp [Entry.queued] at this

theorem queued_not_rePubRel {es : List Entry} (hq : ∀ e ∈ es, e.queued = true) (m : Nat) :
    Entry.rePubRel m ∉ es := fun h => by have := hq _ h; simp [Entry.queued] at this

theorem ack_fields (b : Broker) (r : Req) :
    (b.ack r).q2 = b.q2 ∧ (b.ack r).stash = b.stash ∧ (b.ack r).delivered = b.delivered ∧
      (b.ack r).acked = b.acked ++ [r] := ⟨rfl, rfl, rfl, rfl⟩

theorem cnt_ack (b : Broker) (r : Req) (m : Nat) : cnt (b.ack r) m = cnt b m := rfl

theorem relAttempt_X {w : World} {es : List Entry} {k m i : Nat} (hk : k + 1 = w.conns.length)
    (hB : Base w es) (hq : ∀ e ∈ es, e.queued = true) (hacc : Req.pub m 2 ∈ w.accepted)
    (hns : w.stuck = false) (hR : Run w m i 2 true) :
    Base (relAttempt w k m i).1 es ∧
    (∀ h, (relAttempt w k m i).2.handle = some h → Run (relAttempt w k m i).1 m i 2 true) ∧
    ((relAttempt w k m i).2.handle = none → ValidAcc (relAttempt w k m i).1 →
      (relAttempt w k m i).1.stuck = true ∨ BIdle (relAttempt w k m i).1.broker) := by
  obtain ⟨y, he⟩ := relAttempt_eff w k m i hk
  generalize relAttempt w k m i = r at he
  obtain ⟨w', o⟩ := r
  simp only at he ⊢
  have hacc' : w'.accepted = w.accepted := he.mod.accepted
  have hva : ValidAcc w' → ValidAcc w := by intro h; unfold ValidAcc at *; rwa [hacc'] at h
  have hq2ok : ∀ m', Q2ok w' m' → Q2ok w m' := by intro m' h; unfold Q2ok at *; rwa [hacc'] at h
  have hlog : ∀ m', Logged w m' → Logged w' m' := by
    intro m' h
    unfold Logged at *
    rw [msgPkts_append he.pkts m']
    split
    · simp
    · exact h
  -- the strong state before, without the stuck alternative
  have hstr : ValidAcc w' → (BIdle w.broker ∧ cnt w.broker m = 1) ∨ BHeld w.broker m i := by
    intro hv
    rcases hR.strong (hva hv) with h | ⟨h1, h2⟩ | ⟨_, h⟩
    · rw [hns] at h; cases h
    · exact Or.inl ⟨h1, h2 rfl⟩
    · exact Or.inr h
  by_cases hy : y = .sent .ok
  · -- PUBCOMP received
    have hb := he.brokerOk hy
    have hout : o = .done := by
      rcases he.out with ⟨_, h⟩ | ⟨h, _⟩
      · exact h
      · exact absurd hy h
    subst hout
    have hstate : ValidAcc w' → BIdle w'.broker ∧ cnt w'.broker m = 1 := by
      intro hv
      rw [hb]
      rcases hstr hv with ⟨h1, h2⟩ | h
      · obtain ⟨h3, h4⟩ := h1.pubrel i
        refine ⟨⟨h3.1, h3.2⟩, ?_⟩
        show cnt (w.broker.pubrel i) m = 1
        unfold cnt at *; rw [h4]; exact h2
      · obtain ⟨h3, h4⟩ := h.pubrel
        exact ⟨⟨h3.1, h3.2⟩, h4⟩
    refine ⟨⟨?_, ?_, ?_, ?_⟩, ?_, ?_⟩
    · rw [hb]
      exact ((hB.bb.pubrel i).congr (b' := (w.broker.pubrel i).ack (Req.pub m 2)) rfl rfl rfl).mono
        hq2ok hlog
    · intro m' q' hm'; exact absurd hm' (queued_not_rePublish hq m' q')
    · intro m' hm'
      rw [hb] at hm'
      rw [hacc']
      have : Req.pub m' 2 ∈ (w.broker.pubrel i).acked ++ [Req.pub m 2] := hm'
      rw [pubrel_acked] at this
      rcases List.mem_append.1 this with h | h
      · exact hB.ackedAcc m' h
      · simp at h; subst h; exact hacc
    · intro hv m' hm'
      rw [hb] at hm'
      have hm'' : Req.pub m' 2 ∈ (w.broker.pubrel i).acked ++ [Req.pub m 2] := hm'
      rw [pubrel_acked] at hm''
      rcases List.mem_append.1 hm'' with h | h
      · have := hB.ackedCnt (hva hv) m' h
        rw [hb]
        exact Nat.le_trans this (cnt_pubrel_le w.broker i m')
      · simp at h; subst h
        rw [(hstate hv).2]; exact Nat.le_refl 1
    · intro h hh; simp [Outcome.handle] at hh
    · intro _ hv; exact Or.inr (hstate hv).1
  · -- no PUBCOMP
    have hbro : w'.broker = w.broker.pubrel i ∨ w'.broker = w.broker := by
      by_cases hp : y.processed = true
      · exact Or.inl (he.brokerProc hy hp)
      · exact Or.inr (he.brokerNo (by simpa using hp))
    have hbase : Base w' es := by
      refine ⟨?_, ?_, ?_, ?_⟩
      · rcases hbro with h | h
        · rw [h]; exact (hB.bb.pubrel i).mono hq2ok hlog
        · rw [h]; exact hB.bb.mono hq2ok hlog
      · intro m' q' hm'; exact absurd hm' (queued_not_rePublish hq m' q')
      · intro m' hm'
        rw [hacc']
        rcases hbro with h | h
        · rw [h, pubrel_acked] at hm'; exact hB.ackedAcc m' hm'
        · rw [h] at hm'; exact hB.ackedAcc m' hm'
      · intro hv m' hm'
        rcases hbro with h | h
        · rw [h, pubrel_acked] at hm'
          rw [h]; exact Nat.le_trans (hB.ackedCnt (hva hv) m' hm') (cnt_pubrel_le _ i m')
        · rw [h] at hm' ⊢; exact hB.ackedCnt (hva hv) m' hm'
    have hrun : Run w' m i 2 true := by
      refine ⟨fun h => Bool.noConfusion h, fun hv => ?_⟩
      right
      rcases hbro with h | h
      · left
        rw [h]
        rcases hstr hv with ⟨h1, h2⟩ | h'
        · obtain ⟨h3, h4⟩ := h1.pubrel i
          exact ⟨h3, fun _ => by unfold cnt at *; rw [h4]; exact h2⟩
        · obtain ⟨h3, h4⟩ := h'.pubrel
          exact ⟨h3, fun _ => h4⟩
      · rw [h]
        rcases hstr hv with ⟨h1, h2⟩ | h'
        · exact Or.inl ⟨h1, fun _ => h2⟩
        · exact Or.inr ⟨rfl, h'⟩
    refine ⟨hbase, fun _ _ => hrun, ?_⟩
    intro hh _
    rcases he.out with ⟨h, _⟩ | ⟨_, h | ⟨e, h⟩⟩
    · exact absurd h hy
    · left; rw [he.stuck, h]; simp [Outcome.isStuck]
    · subst h; simp [Outcome.handle] at hh

theorem Run.transfer {w w' : World} {m i q : Nat} {rel : Bool} (h : Run w m i q rel)
    (hb : w'.broker = w.broker) (hs : w.stuck = true → w'.stuck = true)
    (ha : w'.accepted = w.accepted) : Run w' m i q rel := by
  refine ⟨by rw [hb]; exact h.weak, fun hv => ?_⟩
  have hv' : ValidAcc w := by unfold ValidAcc at *; rwa [ha] at hv
  rw [hb]
  rcases h.strong hv' with h1 | h1
  · exact Or.inl (hs h1)
  · exact Or.inr h1

theorem pubAttempt_X {w : World} {es : List Entry} {k m q : Nat} {d : Bool}
    (hk : k + 1 = w.conns.length) (hB : Base w es) (hq : ∀ e ∈ es, e.queued = true)
    (hacc : Req.pub m q ∈ w.accepted) (hns : w.stuck = false)
    (hpre : (d = false ∧ Fresh (lookupPid w m) (msgPkts w m) ∧ (ValidAcc w → BIdle w.broker)) ∨
      (d = true ∧ ∃ i, lookupPid w m = some i ∧ Run w m i q false)) :
    Base (pubAttempt w k m q d).1 es ∧ ∃ i, lookupPid (pubAttempt w k m q d).1 m = some i ∧
      (∀ h, (pubAttempt w k m q d).2.handle = some h →
        (h = .rePublish m q ∧ Run (pubAttempt w k m q d).1 m i q false) ∨
        (h = .rePubRel m ∧ q = 2 ∧ Run (pubAttempt w k m q d).1 m i 2 true)) ∧
      ((pubAttempt w k m q d).2.handle = none → ValidAcc (pubAttempt w k m q d).1 →
        (pubAttempt w k m q d).1.stuck = true ∨ BIdle (pubAttempt w k m q d).1.broker) := by
  rw [pubAttempt_unfold]
  have ha := assignPid_eff w k m
  generalize assignPid w k m = r1 at ha ⊢
  obtain ⟨w1, i⟩ := r1
  simp only at ha ⊢
  have hk1 : k + 1 = w1.conns.length := by rw [ha.mod.len]; exact hk
  -- the running state once the identifier is assigned
  have hR1 : Run w1 m i q false := by
    rcases hpre with ⟨_, hf, hidle⟩ | ⟨_, i0, hi0, hR⟩
    · refine ⟨fun _ _ h1 => ?_, fun hv => ?_⟩
      · exfalso
        rw [ha.broker] at h1
        exact hB.bb.loaded m h1 hf
      · have hv' : ValidAcc w := by unfold ValidAcc at *; rwa [ha.mod.accepted] at hv
        rw [ha.broker]; exact Or.inr (Or.inl ⟨hidle hv', fun h => Bool.noConfusion h⟩)
    · have hi : i0 = i := by
        rcases ha.pidOld with h | h
        · rw [hi0] at h; cases h
        · rw [hi0] at h; cases h; rfl
      subst hi
      exact hR.transfer ha.broker (fun h => by rw [ha.stuck]; exact h) ha.mod.accepted
  obtain ⟨x, hs⟩ := send_eff w1 k (.publish m q i d) (decide (q ≠ 0)) hk1
  generalize send w1 k (.publish m q i d) (decide (q ≠ 0)) = r2 at hs ⊢
  obtain ⟨w2, s⟩ := r2
  simp only at hs ⊢
  have hmod2 : Mod w w2 := ha.mod.trans hs.mod
  have hacc2 : w2.accepted = w.accepted := hmod2.accepted
  have hva : ValidAcc w2 → ValidAcc w := by intro h; unfold ValidAcc at *; rwa [hacc2] at h
  have hq2ok : ∀ m', Q2ok w2 m' → Q2ok w m' := by intro m' h; unfold Q2ok at *; rwa [hacc2] at h
  have hpid2 : lookupPid w2 m = some i := (lookupPid_congr hs.pid m).trans ha.pidSelf
  have hview2 : ∀ m', msgPkts w2 m' =
      if about m' (.publish m q i d) = true then msgPkts w m' ++ [(.publish m q i d, x)]
      else msgPkts w m' := by
    intro m'; rw [msgPkts_append hs.pkts m', msgPkts_of_pkts_eq ha.pkts]
  have hlog : ∀ m', Logged w m' → Logged w2 m' := by
    intro m' h; unfold Logged at *; rw [hview2]; split
    · simp
    · exact h
  have hlogm : Logged w2 m := by unfold Logged; rw [hview2]; simp [about]
  have hns2 : w2.stuck = (decide (s = .stuck)) := by
    rw [hs.stuck, ha.stuck, hns]; simp
  have hb1 : w1.broker = w.broker := ha.broker
  have hbro : w2.broker = if x.processed then w.broker.publish m q i else w.broker := by
    rw [hs.broker, hb1]; rfl
  have hqle : ValidAcc w2 → q ≤ 2 := fun hv => hva hv m q hacc
  -- the invariant after the PUBLISH
  have hB2 : Base w2 es := by
    have bb0 : BBase w.broker (Q2ok w2) (Logged w2) := hB.bb.mono hq2ok hlog
    refine ⟨?_, ?_, ?_, ?_⟩
    · rw [hbro]
      split
      · refine bb0.publish m q i hlogm ?_ ?_
        · intro hq' hok
          have := hok q (by rw [hacc2]; exact hacc)
          omega
        · intro hq' hi
          have := hR1.weak rfl hq'
          rw [hb1] at this
          cases hl : load w.broker m with
          | zero => rfl
          | succ n => exact absurd (this (by omega)) hi
      · exact bb0
    · intro m' q' hm'; exact absurd hm' (queued_not_rePublish hq m' q')
    · intro m' hm'
      rw [hacc2]
      apply hB.ackedAcc m'
      rw [hbro] at hm'
      split at hm'
      · rwa [publish_acked] at hm'
      · exact hm'
    · intro hv m' hm'
      rw [hbro] at hm' ⊢
      split at hm'
      · rename_i hp
        rw [publish_acked] at hm'
        simp only [hp, if_true]
        exact Nat.le_trans (hB.ackedCnt (hva hv) m' hm') (cnt_publish_le _ m q i m')
      · rename_i hp
        simp only [hp]
        exact hB.ackedCnt (hva hv) m' hm'
  -- the running state after the PUBLISH
  have hstr2 : ValidAcc w2 → s ≠ .stuck →
      (x.processed = true ∧ q = 2 ∧ BHeld w2.broker m i) ∨
      ((x.processed = false ∨ q < 2) ∧ BIdle w2.broker) ∨
      (x.processed = false ∧ q = 2 ∧ BHeld w2.broker m i) := by
    intro hv hst
    have hv1 : ValidAcc w1 := by
      have := hva hv; unfold ValidAcc at *; rwa [ha.mod.accepted]
    have hq2 := hqle hv
    rcases hR1.strong hv1 with h | ⟨h, _⟩ | ⟨h1, h2⟩
    · rw [ha.stuck, hns] at h; cases h
    · rw [hb1] at h
      by_cases hp : x.processed = true
      · by_cases hq' : q = 2
        · left
          subst hq'
          refine ⟨hp, rfl, ?_⟩
          rw [hbro, hp]; simp only [if_true]
          apply h.publish2
          have : ¬ (1 ≤ load w.broker m) := by
            intro hl
            have := hR1.weak rfl (Nat.le_refl 2) (by rw [hb1]; exact hl)
            rw [hb1, h.1] at this; cases this
          unfold load at this; omega
        · right; left
          have hlt : q < 2 := by omega
          refine ⟨Or.inr hlt, ?_⟩
          rw [hbro, hp]; simp only [if_true]
          exact h.publishLow m q i hlt
      · right; left
        have hp' : x.processed = false := by simpa using hp
        refine ⟨Or.inl hp', ?_⟩
        rw [hbro, hp']; exact h
    · rw [hb1] at h2
      subst h1
      by_cases hp : x.processed = true
      · left
        refine ⟨hp, rfl, ?_⟩
        rw [hbro, hp]; simp only [if_true]
        rw [h2.publish2]; exact h2
      · right; right
        have hp' : x.processed = false := by simpa using hp
        refine ⟨hp', rfl, ?_⟩
        rw [hbro, hp']; exact h2
  have hR2 : s ≠ .stuck → Run w2 m i q false := by
    intro hst
    refine ⟨fun _ hq' hl => ?_, fun hv => ?_⟩
    · rw [hbro] at hl ⊢
      by_cases hp : x.processed = true
      · simp only [hp, if_true] at hl ⊢
        by_cases hi : i ∈ w.broker.q2
        · rw [publish_seen _ m q i hq' hi]; exact hi
        · rw [(publish_new _ m q i hq' hi).1]; simp
      · have hp' : x.processed = false := by simpa using hp
        simp only [hp', Bool.false_eq_true, if_false] at hl ⊢
        have := hR1.weak rfl hq'
        rw [hb1] at this; exact this hl
    · right
      rcases hstr2 hv hst with ⟨_, h1, h2⟩ | ⟨_, h⟩ | ⟨_, h1, h2⟩
      · exact Or.inr ⟨h1, h2⟩
      · exact Or.inl ⟨h, fun h => Bool.noConfusion h⟩
      · exact Or.inr ⟨h1, h2⟩
  have hidle2 : ValidAcc w2 → s ≠ .stuck → q ≠ 2 → BIdle w2.broker := by
    intro hv hst hq'
    rcases hstr2 hv hst with ⟨_, h1, _⟩ | ⟨_, h⟩ | ⟨_, h1, _⟩
    · exact absurd h1 hq'
    · exact h
    · exact absurd h1 hq'
  cases s
  · -- acked
    simp only [pubFinish]
    have hst : Sent.acked ≠ Sent.stuck := by simp
    by_cases hq2 : q = 2
    · subst hq2
      simp only [if_true]
      have hx : x = .sent .ok := (hs.ackOk (by simp)).1 rfl
      have hRrel : Run w2 m i 2 true := by
        refine ⟨fun h => Bool.noConfusion h, fun hv => ?_⟩
        right; right
        rcases hstr2 hv hst with ⟨_, _, h2⟩ | ⟨h1, _⟩ | ⟨h1, _⟩
        · exact ⟨rfl, h2⟩
        · rcases h1 with h1 | h1
          · rw [hx] at h1; simp [Wire.processed] at h1
          · omega
        · rw [hx] at h1; simp [Wire.processed] at h1
      have hk2 : k + 1 = w2.conns.length := by rw [hmod2.len]; exact hk
      have hrel := relAttempt_X (k := k) (i := i) hk2 hB2 hq (by rw [hacc2]; exact hacc)
        (by rw [hns2]; simp) hRrel
      obtain ⟨y, hre⟩ := relAttempt_eff w2 k m i hk2
      refine ⟨hrel.1, i, (lookupPid_congr hre.pid m).trans hpid2, ?_, hrel.2.2⟩
      intro h hh
      right
      have hh' : h = .rePubRel m := by
        rcases hre.out with ⟨_, ho⟩ | ⟨_, ho | ⟨e, ho⟩⟩
        · rw [ho] at hh; simp [Outcome.handle] at hh
        · rw [ho] at hh; simp [Outcome.handle] at hh
        · rw [ho] at hh; simp [Outcome.handle] at hh; exact hh.symm
      exact ⟨hh', trivial, hrel.2.1 h hh⟩
    · simp only [if_neg hq2]
      by_cases hq1 : q = 1
      · simp only [if_pos hq1]
        refine ⟨?_, i, hpid2, by simp [Outcome.handle], ?_⟩
        · refine ⟨hB2.bb.congr (b' := w2.broker.ack (Req.pub m 1)) rfl rfl rfl, hB2.held, ?_, ?_⟩
          · intro m' hm'
            have : Req.pub m' 2 ∈ w2.broker.acked ++ [Req.pub m 1] := hm'
            rcases List.mem_append.1 this with h | h
            · exact hB2.ackedAcc m' h
            · simp at h
          · intro hv m' hm'
            have : Req.pub m' 2 ∈ w2.broker.acked ++ [Req.pub m 1] := hm'
            rcases List.mem_append.1 this with h | h
            · exact hB2.ackedCnt hv m' h
            · simp at h
        · intro _ hv
          exact Or.inr (hidle2 hv hst hq2)
      · simp only [if_neg hq1]
        exact ⟨hB2, i, hpid2, by simp [Outcome.handle],
          fun _ hv => Or.inr (hidle2 hv hst hq2)⟩
  · -- failed
    simp only [pubFinish]
    have hst : Sent.failed ≠ Sent.stuck := by simp
    refine ⟨hB2, i, hpid2, ?_, ?_⟩
    · intro h hh
      left
      by_cases hq0 : q = 0
      · simp [Outcome.handle, hq0] at hh
      · simp [Outcome.handle, hq0] at hh
        exact ⟨hh.symm, hR2 hst⟩
    · intro hh hv
      by_cases hq0 : q = 0
      · exact Or.inr (hidle2 hv hst (by omega))
      · simp [Outcome.handle, hq0] at hh
  · -- timedOut
    simp only [pubFinish]
    have hst : Sent.timedOut ≠ Sent.stuck := by simp
    refine ⟨hB2, i, hpid2, ?_, ?_⟩
    · intro h hh
      left
      by_cases hq0 : q = 0
      · simp [Outcome.handle, hq0] at hh
      · simp [Outcome.handle, hq0] at hh
        exact ⟨hh.symm, hR2 hst⟩
    · intro hh hv
      by_cases hq0 : q = 0
      · exact Or.inr (hidle2 hv hst (by omega))
      · simp [Outcome.handle, hq0] at hh
  · -- stuck
    simp only [pubFinish]
    exact ⟨hB2, i, hpid2, by simp [Outcome.handle], fun _ _ => Or.inl (by rw [hns2]; simp)⟩

/-! ### bookkeeping for `Base`, `State`, `Run` -/

theorem Base.drop {w : World} {es es' : List Entry} (hB : Base w es) (h : es' ⊆ es) : Base w es' :=
  ⟨hB.bb, fun m q hm => hB.held m q (h hm), hB.ackedAcc, hB.ackedCnt⟩

theorem Base.consOther {w : World} {es : List Entry} {e : Entry} (hB : Base w es)
    (he : ∀ m q, e ≠ .rePublish m q) : Base w (e :: es) :=
  ⟨hB.bb, fun m q hm => by
    rcases List.mem_cons.1 hm with h | h
    · exact absurd h.symm (he m q)
    · exact hB.held m q h, hB.ackedAcc, hB.ackedCnt⟩

theorem Base.consRePublish {w : World} {es : List Entry} {m i q : Nat} (hB : Base w es)
    (hR : Run w m i q false) (hp : lookupPid w m = some i) : Base w (.rePublish m q :: es) :=
  ⟨hB.bb, fun m' q' hm hq' hl => by
    rcases List.mem_cons.1 hm with h | h
    · cases h; exact ⟨i, hp, hR.weak rfl hq' hl⟩
    · exact hB.held m' q' h hq' hl, hB.ackedAcc, hB.ackedCnt⟩

theorem State.drop_stuck {w : World} {es : List Entry} (h : w.stuck = true) : State w es :=
  fun _ => Or.inl h

theorem State.ofIdle {w : World} {es : List Entry}
    (h : ValidAcc w → w.stuck = true ∨ BIdle w.broker) (hq : ∀ e ∈ es, e.queued = true) :
    State w es := by
  intro hv
  rcases h hv with h | h
  · exact Or.inl h
  · exact Or.inr (Or.inl ⟨h, fun m hm => absurd hm (queued_not_rePubRel hq m)⟩)

theorem State.idle_of_queued {w : World} {es : List Entry} (h : State w es)
    (hq : ∀ e ∈ es, e.queued = true) : ValidAcc w → w.stuck = true ∨ BIdle w.broker := by
  intro hv
  rcases h hv with h | ⟨h, _⟩ | ⟨m, i, hm, _⟩
  · exact Or.inl h
  · exact Or.inr h
  · rcases hm with hm | hm
    · exact absurd hm (queued_not_rePublish hq m 2)
    · exact absurd hm (queued_not_rePubRel hq m)

theorem State.ofRun_pub {w : World} {es : List Entry} {m i q : Nat} (hR : Run w m i q false)
    (hq : ∀ e ∈ es, e.queued = true) (hp : lookupPid w m = some i) :
    State w (.rePublish m q :: es) := by
  intro hv
  rcases hR.strong hv with h | ⟨h, _⟩ | ⟨h1, h2⟩
  · exact Or.inl h
  · refine Or.inr (Or.inl ⟨h, fun m' hm' => ?_⟩)
    rcases List.mem_cons.1 hm' with h' | h'
    · cases h'
    · exact absurd h' (queued_not_rePubRel hq m')
  · subst h1
    exact Or.inr (Or.inr ⟨m, i, Or.inl (List.mem_cons_self ..), hp, h2⟩)

theorem State.ofRun_rel {w : World} {es : List Entry} {m i : Nat} (hR : Run w m i 2 true)
    (hq : ∀ e ∈ es, e.queued = true) (hp : lookupPid w m = some i) :
    State w (.rePubRel m :: es) := by
  intro hv
  rcases hR.strong hv with h | ⟨h, hc⟩ | ⟨_, h2⟩
  · exact Or.inl h
  · refine Or.inr (Or.inl ⟨h, fun m' hm' => ?_⟩)
    rcases List.mem_cons.1 hm' with h' | h'
    · cases h'; exact hc rfl
    · exact absurd h' (queued_not_rePubRel hq m')
  · exact Or.inr (Or.inr ⟨m, i, Or.inr (List.mem_cons_self ..), hp, h2⟩)

theorem State.toRun_pub {w : World} {es : List Entry} {m i q : Nat}
    (hB : Base w (.rePublish m q :: es)) (hS : State w (.rePublish m q :: es))
    (hq : ∀ e ∈ es, e.queued = true) (hp : lookupPid w m = some i) : Run w m i q false := by
  refine ⟨fun _ hq' hl => ?_, fun hv => ?_⟩
  · obtain ⟨i', h1, h2⟩ := hB.held m q (List.mem_cons_self ..) hq' hl
    rw [hp] at h1; cases h1; exact h2
  · rcases hS hv with h | ⟨h, _⟩ | ⟨m', i', hm, hp', hh⟩
    · exact Or.inl h
    · exact Or.inr (Or.inl ⟨h, fun h => Bool.noConfusion h⟩)
    · rcases hm with hm | hm
      · rcases List.mem_cons.1 hm with h' | h'
        · cases h'
          rw [hp] at hp'; cases hp'
          exact Or.inr (Or.inr ⟨rfl, hh⟩)
        · exact absurd h' (queued_not_rePublish hq m' 2)
      · rcases List.mem_cons.1 hm with h' | h'
        · cases h'
        · exact absurd h' (queued_not_rePubRel hq m')

theorem State.toRun_rel {w : World} {es : List Entry} {m i : Nat}
    (hS : State w (.rePubRel m :: es))
    (hq : ∀ e ∈ es, e.queued = true) (hp : lookupPid w m = some i) : Run w m i 2 true := by
  refine ⟨fun h => Bool.noConfusion h, fun hv => ?_⟩
  rcases hS hv with h | ⟨h, hc⟩ | ⟨m', i', hm, hp', hh⟩
  · exact Or.inl h
  · exact Or.inr (Or.inl ⟨h, fun _ => hc m (List.mem_cons_self ..)⟩)
  · rcases hm with hm | hm
    · rcases List.mem_cons.1 hm with h' | h'
      · cases h'
      · exact absurd h' (queued_not_rePublish hq m' 2)
    · rcases List.mem_cons.1 hm with h' | h'
      · cases h'
        rw [hp] at hp'; cases hp'
        exact Or.inr (Or.inr ⟨rfl, hh⟩)
      · exact absurd h' (queued_not_rePubRel hq m')

/-- `Base`, `State` only look at membership in `es` -/
theorem Base.memCongr {w : World} {es es' : List Entry} (hB : Base w es)
    (h : ∀ e, e ∈ es' → e ∈ es) : Base w es' := hB.drop h

theorem State.memCongr {w : World} {es es' : List Entry} (hS : State w es)
    (h : ∀ e, e ∈ es ↔ e ∈ es') : State w es' := by
  intro hv
  rcases hS hv with h1 | ⟨h1, h2⟩ | ⟨m, i, hm, hp, hh⟩
  · exact Or.inl h1
  · exact Or.inr (Or.inl ⟨h1, fun m hm => h2 m ((h _).2 hm)⟩)
  · refine Or.inr (Or.inr ⟨m, i, ?_, hp, hh⟩)
    rcases hm with hm | hm
    · exact Or.inl ((h _).1 hm)
    · exact Or.inr ((h _).1 hm)

/-- an entry that is neither `rePublish` nor `rePubRel` does not matter -/
theorem State.consOther {w : World} {es : List Entry} {e : Entry} (hS : State w es)
    (h2 : ∀ m, e ≠ .rePubRel m) : State w (e :: es) := by
  intro hv
  rcases hS hv with h | ⟨h, hc⟩ | ⟨m, i, hm, hp, hh⟩
  · exact Or.inl h
  · refine Or.inr (Or.inl ⟨h, fun m hm => ?_⟩)
    rcases List.mem_cons.1 hm with h' | h'
    · exact absurd h'.symm (h2 m)
    · exact hc m h'
  · refine Or.inr (Or.inr ⟨m, i, ?_, hp, hh⟩)
    rcases hm with hm | hm
    · exact Or.inl (List.mem_cons_of_mem _ hm)
    · exact Or.inr (List.mem_cons_of_mem _ hm)

theorem State.unconsOther {w : World} {es : List Entry} {e : Entry} (hS : State w (e :: es))
    (h1 : ∀ m, e ≠ .rePublish m 2) (h2 : ∀ m, e ≠ .rePubRel m) : State w es := by
  intro hv
  rcases hS hv with h | ⟨h, hc⟩ | ⟨m, i, hm, hp, hh⟩
  · exact Or.inl h
  · exact Or.inr (Or.inl ⟨h, fun m hm => hc m (List.mem_cons_of_mem _ hm)⟩)
  · refine Or.inr (Or.inr ⟨m, i, ?_, hp, hh⟩)
    rcases hm with hm | hm
    · rcases List.mem_cons.1 hm with h' | h'
      · exact absurd h'.symm (h1 m)
      · exact Or.inl h'
    · rcases List.mem_cons.1 hm with h' | h'
      · exact absurd h'.symm (h2 m)
      · exact Or.inr h'

/-- changes of the world that the broker invariant cannot see -/
theorem Base.transfer {w w' : World} {es : List Entry} (hB : Base w es)
    (hb : BSame w.broker w'.broker) (hacc : w.accepted ⊆ w'.accepted)
    (hv : ∀ m, SameView w w' m) : Base w' es := by
  have hl : ∀ m, load w'.broker m = load w.broker m := by
    intro m; unfold load cnt stashed; rw [hb.stash, hb.delivered]
  have hva : ValidAcc w' → ValidAcc w := fun h m q hm => h m q (hacc hm)
  refine ⟨⟨?_, ?_, ?_⟩, ?_, ?_, ?_⟩
  · intro m hok; rw [hl]; exact hB.bb.atMost m (fun q hq => hok q (hacc hq))
  · rw [hb.stash, hb.q2]; exact hB.bb.stashQ2
  · intro m h1; rw [hl] at h1
    have := hB.bb.loaded m h1
    unfold Logged at *; rwa [(hv m).2]
  · intro m q hm hq hl'
    rw [hl] at hl'
    obtain ⟨i, h1, h2⟩ := hB.held m q hm hq hl'
    exact ⟨i, by rw [(hv m).1]; exact h1, by rw [hb.q2]; exact h2⟩
  · intro m hm; exact hacc (hB.ackedAcc m ((hb.acked m 2).1 hm))
  · intro hv' m hm
    have := hB.ackedCnt (hva hv') m ((hb.acked m 2).1 hm)
    unfold cnt at *; rwa [hb.delivered]

theorem State.transfer {w w' : World} {es : List Entry} (hS : State w es)
    (hb : BSame w.broker w'.broker) (hacc : w.accepted ⊆ w'.accepted)
    (hv : ∀ m, SameView w w' m) (hst : w.stuck = true → w'.stuck = true) : State w' es := by
  intro hv'
  have hva : ValidAcc w := fun m q hm => hv' m q (hacc hm)
  have hidle : BIdle w.broker → BIdle w'.broker := fun h => ⟨by rw [hb.q2]; exact h.1,
    by rw [hb.stash]; exact h.2⟩
  have hcnt : ∀ m, cnt w'.broker m = cnt w.broker m := by
    intro m; unfold cnt; rw [hb.delivered]
  rcases hS hva with h | ⟨h, hc⟩ | ⟨m, i, hm, hp, hh⟩
  · exact Or.inl (hst h)
  · exact Or.inr (Or.inl ⟨hidle h, fun m hm => by rw [hcnt]; exact hc m hm⟩)
  · refine Or.inr (Or.inr ⟨m, i, hm, by rw [(hv m).1]; exact hp, ?_⟩)
    unfold BHeld at *
    rw [hcnt, hb.q2, hb.stash]; exact hh

/-! ### attempts and the broker invariant -/

structure XInv (w : World) (es : List Entry) : Prop where
  base : Base w es
  state : State w es

theorem XInv.transfer {w w' : World} {es : List Entry} (hX : XInv w es)
    (hb : BSame w.broker w'.broker) (hacc : w.accepted ⊆ w'.accepted)
    (hv : ∀ m, SameView w w' m) (hst : w.stuck = true → w'.stuck = true) : XInv w' es :=
  ⟨hX.base.transfer hb hacc hv, hX.state.transfer hb hacc hv hst⟩

theorem XInv.env {w w' : World} {es : List Entry} (hX : XInv w es) (h : EnvSame w w')
    (hb : w'.broker = w.broker) (hst : w'.stuck = w.stuck) : XInv w' es :=
  hX.transfer (BSame.of_eq hb) (by rw [h.accepted]; exact fun _ h => h) h.view
    (fun hs => by rw [hst]; exact hs)

theorem XInv.memCongr {w : World} {es es' : List Entry} (hX : XInv w es)
    (h : ∀ e, e ∈ es ↔ e ∈ es') : XInv w es' :=
  ⟨hX.base.memCongr (fun e he => (h e).2 he), hX.state.memCongr h⟩

theorem XInv.consQueued {w : World} {es : List Entry} {e : Entry} (hX : XInv w es)
    (he : e.queued = true) : XInv w (e :: es) :=
  ⟨hX.base.consOther (fun m q h => by subst h; simp [Entry.queued] at he),
    hX.state.consOther (fun m h => by subst h; simp [Entry.queued] at he)⟩

theorem XInv.consMisc {w : World} {es : List Entry} {e : Entry} (hX : XInv w es)
    (he : e.msg = none) : XInv w (e :: es) :=
  ⟨hX.base.consOther (fun m q h => by subst h; simp [Entry.msg] at he),
    hX.state.consOther (fun m h => by subst h; simp [Entry.msg] at he)⟩

theorem XInv.dropStuck {w : World} {es es' : List Entry} (hX : XInv w es) (hs : w.stuck = true)
    (h : es' ⊆ es) : XInv w es' := ⟨hX.base.drop h, State.drop_stuck hs⟩

/-- result of `pubAttempt`, packaged for the queue -/
theorem pubAttempt_XInv {w : World} {es : List Entry} {k m q : Nat} {d : Bool}
    (hk : k + 1 = w.conns.length) (hB : Base w es) (hq : ∀ e ∈ es, e.queued = true)
    (hacc : Req.pub m q ∈ w.accepted) (hns : w.stuck = false)
    (hpre : (d = false ∧ Fresh (lookupPid w m) (msgPkts w m) ∧ (ValidAcc w → BIdle w.broker)) ∨
      (d = true ∧ ∃ i, lookupPid w m = some i ∧ Run w m i q false)) :
    XInv (pubAttempt w k m q d).1 ((pubAttempt w k m q d).2.handle.toList ++ es) ∧
    (∀ h, (pubAttempt w k m q d).2.handle = some h → h.queued = false) := by
  obtain ⟨hB', i, hp, h1, h2⟩ := pubAttempt_X hk hB hq hacc hns hpre
  cases hh : (pubAttempt w k m q d).2.handle with
  | none =>
    refine ⟨?_, fun h hh' => by cases hh'⟩
    simp only [Option.toList, List.nil_append]
    exact ⟨hB', State.ofIdle (h2 hh) hq⟩
  | some h =>
    rcases h1 h hh with ⟨he, hR⟩ | ⟨he, _, hR⟩
    · subst he
      refine ⟨?_, fun h hh' => by cases hh'; rfl⟩
      simp only [Option.toList, List.cons_append, List.nil_append]
      exact ⟨hB'.consRePublish hR hp, State.ofRun_pub hR hq hp⟩
    · subst he
      refine ⟨?_, fun h hh' => by cases hh'; rfl⟩
      simp only [Option.toList, List.cons_append, List.nil_append]
      exact ⟨hB'.consOther (fun _ _ h => by cases h), State.ofRun_rel hR hq hp⟩

theorem relAttempt_XInv {w : World} {es : List Entry} {k m i : Nat} (hk : k + 1 = w.conns.length)
    (hB : Base w es) (hq : ∀ e ∈ es, e.queued = true) (hacc : Req.pub m 2 ∈ w.accepted)
    (hns : w.stuck = false) (hR : Run w m i 2 true) (hp : lookupPid w m = some i) :
    XInv (relAttempt w k m i).1 ((relAttempt w k m i).2.handle.toList ++ es) ∧
    (∀ h, (relAttempt w k m i).2.handle = some h → h.queued = false) := by
  obtain ⟨hB', h1, h2⟩ := relAttempt_X hk hB hq hacc hns hR
  obtain ⟨y, he⟩ := relAttempt_eff w k m i hk
  have hp' : lookupPid (relAttempt w k m i).1 m = some i := (lookupPid_congr he.pid m).trans hp
  cases hh : (relAttempt w k m i).2.handle with
  | none =>
    refine ⟨?_, fun h hh' => by cases hh'⟩
    simp only [Option.toList, List.nil_append]
    exact ⟨hB', State.ofIdle (h2 hh) hq⟩
  | some h =>
    have hR' := h1 h hh
    have he' : h = .rePubRel m := by
      rcases he.out with ⟨_, ho⟩ | ⟨_, ho | ⟨e, ho⟩⟩
      · rw [ho] at hh; simp [Outcome.handle] at hh
      · rw [ho] at hh; simp [Outcome.handle] at hh
      · rw [ho] at hh; simp [Outcome.handle] at hh; exact hh.symm
    subst he'
    refine ⟨?_, fun h hh' => by cases hh'; rfl⟩
    simp only [Option.toList, List.cons_append, List.nil_append]
    exact ⟨hB'.consOther (fun _ _ h => by cases h), State.ofRun_rel hR' hq hp'⟩

theorem misc_XInv {w w' : World} {o : Outcome} {k : Nat} {es : List Entry}
    (he : MiscEff w k w' o) (hX : XInv w es) : XInv w' (o.handle.toList ++ es) := by
  have h1 : XInv w' es := hX.transfer he.bsame (by rw [he.mod.accepted]; exact fun _ h => h)
    he.view (fun hs => by rw [he.stuck, hs]; rfl)
  cases hh : o.handle with
  | none => simpa using h1
  | some h => simpa using h1.consMisc (he.handle h hh).1

theorem absorb_XInv {w : World} {o : Outcome} {es : List Entry} (hX : XInv w es) :
    XInv (absorb w o) es :=
  hX.env (absorb_envSame w o) (absorb_core w o).2.2.1 (absorb_core w o).2.2.2

theorem pubAttempt_stuck {w : World} {k m q : Nat} {d : Bool} (hk : k + 1 = w.conns.length)
    (h : (pubAttempt w k m q d).2.isStuck = true) : (pubAttempt w k m q d).1.stuck = true := by
  rw [pubAttempt_unfold] at h ⊢
  have ha := assignPid_eff w k m
  generalize assignPid w k m = r1 at ha h ⊢
  obtain ⟨w1, i⟩ := r1
  simp only at ha h ⊢
  have hk1 : k + 1 = w1.conns.length := by rw [ha.mod.len]; exact hk
  obtain ⟨x, hs⟩ := send_eff w1 k (.publish m q i d) (decide (q ≠ 0)) hk1
  generalize send w1 k (.publish m q i d) (decide (q ≠ 0)) = r2 at hs h ⊢
  obtain ⟨w2, s⟩ := r2
  simp only at hs h ⊢
  cases s
  · simp only [pubFinish] at h ⊢
    by_cases hq2 : q = 2
    · simp only [hq2, if_true] at h ⊢
      have hk2 : k + 1 = w2.conns.length := by rw [hs.mod.len]; exact hk1
      obtain ⟨y, hre⟩ := relAttempt_eff w2 k m i hk2
      rw [hre.stuck, h]; simp
    · simp only [if_neg hq2] at h ⊢
      by_cases hq1 : q = 1
      · simp [if_pos hq1, Outcome.isStuck] at h
      · simp [if_neg hq1, Outcome.isStuck] at h
  · simp [pubFinish, Outcome.isStuck] at h
  · simp [pubFinish, Outcome.isStuck] at h
  · simp only [pubFinish]
    rw [hs.stuck]; simp

theorem runEntry_X {w : World} {fr : List (Nat × Nat)} {es : List Entry} {k : Nat} {e : Entry}
    (hP : PInv w fr (e :: es)) (hX : XInv w (e :: es)) (hq : ∀ e' ∈ es, e'.queued = true)
    (hk : w.cli = some k) (hns : w.stuck = false) :
    ∃ hd : Option Entry, (runEntry w k e).1.retryQ = w.retryQ ++ hd.toList ∧
      XInv (runEntry w k e).1 (hd.toList ++ (runEntry w k e).2.handle.toList ++ es) ∧
      (hd.isSome = true → (runEntry w k e).1.closeAfterTask = true) ∧
      (e.queued = true → (runEntry w k e).2.handle = none) ∧
      (e.queued = false → hd = none) ∧
      (∀ h, h ∈ hd.toList ++ (runEntry w k e).2.handle.toList → h.queued = false) ∧
      ((runEntry w k e).2.isStuck = true → (runEntry w k e).1.stuck = true) := by
  have hkl := hP.cliLast k hk
  obtain ⟨hP', hp, hne⟩ := hP.uncons
  have hBes : Base w es := hX.base.drop (List.subset_cons_self _ _)
  cases e with
  | rePublish m q =>
    obtain ⟨hq0, hacc, i, hpd⟩ := hp
    have hR : Run w m i q false := State.toRun_pub hX.base hX.state hq hpd.1
    have h := pubAttempt_XInv (k := k) (d := true) hkl hBes hq hacc hns (Or.inr ⟨rfl, i, hpd.1, hR⟩)
    have hm := (pubAttempt_inv (d := true) hP' hk (hne m rfl) hacc (Or.inr ⟨rfl, hq0, i, hpd⟩)).1
    refine ⟨none, by simp [runEntry, hm.retryQ], by simpa [runEntry] using h.1,
      (fun h => by cases h), (fun h => by cases h), (fun _ => rfl), ?_, ?_⟩
    · intro h' hh'; simp [runEntry] at hh'; exact h.2 h' hh'
    · exact fun hs => pubAttempt_stuck hkl hs
  | rePubRel m =>
    obtain ⟨hacc, i, ho⟩ := hp
    have hi : (lookupPid w m).getD 0 = i := by rw [ho.1]; rfl
    have hR : Run w m i 2 true := State.toRun_rel hX.state hq ho.1
    have h := relAttempt_XInv (k := k) hkl hBes hq hacc hns hR ho.1
    obtain ⟨y, hre⟩ := relAttempt_eff w k m i hkl
    simp only [runEntry, hi]
    refine ⟨none, by simp [hre.mod.retryQ], by simpa using h.1,
      (fun h => by cases h), (fun h => by cases h), (fun _ => rfl), ?_, ?_⟩
    · intro h' hh'; simp at hh'; exact h.2 h' hh'
    · intro hs; rw [hre.stuck, hs]; simp
  | reSub subs =>
    have he := subAttempt_eff w k subs hkl
    have hXes : XInv w es := ⟨hBes, hX.state.unconsOther (fun _ h => by cases h)
      (fun _ h => by cases h)⟩
    refine ⟨none, by simp [runEntry, he.mod.retryQ], by simpa [runEntry] using misc_XInv he hXes,
      (fun h => by cases h), (fun h => by cases h), (fun _ => rfl), ?_, ?_⟩
    · intro h' hh'; simp [runEntry] at hh'; exact (he.handle h' hh').2
    · intro hs; simp only [runEntry] at hs ⊢; rw [he.stuck, hs]; simp
  | reUnsub ts =>
    have he := unsubAttempt_eff w k ts hkl
    have hXes : XInv w es := ⟨hBes, hX.state.unconsOther (fun _ h => by cases h)
      (fun _ h => by cases h)⟩
    refine ⟨none, by simp [runEntry, he.mod.retryQ], by simpa [runEntry] using misc_XInv he hXes,
      (fun h => by cases h), (fun h => by cases h), (fun _ => rfl), ?_, ?_⟩
    · intro h' hh'; simp [runEntry] at hh'; exact (he.handle h' hh').2
    · intro hs; simp only [runEntry] at hs ⊢; rw [he.stuck, hs]; simp
  | qPub m q =>
    obtain ⟨_, hacc, hf⟩ := hp
    have hall : ∀ e' ∈ Entry.qPub m q :: es, e'.queued = true := by
      intro e' he'
      rcases List.mem_cons.1 he' with h | h
      · subst h; rfl
      · exact hq e' h
    have hidle : ValidAcc w → BIdle w.broker := by
      intro hv
      rcases hX.state.idle_of_queued hall hv with h | h
      · rw [hns] at h; cases h
      · exact h
    have h := pubAttempt_XInv (k := k) (d := false) hkl hBes hq hacc hns (Or.inl ⟨rfl, hf, hidle⟩)
    have hm := (pubAttempt_inv (d := false) hP' hk (hne m rfl) hacc (Or.inl ⟨rfl, hf⟩)).1
    refine ⟨(pubAttempt w k m q false).2.handle, ?_, ?_, ?_, (fun _ => rfl),
      (fun h => by cases h), ?_, (fun h => by cases h)⟩
    · show (absorb (pubAttempt w k m q false).1 (pubAttempt w k m q false).2).retryQ = _
      rw [absorb_retryQ, hm.retryQ]
    · show XInv (absorb (pubAttempt w k m q false).1 (pubAttempt w k m q false).2) _
      simpa [runEntry, Outcome.handle] using absorb_XInv h.1
    · intro hs
      show (absorb (pubAttempt w k m q false).1 (pubAttempt w k m q false).2).closeAfterTask = true
      rw [absorb_cat, hs]; simp
    · intro h' hh'
      simp [runEntry, Outcome.handle] at hh'
      exact h.2 h' hh'
  | qSub subs =>
    have he := subAttempt_eff w k subs hkl
    have hXes : XInv w es := ⟨hBes, hX.state.unconsOther (fun _ h => by cases h)
      (fun _ h => by cases h)⟩
    refine ⟨(subAttempt w k subs).2.handle, ?_, ?_, ?_, (fun _ => rfl),
      (fun h => by cases h), ?_, (fun h => by cases h)⟩
    · show (absorb (subAttempt w k subs).1 (subAttempt w k subs).2).retryQ = _
      rw [absorb_retryQ, he.mod.retryQ]
    · show XInv (absorb (subAttempt w k subs).1 (subAttempt w k subs).2) _
      simpa [runEntry, Outcome.handle] using absorb_XInv (misc_XInv he hXes)
    · intro hs
      show (absorb (subAttempt w k subs).1 (subAttempt w k subs).2).closeAfterTask = true
      rw [absorb_cat, hs]; simp
    · intro h' hh'
      simp [runEntry, Outcome.handle] at hh'
      exact (he.handle h' hh').2
  | qUnsub ts =>
    have he := unsubAttempt_eff w k ts hkl
    have hXes : XInv w es := ⟨hBes, hX.state.unconsOther (fun _ h => by cases h)
      (fun _ h => by cases h)⟩
    refine ⟨(unsubAttempt w k ts).2.handle, ?_, ?_, ?_, (fun _ => rfl),
      (fun h => by cases h), ?_, (fun h => by cases h)⟩
    · show (absorb (unsubAttempt w k ts).1 (unsubAttempt w k ts).2).retryQ = _
      rw [absorb_retryQ, he.mod.retryQ]
    · show XInv (absorb (unsubAttempt w k ts).1 (unsubAttempt w k ts).2) _
      simpa [runEntry, Outcome.handle] using absorb_XInv (misc_XInv he hXes)
    · intro hs
      show (absorb (unsubAttempt w k ts).1 (unsubAttempt w k ts).2).closeAfterTask = true
      rw [absorb_cat, hs]; simp
    · intro h' hh'
      simp [runEntry, Outcome.handle] at hh'
      exact (he.handle h' hh').2

/-! ### the retry queue holds at most one raw handle, at its head -/

def TailQ (l : List Entry) : Prop := ∀ e ∈ l.tail, e.queued = true

theorem TailQ.nil : TailQ [] := fun _ h => by cases h

theorem TailQ.option (hd : Option Entry) : TailQ hd.toList := by
  cases hd <;> intro e h <;> simp at h

theorem TailQ.snoc {l : List Entry} (h : TailQ l) (hne : l ≠ []) {e : Entry}
    (he : e.queued = true) : TailQ (l ++ [e]) := by
  cases l with
  | nil => exact absurd rfl hne
  | cons a t =>
    intro e' he'
    simp only [List.cons_append, List.tail_cons] at he'
    rcases List.mem_append.1 he' with h' | h'
    · exact h e' h'
    · simp at h'; subst h'; exact he

theorem TailQ.all_of_tail {l : List Entry} (hd : Option Entry) (h : ∀ e ∈ l, e.queued = true) :
    TailQ (hd.toList ++ l) := by
  cases hd with
  | none => intro e he; simp at he; exact h e (List.mem_of_mem_tail he)
  | some a => intro e he; simp at he; exact h e he

/-! ### tasks and the broker invariant -/

theorem first_X {w w1 : World} {o : Outcome}
    (hr : w.retryQ = []) (hm : w1.retryQ = w.retryQ)
    (hX : XInv w1 (o.handle.toList ++ [])) :
    XInv (absorb w1 o) (absorb w1 o).retryQ ∧ TailQ (absorb w1 o).retryQ := by
  have : (absorb w1 o).retryQ = o.handle.toList := by rw [absorb_retryQ, hm, hr]; rfl
  rw [this]
  exact ⟨by simpa using absorb_XInv hX, TailQ.option _⟩

theorem subscribeTask_X {w : World} {fr : List (Nat × Nat)} {k : Nat}
    (subs : List Subscription) (hP : PInv w fr w.retryQ) (hX : XInv w w.retryQ)
    (hT : TailQ w.retryQ) (hk : w.cli = some k) :
    XInv (subscribeTask w k subs) (subscribeTask w k subs).retryQ ∧
      TailQ (subscribeTask w k subs).retryQ := by
  unfold subscribeTask
  have hE0 : EnvSame w { w with subEst := applySubs w.subEst subs } :=
    EnvSame.of_conns rfl rfl rfl rfl
  have hX0 : XInv { w with subEst := applySubs w.subEst subs } w.retryQ := hX.env hE0 rfl rfl
  simp only
  split
  · rename_i he
    have hr : w.retryQ = [] := by simpa using he
    have hkl : k + 1 = ({ w with subEst := applySubs w.subEst subs } : World).conns.length :=
      hP.cliLast k hk
    have hef := subAttempt_eff { w with subEst := applySubs w.subEst subs } k subs hkl
    have hX0' : XInv { w with subEst := applySubs w.subEst subs } [] :=
      hX0.memCongr (fun e => by rw [hr])
    exact first_X (w := { w with subEst := applySubs w.subEst subs }) hr hef.mod.retryQ
      (misc_XInv hef hX0')
  · rename_i he
    have hne : w.retryQ ≠ [] := by simpa using he
    constructor
    · have h1 := hX0.consQueued (e := Entry.qSub subs) rfl
      have hE : EnvSame { w with subEst := applySubs w.subEst subs }
          { w with subEst := applySubs w.subEst subs, retryQ := w.retryQ ++ [Entry.qSub subs] } :=
        EnvSame.of_conns rfl rfl rfl rfl
      exact (h1.env hE rfl rfl).memCongr (fun e => by simp [or_comm])
    · exact hT.snoc hne rfl

theorem resubLoop_X {fr : List (Nat × Nat)} {k : Nat} (l : List Subscription) :
    ∀ (w : World), PInv w fr w.retryQ → XInv w w.retryQ → TailQ w.retryQ → w.cli = some k →
    XInv (resubLoop w k l) (resubLoop w k l).retryQ ∧ TailQ (resubLoop w k l).retryQ := by
  induction l with
  | nil => intro w _ hX hT _; exact ⟨hX, hT⟩
  | cons s rest ih =>
    intro w hP hX hT hk
    unfold resubLoop
    split
    · exact ⟨hX, hT⟩
    · obtain ⟨h1, h2⟩ := subscribeTask_X (k := k) [s] hP hX hT hk
      obtain ⟨h3, h4⟩ := subscribeTask_inv (k := k) (ex := []) [s] (by simpa using hP) hk
      exact ih _ (by simpa using h4) h1 h2 (h3.cli ▸ hk)

theorem retryLoop_X {fr : List (Nat × Nat)} {k : Nat} (rest : List Entry) :
    ∀ (w : World), PInv w fr (w.retryQ ++ rest) → XInv w (w.retryQ ++ rest) → w.retryQ = [] →
    (∀ e ∈ rest.tail, e.queued = true) → w.cli = some k →
    XInv (retryLoop w k rest) (retryLoop w k rest).retryQ ∧ TailQ (retryLoop w k rest).retryQ := by
  induction rest with
  | nil =>
    intro w _ hX hr _ _
    simp only [retryLoop]
    exact ⟨by simpa using hX, by rw [hr]; exact TailQ.nil⟩
  | cons e rest ih =>
    intro w hP hX hr hq hk
    have hq' : ∀ e' ∈ rest, e'.queued = true := hq
    rw [retryLoop_cons]
    split
    · rename_i hst
      exact ⟨hX.dropStuck hst (List.subset_append_left _ _), by rw [hr]; exact TailQ.nil⟩
    · rename_i hst
      have hns : w.stuck = false := by simpa using hst
      have hE0 : EnvSame w { w with totalRetries := w.totalRetries + 1 } :=
        EnvSame.of_conns rfl rfl rfl rfl
      have hlist : w.retryQ ++ e :: rest = e :: rest := by rw [hr]; rfl
      have hP0 : PInv { w with totalRetries := w.totalRetries + 1 } fr (e :: rest) := by
        have := hP; rw [hlist] at this; exact this.env hE0
      have hX0 : XInv { w with totalRetries := w.totalRetries + 1 } (e :: rest) := by
        have := hX; rw [hlist] at this; exact this.env hE0 rfl rfl
      obtain ⟨hd, h2, h3, hcat, hqn, hraw, hnq, hstk⟩ :=
        runEntry_X (k := k) hP0 hX0 hq' hk hns
      obtain ⟨h1, hd', h2', h3'⟩ := runEntry_inv (k := k) hP0 hk
      generalize runEntry { w with totalRetries := w.totalRetries + 1 } k e = r at *
      obtain ⟨w1, o⟩ := r
      simp only at h1 h2 h3 hcat hqn hraw hnq hstk h2' h3' ⊢
      have hrq : w1.retryQ = hd.toList := by rw [h2]; show w.retryQ ++ _ = _; rw [hr]; rfl
      have hdd : hd' = hd.toList := by
        have : w.retryQ ++ hd' = w.retryQ ++ hd.toList := h2'.symm.trans h2
        exact List.append_cancel_left this
      have hk1 : w1.cli = some k := h1.cli ▸ hk
      have hcont : o.handle = none →
          XInv (if w1.closeAfterTask = true then { w1 with retryQ := w1.retryQ ++ rest }
            else retryLoop w1 k rest)
            (if w1.closeAfterTask = true then { w1 with retryQ := w1.retryQ ++ rest }
            else retryLoop w1 k rest).retryQ ∧
          TailQ (if w1.closeAfterTask = true then { w1 with retryQ := w1.retryQ ++ rest }
            else retryLoop w1 k rest).retryQ := by
        intro hh
        rw [hh] at h3 h3'
        have hX1 : XInv w1 (w1.retryQ ++ rest) := by rw [hrq]; simpa using h3
        have hP1 : PInv w1 fr (w1.retryQ ++ rest) := by
          rw [hrq, ← hdd]
          simpa using h3'
        split
        · constructor
          · have hE : EnvSame w1 { w1 with retryQ := w1.retryQ ++ rest } :=
              EnvSame.of_conns rfl rfl rfl rfl
            exact hX1.env hE rfl rfl
          · show TailQ (w1.retryQ ++ rest)
            rw [hrq]; exact TailQ.all_of_tail hd hq'
        · rename_i hc
          have hnone : hd = none := by
            cases hd with
            | none => rfl
            | some a => exact absurd (hcat rfl) hc
          have hr1 : w1.retryQ = [] := by rw [hrq, hnone]; rfl
          exact ih w1 hP1 hX1 hr1 (fun e' he' => hq' e' (List.mem_of_mem_tail he')) hk1
      cases o with
      | done => exact hcont rfl
      | stuck =>
        have hs1 : w1.stuck = true := hstk rfl
        refine ⟨?_, by show TailQ w1.retryQ; rw [hrq]; exact TailQ.option _⟩
        show XInv w1 w1.retryQ
        rw [hrq]
        exact h3.dropStuck hs1 (by intro x hx; exact List.mem_append_left _ (List.mem_append_left _ hx))
      | fail h err =>
        cases h with
        | none => exact hcont rfl
        | some h =>
          have hnone : hd = none := by
            by_cases heq : e.queued = true
            · have := hqn heq; simp [Outcome.handle] at this
            · exact hraw (by simpa using heq)
          have hE : EnvSame w1 (retryAfter w1 (.fail (some h) err) k rest) :=
            EnvSame.of_conns rfl rfl rfl rfl
          constructor
          · show XInv (retryAfter w1 (.fail (some h) err) k rest) (w1.retryQ ++ [h] ++ rest)
            refine (h3.env hE rfl rfl).memCongr (fun x => ?_)
            rw [hrq, hnone]; simp [Outcome.handle]
          · show TailQ (w1.retryQ ++ [h] ++ rest)
            rw [hrq, hnone]
            exact TailQ.all_of_tail (some h) hq'

theorem runTask_X {w : World} {fr : List (Nat × Nat)} {k : Nat} (t : Task)
    (hP : PInv w (t.msg.toList ++ fr) w.retryQ) (hX : XInv w w.retryQ) (hT : TailQ w.retryQ)
    (hk : w.cli = some k) (hns : w.stuck = false) :
    XInv (runTask w k t) (runTask w k t).retryQ ∧ TailQ (runTask w k t).retryQ := by
  have hkl := hP.cliLast k hk
  cases t with
  | req r =>
    cases r with
    | pub m q =>
      have hP' : PInv w ((m, q) :: fr) w.retryQ := hP
      obtain ⟨h0, hacc, hf, hne⟩ := hP'.unconsFr
      simp only [runTask]
      split
      · rename_i he
        have hr : w.retryQ = [] := by simpa using he
        have hX0 : XInv w [] := hX.memCongr (fun e => by rw [hr])
        have hidle : ValidAcc w → BIdle w.broker := by
          intro hv
          rcases hX0.state.idle_of_queued (fun _ h => by cases h) hv with h | h
          · rw [hns] at h; cases h
          · exact h
        have h := pubAttempt_XInv (k := k) (d := false) hkl hX0.base (fun _ h => by cases h)
          hacc hns (Or.inl ⟨rfl, hf, hidle⟩)
        have hm := (pubAttempt_inv (d := false) h0 hk hne hacc (Or.inl ⟨rfl, hf⟩)).1
        exact first_X (w := w) hr hm.retryQ h.1
      · rename_i he
        have hne' : w.retryQ ≠ [] := by simpa using he
        split
        · constructor
          · have h1 := hX.consQueued (e := Entry.qPub m q) rfl
            have hE : EnvSame w { w with retryQ := w.retryQ ++ [Entry.qPub m q] } :=
              EnvSame.of_conns rfl rfl rfl rfl
            exact (h1.env hE rfl rfl).memCongr (fun e => by simp [or_comm])
          · exact hT.snoc hne' rfl
        · exact ⟨hX, hT⟩
    | sub subs =>
      have hP' : PInv w fr w.retryQ := by simpa [Task.msg] using hP
      exact subscribeTask_X (k := k) subs hP' hX hT hk
    | unsub ts =>
      have hP' : PInv w fr w.retryQ := by simpa [Task.msg] using hP
      simp only [runTask]
      have hE0 : EnvSame w { w with subEst := applyUnsubs w.subEst ts } :=
        EnvSame.of_conns rfl rfl rfl rfl
      have hX0 : XInv { w with subEst := applyUnsubs w.subEst ts } w.retryQ := hX.env hE0 rfl rfl
      split
      · rename_i he
        have hr : w.retryQ = [] := by simpa using he
        have hef := unsubAttempt_eff { w with subEst := applyUnsubs w.subEst ts } k ts hkl
        have hX0' : XInv { w with subEst := applyUnsubs w.subEst ts } [] :=
          hX0.memCongr (fun e => by rw [hr])
        exact first_X (w := { w with subEst := applyUnsubs w.subEst ts }) hr hef.mod.retryQ
          (misc_XInv hef hX0')
      · rename_i he
        have hne : w.retryQ ≠ [] := by simpa using he
        constructor
        · have h1 := hX0.consQueued (e := Entry.qUnsub ts) rfl
          have hE : EnvSame { w with subEst := applyUnsubs w.subEst ts }
              { w with subEst := applyUnsubs w.subEst ts,
                       retryQ := w.retryQ ++ [Entry.qUnsub ts] } :=
            EnvSame.of_conns rfl rfl rfl rfl
          exact (h1.env hE rfl rfl).memCongr (fun e => by simp [or_comm])
        · exact hT.snoc hne rfl
  | resubscribe =>
    have hP' : PInv w fr w.retryQ := by simpa [Task.msg] using hP
    simp only [runTask]
    have hE0 : EnvSame w { w with subEst := [] } := EnvSame.of_conns rfl rfl rfl rfl
    exact resubLoop_X (k := k) w.subEst { w with subEst := [] } (hP'.env hE0)
      (hX.env hE0 rfl rfl) hT hk
  | retry =>
    have hP' : PInv w fr w.retryQ := by simpa [Task.msg] using hP
    simp only [runTask]
    have hE0 : EnvSame w { w with retryQ := [] } := EnvSame.of_conns rfl rfl rfl rfl
    have hP0 : PInv { w with retryQ := [] } fr
        (({ w with retryQ := [] } : World).retryQ ++ w.retryQ) := by
      simpa using hP'.env hE0
    have hX0 : XInv { w with retryQ := [] }
        (({ w with retryQ := [] } : World).retryQ ++ w.retryQ) := by
      simpa using hX.env hE0 rfl rfl
    exact retryLoop_X (k := k) w.retryQ { w with retryQ := [] } hP0 hX0 rfl hT hk
  | disconnect =>
    simp only [runTask]
    split
    · exact ⟨(hX.env (logPkt_envSame w k .disconnect _ (fun _ => rfl)) rfl rfl).env
        (kill_envSame _ k) rfl rfl, hT⟩
    · exact ⟨hX.env (logPkt_envSame w k .disconnect _ (fun _ => rfl)) rfl rfl, hT⟩

/-! ### the task goroutine and the events -/

/-- invariant of a world between two tasks: phases (C12), broker state, queue shape -/
structure Inv02 (w : World) : Prop where
  p : Inv12 w
  x : XInv w w.retryQ
  t : TailQ w.retryQ

theorem Inv02.env {w w' : World} (hI : Inv02 w) (h : EnvSame w w') (hb : w'.broker = w.broker)
    (hst : w'.stuck = w.stuck) (ht : w'.taskQ = w.taskQ) (hr : w'.retryQ = w.retryQ) :
    Inv02 w' :=
  ⟨hI.p.env h ht hr, by rw [hr]; exact hI.x.env h hb hst, by rw [hr]; exact hI.t⟩

theorem Inv02.pushMisc {w : World} (hI : Inv02 w) (t : Task) (ht : t.msg = none) :
    Inv02 (pushTask w t) :=
  ⟨hI.p.pushMisc t ht, hI.x.env (EnvSame.of_conns rfl rfl rfl rfl) rfl rfl, hI.t⟩

theorem afterTask_core (w : World) (k : Nat) :
    (afterTask w k).broker = w.broker ∧ (afterTask w k).stuck = w.stuck := by
  unfold afterTask; split <;> exact ⟨rfl, rfl⟩

theorem runTasks_X (fuel : Nat) : ∀ w : World, Inv02 w → Inv02 (runTasks fuel w) := by
  induction fuel with
  | zero => intro w hI; exact hI
  | succ fuel ih =>
    intro w hI
    rw [runTasks_succ]
    split
    · exact hI
    · rename_i hgo
      have hns : w.stuck = false := by
        cases hs : w.stuck with
        | false => rfl
        | true => exact absurd (Or.inr hs) hgo
      split
      · exact hI
      · split
        · exact hI.env (EnvSame.of_conns rfl rfl rfl rfl) rfl rfl rfl rfl
        · exact hI.env (EnvSame.of_conns rfl rfl rfl rfl) rfl rfl rfl rfl
        · rename_i t rest k ht hk
          have hE : EnvSame w (popTask w rest) := EnvSame.of_conns rfl rfl rfl rfl
          have hP0 : PInv (popTask w rest) (t.msg.toList ++ taskMsgs rest)
              (popTask w rest).retryQ := by
            have : PInv w (t.msg.toList ++ taskMsgs rest) w.retryQ := by
              have := hI.p; unfold Inv12 at this; rwa [ht, taskMsgs_cons] at this
            exact this.env hE
          have hX0 : XInv (popTask w rest) (popTask w rest).retryQ := hI.x.env hE rfl rfl
          have hk0 : (popTask w rest).cli = some k := hk
          obtain ⟨h1, h2⟩ := runTask_inv (k := k) t hP0 hk0
          obtain ⟨h3, h4⟩ := runTask_X (k := k) t hP0 hX0 hI.t hk0 hns
          have h5 : Inv02 (runTask (popTask w rest) k t) :=
            ⟨by unfold Inv12; rw [h1.taskQ]; exact h2, h3, h4⟩
          split
          · exact h5
          · apply ih
            exact h5.env (afterTask_envSame _ k) (afterTask_core _ k).1 (afterTask_core _ k).2
              (afterTask_queues _ k).1 (afterTask_queues _ k).2

theorem loopReact_core (w : World) :
    (loopReact w).broker = w.broker ∧ (loopReact w).stuck = w.stuck := by
  unfold loopReact
  split
  · split
    · exact ⟨rfl, rfl⟩
    · split <;> exact ⟨rfl, rfl⟩
  · exact ⟨rfl, rfl⟩

theorem progress_X {w : World} (hI : Inv02 w) : Inv02 (progress w) := by
  unfold progress
  have h := runTasks_X (w.taskQ.length + 1) w hI
  exact h.env (loopReact_envSame _) (loopReact_core _).1 (loopReact_core _).2
    (loopReact_same _).1 (loopReact_same _).2.1

theorem accept_X {w : World} (r : Req) (hI : Inv02 w)
    (hnew : ∀ m q, r = .pub m q → m ∉ accMsgs w) :
    Inv02 (pushTask { w with accepted := w.accepted ++ [r] } (.req r)) :=
  ⟨accept_inv r hI.p hnew,
    hI.x.transfer (BSame.rfl' _) (List.subset_append_left _ _) (sameView_of_eq rfl rfl)
      (fun h => h), hI.t⟩

theorem connackPre_X {w : World} (k : Nat) (sp : Bool) (hI : Inv02 w)
    (hclear : sp = false → w.broker.q2 = [] ∧ w.broker.stash = []) :
    Inv02 (connackPre w k sp) := by
  refine ⟨hI.p.env (connackPre_envSame w k sp) rfl rfl, ?_, hI.t⟩
  refine hI.x.transfer ?_ (fun _ h => h) (connackPre_envSame w k sp).view (fun h => h)
  cases sp with
  | true => exact BSame.rfl' _
  | false =>
    obtain ⟨h1, h2⟩ := hclear rfl
    exact ⟨rfl, h1.symm, h2.symm, rfl, fun _ _ => Iff.rfl⟩

theorem connackPost_X {w : World} (k : Nat) (sp : Bool) (hI : Inv02 w) :
    Inv02 (connackPost w k sp) := by
  have h1 : Inv02 (connackFlags w sp) :=
    hI.env (EnvSame.of_conns rfl rfl rfl rfl) rfl rfl rfl rfl
  have h2 : Inv02 (connackResub (connackFlags w sp) sp) := by
    unfold connackResub
    split
    · exact h1.pushMisc _ rfl
    · exact h1
  have h3 : Inv02 (connackTasks (connackFlags w sp) sp) := by
    unfold connackTasks connackRetry
    split
    · exact h2
    · exact h2.pushMisc _ rfl
  exact h3.env (EnvSame.of_conns rfl rfl rfl rfl) rfl rfl rfl rfl

theorem step_X {w : World} (e : Ev) (hI : Inv02 w)
    (hnew : ∀ m q, e = .app (.pub m q) → m ∉ accMsgs w)
    (hclear : ∀ inb k, e = .connackOk false inb → w.phase = .connackGate k →
      w.broker.q2 = [] ∧ w.broker.stash = []) : Inv02 (step w e) := by
  cases e with
  | start =>
    simp only [step]
    split
    · exact hI
    · split
      · split
        · exact hI.env (EnvSame.of_conns rfl rfl rfl rfl) rfl rfl rfl rfl
        · exact hI.env (EnvSame.of_conns rfl rfl rfl rfl) rfl rfl rfl rfl
      · exact hI.env (EnvSame.of_conns rfl rfl rfl rfl) rfl rfl rfl rfl
  | waitElapsed =>
    simp only [step]
    split
    · exact hI.env (EnvSame.of_conns rfl rfl rfl rfl) rfl rfl rfl rfl
    · exact hI
  | cancelCtx =>
    simp only [step]
    split
    · exact hI
    · split
      · exact hI.env (EnvSame.of_conns rfl rfl rfl rfl) rfl rfl rfl rfl
      · exact hI.env (EnvSame.of_conns rfl rfl rfl rfl) rfl rfl rfl rfl
      · split
        · exact hI.env (EnvSame.of_conns rfl rfl rfl rfl) rfl rfl rfl rfl
        · exact hI.env (EnvSame.of_conns rfl rfl rfl rfl) rfl rfl rfl rfl
      · rename_i k _
        have ha : Inv02 { w with ctxCancelled := true, connReady := true } :=
          hI.env (EnvSame.of_conns rfl rfl rfl rfl) rfl rfl rfl rfl
        have hb : Inv02 (kill { w with ctxCancelled := true, connReady := true } k) :=
          ha.env (kill_envSame _ k) rfl rfl rfl rfl
        have h0 : Inv02 { kill { w with ctxCancelled := true, connReady := true } k with
            phase := .exited, connectErr := true } :=
          hb.env (EnvSame.of_conns rfl rfl rfl rfl) rfl rfl rfl rfl
        exact progress_X h0
      · exact hI.env (EnvSame.of_conns rfl rfl rfl rfl) rfl rfl rfl rfl
      · exact hI.env (EnvSame.of_conns rfl rfl rfl rfl) rfl rfl rfl rfl
  | app r =>
    simp only [step]
    split
    · exact hI.env (EnvSame.of_conns rfl rfl rfl rfl) rfl rfl rfl rfl
    · exact progress_X (accept_X r hI (fun m q h => hnew m q (by rw [h])))
  | dialOk idStart =>
    simp only [step]
    split
    · exact hI
    · split
      · apply progress_X
        refine hI.env ⟨rfl, fun m => ?_, rfl, fun _ k hk => ?_⟩ rfl rfl rfl rfl
        · unfold msgPkts allPkts
          simp [List.flatMap_append, about]
        · simp only [Option.some.injEq] at hk
          subst hk; simp
      · refine hI.env ⟨rfl, fun m => ?_, rfl, fun _ k hk => ?_⟩ rfl rfl rfl rfl
        · unfold msgPkts allPkts
          simp [List.flatMap_append, about]
        · simp only [Option.some.injEq] at hk
          subst hk; simp
  | dialFail =>
    simp only [step]
    split
    · exact hI
    · split
      · exact hI.env (EnvSame.of_conns rfl rfl rfl rfl) rfl rfl rfl rfl
      · split
        · exact hI.env (EnvSame.of_conns rfl rfl rfl rfl) rfl rfl rfl rfl
        · exact hI.env (EnvSame.of_conns rfl rfl rfl rfl) rfl rfl rfl rfl
  | connackOk sp inb =>
    by_cases h : ∃ k, w.phase = .connackGate k
    · obtain ⟨k, hk⟩ := h
      rw [step_connackOk w k sp inb hk]
      have h1 := inboundFold_modIn k inb (connackPre w k sp)
      have h0 : Inv02 (connackPre w k sp) :=
        connackPre_X k sp hI (fun hsp => hclear inb k (by rw [hsp]) hk)
      exact progress_X (connackPost_X k sp
        (h0.env h1.envSame h1.broker h1.stuck h1.taskQ h1.retryQ))
    · rw [step_connackOk_other w sp inb (fun k hk => h ⟨k, hk⟩)]; exact hI
  | connackRefused =>
    simp only [step]
    split
    · rename_i k _
      exact progress_X (hI.env (connectFailed_envSame w k) (connectFailed_same w k).broker
        (connectFailed_same w k).stuck (connectFailed_same w k).taskQ (connectFailed_same w k).retryQ)
    · exact hI
  | connackNever =>
    simp only [step]
    split
    · rename_i k _
      split
      · exact progress_X (hI.env (connectFailed_envSame w k) (connectFailed_same w k).broker
        (connectFailed_same w k).stuck (connectFailed_same w k).taskQ (connectFailed_same w k).retryQ)
      · exact hI
    · exact hI
  | peerClose =>
    simp only [step]
    split
    · rename_i k _
      exact progress_X (hI.env (kill_envSame w k) rfl rfl rfl rfl)
    · exact hI
  | inbound m q =>
    simp only [step]
    split
    · rename_i k _
      have h1 := deliverInbound_modIn w k m q
      exact hI.env h1.envSame h1.broker h1.stuck h1.taskQ h1.retryQ
    · exact hI
  | handle h =>
    simp only [step]
    split
    · refine hI.env (EnvSame.of_pkts rfl rfl rfl (setConn_len _ _ _) ?_) rfl rfl rfl rfl
      exact allPkts_setConn_same { w with handler := some h } _ _ rfl
    · exact hI.env (EnvSame.of_conns rfl rfl rfl rfl) rfl rfl rfl rfl
  | disconnect =>
    simp only [step]
    split
    · exact hI
    · have h0 : Inv02 { pushTask w .disconnect with stopped := true } :=
        (hI.pushMisc .disconnect rfl).env (EnvSame.of_conns rfl rfl rfl rfl) rfl rfl rfl rfl
      have h1 := progress_X h0
      split
      · exact h1.env (EnvSame.of_conns rfl rfl rfl rfl) rfl rfl rfl rfl
      · exact h1.env (EnvSame.of_conns rfl rfl rfl rfl) rfl rfl rfl rfl
      · exact h1

/-! ### requests on a dead connection do not reach the broker -/

structure DK (w w' : World) (k : Nat) : Prop where
  broker : w'.broker = w.broker
  stuck : w'.stuck = w.stuck
  alive : (getConn w' k).alive = false

theorem DK.trans {a b c : World} {k : Nat} (h1 : DK a b k) (h2 : DK b c k) : DK a c k :=
  ⟨h2.broker.trans h1.broker, h2.stuck.trans h1.stuck, h2.alive⟩

theorem send_dead (w : World) (k : Nat) (p : Pkt) (waits : Bool)
    (h : (getConn w k).alive = false) : send w k p waits = (logPkt w k p .dead, .failed) := by
  unfold send; simp [h]

theorem logPkt_DK (w : World) (k : Nat) (p : Pkt) (x : Wire) (h : (getConn w k).alive = false) :
    DK w (logPkt w k p x) k := ⟨rfl, rfl, by rw [getConn_logPkt_alive]; exact h⟩

theorem relAttempt_dead (w : World) (k m id : Nat) (h : (getConn w k).alive = false) :
    DK w (relAttempt w k m id).1 k ∧ (relAttempt w k m id).2.isStuck = false := by
  rw [relAttempt_unfold, send_dead w k _ _ h]
  exact ⟨logPkt_DK w k _ _ h, rfl⟩

theorem pubAttempt_dead (w : World) (k m q : Nat) (d : Bool) (h : (getConn w k).alive = false) :
    DK w (pubAttempt w k m q d).1 k ∧ (pubAttempt w k m q d).2.isStuck = false := by
  rw [pubAttempt_unfold]
  have ha := assignPid_eff w k m
  have h1 : (getConn (assignPid w k m).1 k).alive = false := by rw [ha.alive]; exact h
  rw [send_dead _ k _ _ h1]
  simp only [pubFinish]
  exact ⟨DK.trans ⟨ha.broker, ha.stuck, h1⟩ (logPkt_DK _ k _ _ h1), rfl⟩

theorem bumpCtr_DK (w : World) (k : Nat) (h : (getConn w k).alive = false) :
    DK w (bumpCtr w k) k := ⟨rfl, rfl, by rw [bumpCtr_alive]; exact h⟩

theorem subAttempt_dead (w : World) (k : Nat) (subs : List Subscription)
    (h : (getConn w k).alive = false) :
    DK w (subAttempt w k subs).1 k ∧ (subAttempt w k subs).2.isStuck = false := by
  rw [subAttempt_unfold]
  have h1 := bumpCtr_DK w k h
  rw [send_dead _ k _ _ h1.alive]
  simp only [subFinish]
  exact ⟨h1.trans (logPkt_DK _ k _ _ h1.alive), rfl⟩

theorem unsubAttempt_dead (w : World) (k : Nat) (ts : List Bytes)
    (h : (getConn w k).alive = false) :
    DK w (unsubAttempt w k ts).1 k ∧ (unsubAttempt w k ts).2.isStuck = false := by
  rw [unsubAttempt_unfold]
  have h1 := bumpCtr_DK w k h
  rw [send_dead _ k _ _ h1.alive]
  simp only [unsubFinish]
  exact ⟨h1.trans (logPkt_DK _ k _ _ h1.alive), rfl⟩

theorem absorb_DK (w : World) (o : Outcome) (k : Nat) (h : (getConn w k).alive = false) :
    DK w (absorb w o) k :=
  ⟨(absorb_core w o).2.2.1, (absorb_core w o).2.2.2, by
    rw [getConn_congr (absorb_core w o).2.1]; exact h⟩

theorem firstPub_dead (w : World) (k m q : Nat) (h : (getConn w k).alive = false) :
    DK w (firstPub w k m q) k :=
  (pubAttempt_dead w k m q false h).1.trans (absorb_DK _ _ k (pubAttempt_dead w k m q false h).1.alive)

theorem firstSub_dead (w : World) (k : Nat) (subs : List Subscription)
    (h : (getConn w k).alive = false) : DK w (firstSub w k subs) k :=
  (subAttempt_dead w k subs h).1.trans (absorb_DK _ _ k (subAttempt_dead w k subs h).1.alive)

theorem firstUnsub_dead (w : World) (k : Nat) (ts : List Bytes)
    (h : (getConn w k).alive = false) : DK w (firstUnsub w k ts) k :=
  (unsubAttempt_dead w k ts h).1.trans (absorb_DK _ _ k (unsubAttempt_dead w k ts h).1.alive)

theorem DK.of_conns {w w' : World} {k : Nat} (hb : w'.broker = w.broker) (hs : w'.stuck = w.stuck)
    (hc : w'.conns = w.conns) (h : (getConn w k).alive = false) : DK w w' k :=
  ⟨hb, hs, by rw [getConn_congr hc]; exact h⟩

theorem subscribeTask_dead (w : World) (k : Nat) (subs : List Subscription)
    (h : (getConn w k).alive = false) : DK w (subscribeTask w k subs) k := by
  unfold subscribeTask
  simp only
  split
  · exact DK.trans (b := { w with subEst := applySubs w.subEst subs }) (DK.of_conns rfl rfl rfl h)
      (firstSub_dead _ k subs h)
  · exact DK.of_conns rfl rfl rfl h

theorem resubLoop_dead (k : Nat) (l : List Subscription) : ∀ w : World,
    (getConn w k).alive = false → DK w (resubLoop w k l) k := by
  induction l with
  | nil => intro w h; exact ⟨rfl, rfl, h⟩
  | cons s rest ih =>
    intro w h
    unfold resubLoop
    split
    · exact ⟨rfl, rfl, h⟩
    · have h1 := subscribeTask_dead w k [s] h
      exact h1.trans (ih _ h1.alive)

theorem runEntry_dead (w : World) (k : Nat) (e : Entry) (h : (getConn w k).alive = false) :
    DK w (runEntry w k e).1 k ∧ (runEntry w k e).2.isStuck = false := by
  cases e with
  | rePublish m q => exact pubAttempt_dead w k m q true h
  | rePubRel m => exact relAttempt_dead w k m _ h
  | reSub subs => exact subAttempt_dead w k subs h
  | reUnsub ts => exact unsubAttempt_dead w k ts h
  | qPub m q => exact ⟨firstPub_dead w k m q h, rfl⟩
  | qSub subs => exact ⟨firstSub_dead w k subs h, rfl⟩
  | qUnsub ts => exact ⟨firstUnsub_dead w k ts h, rfl⟩

theorem retryLoop_dead (k : Nat) (rest : List Entry) : ∀ w : World,
    (getConn w k).alive = false → DK w (retryLoop w k rest) k := by
  induction rest with
  | nil => intro w h; exact ⟨rfl, rfl, h⟩
  | cons e rest ih =>
    intro w h
    rw [retryLoop_cons]
    split
    · exact ⟨rfl, rfl, h⟩
    · have h0 : DK w { w with totalRetries := w.totalRetries + 1 } k := DK.of_conns rfl rfl rfl h
      obtain ⟨h1, h2⟩ := runEntry_dead { w with totalRetries := w.totalRetries + 1 } k e h0.alive
      generalize runEntry { w with totalRetries := w.totalRetries + 1 } k e = r at h1 h2 ⊢
      obtain ⟨w1, o⟩ := r
      simp only at h1 h2 ⊢
      have h01 := h0.trans h1
      have hcont : DK w (if w1.closeAfterTask = true then { w1 with retryQ := w1.retryQ ++ rest }
          else retryLoop w1 k rest) k := by
        split
        · exact h01.trans (DK.of_conns rfl rfl rfl h1.alive)
        · exact h01.trans (ih w1 h1.alive)
      cases o with
      | done => exact hcont
      | stuck => exact h01
      | fail hh err =>
        cases hh with
        | none => exact hcont
        | some hh => exact h01.trans (DK.of_conns rfl rfl rfl h1.alive)

theorem getConn_kill_dead (w : World) (k : Nat) (h : (getConn w k).alive = false) :
    (getConn (kill w k) k).alive = false := by
  cases h' : (getConn (kill w k) k).alive with
  | false => rfl
  | true => rw [getConn_kill_alive w k h'] at h; cases h

theorem runTask_dead (w : World) (k : Nat) (t : Task) (h : (getConn w k).alive = false) :
    DK w (runTask w k t) k := by
  cases t with
  | req r =>
    cases r with
    | pub m q =>
      simp only [runTask]
      split
      · exact firstPub_dead w k m q h
      · split
        · exact DK.of_conns rfl rfl rfl h
        · exact ⟨rfl, rfl, h⟩
    | sub subs => exact subscribeTask_dead w k subs h
    | unsub ts =>
      simp only [runTask]
      split
      · exact DK.trans (b := { w with subEst := applyUnsubs w.subEst ts })
          (DK.of_conns rfl rfl rfl h) (firstUnsub_dead _ k ts h)
      · exact DK.of_conns rfl rfl rfl h
  | resubscribe =>
    simp only [runTask]
    exact DK.trans (b := { w with subEst := [] }) (DK.of_conns rfl rfl rfl h)
      (resubLoop_dead k _ _ h)
  | retry =>
    simp only [runTask]
    exact DK.trans (b := { w with retryQ := [] }) (DK.of_conns rfl rfl rfl h)
      (retryLoop_dead k _ _ h)
  | disconnect =>
    simp only [runTask]
    split
    · rename_i ha; rw [h] at ha; cases ha
    · exact logPkt_DK w k _ _ h

/-! ### before the first accepted CONNACK the broker has seen nothing -/

structure KInv (w : World) : Prop where
  stuck : w.stuck = false
  gor : w.gConnected = true → w.goroutine = true
  gate : ∀ k, w.cli = some k → (getConn w k).alive = true →
    w.connReady = false ∧ w.gConnected = false
  q2 : w.broker.q2 = []
  stash : w.broker.stash = []
  phase : ∀ k, w.phase = .connackGate k → w.cli = some k

theorem getConn_kill_other (w : World) (k k' : Nat) :
    (getConn (kill w k) k').alive = true → (getConn w k').alive = true := by
  unfold kill getConn setConn
  simp only [List.getD_eq_getElem?_getD, List.getElem?_set]
  by_cases h : k = k'
  · subst h
    by_cases hk : k < w.conns.length
    · simp [hk]
    · simp [hk]
  · simp [h]

theorem getConn_kill_self (w : World) (k : Nat) (hk : k < w.conns.length) :
    (getConn (kill w k) k).alive = false := by
  unfold kill getConn setConn
  simp [List.getD_eq_getElem?_getD, hk]

theorem afterTask_K {w : World} {k : Nat} (hK : KInv w) (hc : w.cli = some k)
    (hd : (getConn w k).alive = false) : KInv (afterTask w k) := by
  unfold afterTask
  split
  · refine ⟨hK.stuck, (fun h => by cases h), ?_, hK.q2, hK.stash, hK.phase⟩
    intro k' hk' ha
    have hk'' : w.cli = some k' := hk'
    rw [hc] at hk''; cases hk''
    have := getConn_kill_other w k k ha
    rw [hd] at this; cases this
  · exact hK

theorem runTasks_K (fuel : Nat) : ∀ w : World, Inv12 w → w.initialized = false → KInv w →
    KInv (runTasks fuel w) := by
  induction fuel with
  | zero => intro w _ _ hK; exact hK
  | succ fuel ih =>
    intro w hI h0 hK
    rw [runTasks_succ]
    split
    · exact hK
    · rename_i hgo
      have hgor : w.goroutine = true := by
        cases hg : w.goroutine with
        | true => rfl
        | false => exact absurd (Or.inl (by simp [hg])) hgo
      split
      · exact hK
      · rename_i hgate
        have hdead : ∀ k, w.cli = some k → (getConn w k).alive = false := by
          intro k hk
          cases ha : (getConn w k).alive with
          | false => rfl
          | true =>
            obtain ⟨h1, h2⟩ := hK.gate k hk ha
            exact absurd ⟨by simp [h2], by simp [h1]⟩ hgate
        have hKg : KInv { w with gConnected := true } :=
          ⟨hK.stuck, fun _ => hgor, (fun k hk ha => by
            have ha' : (getConn w k).alive = true := ha
            rw [hdead k hk] at ha'; cases ha'), hK.q2, hK.stash, hK.phase⟩
        split
        · exact hKg
        · exact hKg
        · rename_i t rest k ht hk
          have hE : EnvSame w (popTask w rest) := EnvSame.of_conns rfl rfl rfl rfl
          have hP0 : PInv (popTask w rest) (t.msg.toList ++ taskMsgs rest)
              (popTask w rest).retryQ := by
            have : PInv w (t.msg.toList ++ taskMsgs rest) w.retryQ := by
              have := hI; unfold Inv12 at this; rwa [ht, taskMsgs_cons] at this
            exact this.env hE
          have hk0 : (popTask w rest).cli = some k := hk
          have hd0 : (getConn (popTask w rest) k).alive = false := hdead k hk
          obtain ⟨h1, h2⟩ := runTask_inv (k := k) t hP0 hk0
          have hdk := runTask_dead (popTask w rest) k t hd0
          have h3 : Inv12 (runTask (popTask w rest) k t) := by
            unfold Inv12; rw [h1.taskQ]; exact h2
          have hc2 : (runTask (popTask w rest) k t).cli = some k := h1.cli ▸ hk0
          have hK2 : KInv (runTask (popTask w rest) k t) := by
            refine ⟨hdk.stuck.trans hK.stuck, fun _ => h1.goroutine ▸ hgor, ?_,
              by rw [hdk.broker]; exact hK.q2, by rw [hdk.broker]; exact hK.stash, ?_⟩
            · intro k' hk' ha
              rw [hc2] at hk'; cases hk'
              rw [hdk.alive] at ha; cases ha
            · intro k' hk'
              rw [h1.phase] at hk'
              rw [h1.cli]; exact hK.phase k' hk'
          split
          · exact hK2
          · apply ih
            · exact h3.env (afterTask_envSame _ k) (afterTask_queues _ k).1 (afterTask_queues _ k).2
            · rw [(afterTask_mod3 _ k).initialized, h1.initialized]; exact h0
            · exact afterTask_K hK2 hc2 hdk.alive

theorem loopReact_K {w : World} (hK : KInv w) : KInv (loopReact w) := by
  unfold loopReact
  split
  · split
    · exact hK
    · split
      · exact ⟨hK.stuck, hK.gor, hK.gate, hK.q2, hK.stash, (fun k h => by cases h)⟩
      · exact ⟨hK.stuck, hK.gor, hK.gate, hK.q2, hK.stash, (fun k h => by cases h)⟩
  · exact hK

theorem progress_K {w : World} (hI : Inv12 w) (h0 : w.initialized = false) (hK : KInv w) :
    KInv (progress w) := by
  unfold progress
  exact loopReact_K (runTasks_K _ w hI h0 hK)

theorem KInv.congr {w w' : World} (hK : KInv w) (hs : w'.stuck = w.stuck)
    (hg : w'.gConnected = w.gConnected) (hgo : w'.goroutine = w.goroutine)
    (hc : w'.cli = w.cli) (hr : w'.connReady = w.connReady)
    (ha : ∀ k, (getConn w' k).alive = true → (getConn w k).alive = true)
    (hb : w'.broker = w.broker) (hp : w'.phase = w.phase) : KInv w' :=
  ⟨hs.trans hK.stuck, fun h => by rw [hgo]; exact hK.gor (hg ▸ h),
    fun k hk hal => by rw [hr, hg]; exact hK.gate k (hc ▸ hk) (ha k hal),
    by rw [hb]; exact hK.q2, by rw [hb]; exact hK.stash, fun k h => by rw [hc]; exact hK.phase k (hp ▸ h)⟩

theorem connectFailed_K {w : World} {k : Nat} (hI : Inv12 w) (hK : KInv w)
    (hp : w.phase = .connackGate k) : KInv (connectFailed w k) := by
  have hc := hK.phase k hp
  have hlt : k < w.conns.length := by have := hI.cliLast k hc; omega
  have hf := connectFailed_same w k
  refine ⟨hf.stuck.trans hK.stuck, fun h => by rw [hf.goroutine]; exact hK.gor (hf.gConnected ▸ h),
    ?_, by rw [hf.broker]; exact hK.q2, by rw [hf.broker]; exact hK.stash,
    fun k' h => absurd h (hf.phase k')⟩
  intro k' hk' ha
  rw [hf.cli, hc] at hk'; cases hk'
  have : (getConn (connectFailed w k) k).alive = false := by
    rw [getConn_congr hf.conns]
    exact getConn_kill_self { w with connReady := true } k hlt
  rw [this] at ha; cases ha

theorem getConn_setConn_alive_eq (w : World) (k k' : Nat) (c : Conn)
    (h : c.alive = (getConn w k).alive) :
    (getConn (setConn w k c) k').alive = (getConn w k').alive := by
  unfold getConn setConn at *
  simp only [List.getD_eq_getElem?_getD, List.getElem?_set] at *
  by_cases hkk : k = k'
  · subst hkk
    by_cases hk : k < w.conns.length
    · simp [hk] at h ⊢; exact h
    · simp [hk]
  · simp [hkk]

theorem step_K {w : World} (e : Ev) (hI : Inv12 w) (h0 : w.initialized = false) (hK : KInv w)
    (hnew : ∀ m q, e = .app (.pub m q) → m ∉ accMsgs w) :
    ((step w e).initialized = false → KInv (step w e)) ∧
    ((∀ sp inb, e ≠ .connackOk sp inb) → (step w e).initialized = false) := by
  cases e with
  | start =>
    simp only [step]
    split
    · exact ⟨fun _ => hK, fun _ => h0⟩
    · split
      · split
        · exact ⟨fun _ => ⟨hK.stuck, hK.gor, hK.gate, hK.q2, hK.stash, (fun k h => by cases h)⟩,
            fun _ => h0⟩
        · exact ⟨fun _ => ⟨hK.stuck, hK.gor, hK.gate, hK.q2, hK.stash, (fun k h => by cases h)⟩,
            fun _ => h0⟩
      · exact ⟨fun _ => ⟨hK.stuck, hK.gor, hK.gate, hK.q2, hK.stash, (fun k h => by cases h)⟩,
          fun _ => h0⟩
  | waitElapsed =>
    simp only [step]
    split
    · exact ⟨fun _ => ⟨hK.stuck, hK.gor, hK.gate, hK.q2, hK.stash, (fun k h => by cases h)⟩,
        fun _ => h0⟩
    · exact ⟨fun _ => hK, fun _ => h0⟩
  | cancelCtx =>
    simp only [step]
    split
    · exact ⟨fun _ => hK, fun _ => h0⟩
    · split
      · rename_i hph
        exact ⟨fun _ => ⟨hK.stuck, hK.gor, hK.gate, hK.q2, hK.stash,
          (fun k h => by rw [show w.phase = Phase.idle from hph] at h; cases h)⟩, fun _ => h0⟩
      · exact ⟨fun _ => ⟨hK.stuck, hK.gor, hK.gate, hK.q2, hK.stash, (fun k h => by cases h)⟩,
          fun _ => h0⟩
      · rename_i hph
        split
        · exact ⟨fun _ => ⟨hK.stuck, hK.gor, hK.gate, hK.q2, hK.stash,
            (fun k h => by rw [show w.phase = Phase.dialGate from hph] at h; cases h)⟩, fun _ => h0⟩
        · exact ⟨fun _ => ⟨hK.stuck, hK.gor, hK.gate, hK.q2, hK.stash, (fun k h => by cases h)⟩,
            fun _ => h0⟩
      · rename_i k hk
        have hph : w.phase = .connackGate k := hk
        have hc := hK.phase k hph
        have hlt : k < w.conns.length := by have := hI.cliLast k hc; omega
        have ha : Inv12 { w with ctxCancelled := true, connReady := true } :=
          hI.env (EnvSame.of_conns rfl rfl rfl rfl) rfl rfl
        have hb : Inv12 (kill { w with ctxCancelled := true, connReady := true } k) :=
          ha.env (kill_envSame _ k) rfl rfl
        have hI1 : Inv12 { kill { w with ctxCancelled := true, connReady := true } k with
            phase := .exited, connectErr := true } :=
          hb.env (EnvSame.of_conns rfl rfl rfl rfl) rfl rfl
        have hK1 : KInv { kill { w with ctxCancelled := true, connReady := true } k with
            phase := .exited, connectErr := true } := by
          refine ⟨hK.stuck, hK.gor, ?_, hK.q2, hK.stash, (fun k' h => by cases h)⟩
          intro k' hk' hal
          have hk'' : w.cli = some k' := hk'
          rw [hc] at hk''; cases hk''
          have hal' : (getConn (kill { w with ctxCancelled := true, connReady := true } k) k).alive
              = true := hal
          rw [getConn_kill_self { w with ctxCancelled := true, connReady := true } k hlt] at hal'
          cases hal'
        have hp := (progress_inv hI1).2
        exact ⟨fun _ => progress_K hI1 h0 hK1, fun _ => hp.initialized.trans h0⟩
      · rename_i hph
        exact ⟨fun _ => ⟨hK.stuck, hK.gor, hK.gate, hK.q2, hK.stash,
          (fun k h => by rw [show w.phase = Phase.exited from hph] at h; cases h)⟩, fun _ => h0⟩
      · rename_i k hph
        exact ⟨fun _ => ⟨hK.stuck, hK.gor, hK.gate, hK.q2, hK.stash,
          (fun k' h => by rw [show w.phase = Phase.up k from hph] at h; cases h)⟩, fun _ => h0⟩
  | app r =>
    simp only [step]
    split
    · exact ⟨fun _ => hK.congr rfl rfl rfl rfl rfl (fun _ h => h) rfl rfl, fun _ => h0⟩
    · have hI1 : Inv12 (pushTask { w with accepted := w.accepted ++ [r] } (.req r)) :=
        accept_inv r hI (fun m q h => hnew m q (by rw [h]))
      have hK1 : KInv (pushTask { w with accepted := w.accepted ++ [r] } (.req r)) :=
        hK.congr rfl rfl rfl rfl rfl (fun _ h => h) rfl rfl
      have hp := (progress_inv hI1).2
      exact ⟨fun _ => progress_K hI1 h0 hK1, fun _ => hp.initialized.trans h0⟩
  | dialOk idStart =>
    simp only [step]
    split
    · exact ⟨fun _ => hK, fun _ => h0⟩
    · split
      · -- (deaf dialer) a dead connection that carries only CONNECT; the broker still has seen nothing
        have key : ∀ w0 : World, Inv12 w0 → w0.initialized = false → KInv w0 →
            ((progress w0).initialized = false → KInv (progress w0)) ∧
            ((∀ sp inb, Ev.dialOk idStart ≠ .connackOk sp inb) → (progress w0).initialized = false) :=
          fun w0 hI0 hi0 hK0 =>
            ⟨fun _ => progress_K hI0 hi0 hK0, fun _ => (progress_inv hI0).2.initialized.trans hi0⟩
        refine key _ (hI.env ⟨rfl, fun m => ?_, rfl, fun _ k hk => ?_⟩ rfl rfl) h0
          ⟨hK.stuck, fun _ => rfl, ?_, hK.q2, hK.stash, (fun k h => by cases h)⟩
        · unfold msgPkts allPkts
          simp [List.flatMap_append, about]
        · simp only [Option.some.injEq] at hk
          subst hk; simp
        · intro k hk ha
          simp only [Option.some.injEq] at hk
          subst hk
          simp [getConn] at ha
      · refine ⟨fun _ => ⟨hK.stuck, fun _ => rfl, ?_, hK.q2, hK.stash, ?_⟩, fun _ => h0⟩
        · intro k hk _
          refine ⟨rfl, ?_⟩
          show (if w.goroutine = true ∧ w.gConnected = true ∧ ¬ w.stuck = true then false
            else w.gConnected) = false
          cases hg : w.gConnected with
          | false => simp
          | true => simp [hK.gor hg, hK.stuck]
        · intro k hk
          simp only [Phase.connackGate.injEq] at hk
          subst hk; rfl
  | dialFail =>
    simp only [step]
    split
    · exact ⟨fun _ => hK, fun _ => h0⟩
    · split
      · exact ⟨fun _ => ⟨hK.stuck, hK.gor, hK.gate, hK.q2, hK.stash, (fun k h => by cases h)⟩,
          fun _ => h0⟩
      · split
        · exact ⟨fun _ => ⟨hK.stuck, hK.gor, hK.gate, hK.q2, hK.stash, (fun k h => by cases h)⟩,
            fun _ => h0⟩
        · exact ⟨fun _ => ⟨hK.stuck, hK.gor, hK.gate, hK.q2, hK.stash, (fun k h => by cases h)⟩,
            fun _ => h0⟩
  | connackOk sp inb =>
    refine ⟨?_, fun h => absurd rfl (h sp inb)⟩
    by_cases h : ∃ k, w.phase = .connackGate k
    · obtain ⟨k, hk⟩ := h
      rw [step_connackOk w k sp inb hk]
      intro hinit
      exfalso
      have h1 := inboundFold_modIn k inb (connackPre w k sp)
      have hI1 : Inv12 (connackPost (inb.foldl
          (fun w (mq : Nat × Nat) => deliverInbound w k mq.1 mq.2) (connackPre w k sp)) k sp) :=
        connackPost_inv k sp
          ((hI.env (connackPre_envSame w k sp) rfl rfl).env h1.envSame h1.taskQ h1.retryQ)
      have := (progress_inv hI1).2.initialized
      rw [this] at hinit
      simp [connackPost, connackUp] at hinit
    · rw [step_connackOk_other w sp inb (fun k hk => h ⟨k, hk⟩)]; exact fun _ => hK
  | connackRefused =>
    simp only [step]
    split
    · rename_i k hk
      have hI1 : Inv12 (connectFailed w k) := hI.env (connectFailed_envSame w k)
          (connectFailed_same w k).taskQ (connectFailed_same w k).retryQ
      have hp := (progress_inv hI1).2
      exact ⟨fun _ => progress_K hI1 ((connectFailed_same w k).initialized.trans h0)
        (connectFailed_K hI hK hk),
        fun _ => hp.initialized.trans ((connectFailed_same w k).initialized.trans h0)⟩
    · exact ⟨fun _ => hK, fun _ => h0⟩
  | connackNever =>
    simp only [step]
    split
    · rename_i k hk
      split
      · have hI1 : Inv12 (connectFailed w k) := hI.env (connectFailed_envSame w k)
          (connectFailed_same w k).taskQ (connectFailed_same w k).retryQ
        have hp := (progress_inv hI1).2
        exact ⟨fun _ => progress_K hI1 ((connectFailed_same w k).initialized.trans h0)
          (connectFailed_K hI hK hk),
          fun _ => hp.initialized.trans ((connectFailed_same w k).initialized.trans h0)⟩
      · exact ⟨fun _ => hK, fun _ => h0⟩
    · exact ⟨fun _ => hK, fun _ => h0⟩
  | peerClose =>
    simp only [step]
    split
    · rename_i k hk
      have hI1 : Inv12 (kill w k) := hI.env (kill_envSame w k) rfl rfl
      have hK1 : KInv (kill w k) :=
        hK.congr rfl rfl rfl rfl rfl (fun k' h => getConn_kill_other w k k' h) rfl rfl
      have hp := (progress_inv hI1).2
      exact ⟨fun _ => progress_K hI1 h0 hK1, fun _ => hp.initialized.trans h0⟩
    · exact ⟨fun _ => hK, fun _ => h0⟩
  | inbound m q =>
    simp only [step]
    split
    · rename_i k _
      have h1 := deliverInbound_modIn w k m q
      refine ⟨fun _ => ?_, fun _ => h1.initialized.trans h0⟩
      have e1 := h1.eq
      exact hK.congr h1.stuck (by have := congrArg World.gConnected e1; exact this)
        (by have := congrArg World.goroutine e1; exact this) h1.cli
        (by have := congrArg World.connReady e1; exact this)
        (fun k' h => by rw [← h1.alive k']; exact h) h1.broker
        (by have := congrArg World.phase e1; exact this)
    · exact ⟨fun _ => hK, fun _ => h0⟩
  | handle h =>
    simp only [step]
    split
    · rename_i k hk
      refine ⟨fun _ => ?_, fun _ => h0⟩
      refine hK.congr rfl rfl rfl rfl rfl ?_ rfl rfl
      intro k' ha
      have := getConn_setConn_alive_eq { w with handler := some h } k k'
        { getConn { w with handler := some h } k with handler := some h } rfl
      exact this ▸ ha
    · exact ⟨fun _ => hK.congr rfl rfl rfl rfl rfl (fun _ h => h) rfl rfl, fun _ => h0⟩
  | disconnect =>
    simp only [step]
    split
    · exact ⟨fun _ => hK, fun _ => h0⟩
    · have hI1 : Inv12 { pushTask w .disconnect with stopped := true } :=
        (hI.pushMisc .disconnect rfl).env (EnvSame.of_conns rfl rfl rfl rfl) rfl rfl
      have hK1 : KInv { pushTask w .disconnect with stopped := true } :=
        hK.congr rfl rfl rfl rfl rfl (fun _ h => h) rfl rfl
      have hp := (progress_inv hI1).2
      have hK2 := progress_K hI1 h0 hK1
      have hi2 : (progress { pushTask w .disconnect with stopped := true }).initialized = false :=
        hp.initialized.trans h0
      split
      · exact ⟨fun _ => ⟨hK2.stuck, hK2.gor, hK2.gate, hK2.q2, hK2.stash,
          (fun k h => by cases h)⟩, fun _ => hi2⟩
      · exact ⟨fun _ => ⟨hK2.stuck, hK2.gor, hK2.gate, hK2.q2, hK2.stash,
          (fun k h => by cases h)⟩, fun _ => hi2⟩
      · exact ⟨fun _ => hK2, fun _ => hi2⟩

theorem step_init_mono {w : World} (e : Ev) (hI : Inv12 w)
    (hnew : ∀ m q, e = .app (.pub m q) → m ∉ accMsgs w) (h1 : w.initialized = true) :
    (step w e).initialized = true := by
  cases e with
  | start =>
    simp only [step]
    split
    · exact h1
    · split
      · split <;> exact h1
      · exact h1
  | waitElapsed => simp only [step]; split <;> exact h1
  | cancelCtx =>
    simp only [step]
    split
    · exact h1
    · split
      · exact h1
      · exact h1
      · split <;> exact h1
      · rename_i k _
        have ha : Inv12 { w with ctxCancelled := true, connReady := true } :=
          hI.env (EnvSame.of_conns rfl rfl rfl rfl) rfl rfl
        have hb : Inv12 (kill { w with ctxCancelled := true, connReady := true } k) :=
          ha.env (kill_envSame _ k) rfl rfl
        have hI1 : Inv12 { kill { w with ctxCancelled := true, connReady := true } k with
            phase := .exited, connectErr := true } :=
          hb.env (EnvSame.of_conns rfl rfl rfl rfl) rfl rfl
        exact ((progress_inv hI1).2.initialized).trans h1
      · exact h1
      · exact h1
  | app r =>
    simp only [step]
    split
    · exact h1
    · have := (progress_inv (accept_inv r hI (fun m q h => hnew m q (by rw [h])))).2.initialized
      exact this.trans h1
  | dialOk idStart =>
    simp only [step]
    split
    · exact h1
    · split
      · have key : ∀ w0 : World, Inv12 w0 → w0.initialized = true →
            (progress w0).initialized = true :=
          fun w0 hI0 hi0 => (progress_inv hI0).2.initialized.trans hi0
        refine key _ (hI.env ⟨rfl, fun m => ?_, rfl, fun _ k hk => ?_⟩ rfl rfl) h1
        · unfold msgPkts allPkts
          simp [List.flatMap_append, about]
        · simp only [Option.some.injEq] at hk
          subst hk; simp
      · exact h1
  | dialFail =>
    simp only [step]
    split
    · exact h1
    · split
      · exact h1
      · split <;> exact h1
  | connackOk sp inb =>
    by_cases h : ∃ k, w.phase = .connackGate k
    · obtain ⟨k, hk⟩ := h
      rw [step_connackOk w k sp inb hk]
      have hm := inboundFold_modIn k inb (connackPre w k sp)
      have hI1 : Inv12 (connackPost (inb.foldl
          (fun w (mq : Nat × Nat) => deliverInbound w k mq.1 mq.2) (connackPre w k sp)) k sp) :=
        connackPost_inv k sp
          ((hI.env (connackPre_envSame w k sp) rfl rfl).env hm.envSame hm.taskQ hm.retryQ)
      rw [(progress_inv hI1).2.initialized]
      simp [connackPost, connackUp]
    · rw [step_connackOk_other w sp inb (fun k hk => h ⟨k, hk⟩)]; exact h1
  | connackRefused =>
    simp only [step]
    split
    · rename_i k _
      exact ((progress_inv (hI.env (connectFailed_envSame w k) (connectFailed_same w k).taskQ
        (connectFailed_same w k).retryQ)).2.initialized).trans
        ((connectFailed_same w k).initialized.trans h1)
    · exact h1
  | connackNever =>
    simp only [step]
    split
    · rename_i k _
      split
      · exact ((progress_inv (hI.env (connectFailed_envSame w k) (connectFailed_same w k).taskQ
          (connectFailed_same w k).retryQ)).2.initialized).trans
          ((connectFailed_same w k).initialized.trans h1)
      · exact h1
    · exact h1
  | peerClose =>
    simp only [step]
    split
    · rename_i k _
      exact ((progress_inv (hI.env (kill_envSame w k) rfl rfl)).2.initialized).trans h1
    · exact h1
  | inbound m q =>
    simp only [step]
    split
    · rename_i k _; exact (deliverInbound_modIn w k m q).initialized.trans h1
    · exact h1
  | handle h => simp only [step]; split <;> exact h1
  | disconnect =>
    simp only [step]
    split
    · exact h1
    · have hI1 : Inv12 { pushTask w .disconnect with stopped := true } :=
        (hI.pushMisc .disconnect rfl).env (EnvSame.of_conns rfl rfl rfl rfl) rfl rfl
      have := ((progress_inv hI1).2.initialized).trans h1
      split <;> exact this

/-! ### whole runs -/

def connacks (evs : List Ev) : List Bool :=
  evs.filterMap (fun e => match e with | .connackOk sp _ => some sp | _ => none)

/-- every CONNACK of the script except the first one reports "session present" -/
def SessionsKept (s : Script) : Prop := ∀ sp ∈ (connacks s.evs).tail, sp = true

structure FInv (w : World) : Prop where
  i : Inv02 w
  k : w.initialized = false → KInv w

theorem connacks_cons (e : Ev) (evs : List Ev) :
    connacks (e :: evs) = connacks [e] ++ connacks evs := by
  unfold connacks; rw [← List.filterMap_append]; rfl

theorem foldl_full (evs : List Ev) : ∀ w : World, FInv w → (pubMsgs evs).Nodup →
    (∀ m ∈ pubMsgs evs, m ∉ accMsgs w) →
    (w.initialized = true → ∀ sp ∈ connacks evs, sp = true) →
    (w.initialized = false → ∀ sp ∈ (connacks evs).tail, sp = true) →
    FInv (evs.foldl step w) ∧
      ∀ r ∈ (evs.foldl step w).accepted, r ∈ w.accepted ∨ Ev.app r ∈ evs := by
  induction evs with
  | nil => intro w hF _ _ _ _; exact ⟨hF, fun r hr => Or.inl hr⟩
  | cons e evs ih =>
    intro w hF hnd hnew hc1 hc0
    rw [pubMsgs_cons] at hnd hnew
    simp only [List.foldl_cons]
    have hnew_e : ∀ m q, e = .app (.pub m q) → m ∉ accMsgs w :=
      fun m q he => hnew m (by subst he; simp [pubMsgs])
    have hs := step_inv e hF.i.p hnew_e
    have hclear : ∀ inb k, e = .connackOk false inb → w.phase = .connackGate k →
        w.broker.q2 = [] ∧ w.broker.stash = [] := by
      intro inb k he _
      cases hi : w.initialized with
      | true =>
        have := hc1 hi false (by subst he; simp [connacks])
        cases this
      | false => exact ⟨(hF.k hi).q2, (hF.k hi).stash⟩
    have hX := step_X e hF.i hnew_e hclear
    have hF' : FInv (step w e) := by
      refine ⟨hX, fun h0' => ?_⟩
      cases hi : w.initialized with
      | true => rw [step_init_mono e hF.i.p hnew_e hi] at h0'; cases h0'
      | false => exact (step_K e hF.i.p hi (hF.k hi) hnew_e).1 h0'
    -- the CONNACKs of the rest of the script
    have hrest : (∀ sp ∈ connacks evs, sp = true) ∨
        ((∀ sp inb, e ≠ .connackOk sp inb) ∧ w.initialized = false) := by
      cases hi : w.initialized with
      | true =>
        left; intro sp hsp
        exact hc1 hi sp (by rw [connacks_cons]; exact List.mem_append_right _ hsp)
      | false =>
        by_cases he : ∃ sp inb, e = .connackOk sp inb
        · left
          obtain ⟨sp0, inb, he⟩ := he
          intro sp hsp
          apply hc0 hi sp
          subst he
          simpa [connacks] using hsp
        · right
          exact ⟨fun sp inb h => he ⟨sp, inb, h⟩, rfl⟩
    have hc1' : (step w e).initialized = true → ∀ sp ∈ connacks evs, sp = true := by
      intro hi'
      rcases hrest with h | ⟨hne, hi⟩
      · exact h
      · have := (step_K e hF.i.p hi (hF.k hi) hnew_e).2 hne
        rw [this] at hi'; cases hi'
    have hc0' : (step w e).initialized = false → ∀ sp ∈ (connacks evs).tail, sp = true := by
      intro _
      rcases hrest with h | ⟨hne, hi⟩
      · intro sp hsp; exact h sp (List.mem_of_mem_tail hsp)
      · have : connacks (e :: evs) = connacks evs := by
          rw [connacks_cons]
          have : connacks [e] = [] := by
            cases e with
            | connackOk sp inb => exact absurd rfl (hne sp inb)
            | _ => simp [connacks]
          rw [this]; rfl
        rw [← this]; exact hc0 hi
    obtain ⟨h1, h2⟩ := ih (step w e) hF' (List.nodup_append.1 hnd).2.1
      (by
        intro m hm hacc
        rcases hs.2.accMsgs hacc with h | h
        · exact hnew m (List.mem_append_right _ hm) h
        · exact (List.nodup_append.1 hnd).2.2 m h m hm rfl) hc1' hc0'
    refine ⟨h1, fun r hr => ?_⟩
    rcases h2 r hr with h | h
    · rcases hs.2 with ha | ⟨r', he, ha⟩
      · rw [ha] at h; exact Or.inl h
      · rw [ha] at h
        rcases List.mem_append.1 h with h' | h'
        · exact Or.inl h'
        · simp at h'; subst h'; subst he; exact Or.inr (List.mem_cons_self ..)
    · exact Or.inr (List.mem_cons_of_mem _ h)

theorem init_full (s : Script) : FInv (init s) := by
  have hl : ∀ m, load (init s).broker m = 0 := fun m => rfl
  refine ⟨⟨init_inv s, ⟨⟨⟨?_, ?_, ?_⟩, ?_, ?_, ?_⟩, ?_⟩, TailQ.nil⟩, fun _ => ?_⟩
  · intro m _; rw [hl]; exact Nat.zero_le _
  · intro e he; cases he
  · intro m h; rw [hl] at h; cases h
  · intro m q h; cases h
  · intro m h; cases h
  · intro _ m h; cases h
  · intro _; exact Or.inr (Or.inl ⟨⟨rfl, rfl⟩, (fun m h => by cases h)⟩)
  · exact ⟨rfl, (fun h => by cases h), (fun k h => by cases h), rfl, rfl, (fun k h => by cases h)⟩

theorem exec_full (s : Script) (hd : s.DistinctMsgs) (hk : SessionsKept s) :
    FInv (exec s) ∧ ∀ r ∈ (exec s).accepted, Ev.app r ∈ s.evs := by
  obtain ⟨h1, h2⟩ := foldl_full s.evs (init s) (init_full s) hd (fun m _ h => by cases h)
    (fun h => by cases h) (fun _ => hk)
  refine ⟨h1, fun r hr => ?_⟩
  rcases h2 r hr with h | h
  · cases h
  · exact h

theorem pub_unique {evs : List Ev} (hnd : (pubMsgs evs).Nodup) {m q q' : Nat}
    (h1 : Ev.app (.pub m q) ∈ evs) (h2 : Ev.app (.pub m q') ∈ evs) : q = q' := by
  induction evs with
  | nil => cases h1
  | cons e evs ih =>
    rw [pubMsgs_cons] at hnd
    have hnd' := List.nodup_append.1 hnd
    have hmem : ∀ q0, Ev.app (.pub m q0) ∈ evs → m ∈ pubMsgs evs := by
      intro q0 h
      exact List.mem_filterMap.2 ⟨_, h, rfl⟩
    rcases List.mem_cons.1 h1 with e1 | e1 <;> rcases List.mem_cons.1 h2 with e2 | e2
    · rw [← e1] at e2; cases e2; rfl
    · exfalso
      refine hnd'.2.2 m ?_ m (hmem q' e2) rfl
      rw [← e1]; simp [pubMsgs]
    · exfalso
      refine hnd'.2.2 m ?_ m (hmem q e1) rfl
      rw [← e2]; simp [pubMsgs]
    · exact ih hnd'.2.1 e1 e2

end Mqtt.Retry
