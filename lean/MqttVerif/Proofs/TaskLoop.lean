/-
  Helper lemmas for Props/C01t (the task goroutine of RetryClient, `Model/TaskLoop`): the invariant of the repaired
  loop, the per-step forms of the FIFO statement and of the no-lost-wake-up statement.
-/
import MqttVerif.Model.TaskLoop

namespace Mqtt.C01.TaskLoop
open Mqtt.TaskLoop

/-- invariant of the repaired loop -/
structure Inv (s : S) : Prop where
  conn : (s.pc = .top ∨ s.pc = .idle ∨ ∃ t g, s.pc = .run t g) → s.seen ∈ s.returned
  sel : ∀ g, s.pc = .waitSel g → g = s.seen
  log : ∀ e ∈ s.log, e.2.2 = true

theorem inv_init : Inv init := by
  refine ⟨?_, ?_, ?_⟩
  · intro h; rcases h with h | h | ⟨t, g, h⟩ <;> simp [init] at h
  · intro g h; simp [init] at h
  · intro e h; simp [init] at h

theorem inv_loopStep (s : S) (p : Bool) (h : Inv s) : Inv (loopStep .fixed s p) := by
  unfold loopStep
  by_cases h0 : s.gen = 0
  · simp [h0]; exact h
  · simp only [h0, if_false]
    cases hpc : s.pc with
    | waitRead =>
        refine ⟨?_, ?_, h.log⟩
        · intro hh; rcases hh with hh | hh | ⟨t, g, hh⟩ <;> simp at hh
        · intro g hg; simp at hg; simp [hg]
    | waitSel g =>
        have hg := h.sel g hpc
        simp only
        split
        · rename_i hc
          refine ⟨?_, ?_, h.log⟩
          · intro _; simpa [← hg] using hc.1
          · intro g' hg'; simp at hg'
        · split
          · refine ⟨?_, ?_, h.log⟩
            · intro hh; rcases hh with hh | hh | ⟨t, g, hh⟩ <;> simp at hh
            · intro g' hg'; simp at hg'
          · exact h
    | top =>
        have hc := h.conn (Or.inl hpc)
        simp only
        split
        · refine ⟨?_, ?_, h.log⟩
          · intro hh; rcases hh with hh | hh | ⟨t, g, hh⟩ <;> simp at hh
          · intro g' hg'; simp at hg'
        · rename_i hne
          have hgs : s.gen = s.seen := by simpa using hne
          split
          · refine ⟨?_, ?_, h.log⟩
            · intro _; simpa using hc
            · intro g' hg'; simp at hg'
          · refine ⟨?_, ?_, ?_⟩
            · intro _; simpa using hc
            · intro g' hg'; simp at hg'
            · intro e he
              simp only [List.mem_append, List.mem_singleton] at he
              rcases he with he | he
              · exact h.log e he
              · subst he; simp [hgs, hc]
    | idle =>
        have hc := h.conn (Or.inr (Or.inl hpc))
        simp only
        split
        · refine ⟨?_, ?_, h.log⟩
          · intro _; simpa using hc
          · intro g' hg'; simp at hg'
        · split
          · refine ⟨?_, ?_, h.log⟩
            · intro hh; rcases hh with hh | hh | ⟨t, g, hh⟩ <;> simp at hh
            · intro g' hg'; simp at hg'
          · exact h
    | run t g => simpa [hpc] using h

theorem inv_step (s : S) (e : Ev) (h : Inv s) : Inv (step .fixed s e) := by
  cases e with
  | setClient => exact ⟨h.conn, h.sel, h.log⟩
  | connectReturn g =>
      simp only [step]
      split
      · refine ⟨?_, h.sel, h.log⟩
        intro hh; exact List.mem_cons_of_mem _ (h.conn hh)
      · exact h
  | submit t => exact ⟨h.conn, h.sel, h.log⟩
  | taskEnd retry =>
      simp only [step]
      cases hpc : s.pc with
      | run t g =>
          have hc := h.conn (Or.inr (Or.inr ⟨t, g, hpc⟩))
          simp only
          cases retry
          · refine ⟨fun _ => hc, ?_, h.log⟩
            intro g' hg'; simp at hg'
          · refine ⟨?_, ?_, h.log⟩
            · intro hh; rcases hh with hh | hh | ⟨t, g, hh⟩ <;> simp at hh
            · intro g' hg'; simp at hg'
      | waitRead => simpa [hpc] using h
      | waitSel g => simpa [hpc] using h
      | top => simpa [hpc] using h
      | idle => simpa [hpc] using h
  | loop p => exact inv_loopStep s p h

theorem inv_run (evs : List Ev) : Inv (run .fixed evs) := by
  unfold run
  suffices ∀ s, Inv s → Inv (evs.foldl (step .fixed) s) from this _ inv_init
  induction evs with
  | nil => intro s h; exact h
  | cons e es ih => intro s h; exact ih _ (inv_step s e h)

def submitted : List Ev → List Nat
  | [] => []
  | .submit t :: es => t :: submitted es
  | _ :: es => submitted es

theorem submitted_append (a b : List Ev) : submitted (a ++ b) = submitted a ++ submitted b := by
  induction a with
  | nil => rfl
  | cons e es ih => cases e <;> simp [submitted, ih]

theorem fifo_loopStep (v : Variant) (s : S) (p : Bool) :
    (loopStep v s p).log.map (·.1) ++ (loopStep v s p).queue = s.log.map (·.1) ++ s.queue := by
  unfold loopStep
  by_cases h0 : s.gen = 0
  · simp [h0]
  · simp only [h0, if_false]
    cases hpc : s.pc with
    | waitRead => rfl
    | waitSel g =>
        simp only; split
        · rfl
        · split <;> rfl
    | top =>
        cases v <;> simp only <;> split
        all_goals first
          | rfl
          | (cases hq : s.queue with
             | nil => simp
             | cons t q => simp)
    | idle =>
        simp only; split
        · rfl
        · split <;> rfl
    | run t g => rfl

theorem fifo_step (v : Variant) (s : S) (e : Ev) :
    (step v s e).log.map (·.1) ++ (step v s e).queue
      = s.log.map (·.1) ++ s.queue ++ submitted [e] := by
  cases e with
  | setClient => simp [step, submitted]
  | connectReturn g => simp only [step]; split <;> simp [submitted]
  | submit t => simp [step, submitted]
  | taskEnd r => simp only [step]; cases s.pc <;> simp [submitted]
  | loop p => simp [step, submitted, fifo_loopStep]

def Awake (s : S) : Prop := s.pc = .idle → (1 ≤ s.gen ∧ (s.queue ≠ [] → s.token = true))

theorem awake_loopStep (v : Variant) (s : S) (p : Bool) (h : Awake s) : Awake (loopStep v s p) := by
  unfold loopStep
  by_cases h0 : s.gen = 0
  · simp [h0]; exact h
  · simp only [h0, if_false]
    cases hpc : s.pc with
    | waitRead => intro hh; simp at hh
    | waitSel g =>
        simp only; split
        · intro hh; simp at hh
        · split
          · intro hh; simp at hh
          · exact h
    | top =>
        cases v <;> simp only <;> split
        all_goals first
          | (intro hh; simp at hh; done)
          | (cases hq : s.queue with
             | nil => intro _; exact ⟨by simp; omega, by simp⟩
             | cons t q => intro hh; simp at hh)
    | idle =>
        simp only; split
        · intro hh; simp at hh
        · split
          · intro hh; simp at hh
          · exact h
    | run t g => simpa [hpc] using h

theorem awake_step (v : Variant) (s : S) (e : Ev) (h : Awake s) : Awake (step v s e) := by
  cases e with
  | setClient =>
      intro hh
      have := h hh
      exact ⟨by simp [step], by simpa [step] using this.2⟩
  | connectReturn g =>
      simp only [step]; split
      · exact fun hh => h hh
      · exact h
  | submit t =>
      intro hh
      have := h hh
      refine ⟨this.1, ?_⟩
      intro _
      simp [step, this.1]
  | taskEnd r =>
      simp only [step]
      cases hpc : s.pc with
      | run t g => cases r <;> (intro hh; simp at hh)
      | waitRead => simpa [hpc] using h
      | waitSel g => simpa [hpc] using h
      | top => simpa [hpc] using h
      | idle => simpa [hpc] using h
  | loop p => exact awake_loopStep v s p h

end Mqtt.C01.TaskLoop
