/-
  Completeness half of property C03 for requests of all kinds: NO REQUEST IS SKIPPED.

  `MqttVerif/Proofs/RetryOrder.lean` shows that the attempts of the application's requests reach the
  wire in submission order (`gatt_sorted`). That alone would also hold of a client that silently drops
  a QoS 1 request and transmits a later one. Here: along every run the accepted requests that are not
  QoS 0 publishes and have not been attempted yet are all still held by the client (their labels are
  in the ghost of `retryQ` / `taskQ`), except when the task goroutine is blocked for ever (`stuck`), in
  which case nothing is attempted any more. Together with the order invariant (`Core`: everything
  attempted ≤ everything pending) this gives: the set of attempted request indices is downward closed
  among the accepted requests that are not QoS 0 publishes (`no_skip`).

  Everything here holds for every configuration, a dialer that ignores its context (`Cfg.deafDialer`) included:
  the one new place where the task goroutine gets a turn (`.dialOk` after the cancellation of the first Connect,
  `C03.dialDead`) is covered by `preProgress` / `step_pre` / `step_stuck`.

  Of `RetryLoop.lean` only the step-independent frame of the task goroutine is used (`frame_runTasks`,
  `frame_deliverInbound`, `frame_foldl_deliverInbound`, `Frame.stopped`, `loopReact_stopped`), for "only Disconnect
  stops the client" (`step_stopped_other`).
-/
import MqttVerif.Proofs.RetryOrder
import MqttVerif.Proofs.RetryLoop

namespace Mqtt.C03
open Mqtt.Retry

/-! ### a blocked request blocks the world -/

theorem send_stuckOut (w : World) (k : Nat) (p : Pkt) (waits : Bool) :
    (send w k p waits).2 = .stuck → (send w k p waits).1.stuck = true := by
  unfold send
  split
  · intro h; cases h
  · simp only
    split
    · intro h; cases h
    · intro h; cases h
    · intro h; split at h <;> cases h
    · intro h; split at h <;> cases h
    · split
      · intro h; cases h
      · split
        · intro h; cases h
        · intro _; rfl

theorem relAttempt_stuckOut (w : World) (k m id : Nat) :
    (relAttempt w k m id).2 = .stuck → (relAttempt w k m id).1.stuck = true := by
  unfold relAttempt
  have h := send_stuckOut w k (.pubrel id m) true
  simp only
  split
  · intro h'; cases h'
  · rename_i hs; intro _; exact h hs
  · intro h'; cases h'

theorem pubAttempt_stuckOut (w : World) (k m qos : Nat) (dup : Bool) :
    (pubAttempt w k m qos dup).2 = .stuck → (pubAttempt w k m qos dup).1.stuck = true := by
  rw [pubAttempt_eq]
  have h := send_stuckOut (assignId w k m).1 k (.publish m qos (assignId w k m).2 dup) (qos ≠ 0)
  simp only
  split
  · split
    · exact relAttempt_stuckOut _ _ _ _
    · split <;> (intro h'; cases h')
  · rename_i hs; intro _; exact h hs
  · intro h'; cases h'

theorem subAttempt_stuckOut (w : World) (k : Nat) (subs) :
    (subAttempt w k subs).2 = .stuck → (subAttempt w k subs).1.stuck = true := by
  rw [subAttempt_eq]
  have h := send_stuckOut (bumpCtr w k).1 k (.subscribe (bumpCtr w k).2 subs) true
  simp only
  split
  · intro h'; cases h'
  · rename_i hs; intro _; exact h hs
  · intro h'; cases h'

theorem unsubAttempt_stuckOut (w : World) (k : Nat) (ts) :
    (unsubAttempt w k ts).2 = .stuck → (unsubAttempt w k ts).1.stuck = true := by
  rw [unsubAttempt_eq]
  have h := send_stuckOut (bumpCtr w k).1 k (.unsubscribe (bumpCtr w k).2 ts) true
  simp only
  split
  · intro h'; cases h'
  · rename_i hs; intro _; exact h hs
  · intro h'; cases h'

/-- the outcome `.stuck` of a retry-queue entry means that the world is blocked for ever -/
theorem runEntry_stuckOut (w : World) (k : Nat) (e : Entry) :
    (runEntry w k e).2 = .stuck → (runEntry w k e).1.stuck = true := by
  cases e with
  | qPub m qos => intro h; cases h
  | qSub subs => intro h; cases h
  | qUnsub ts => intro h; cases h
  | rePublish m qos => exact pubAttempt_stuckOut w k m qos true
  | rePubRel m => exact relAttempt_stuckOut w k m _
  | reSub subs => exact subAttempt_stuckOut w k subs
  | reUnsub ts => exact unsubAttempt_stuckOut w k ts

/-! ### where the labels of a queue go -/

/-- the label of a pending PUBREL (`rePubRel`: its PUBLISH went out before) is among the attempted -/
def RelOk (A : List Nat) (l : Lab) (e : Entry) : Prop := isRel e = true → ∀ i, l = some i → i ∈ A

theorem All2.imp {α β : Type} {R S : α → β → Prop} (h : ∀ a b, R a b → S a b) :
    ∀ {as : List α} {bs : List β}, All2 R as bs → All2 S as bs
  | _, _, .nil => .nil
  | _, _, .cons a t => .cons (h _ _ a) (t.imp h)

theorem RelOk.mono {A A' : List Nat} (h : ∀ i ∈ A, i ∈ A') {ls : List Lab} {es : List Entry}
    (hr : All2 (RelOk A) ls es) : All2 (RelOk A') ls es :=
  hr.imp (fun _ _ hr' hrel i hi => h i (hr' hrel i hi))

/-- request index `i` after a piece of activity: still held (`P`: labels of the queues), attempted
    (`A`: labels of the request packets so far), or the world is blocked for ever and everything
    attempted is `≤ i` -/
def Kept (i : Nat) (P A : List Nat) (stuck : Bool) : Prop :=
  i ∈ P ∨ i ∈ A ∨ (stuck = true ∧ ∀ j ∈ A, j ≤ i)

theorem mem_apps_cons {i : Nat} {l : Lab} {ls : List Lab} : i ∈ apps (l :: ls) ↔ l = some i ∨ i ∈ apps ls := by
  rw [apps_cons]
  cases l with
  | none => simp
  | some j =>
    simp only [Option.toList_some, List.singleton_append, List.mem_cons, Option.some.injEq]
    constructor
    · rintro (h | h)
      · exact .inl h.symm
      · exact .inr h
    · rintro (h | h)
      · exact .inl h.symm
      · exact .inr h

theorem mem_apps_single {i : Nat} {l : Lab} : i ∈ apps [l] ↔ l = some i := by
  rw [mem_apps_cons]; simp

/-- `Retry`: every label of the old queue is in the new queue or has been attempted, unless the loop
    blocked — then what it left out is above everything attempted -/
theorem gRetryLoop_cover (k : Nat) : ∀ (old : List Entry) (w : World) (ls : List Lab) (A : List Nat),
    w.retryQ = [] → All2 (RelOk A) ls old → (apps ls).Pairwise (· < ·) →
    (∀ a ∈ A, ∀ p ∈ apps ls, a ≤ p) →
    All2 (RelOk (A ++ apps (gRetryLoop w k old ls).2)) (gRetryLoop w k old ls).1 (retryLoop w k old).retryQ ∧
    ∀ i ∈ apps ls, Kept i (apps (gRetryLoop w k old ls).1) (A ++ apps (gRetryLoop w k old ls).2)
      (retryLoop w k old).stuck
  | [], w, ls, A, hq, hok, _, _ => by
    have : ls = [] := by cases hok; rfl
    subst this
    simp only [retryLoop, gRetryLoop, hq]
    exact ⟨.nil, fun i hi => by simp at hi⟩
  | e :: rest, w, ls, A, hq, hok, hsort, hle => by
    obtain ⟨l, ls', rfl, hl, hls⟩ : ∃ l ls', ls = l :: ls' ∧ RelOk A l e ∧ All2 (RelOk A) ls' rest := by
      cases hok with
      | cons h t => exact ⟨_, _, rfl, h, t⟩
    rw [retryLoop_cons, gRetryLoop_cons]
    split
    · rename_i hstk
      refine ⟨by rw [hq]; exact .nil, fun i hi => .inr (.inr ⟨hstk, fun j hj => ?_⟩)⟩
      exact hle j (by simpa using hj) i hi
    · have hs := runEntry_g { w with totalRetries := w.totalRetries + 1 } k e
      have hst := runEntry_stuckOut { w with totalRetries := w.totalRetries + 1 } k e
      generalize runEntry { w with totalRetries := w.totalRetries + 1 } k e = r at hs hst
      obtain ⟨w2, o⟩ := r
      simp only [List.headD_cons, List.tail_cons] at hs hst ⊢
      rw [apps_cons, List.pairwise_append] at hsort
      -- the label of the entry is among the attempted once the entry has run
      have hF : ∀ i, l = some i → i ∈ A ++ apps (if isRel e then [] else [l]) := by
        intro i hi
        by_cases hrel : isRel e = true
        · exact List.mem_append_left _ (hl hrel i hi)
        · simp only [hrel, Bool.false_eq_true, if_false]
          exact List.mem_append_right _ (mem_apps_single.2 hi)
      have hle' : ∀ a ∈ A ++ apps (if isRel e then [] else [l]), ∀ p ∈ apps ls', a ≤ p := by
        intro a ha p hp
        rcases List.mem_append.1 ha with ha | ha
        · exact hle a ha p (mem_apps_cons.2 (.inr hp))
        · split at ha
          · simp at ha
          · have : l = some a := mem_apps_single.1 ha
            exact Nat.le_of_lt (hsort.2.2 a (by rw [this]; simp) p hp)
      generalize (if isRel e then [] else [l]) = em at hF hle'
      have hqq : (w2.retryQ = [] ∧ extLab [] l (! w2.retryQ.isEmpty) = []) ∨
          (w2.closeAfterTask = true ∧ extLab [] l (! w2.retryQ.isEmpty) = [l] ∧ ∃ h, w2.retryQ = [h]) := by
        rcases hs.q with ⟨h1, _⟩ | ⟨hcaf, h, h1, _⟩
        · left
          have : w2.retryQ = [] := by rw [h1]; exact hq
          exact ⟨this, by rw [this]; rfl⟩
        · right
          have : w2.retryQ = [h] := by rw [h1]; show w.retryQ ++ [h] = [h]; rw [hq]; rfl
          exact ⟨hcaf, by rw [this]; rfl, h, this⟩
      have hcur : All2 (RelOk (A ++ apps em)) (extLab [] l (! w2.retryQ.isEmpty)) w2.retryQ := by
        rcases hqq with ⟨h1, h0⟩ | ⟨_, h0, h, h1⟩ <;> rw [h0, h1]
        · exact .nil
        · exact .single (fun _ => hF)
      have hcurL : ∀ i ∈ apps (extLab [] l (! w2.retryQ.isEmpty)), l = some i := by
        intro i hi
        rcases hqq with ⟨_, h0⟩ | ⟨_, h0, _⟩ <;> rw [h0] at hi
        · simp at hi
        · exact mem_apps_single.1 hi
      generalize extLab [] l (! w2.retryQ.isEmpty) = cur at hqq hcur hcurL
      have hrest : All2 (RelOk (A ++ apps em)) ls' rest := RelOk.mono (fun i hi => List.mem_append_left _ hi) hls
      have hstop : All2 (RelOk (A ++ apps em)) (cur ++ ls') (w2.retryQ ++ rest) := hcur.append hrest
      -- the entry is done with, the rest stays in the queue
      have hkeep : ∀ (st : Bool), ∀ i ∈ apps (l :: ls'), Kept i (apps (cur ++ ls')) (A ++ apps em) st := by
        intro st i hi
        rcases mem_apps_cons.1 hi with hi | hi
        · exact .inr (.inl (hF i hi))
        · exact .inl (by rw [apps_append]; exact List.mem_append_right _ hi)
      have hrec : w2.closeAfterTask = false →
          All2 (RelOk (A ++ apps (em ++ (gRetryLoop w2 k rest ls').2))) (gRetryLoop w2 k rest ls').1
            (retryLoop w2 k rest).retryQ ∧
          ∀ i ∈ apps (l :: ls'), Kept i (apps (gRetryLoop w2 k rest ls').1)
            (A ++ apps (em ++ (gRetryLoop w2 k rest ls').2)) (retryLoop w2 k rest).stuck := by
        intro hcaf
        have h0 : w2.retryQ = [] := by
          rcases hqq with ⟨h0, _⟩ | ⟨h1, _⟩
          · exact h0
          · rw [hcaf] at h1; cases h1
        obtain ⟨i1, i2⟩ := gRetryLoop_cover k rest w2 ls' (A ++ apps em) h0 hrest hsort.2.1 hle'
        rw [apps_append, ← List.append_assoc]
        refine ⟨i1, fun i hi => ?_⟩
        rcases mem_apps_cons.1 hi with hi | hi
        · exact .inr (.inl (List.mem_append_left _ (hF i hi)))
        · exact i2 i hi
      cases o with
      | stuck =>
        refine ⟨hcur, fun i hi => ?_⟩
        rcases mem_apps_cons.1 hi with hi | hi
        · exact .inr (.inl (hF i hi))
        · exact .inr (.inr ⟨hst rfl, fun j hj => hle' j hj i hi⟩)
      | fail ho err =>
        cases ho with
        | some h =>
          refine ⟨?_, fun i hi => .inl ?_⟩
          · show All2 (RelOk (A ++ apps em)) (cur ++ [l] ++ ls') (w2.retryQ ++ [h] ++ rest)
            exact (hcur.append (.single (fun _ => hF))).append hrest
          · rw [apps_append, apps_append, apps_single]
            rcases mem_apps_cons.1 hi with hi | hi
            · exact List.mem_append_left _ (List.mem_append_right _ (by rw [hi]; simp))
            · exact List.mem_append_right _ hi
        | none =>
          simp only
          split
          · exact ⟨hstop, hkeep _⟩
          · rename_i hcaf
            exact hrec (by simpa using hcaf)
      | done =>
        simp only
        split
        · exact ⟨hstop, hkeep _⟩
        · rename_i hcaf
          exact hrec (by simpa using hcaf)

/-- `Resubscribe` only appends entries of the library's own to the retry queue -/
theorem gResubLoop_rel (A : List Nat) (k : Nat) : ∀ (l : List Subscription) (w : World) (cur : List Lab),
    All2 (RelOk A) cur w.retryQ → All2 (RelOk A) (gResubLoop w k l cur).1 (resubLoop w k l).retryQ
  | [], w, cur, hcur => hcur
  | s :: rest, w, cur, hcur => by
    unfold resubLoop gResubLoop
    split
    · exact hcur
    · have hg := subscribeTask_g w k [s]
      refine gResubLoop_rel A k rest (subscribeTask w k [s]) _ ?_
      rcases hg.extLab cur none with ⟨h1, h2⟩ | ⟨⟨x, h1, _⟩, h2⟩ <;> rw [h2, h1]
      · exact hcur
      · exact hcur.append (.single (fun _ i hi => by cases hi))

/-- a request task that finds the retry queue non-empty: dropped (QoS 0 publish) or queued at the end,
    as a closure that has not been transmitted -/
theorem runTask_req_queued (w : World) (k : Nat) (r : Req) (h : w.retryQ.isEmpty = false) :
    ((∃ m, r = .pub m 0) ∧ (runTask w k (.req r)).retryQ = w.retryQ) ∨
    ∃ x, (runTask w k (.req r)).retryQ = w.retryQ ++ [x] ∧ isRel x = false := by
  cases r with
  | pub m qos =>
    simp only [runTask, h, Bool.false_eq_true, if_false]
    split
    · exact .inr ⟨_, rfl, rfl⟩
    · rename_i hq
      have : qos = 0 := by omega
      subst this
      exact .inl ⟨⟨m, rfl⟩, rfl⟩
  | sub subs =>
    simp only [runTask, subscribeTask, h, Bool.false_eq_true, if_false]
    exact .inr ⟨_, rfl, rfl⟩
  | unsub ts =>
    simp only [runTask, h, Bool.false_eq_true, if_false]
    exact .inr ⟨_, rfl, rfl⟩

/-- one task: every label of the retry queue is kept (see `Kept`); the label of the task itself is
    in the queue or attempted afterwards, unless the task is a QoS 0 publish -/
theorem gRunTask_cover (w : World) (k : Nat) (t : Task) (l : Lab) (cur : List Lab) (A : List Nat)
    (hcur : All2 (RelOk A) cur w.retryQ) (hl : ∀ i, l = some i → ∃ r, t = .req r)
    (hsort : (apps cur ++ l.toList).Pairwise (· < ·)) (hle : ∀ a ∈ A, ∀ p ∈ apps cur ++ l.toList, a ≤ p) :
    All2 (RelOk (A ++ apps (gRunTask w k t l cur).2)) (gRunTask w k t l cur).1 (runTask w k t).retryQ ∧
    (∀ i ∈ apps cur, Kept i (apps (gRunTask w k t l cur).1) (A ++ apps (gRunTask w k t l cur).2)
      (runTask w k t).stuck) ∧
    (∀ i, l = some i → (∃ m, t = .req (.pub m 0)) ∨ i ∈ apps (gRunTask w k t l cur).1 ∨
      i ∈ A ++ apps (gRunTask w k t l cur).2) := by
  have hlen : cur.length = w.retryQ.length := hcur.length_eq
  cases t with
  | req r =>
    have hg := runTask_req_g w k r
    simp only [gRunTask]
    by_cases hemp : w.retryQ.isEmpty = true
    · have hq : w.retryQ = [] := by simpa using hemp
      have hc0 : cur = [] := by rw [hq] at hlen; simpa using hlen
      subst hc0
      simp only [hemp, if_true]
      have hF : ∀ i, l = some i → i ∈ A ++ apps [l] := fun i hi => List.mem_append_right _ (mem_apps_single.2 hi)
      refine ⟨?_, fun i hi => by simp at hi, fun i hi => .inr (.inr (hF i hi))⟩
      rcases hg.extLab [] l with ⟨h1, h2⟩ | ⟨⟨x, h1, _⟩, h2⟩ <;> rw [h2, h1, hq]
      · exact .nil
      · exact .single (fun _ => hF)
    · have hemp' : w.retryQ.isEmpty = false := by simpa using hemp
      simp only [hemp', Bool.false_eq_true, if_false, apps_nil, List.append_nil]
      rcases runTask_req_queued w k r hemp' with ⟨hm, h1⟩ | ⟨x, h1, hx⟩
      · have h2 : C03.extLab cur l (decide ((runTask w k (.req r)).retryQ.length > w.retryQ.length)) = cur := by
          rw [h1]; simp [C03.extLab]
        rw [h2, h1]
        refine ⟨hcur, fun i hi => .inl hi, fun i _ => .inl ?_⟩
        obtain ⟨m, rfl⟩ := hm
        exact ⟨m, rfl⟩
      · have h2 : C03.extLab cur l (decide ((runTask w k (.req r)).retryQ.length > w.retryQ.length)) = cur ++ [l] := by
          rw [h1]; simp [C03.extLab]
        rw [h2, h1]
        refine ⟨hcur.append (.single (fun hrel => by rw [hx] at hrel; cases hrel)),
          fun i hi => .inl (by rw [apps_append]; exact List.mem_append_left _ hi),
          fun i hi => .inr (.inl (by rw [apps_append]; exact List.mem_append_right _ (mem_apps_single.2 hi)))⟩
  | resubscribe =>
    have hsp := gResubLoop_spec k w.subEst { w with subEst := [] } cur hlen
    have hrl := gResubLoop_rel A k w.subEst { w with subEst := [] } cur hcur
    simp only [gRunTask]
    rw [hsp.2.2.1, List.append_nil, hsp.2.1]
    refine ⟨hrl, fun i hi => .inl hi, fun i hi => ?_⟩
    obtain ⟨r, hr⟩ := hl i hi
    cases hr
  | retry =>
    have hsort' : (apps cur).Pairwise (· < ·) := (List.pairwise_append.1 hsort).1
    have h := gRetryLoop_cover k w.retryQ { w with retryQ := [] } cur A rfl hcur hsort'
      (fun a ha p hp => hle a ha p (List.mem_append_left _ hp))
    refine ⟨h.1, h.2, fun i hi => ?_⟩
    obtain ⟨r, hr⟩ := hl i hi
    cases hr
  | disconnect =>
    have hfr : Fr w (runTask w k .disconnect) := by
      simp only [runTask]
      split
      · exact (fr_logPkt w k .disconnect (.sent .ok)).trans (fr_kill _ k)
      · exact fr_logPkt w k .disconnect .dead
    simp only [gRunTask, apps_nil, List.append_nil]
    rw [hfr.retryQ]
    refine ⟨hcur, fun i hi => .inl hi, fun i hi => ?_⟩
    obtain ⟨r, hr⟩ := hl i hi
    cases hr

/-! ### the invariant of the run -/

/-- a label `some i` in the task queue labels the task of the application's request number `i` -/
def TaskIs (reqs : List Req) (l : Lab) (t : Task) : Prop := ∀ i, l = some i → ∃ r, t = .req r ∧ reqs[i]? = some r

/-- `Ow i`: request number `i` is owed a transmission (accepted, not a QoS 0 publish). Every owed
    request below the bound `b` is held in the queues or has been attempted, unless the task
    goroutine is blocked for ever and everything attempted is `≤ i`. -/
structure NInv (Ow : Nat → Prop) (reqs : List Req) (w : World) (g : Gh) (b : Nat) : Prop where
  rel : All2 (RelOk (apps g.out)) g.rq w.retryQ
  tsk : All2 (TaskIs reqs) g.tq w.taskQ
  cov : ∀ i, i < b → Ow i → Kept i (apps g.rq ++ apps g.tq) (apps g.out) w.stuck

theorem gRunTasks_ninv (Ow : Nat → Prop) (reqs : List Req) (b : Nat)
    (hq0 : ∀ i, Ow i → ∀ m, reqs[i]? ≠ some (.pub m 0)) :
    ∀ (fuel : Nat) (w : World) (g : Gh), GInv w g b → NInv Ow reqs w g b →
    NInv Ow reqs (runTasks fuel w) (gRunTasks fuel w g) b
  | 0, w, g, _, h => by simpa [runTasks, gRunTasks] using h
  | fuel + 1, w, g, hG, h => by
    rw [runTasks, gRunTasks]
    split
    · exact h
    · rename_i hrun
      split
      · exact h
      · simp only
        cases htq' : w.taskQ with
        | nil => dsimp only; exact ⟨h.rel, by rw [← htq']; exact h.tsk, h.cov⟩
        | cons t rest =>
        cases hcli : w.cli with
        | none => dsimp only; exact ⟨h.rel, by rw [← htq']; exact h.tsk, h.cov⟩
        | some k =>
          have hns : w.stuck = false := by
            cases hh : w.stuck with
            | false => rfl
            | true => exact absurd (Or.inr hh) hrun
          obtain ⟨l, ls, hg, hl, hls⟩ : ∃ l ls, g.tq = l :: ls ∧ TaskIs reqs l t ∧ All2 (TaskIs reqs) ls rest := by
            have := h.tsk; rw [htq'] at this
            cases hh : g.tq with
            | nil => rw [hh] at this; cases this
            | cons l ls => rw [hh] at this; cases this with | cons a b => exact ⟨l, ls, rfl, a, b⟩
          have hc := hG.core
          rw [hg, apps_cons] at hc
          have hr := gRunTask_core { w with gConnected := true, taskQ := rest, totalTasks := w.totalTasks + 1 } k t l g.rq b
            (apps g.out) (apps ls) hG.lenR hc
          have hc1 : Core (apps g.out) (apps g.rq ++ l.toList) b :=
            hc.sub (by rw [← List.append_assoc]; exact List.sublist_append_left _ _)
          have hv := gRunTask_cover { w with gConnected := true, taskQ := rest, totalTasks := w.totalTasks + 1 } k t l g.rq
            (apps g.out) h.rel (fun i hi => (hl i hi).imp (fun r hr => hr.1)) hc1.pendLt hc1.le
          dsimp only
          simp only [← hcli, hg, List.headD_cons, List.tail_cons]
          generalize gRunTask { w with gConnected := true, taskQ := rest, totalTasks := w.totalTasks + 1 } k t l g.rq = gr at hr hv
          generalize runTask { w with gConnected := true, taskQ := rest, totalTasks := w.totalTasks + 1 } k t = w2 at hr hv
          have hG2 : GInv w2 { tq := ls, rq := gr.1, out := g.out ++ gr.2 } b :=
            ⟨by rw [apps_append]; exact hr.2.1, by rw [hr.1.taskQ]; exact (by simpa using hls.length_eq), hr.2.2⟩
          have hi2 : NInv Ow reqs w2 { tq := ls, rq := gr.1, out := g.out ++ gr.2 } b := by
            refine ⟨by rw [apps_append]; exact hv.1, by rw [hr.1.taskQ]; exact hls, fun i hib hio => ?_⟩
            show Kept i (apps gr.1 ++ apps ls) (apps (g.out ++ gr.2)) w2.stuck
            rw [apps_append]
            rcases h.cov i hib hio with hp | ha | ⟨hstk, _⟩
            · rw [hg] at hp
              rcases List.mem_append.1 hp with hp | hp
              · rcases hv.2.1 i hp with h1 | h1 | h1
                · exact .inl (List.mem_append_left _ h1)
                · exact .inr (.inl h1)
                · exact .inr (.inr h1)
              · rcases mem_apps_cons.1 hp with hp | hp
                · rcases hv.2.2 i hp with ⟨m, hm⟩ | h1 | h1
                  · obtain ⟨r, hr1, hr2⟩ := hl i hp
                    rw [hm] at hr1
                    cases hr1
                    exact absurd hr2 (hq0 i hio m)
                  · exact .inl (List.mem_append_left _ h1)
                  · exact .inr (.inl h1)
                · exact .inl (List.mem_append_right _ hp)
            · exact .inr (.inl (List.mem_append_left _ ha))
            · rw [hns] at hstk; cases hstk
          split
          · exact hi2
          · apply gRunTasks_ninv Ow reqs b hq0 fuel
            · split
              · exact hG2.of_fields (fr_kill w2 k).taskQ (fr_kill w2 k).retryQ
              · exact hG2
            · split
              · exact ⟨hi2.rel, hi2.tsk, hi2.cov⟩
              · exact hi2

theorem loopReact_ninv {Ow : Nat → Prop} {reqs : List Req} {w : World} {g : Gh} {b : Nat}
    (h : NInv Ow reqs w g b) : NInv Ow reqs (loopReact w) g b := by
  unfold loopReact
  split
  · split
    · exact h
    · split
      · exact ⟨h.rel, h.tsk, h.cov⟩
      · exact ⟨h.rel, h.tsk, h.cov⟩
  · exact h

theorem progress_ninv {Ow : Nat → Prop} {reqs : List Req} {w : World} {g : Gh} {b : Nat}
    (hq0 : ∀ i, Ow i → ∀ m, reqs[i]? ≠ some (.pub m 0)) (hG : GInv w g b) (h : NInv Ow reqs w g b) :
    NInv Ow reqs (progress w) (gProgress w g) b :=
  loopReact_ninv (gRunTasks_ninv Ow reqs b hq0 _ w g hG h)

/-! ### `stuck` along an event -/

theorem deliverInbound_stuck (w : World) (k m qos : Nat) : (deliverInbound w k m qos).stuck = w.stuck := by
  unfold deliverInbound
  simp only
  split
  · rfl
  · split <;> split <;> rfl

theorem foldl_deliverInbound_stuck (k : Nat) : ∀ (l : List (Nat × Nat)) (w : World),
    (l.foldl (fun w (mq : Nat × Nat) => deliverInbound w k mq.1 mq.2) w).stuck = w.stuck
  | [], _ => rfl
  | mq :: rest, w => by
    simp only [List.foldl_cons]
    exact (foldl_deliverInbound_stuck k rest _).trans (deliverInbound_stuck w k mq.1 mq.2)

theorem connectFailed_stuck (w : World) (k : Nat) : (connectFailed w k).stuck = w.stuck := by
  unfold connectFailed
  simp only
  split <;> rfl

theorem connackMid_stuck (w : World) (sp : Bool) (inbound : List (Nat × Nat)) (k : Nat) :
    (C03.connackMid w sp inbound k).stuck = w.stuck := by
  unfold C03.connackMid
  exact foldl_deliverInbound_stuck k inbound _

theorem connackPre_stuck (w : World) (sp : Bool) (k : Nat) : (connackPre w sp k).stuck = w.stuck := by
  unfold connackPre
  simp only
  split <;> split <;> rfl

theorem loopReact_stuck (w : World) : (loopReact w).stuck = w.stuck := by
  unfold loopReact
  split
  · split
    · rfl
    · split <;> rfl
  · rfl

/-- an event changes `stuck` only through the turn it gives to the task goroutine -/
theorem step_stuck (w : World) (e : Ev) :
    (preProgress w e = none → (step w e).stuck = w.stuck) ∧
    (∀ w1, preProgress w e = some w1 → w1.stuck = w.stuck ∧ (step w e).stuck = (progress w1).stuck) := by
  cases e with
  | start =>
    refine ⟨fun _ => ?_, fun w1 h => ?_⟩
    · simp only [step]
      split
      · rfl
      · split
        · split <;> rfl
        · rfl
    · cases h
  | app r =>
    by_cases hs : w.stopped = true
    · refine ⟨fun _ => ?_, fun w1 h => ?_⟩
      · simp only [step, hs, if_true]
      · simp [preProgress, hs] at h
    · refine ⟨fun h => ?_, fun w1 h => ?_⟩
      · simp [preProgress, hs] at h
      · simp only [preProgress, hs, Bool.false_eq_true, if_false, Option.some.injEq] at h
        subst h
        refine ⟨rfl, ?_⟩
        simp only [step, hs, Bool.false_eq_true, if_false]
  | dialOk idStart =>
    by_cases hph : w.phase = .dialGate
    · by_cases hc : w.ctxCancelled = true ∧ w.connectReturned.isNone = true
      · -- (deaf dialer) the dead connection of a cancelled first Connect: the task goroutine gets a turn
        refine ⟨fun h => ?_, fun w1 h => ?_⟩
        · simp only [preProgress, hph, ne_eq, not_true_eq_false, if_false] at h
          rw [if_pos hc] at h
          cases h
        · simp only [preProgress, hph, ne_eq, not_true_eq_false, if_false] at h
          rw [if_pos hc] at h
          simp only [Option.some.injEq] at h
          subst h
          refine ⟨rfl, ?_⟩
          simp only [step, hph, ne_eq, not_true_eq_false, if_false]
          rw [if_pos hc]
          rfl
      · refine ⟨fun _ => ?_, fun w1 h => ?_⟩
        · simp only [step, hph, ne_eq, not_true_eq_false, if_false]
          rw [if_neg hc]
        · simp only [preProgress, hph, ne_eq, not_true_eq_false, if_false] at h
          rw [if_neg hc] at h
          cases h
    · refine ⟨fun _ => ?_, fun w1 h => ?_⟩
      · simp only [step, hph, ne_eq, not_false_eq_true, if_true]
      · simp only [preProgress, hph, ne_eq, not_false_eq_true, if_true] at h
        cases h
  | dialFail =>
    refine ⟨fun _ => ?_, fun w1 h => ?_⟩
    · simp only [step]
      split
      · rfl
      · split
        · rfl
        · split <;> rfl
    · cases h
  | waitElapsed =>
    refine ⟨fun _ => ?_, fun w1 h => ?_⟩
    · simp only [step]
      split <;> rfl
    · cases h
  | inbound m qos =>
    refine ⟨fun _ => ?_, fun w1 h => ?_⟩
    · simp only [step]
      split
      · exact deliverInbound_stuck w _ m qos
      · rfl
    · cases h
  | handle hd =>
    refine ⟨fun _ => ?_, fun w1 h => ?_⟩
    · simp only [step]
      split <;> rfl
    · cases h
  | cancelCtx =>
    by_cases hc : w.ctxCancelled = true ∨ w.connectReturned.isSome = true
    · refine ⟨fun _ => ?_, fun w1 h => ?_⟩
      · simp only [step, hc, if_true]
      · simp only [preProgress, hc, if_true] at h
        cases h
    · cases hph : w.phase with
      | connackGate k =>
        refine ⟨fun h => ?_, fun w1 h => ?_⟩
        · simp only [preProgress, hc, hph, if_false] at h
          cases h
        · simp only [preProgress, hc, hph, if_false, Option.some.injEq] at h
          subst h
          refine ⟨rfl, ?_⟩
          simp only [step, hc, hph, if_false]
      | idle =>
        refine ⟨fun _ => ?_, fun w1 h => ?_⟩
        · simp only [step, hc, hph, if_false]
        · simp only [preProgress, hc, hph, if_false] at h
          cases h
      | backoff =>
        refine ⟨fun _ => ?_, fun w1 h => ?_⟩
        · simp only [step, hc, hph, if_false]
        · simp only [preProgress, hc, hph, if_false] at h
          cases h
      | dialGate =>
        refine ⟨fun _ => ?_, fun w1 h => ?_⟩
        · simp only [step, hc, hph, if_false]
          split <;> rfl
        · simp only [preProgress, hc, hph, if_false] at h
          cases h
      | up k =>
        refine ⟨fun _ => ?_, fun w1 h => ?_⟩
        · simp only [step, hc, hph, if_false]
        · simp only [preProgress, hc, hph, if_false] at h
          cases h
      | exited =>
        refine ⟨fun _ => ?_, fun w1 h => ?_⟩
        · simp only [step, hc, hph, if_false]
        · simp only [preProgress, hc, hph, if_false] at h
          cases h
  | connackOk sp inbound =>
    cases hph : w.phase with
    | connackGate k =>
      refine ⟨fun h => ?_, fun w1 h => ?_⟩
      · simp only [preProgress, hph] at h
        cases h
      · simp only [preProgress, hph, Option.some.injEq] at h
        subst h
        refine ⟨(connackPre_stuck _ sp k).trans (connackMid_stuck w sp inbound k), ?_⟩
        simp only [step, hph]
        rfl
    | _ =>
      refine ⟨fun _ => ?_, fun w1 h => ?_⟩
      · simp only [step, hph]
      · simp only [preProgress, hph] at h
        cases h
  | connackRefused =>
    cases hph : w.phase with
    | connackGate k =>
      refine ⟨fun h => ?_, fun w1 h => ?_⟩
      · simp only [preProgress, hph] at h
        cases h
      · simp only [preProgress, hph, Option.some.injEq] at h
        subst h
        refine ⟨connectFailed_stuck w k, ?_⟩
        simp only [step, hph]
    | _ =>
      refine ⟨fun _ => ?_, fun w1 h => ?_⟩
      · simp only [step, hph]
      · simp only [preProgress, hph] at h
        cases h
  | connackNever =>
    cases hph : w.phase with
    | connackGate k =>
      by_cases hct : w.cfg.connectTimeout = true
      · refine ⟨fun h => ?_, fun w1 h => ?_⟩
        · simp only [preProgress, hph, hct, if_true] at h
          cases h
        · simp only [preProgress, hph, hct, if_true, Option.some.injEq] at h
          subst h
          refine ⟨connectFailed_stuck w k, ?_⟩
          simp only [step, hph, hct, if_true]
      · refine ⟨fun _ => ?_, fun w1 h => ?_⟩
        · simp only [step, hph, hct, Bool.false_eq_true, if_false]
        · simp only [preProgress, hph, hct, Bool.false_eq_true, if_false] at h
          cases h
    | _ =>
      refine ⟨fun _ => ?_, fun w1 h => ?_⟩
      · simp only [step, hph]
      · simp only [preProgress, hph] at h
        cases h
  | peerClose =>
    cases hph : w.phase with
    | up k =>
      refine ⟨fun h => ?_, fun w1 h => ?_⟩
      · simp only [preProgress, hph] at h
        cases h
      · simp only [preProgress, hph, Option.some.injEq] at h
        subst h
        refine ⟨rfl, ?_⟩
        simp only [step, hph]
    | _ =>
      refine ⟨fun _ => ?_, fun w1 h => ?_⟩
      · simp only [step, hph]
      · simp only [preProgress, hph] at h
        cases h
  | disconnect =>
    by_cases hs : w.stopped = true
    · refine ⟨fun _ => ?_, fun w1 h => ?_⟩
      · simp only [step, hs, if_true]
      · simp [preProgress, hs] at h
    · refine ⟨fun h => ?_, fun w1 h => ?_⟩
      · simp [preProgress, hs] at h
      · simp only [preProgress, hs, Bool.false_eq_true, if_false, Option.some.injEq] at h
        subst h
        refine ⟨rfl, ?_⟩
        simp only [step, hs, Bool.false_eq_true, if_false]
        split <;> rfl

/-! ### one event, the whole run -/

theorem all2_replicate_none (reqs : List Req) : ∀ (ts : List Task),
    All2 (TaskIs reqs) (List.replicate ts.length none) ts
  | [] => .nil
  | t :: rest => by
    rw [List.length_cons, List.replicate_succ]
    exact .cons (fun i hi => by cases hi) (all2_replicate_none reqs rest)

theorem Kept.stuck_eq {i : Nat} {P A : List Nat} {s s' : Bool} (h : Kept i P A s) (hs : s' = s) : Kept i P A s' :=
  hs ▸ h

/-- the world and ghost on which an event lets the task goroutine run satisfy the order invariant -/
theorem pre_ginv {w w1 : World} {g : Gh} {n : Nat} {e : Ev} {ts : List Task} (h : GInv w g n)
    (hrq : w1.retryQ = w.retryQ) (htq : w1.taskQ = w.taskQ ++ ts) (hts : PushedOk e ts) :
    GInv w1 { g with tq := g.tq ++ List.replicate ts.length (evLab n e) } (nextIdx n e) := by
  have hmono : n ≤ nextIdx n e := by cases e <;> simp [nextIdx]
  refine ⟨?_, ?_, by rw [hrq]; exact h.lenR⟩
  · show Core (apps g.out) (apps g.rq ++ apps (g.tq ++ _)) _
    by_cases he : ∃ r, e = .app r
    · obtain ⟨r, rfl⟩ := he
      rw [hts.1 r rfl]
      simp only [List.length_singleton, List.replicate_one, apps_append, apps_single, Option.toList_some,
        nextIdx, evLab, ← List.append_assoc]
      exact h.core.push (Nat.le_refl _)
    · have : evLab n e = none := by
        cases e <;> first | rfl | exact absurd ⟨_, rfl⟩ he
      rw [this, apps_append, apps_replicate_none, List.append_nil]
      exact h.core.mono hmono
  · show (g.tq ++ _).length = _
    rw [htq]; simp [h.lenT]

theorem gStep_ninv {Ow : Nat → Prop} {reqs : List Req} {w : World} {g : Gh} {n : Nat} (e : Ev)
    (hq0 : ∀ i, Ow i → ∀ m, reqs[i]? ≠ some (.pub m 0)) (hG : GInv w g n) (h : NInv Ow reqs w g n)
    (hreq : ∀ r, e = .app r → reqs[n]? = some r) (hacc : ∀ r, e = .app r → Ow n → w.stopped = false) :
    NInv Ow reqs (step w e) (gStep w g n e) (nextIdx n e) := by
  unfold gStep
  have hst := step_stuck w e
  have hidx : ∀ i, i < nextIdx n e → i < n ∨ (i = n ∧ ∃ r, e = .app r) := by
    intro i hi
    cases e <;> simp only [nextIdx] at hi <;> first | exact .inl hi | skip
    rename_i r
    by_cases h' : i < n
    · exact .inl h'
    · exact .inr ⟨by omega, r, rfl⟩
  rcases step_pre w e with ⟨hpre, hp⟩ | ⟨w1, ts, hpre, hs, hrq, htq, hts, _⟩
  · have hstk := hst.1 hpre
    rw [hpre]
    refine ⟨by rw [hp.2.1]; exact h.rel, by rw [hp.1]; exact h.tsk, fun i hi hio => ?_⟩
    rcases hidx i hi with hi | ⟨rfl, r, rfl⟩
    · exact (h.cov i hi hio).stuck_eq hstk
    · have := hacc r rfl hio
      simp [preProgress, this] at hpre
  · obtain ⟨hstk1, hstk2⟩ := hst.2 w1 hpre
    rw [hpre]
    simp only
    have hlen : w1.taskQ.length - w.taskQ.length = ts.length := by rw [htq]; simp
    rw [hlen]
    have hpush : All2 (TaskIs reqs) (List.replicate ts.length (evLab n e)) ts := by
      by_cases he : ∃ r, e = .app r
      · obtain ⟨r, rfl⟩ := he
        rw [hts.1 r rfl]
        refine .single ?_
        intro i hi
        simp only [evLab, Option.some.injEq] at hi
        subst hi
        exact ⟨r, rfl, hreq r rfl⟩
      · have : evLab n e = none := by
          cases e <;> first | rfl | exact absurd ⟨_, rfl⟩ he
        rw [this]
        exact all2_replicate_none reqs ts
    have hG1 := pre_ginv hG hrq htq hts
    have h1 : NInv Ow reqs w1 { g with tq := g.tq ++ List.replicate ts.length (evLab n e) } (nextIdx n e) := by
      refine ⟨by rw [hrq]; exact h.rel, by rw [htq]; exact h.tsk.append hpush, fun i hi hio => ?_⟩
      show Kept i (apps g.rq ++ apps (g.tq ++ _)) (apps g.out) w1.stuck
      rw [apps_append, ← List.append_assoc]
      rcases hidx i hi with hi | ⟨rfl, r, rfl⟩
      · rcases h.cov i hi hio with h' | h' | h'
        · exact .inl (List.mem_append_left _ h')
        · exact .inr (.inl h')
        · exact .inr (.inr ⟨hstk1.trans h'.1, h'.2⟩)
      · refine .inl (List.mem_append_right _ ?_)
        rw [hts.1 r rfl]
        simp [evLab, apps]
    have h2 := progress_ninv hq0 hG1 h1
    exact ⟨by rw [hs.2.1]; exact h2.rel, by rw [hs.1]; exact h2.tsk,
      fun i hi hio => (h2.cov i hi hio).stuck_eq hstk2⟩

/-- the submission indices (position among the `.app` events, from `n`) of the requests that are
    accepted: submitted while the client is not stopped (the API returns nil) -/
def accRun : List Ev → World → Nat → List Nat
  | [], _, _ => []
  | e :: rest, w, n =>
    (match e with
      | .app _ => if w.stopped then [] else [n]
      | _ => []) ++ accRun rest (step w e) (nextIdx n e)

theorem accRun_ge : ∀ (evs : List Ev) (w : World) (n : Nat), ∀ i ∈ accRun evs w n, n ≤ i
  | [], _, _, i, hi => by simp [accRun] at hi
  | e :: rest, w, n, i, hi => by
    have hmono : n ≤ nextIdx n e := by cases e <;> simp [nextIdx]
    simp only [accRun, List.mem_append] at hi
    rcases hi with hi | hi
    · split at hi
      · split at hi
        · simp at hi
        · simp at hi; omega
      · simp at hi
    · exact Nat.le_trans hmono (accRun_ge rest _ _ i hi)

theorem gRun_ninv (Ow : Nat → Prop) (reqs : List Req) (hq0 : ∀ i, Ow i → ∀ m, reqs[i]? ≠ some (.pub m 0)) :
    ∀ (evs : List Ev) (w : World) (g : Gh) (n : Nat), GInv w g n → NInv Ow reqs w g n →
    (∀ j r, (appReqs evs)[j]? = some r → reqs[n + j]? = some r) →
    (∀ i, n ≤ i → Ow i → i ∈ accRun evs w n) →
    ∃ b, GInv (evs.foldl step w) (gRun evs w g n) b ∧ NInv Ow reqs (evs.foldl step w) (gRun evs w g n) b
  | [], _, _, n, hG, h, _, _ => ⟨n, hG, h⟩
  | e :: rest, w, g, n, hG, h, hr, hO => by
    simp only [List.foldl_cons, gRun]
    by_cases he : ∃ r, e = .app r
    · obtain ⟨r, rfl⟩ := he
      have hacc : ∀ r', Ev.app r = .app r' → Ow n → w.stopped = false := by
        intro _ _ hio
        have hm := hO n (Nat.le_refl _) hio
        simp only [accRun, List.mem_append] at hm
        rcases hm with hm | hm
        · split at hm
          · simp at hm
          · rename_i hs; simpa using hs
        · have := accRun_ge rest _ _ n hm
          simp only [nextIdx] at this
          omega
      refine gRun_ninv Ow reqs hq0 rest _ _ _ (gStep_inv _ hG)
        (gStep_ninv _ hq0 hG h (fun r' hr' => ?_) hacc) (fun j r' hj => ?_) (fun i hi hio => ?_)
      · cases hr'
        exact hr 0 r rfl
      · have := hr (j + 1) r' (by rw [appReqs_cons_app]; simpa using hj)
        simp only [nextIdx]
        rw [show n + 1 + j = n + (j + 1) by omega]; exact this
      · simp only [nextIdx] at hi ⊢
        have hm := hO i (by omega) hio
        simp only [accRun, List.mem_append] at hm
        rcases hm with hm | hm
        · split at hm
          · simp at hm
          · simp at hm; omega
        · exact hm
    · have he' : ∀ r, e ≠ .app r := fun r hr => he ⟨r, hr⟩
      have hn : nextIdx n e = n := by cases e <;> first | rfl | exact absurd rfl (he' _)
      refine gRun_ninv Ow reqs hq0 rest _ _ _ (gStep_inv _ hG)
        (gStep_ninv _ hq0 hG h (fun r' hr' => absurd hr' (he' r')) (fun r' hr' => absurd hr' (he' r')))
        (fun j r' hj => ?_) (fun i hi hio => ?_)
      · rw [hn]
        exact hr j r' (by rw [appReqs_cons_other e rest he']; exact hj)
      · rw [hn] at hi ⊢
        have hm := hO i hi hio
        simp only [accRun, List.mem_append] at hm
        rcases hm with hm | hm
        · cases e <;> first | (simp at hm; done) | exact absurd rfl (he' _)
        · rw [hn] at hm; exact hm

/-- the submission indices of the accepted requests of the run -/
def acceptedIdx (s : Script) : List Nat := accRun s.evs (init s) 0

/-- request number `i` of the script is owed a transmission: it was accepted and it is not a QoS 0
    publish (which the client may drop while requests are waiting for a retry) -/
def Owed (s : Script) (i : Nat) : Prop := i ∈ acceptedIdx s ∧ ∀ m, (appReqs s.evs)[i]? ≠ some (.pub m 0)

theorem gExec_ninv (s : Script) :
    ∃ b, GInv (exec s) (gExec s) b ∧ NInv (Owed s) (appReqs s.evs) (exec s) (gExec s) b :=
  gRun_ninv (Owed s) (appReqs s.evs) (fun _ hi => hi.2) s.evs (init s) {} 0 (init_ginv s)
    ⟨.nil, .nil, fun i hi => absurd hi (Nat.not_lt_zero i)⟩ (fun j r hj => by simpa using hj)
    (fun i _ hio => hio.1)

/-- No request is skipped: when request `j` has been attempted on the wire, every owed request
    (accepted, not a QoS 0 publish) submitted before it has been attempted too. -/
theorem no_skip (s : Script) (i j : Nat) (hj : j ∈ apps (gExec s).out) (hi : Owed s i) (hij : i < j) :
    i ∈ apps (gExec s).out := by
  obtain ⟨b, hG, hN⟩ := gExec_ninv s
  rcases hN.cov i (Nat.lt_trans hij (hG.core.attB j hj)) hi with h | h | h
  · have := hG.core.le j hj i h; omega
  · exact h
  · have := h.2 j hj; omega

/-! ### the accepted requests, read off the script: those submitted before the first Disconnect -/

theorem progress_stopped (w : World) : (progress w).stopped = w.stopped :=
  (loopReact_stopped _).trans (frame_runTasks _ w).stopped

theorem connackMid_stopped (w : World) (sp : Bool) (inbound : List (Nat × Nat)) (k : Nat) :
    (C03.connackMid w sp inbound k).stopped = w.stopped := by
  unfold C03.connackMid
  exact (frame_foldl_deliverInbound k inbound _).stopped.trans (by simp [setConn])

theorem connackPre_stopped (w : World) (sp : Bool) (k : Nat) : (connackPre w sp k).stopped = w.stopped := by
  unfold connackPre
  simp only
  split <;> split <;> rfl

theorem connectFailed_stopped_eq (w : World) (k : Nat) : (connectFailed w k).stopped = w.stopped := by
  unfold connectFailed
  simp only
  split <;> rfl

/-- only Disconnect stops the client (directly from `step`; of `RetryLoop.lean` only the frame of the task
    goroutine, `frame_runTasks`, and `loopReact_stopped` are used) -/
theorem step_stopped_other (w : World) (e : Ev) (he : e ≠ .disconnect) : (step w e).stopped = w.stopped := by
  cases e with
  | disconnect => exact absurd rfl he
  | start =>
    simp only [step]
    split
    · rfl
    · split
      · split <;> rfl
      · rfl
  | app r =>
    simp only [step]
    split
    · rfl
    · exact progress_stopped _
  | dialOk idStart =>
    simp only [step]
    split
    · rfl
    · split
      · exact progress_stopped _
      · rfl
  | dialFail =>
    simp only [step]
    split
    · rfl
    · split
      · rfl
      · split <;> rfl
  | waitElapsed =>
    simp only [step]
    split <;> rfl
  | cancelCtx =>
    simp only [step]
    split
    · rfl
    · split
      · rfl
      · rfl
      · split <;> rfl
      · exact progress_stopped _
      · rfl
      · rfl
  | connackOk sp inbound =>
    cases hph : w.phase with
    | connackGate k =>
      have hst : step w (.connackOk sp inbound) = progress (connackPre (C03.connackMid w sp inbound k) sp k) := by
        simp only [step, hph]; rfl
      rw [hst, progress_stopped, connackPre_stopped, connackMid_stopped]
    | _ => simp only [step, hph]
  | connackRefused =>
    simp only [step]
    split
    · exact (progress_stopped _).trans (connectFailed_stopped_eq w _)
    · rfl
  | connackNever =>
    simp only [step]
    split
    · split
      · exact (progress_stopped _).trans (connectFailed_stopped_eq w _)
      · rfl
    · rfl
  | peerClose =>
    simp only [step]
    split
    · exact progress_stopped _
    · rfl
  | inbound m qos =>
    simp only [step]
    split
    · exact (frame_deliverInbound w _ m qos).stopped
    · rfl
  | handle hd =>
    simp only [step]
    split <;> rfl

theorem step_stopped_disconnect (w : World) : (step w .disconnect).stopped = true := by
  simp only [step]
  split
  · rename_i hs; exact hs
  · have h1 : (progress { pushTask w .disconnect with stopped := true }).stopped = true := progress_stopped _
    generalize progress { pushTask w .disconnect with stopped := true } = w2 at h1
    split <;> exact h1

theorem step_stopped_keep (w : World) (e : Ev) (h : w.stopped = true) : (step w e).stopped = true := by
  by_cases he : e = .disconnect
  · subst he; exact step_stopped_disconnect w
  · rw [step_stopped_other w e he]; exact h

/-- the submission indices of the `.app` events before the first `.disconnect` event -/
def beforeDisconnect : List Ev → Nat → List Nat
  | [], _ => []
  | e :: rest, n =>
    match e with
    | .disconnect => []
    | .app _ => n :: beforeDisconnect rest (n + 1)
    | _ => beforeDisconnect rest n

theorem accRun_stopped : ∀ (evs : List Ev) (w : World) (n : Nat), w.stopped = true → accRun evs w n = []
  | [], _, _, _ => rfl
  | e :: rest, w, n, h => by
    simp only [accRun]
    rw [accRun_stopped rest _ _ (step_stopped_keep w e h)]
    cases e <;> simp [h]

theorem accRun_eq : ∀ (evs : List Ev) (w : World) (n : Nat), w.stopped = false →
    accRun evs w n = beforeDisconnect evs n
  | [], _, _, _ => rfl
  | e :: rest, w, n, h => by
    simp only [accRun, beforeDisconnect]
    by_cases he : e = .disconnect
    · subst he
      rw [accRun_stopped rest _ _ (step_stopped_disconnect w)]
      rfl
    · have h' : (step w e).stopped = false := by rw [step_stopped_other w e he]; exact h
      rw [accRun_eq rest _ _ h']
      cases e <;> first | rfl | (simp [h, nextIdx]; done) | exact absurd rfl he

/-- a request is accepted iff it is submitted before the first Disconnect -/
theorem acceptedIdx_eq (s : Script) : acceptedIdx s = beforeDisconnect s.evs 0 :=
  accRun_eq s.evs (init s) 0 rfl

theorem accRun_sorted : ∀ (evs : List Ev) (w : World) (n : Nat), (accRun evs w n).Pairwise (· < ·)
  | [], _, _ => by simp [accRun]
  | e :: rest, w, n => by
    simp only [accRun]
    rw [List.pairwise_append]
    refine ⟨?_, accRun_sorted rest _ _, ?_⟩
    · cases e <;> first | exact List.Pairwise.nil | (dsimp only; split <;> simp)
    · intro a ha c hc
      have hge := accRun_ge rest _ _ c hc
      cases e <;> simp at ha
      simp only [nextIdx] at hge; omega

/-! ### the first transmissions of the owed requests are an initial segment of the owed requests -/

def notQos0 (reqs : List Req) (i : Nat) : Bool :=
  match reqs[i]? with
  | some (.pub _ 0) => false
  | _ => true

/-- the submission indices of the requests that are owed a transmission, in submission order -/
def owedIdx (s : Script) : List Nat := (acceptedIdx s).filter (notQos0 (appReqs s.evs))

theorem notQos0_iff (reqs : List Req) (i : Nat) : notQos0 reqs i = true ↔ ∀ m, reqs[i]? ≠ some (.pub m 0) := by
  unfold notQos0
  split
  · rename_i m h
    simp only [Bool.false_eq_true, false_iff]
    exact fun hh => hh m h
  · rename_i h
    simp only [true_iff]
    exact fun m hm => h m hm

theorem mem_owedIdx (s : Script) (i : Nat) : i ∈ owedIdx s ↔ Owed s i := by
  unfold owedIdx Owed
  rw [List.mem_filter, notQos0_iff]

theorem owedIdx_sorted (s : Script) : (owedIdx s).Pairwise (· < ·) :=
  (accRun_sorted s.evs (init s) 0).sublist List.filter_sublist

theorem firsts_mem {x : Nat} : ∀ {l : List Nat}, x ∈ l → x ∈ firsts l
  | y :: ys, h => by
    simp only [firsts, List.mem_cons, List.mem_filter]
    by_cases hxy : x = y
    · exact .inl hxy
    · rcases List.mem_cons.1 h with h | h
      · exact absurd h hxy
      · exact .inr ⟨firsts_mem h, by simpa using hxy⟩

/-- a strictly increasing list that is downward closed inside another one is an initial segment of it -/
theorem prefix_of_downclosed : ∀ (L O : List Nat), O.Pairwise (· < ·) → L.Pairwise (· < ·) →
    (∀ x ∈ L, x ∈ O) → (∀ x ∈ L, ∀ y ∈ O, y < x → y ∈ L) → L = O.take L.length
  | [], _, _, _, _, _ => by simp
  | x :: L', O, hO, hL, hsub, hdc => by
    cases O with
    | nil => exact absurd (hsub x List.mem_cons_self) (by simp)
    | cons o O' =>
      rw [List.pairwise_cons] at hO hL
      have hox : o = x := by
        rcases List.mem_cons.1 (hsub x List.mem_cons_self) with h | h
        · exact h.symm
        · have hlt := hO.1 x h
          rcases List.mem_cons.1 (hdc x List.mem_cons_self o List.mem_cons_self hlt) with h' | h'
          · exact h'
          · have := hL.1 o h'; omega
      subst hox
      have ih := prefix_of_downclosed L' O' hO.2 hL.2
        (fun y hy => by
          rcases List.mem_cons.1 (hsub y (List.mem_cons_of_mem _ hy)) with h | h
          · have := hL.1 y hy; omega
          · exact h)
        (fun y hy z hz hzy => by
          rcases List.mem_cons.1 (hdc y (List.mem_cons_of_mem _ hy) z (List.mem_cons_of_mem _ hz) hzy) with h | h
          · have := hO.1 z hz; omega
          · exact h)
      simp only [List.length_cons, List.take_succ_cons]
      rw [← ih]

/-- Listed in the order of their first transmission, the owed requests that have been attempted are
    exactly the first `k` owed requests in submission order, for some `k`: none is skipped. -/
theorem owed_first_transmissions_prefix (s : Script) :
    ∃ k, (firsts (apps (gExec s).out)).filter (· ∈ owedIdx s) = (owedIdx s).take k := by
  refine ⟨_, prefix_of_downclosed _ _ (owedIdx_sorted s)
    ((firsts_pairwise_lt (gatt_sorted s)).sublist List.filter_sublist) ?_ ?_⟩
  · intro x hx
    simpa using (List.mem_filter.1 hx).2
  · intro x hx y hy hyx
    have hx' := mem_firsts (List.mem_filter.1 hx).1
    have := no_skip s y x hx' ((mem_owedIdx s y).1 hy) hyx
    exact List.mem_filter.2 ⟨firsts_mem this, by simpa using hy⟩

end Mqtt.C03
