/-
  Helpers for C10 (second half): packets written under `muWrite` are never interleaved.
  Everything here is about `MqttVerif/Model/Interleave.lean`; the headline theorems are in
  `MqttVerif/Props/C10f.lean`.
-/
import MqttVerif.Model.Interleave

namespace Mqtt.Interleave

/-! ## The four kinds of scheduler step -/

/-- `step` either does nothing, or is an acquire, a chunk write, or a release, each with an
explicit description of the successor state. -/
theorem step_cases (s : St) (i : Nat) :
    step s i = s ∨
    (∃ t p ps, s.threads[i]? = some t ∧ t.cur = none ∧ t.todo = p :: ps ∧ s.holder = none ∧
      step s i = { threads := s.threads.set i { todo := ps, cur := some p }, holder := some i,
                   out := s.out, started := s.started ++ [p] }) ∨
    (∃ t c rest, s.threads[i]? = some t ∧ t.cur = some (c :: rest) ∧ s.holder = some i ∧
      step s i = { threads := s.threads.set i { todo := t.todo, cur := some rest }, holder := some i,
                   out := s.out ++ c, started := s.started }) ∨
    (∃ t, s.threads[i]? = some t ∧ t.cur = some [] ∧ s.holder = some i ∧
      step s i = { threads := s.threads.set i { todo := t.todo, cur := none }, holder := none,
                   out := s.out, started := s.started }) := by
  unfold step
  cases hti : s.threads[i]? with
  | none => exact Or.inl rfl
  | some t =>
    obtain ⟨todo, cur⟩ := t
    cases cur with
    | none =>
      cases todo with
      | nil => exact Or.inl rfl
      | cons p ps =>
        cases hh : s.holder with
        | some j => left; simp
        | none =>
          right; left
          exact ⟨_, p, ps, rfl, rfl, rfl, rfl, by simp [setThread, hh]⟩
    | some l =>
      cases l with
      | nil =>
        by_cases hh : s.holder = some i
        · right; right; right
          exact ⟨_, rfl, rfl, hh, by simp [setThread, hh]⟩
        · left; simp [hh]
      | cons c rest =>
        by_cases hh : s.holder = some i
        · right; right; left
          exact ⟨_, c, rest, rfl, rfl, hh, by simp [setThread, hh]⟩
        · left; simp [hh]

theorem run_nil (s : St) : run s [] = s := rfl
theorem run_cons (s : St) (i : Nat) (sched : List Nat) : run s (i :: sched) = run (step s i) sched := rfl
theorem run_append (s : St) (a b : List Nat) : run s (a ++ b) = run (run s a) b := by
  simp [run, List.foldl_append]
theorem run_snoc (s : St) (sched : List Nat) (i : Nat) : run s (sched ++ [i]) = step (run s sched) i := by
  simp [run]

/-- induction principle: a property of the initial state preserved by every step holds after every schedule -/
theorem run_induct {P : St → Prop} {s : St} (h0 : P s) (hstep : ∀ s i, P s → P (step s i))
    (sched : List Nat) : P (run s sched) := by
  induction sched generalizing s with
  | nil => exact h0
  | cons i rest ih => exact ih (hstep _ _ h0)

/-! ## Mutual exclusion -/

/-- the lock is held by `j` exactly when `j` is inside its write -/
def Mutex (s : St) : Prop := ∀ j t, s.threads[j]? = some t → (t.cur.isSome ↔ s.holder = some j)

theorem mutex_init (ths : List (List Packet)) : Mutex (init ths) := by
  intro j t h
  simp only [init, List.getElem?_map] at h
  cases hj : ths[j]? with
  | none => simp [hj] at h
  | some ps =>
    simp [hj] at h
    subst h
    simp [init]

theorem mutex_step (s : St) (i : Nat) (h : Mutex s) : Mutex (step s i) := by
  rcases step_cases s i with he | ⟨t, p, ps, hti, hc, htd, hh, he⟩ | ⟨t, c, rest, hti, hc, hh, he⟩ | ⟨t, hti, hc, hh, he⟩
  · rw [he]; exact h
  · rw [he]
    intro j u hu
    simp only [List.getElem?_set] at hu
    by_cases hij : i = j
    · subst hij
      simp only [if_true] at hu
      split at hu
      · cases hu; simp
      · cases hu
    · simp only [hij, if_false] at hu
      have := h j u hu
      rw [hh] at this
      have hne : ¬ (some i = some j) := by simpa using hij
      simp only [hne, iff_false]
      simpa using this
  · rw [he]
    intro j u hu
    simp only [List.getElem?_set] at hu
    by_cases hij : i = j
    · subst hij
      simp only [if_true] at hu
      split at hu
      · cases hu; simp
      · cases hu
    · simp only [hij, if_false] at hu
      have := h j u hu
      rw [hh] at this
      exact this
  · rw [he]
    intro j u hu
    simp only [List.getElem?_set] at hu
    by_cases hij : i = j
    · subst hij
      simp only [if_true] at hu
      split at hu
      · cases hu; simp
      · cases hu
    · simp only [hij, if_false] at hu
      have := h j u hu
      rw [hh] at this
      have hne : ¬ (some i = some j) := by simpa using hij
      simp only [hne, iff_false] at this
      simp only [reduceCtorEq, iff_false]
      exact this

theorem mutex_run (ths : List (List Packet)) (sched : List Nat) : Mutex (run (init ths) sched) :=
  run_induct (mutex_init ths) mutex_step sched

/-! ## Framing -/

/-- The framing invariant in its strongest form: with the lock free the transport holds exactly the
started packets; with the lock held by `i`, thread `i` exists, is inside a write, the last started
packet is its packet, and the transport holds all earlier packets plus the part of that packet that
is no longer pending. -/
def Framing (s : St) : Prop :=
  match s.holder with
  | none => s.out = (s.started.map flat).flatten
  | some i => ∃ t rest done p pre, s.threads[i]? = some t ∧ t.cur = some rest ∧
      s.started = done ++ [p] ∧ flat p = pre ++ rest.flatten ∧ s.out = (done.map flat).flatten ++ pre

theorem framing_init (ths : List (List Packet)) : Framing (init ths) := by
  simp [Framing, init]

theorem framing_step (s : St) (i : Nat) (h : Framing s) : Framing (step s i) := by
  rcases step_cases s i with he | ⟨t, p, ps, hti, hc, htd, hh, he⟩ | ⟨t, c, rest, hti, hc, hh, he⟩ | ⟨t, hti, hc, hh, he⟩
  · rw [he]; exact h
  · rw [he]
    simp only [Framing, hh] at h
    simp only [Framing]
    have hlt : i < s.threads.length := by
      rcases Nat.lt_or_ge i s.threads.length with h1 | h1
      · exact h1
      · rw [List.getElem?_eq_none h1] at hti; cases hti
    refine ⟨_, p, s.started, p, [], List.getElem?_set_self hlt, rfl, rfl, ?_, ?_⟩
    · simp [flat]
    · simp [h]
  · rw [he]
    simp only [Framing, hh] at h
    obtain ⟨t', rest', done, p, pre, ht', hc', hst, hfp, hout⟩ := h
    rw [hti] at ht'; cases ht'
    rw [hc] at hc'; cases hc'
    simp only [Framing]
    have hlt : i < s.threads.length := by
      rcases Nat.lt_or_ge i s.threads.length with h1 | h1
      · exact h1
      · rw [List.getElem?_eq_none h1] at hti; cases hti
    refine ⟨_, rest, done, p, pre ++ c, List.getElem?_set_self hlt, rfl, hst, ?_, ?_⟩
    · rw [hfp]; simp
    · rw [hout]; simp
  · rw [he]
    simp only [Framing, hh] at h
    obtain ⟨t', rest', done, p, pre, ht', hc', hst, hfp, hout⟩ := h
    rw [hti] at ht'; cases ht'
    rw [hc] at hc'; cases hc'
    simp only [Framing]
    rw [hout, hst]
    simp only [List.flatten_nil, List.append_nil] at hfp
    simp [hfp]

theorem framing_run (ths : List (List Packet)) (sched : List Nat) : Framing (run (init ths) sched) :=
  run_induct (framing_init ths) framing_step sched

/-! ## Ghost log: which thread started which packet -/

/-- a state together with the log of `(thread, packet)` pairs in lock-acquisition order -/
abbrev GSt := St × List (Nat × Packet)

/-- `step`, additionally recording who acquired the lock for which packet -/
def stepG (g : GSt) (i : Nat) : GSt :=
  match g.1.threads[i]? with
  | none => g
  | some t =>
    match t.cur with
    | some _ => (step g.1 i, g.2)
    | none =>
      match t.todo with
      | [] => g
      | p :: _ => if g.1.holder.isNone then (step g.1 i, g.2 ++ [(i, p)]) else g

def runG (g : GSt) (sched : List Nat) : GSt := sched.foldl stepG g

/-- packets of thread `i` in the ghost log, in acquisition order -/
def startedBy (log : List (Nat × Packet)) (i : Nat) : List Packet :=
  (log.filter (fun e => e.1 == i)).map Prod.snd

/-- `stepG` is an acquire (with the log extended by `(i, p)`) or leaves the log alone; the state
component is always `step`. -/
theorem stepG_cases (g : GSt) (i : Nat) :
    (stepG g i = (step g.1 i, g.2) ∧
      (step g.1 i = g.1 ∨
       (∃ t c rest, g.1.threads[i]? = some t ∧ t.cur = some (c :: rest) ∧ g.1.holder = some i ∧
          step g.1 i = { threads := g.1.threads.set i { todo := t.todo, cur := some rest }, holder := some i,
                         out := g.1.out ++ c, started := g.1.started }) ∨
       (∃ t, g.1.threads[i]? = some t ∧ t.cur = some [] ∧ g.1.holder = some i ∧
          step g.1 i = { threads := g.1.threads.set i { todo := t.todo, cur := none }, holder := none,
                         out := g.1.out, started := g.1.started }))) ∨
    (∃ t p ps, g.1.threads[i]? = some t ∧ t.cur = none ∧ t.todo = p :: ps ∧ g.1.holder = none ∧
      stepG g i = (step g.1 i, g.2 ++ [(i, p)]) ∧
      step g.1 i = { threads := g.1.threads.set i { todo := ps, cur := some p }, holder := some i,
                     out := g.1.out, started := g.1.started ++ [p] }) := by
  obtain ⟨s, log⟩ := g
  rcases step_cases s i with he | ⟨t, p, ps, hti, hc, htd, hh, he⟩ | ⟨t, c, rest, hti, hc, hh, he⟩ | ⟨t, hti, hc, hh, he⟩
  · left
    refine ⟨?_, Or.inl he⟩
    simp only [stepG]
    cases hti : s.threads[i]? with
    | none => simp [he]
    | some t =>
      obtain ⟨todo, cur⟩ := t
      cases cur with
      | some l => rfl
      | none =>
        cases todo with
        | nil => simp [he]
        | cons p ps =>
          cases hh : s.holder with
          | some j => simp [he]
          | none =>
            -- impossible: an acquire changes `started`
            exfalso
            have : (step s i).started = s.started ++ [p] := by
              simp [step, hti, hh]
            rw [he] at this
            simpa using congrArg List.length this
  · right
    refine ⟨t, p, ps, hti, hc, htd, hh, ?_, he⟩
    simp [stepG, hti, hc, htd, hh]
  · left
    refine ⟨?_, Or.inr (Or.inl ⟨t, c, rest, hti, hc, hh, he⟩)⟩
    simp [stepG, hti, hc]
  · left
    refine ⟨?_, Or.inr (Or.inr ⟨t, hti, hc, hh, he⟩)⟩
    simp [stepG, hti, hc]

/-- refinement, one step: the ghost log does not influence the state -/
theorem stepG_fst (g : GSt) (i : Nat) : (stepG g i).1 = step g.1 i := by
  rcases stepG_cases g i with ⟨h, _⟩ | ⟨_, _, _, _, _, _, _, h, _⟩ <;> rw [h]

/-- refinement: `runG` computes exactly `run` on the state component, whatever the log -/
theorem runG_fst (g : GSt) (sched : List Nat) : (runG g sched).1 = run g.1 sched := by
  induction sched generalizing g with
  | nil => rfl
  | cons i rest ih =>
    show (runG (stepG g i) rest).1 = run (step g.1 i) rest
    rw [ih, stepG_fst]

theorem runG_induct {P : GSt → Prop} {g : GSt} (h0 : P g) (hstep : ∀ g i, P g → P (stepG g i))
    (sched : List Nat) : P (runG g sched) := by
  induction sched generalizing g with
  | nil => exact h0
  | cons i rest ih => exact ih (hstep _ _ h0)

/-- invariant behind (4) -/
def Order (ths : List (List Packet)) (g : GSt) : Prop :=
  g.2.map Prod.snd = g.1.started ∧
  g.1.threads.length = ths.length ∧
  ∀ j t, g.1.threads[j]? = some t → ∃ orig, ths[j]? = some orig ∧ startedBy g.2 j ++ t.todo = orig

theorem order_init (ths : List (List Packet)) : Order ths (init ths, []) := by
  refine ⟨rfl, by simp [init], ?_⟩
  intro j t h
  simp only [init, List.getElem?_map] at h
  cases hj : ths[j]? with
  | none => simp [hj] at h
  | some ps =>
    simp [hj] at h
    subst h
    exact ⟨ps, rfl, by simp [startedBy]⟩

private theorem order_keep (ths : List (List Packet)) (s : St) (log : List (Nat × Packet)) (i : Nat)
    (t : Thread) (c : Option (List Bytes)) (o : Bytes) (hd : Option Nat)
    (hti : s.threads[i]? = some t) (h : Order ths (s, log)) :
    Order ths ({ threads := s.threads.set i { todo := t.todo, cur := c }, holder := hd, out := o,
                 started := s.started }, log) := by
  obtain ⟨h1, h2, h3⟩ := h
  refine ⟨h1, by simpa using h2, ?_⟩
  intro j u hu
  simp only [List.getElem?_set] at hu
  by_cases hij : i = j
  · subst hij
    simp only [if_true] at hu
    split at hu
    · cases hu; exact h3 i t hti
    · cases hu
  · simp only [hij, if_false] at hu
    exact h3 j u hu

theorem order_step (ths : List (List Packet)) (g : GSt) (i : Nat) (h : Order ths g) :
    Order ths (stepG g i) := by
  obtain ⟨s, log⟩ := g
  rcases stepG_cases (s, log) i with ⟨hg, he | ⟨t, c, rest, hti, hc, hh, he⟩ | ⟨t, hti, hc, hh, he⟩⟩ |
      ⟨t, p, ps, hti, hc, htd, hh, hg, he⟩
  · rw [hg, he]; exact h
  · rw [hg, he]; exact order_keep ths s log i t _ _ _ hti h
  · rw [hg, he]; exact order_keep ths s log i t _ _ _ hti h
  · rw [hg, he]
    obtain ⟨h1, h2, h3⟩ := h
    simp only at h1 h2 h3
    refine ⟨by simp [h1], by simpa using h2, ?_⟩
    intro j u hu
    simp only [List.getElem?_set] at hu
    by_cases hij : i = j
    · subst hij
      simp only [if_true] at hu
      split at hu
      · cases hu
        obtain ⟨orig, ho, hEq⟩ := h3 i t hti
        refine ⟨orig, ho, ?_⟩
        rw [htd] at hEq
        simp only [startedBy, List.filter_append, List.map_append] at hEq ⊢
        simp [← hEq]
      · cases hu
    · simp only [hij, if_false] at hu
      obtain ⟨orig, ho, hEq⟩ := h3 j u hu
      refine ⟨orig, ho, ?_⟩
      have : (i == j) = false := by simpa using hij
      simp only [startedBy, List.filter_append, List.map_append] at hEq ⊢
      simp [this, hEq]

theorem order_run (ths : List (List Packet)) (sched : List Nat) :
    Order ths (runG (init ths, []) sched) :=
  runG_induct (order_init ths) (order_step ths) sched

/-! ## The discipline without the lock -/

/-- `step` with every `holder` test removed: a thread may start, continue and finish a write while
another thread is mid-packet (`holder` is still updated, but nobody looks at it) -/
def stepNoLock (s : St) (i : Nat) : St :=
  match s.threads[i]? with
  | none => s
  | some t =>
    match t.cur with
    | some [] => { setThread s i { t with cur := none } with holder := none }
    | some (c :: rest) => { setThread s i { t with cur := some rest } with out := s.out ++ c }
    | none =>
      match t.todo with
      | [] => s
      | p :: ps =>
        { setThread s i { todo := ps, cur := some p } with holder := some i, started := s.started ++ [p] }

def runNoLock (s : St) (sched : List Nat) : St := sched.foldl stepNoLock s

/-- "`out` is a concatenation of the whole packets `started`, except that the last one may be only
partly written" -- the conclusion of `prefix_of_whole_packets`, as a predicate -/
def Framed (started : List Packet) (out : Bytes) : Prop :=
  ∃ done cur, started = done ++ cur ∧ cur.length ≤ 1 ∧
    ∃ pre, out = (done.map flat).flatten ++ pre ∧ (∀ p ∈ cur, pre <+: flat p) ∧ (cur = [] → pre = [])

/-- executable version of `Framed`: try every split point -/
def framedB (started : List Packet) (out : Bytes) : Bool :=
  (List.range (started.length + 1)).any fun k =>
    let w := ((started.take k).map flat).flatten
    decide ((started.drop k).length ≤ 1) && w.isPrefixOf out &&
      (started.drop k).all (fun p => (out.drop w.length).isPrefixOf (flat p)) &&
      (!(started.drop k).isEmpty || (out.drop w.length).isEmpty)

theorem framed_iff_framedB (started : List Packet) (out : Bytes) :
    Framed started out ↔ framedB started out = true := by
  constructor
  · rintro ⟨done, cur, hst, hlen, pre, hout, hpre, hnil⟩
    simp only [framedB, List.any_eq_true, List.mem_range]
    refine ⟨done.length, by rw [hst]; simp; omega, ?_⟩
    have htake : started.take done.length = done := by rw [hst]; simp
    have hdrop : started.drop done.length = cur := by rw [hst]; simp
    simp only [htake, hdrop, Bool.and_eq_true, decide_eq_true_eq, List.all_eq_true, Bool.or_eq_true,
      Bool.not_eq_true', List.isPrefixOf_iff_prefix, List.isEmpty_iff]
    have hd : out.drop ((done.map flat).flatten).length = pre := by rw [hout]; simp
    rw [hd]
    refine ⟨⟨⟨hlen, ?_⟩, hpre⟩, ?_⟩
    · rw [hout]; exact List.prefix_append _ _
    · cases cur with
      | nil => right; exact hnil rfl
      | cons a b => left; rfl
  · intro h
    simp only [framedB, List.any_eq_true, List.mem_range] at h
    obtain ⟨k, _, hk⟩ := h
    simp only [Bool.and_eq_true, decide_eq_true_eq, List.all_eq_true, Bool.or_eq_true,
      Bool.not_eq_true', List.isPrefixOf_iff_prefix, List.isEmpty_iff] at hk
    obtain ⟨⟨⟨hlen, hw⟩, hall⟩, hlast⟩ := hk
    refine ⟨started.take k, started.drop k, (List.take_append_drop k started).symm, hlen,
      out.drop (((started.take k).map flat).flatten).length, ?_, hall, ?_⟩
    · obtain ⟨r, hr⟩ := hw
      rw [← hr]; simp
    · intro hc
      rcases hlast with h1 | h1
      · rw [hc] at h1; cases h1
      · exact h1

instance (started : List Packet) (out : Bytes) : Decidable (Framed started out) :=
  decidable_of_iff _ (framed_iff_framedB started out).symm

end Mqtt.Interleave
