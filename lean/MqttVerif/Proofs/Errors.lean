/-
  Helper lemmas about the error-chain model (Model/Errors.lean) for property C19.
-/
import MqttVerif.Model.Errors

namespace Mqtt

/-- identities that are visible only as the embedded `*Error` of an `errorWithRetry` node reachable
    by Unwrap / `Err`-field steps (the library's `Is` walk steps over such a node with `Unwrap`,
    which is promoted from the embedded `*Error` and therefore skips the embedded pointer itself) -/
def E.wids : E → List Nat
  | .leaf _ => []
  | .wrap _ e | .fmtw _ e | .conn _ e | .field _ e => e.wids
  | .retry _ w e => w :: e.wids
  | .rto _ _ => []

theorem E.id_mem_chain (e : E) : e.id ∈ e.chain := by
  cases e <;> simp [E.id, E.chain]

theorem E.id_mem_causes (e : E) : e.id ∈ e.causes := by
  cases e <;> simp [E.id, E.causes]

/-- everything on the Unwrap chain is a cause -/
theorem E.chain_sub_causes (e : E) (t : Nat) (h : t ∈ e.chain) : t ∈ e.causes := by
  induction e with
  | leaf i => simpa [E.chain, E.causes] using h
  | wrap i e ih | fmtw i e ih | conn i e ih =>
    simp only [E.chain, E.causes, List.mem_cons] at h ⊢
    rcases h with h | h
    · exact Or.inl h
    · exact Or.inr (ih h)
  | retry i w e ih =>
    simp only [E.chain, E.causes, List.mem_cons] at h ⊢
    rcases h with h | h
    · exact Or.inl h
    · exact Or.inr (Or.inr (ih h))
  | rto i e _ => simpa [E.chain, E.causes] using h
  | field i e _ =>
    simp only [E.chain, E.causes, List.mem_cons, List.not_mem_nil, or_false] at h ⊢
    exact Or.inl h

/-- the library's `Is` walk only reports causes -/
theorem E.walk_sound (e : E) (t : Nat) (h : e.walk t = true) : t ∈ e.causes := by
  induction e with
  | leaf i => simp [E.walk] at h; simp [E.causes, h]
  | wrap i e ih | fmtw i e ih | conn i e ih | field i e ih =>
    simp only [E.walk, Bool.or_eq_true, decide_eq_true_eq] at h
    simp only [E.causes, List.mem_cons]
    rcases h with h | h
    · exact Or.inl h.symm
    · exact Or.inr (ih h)
  | retry i w e ih =>
    simp only [E.walk, Bool.or_eq_true, decide_eq_true_eq] at h
    simp only [E.causes, List.mem_cons]
    rcases h with h | h
    · exact Or.inl h.symm
    · exact Or.inr (Or.inr (ih h))
  | rto i e _ => simp [E.walk] at h; simp [E.causes, h]

/-- the library's `Is` walk finds every cause except possibly the embedded pointers of retry nodes -/
theorem E.walk_complete (e : E) (t : Nat) (h : t ∈ e.causes) (hn : t ∉ e.wids) : e.walk t = true := by
  induction e with
  | leaf i => simp [E.causes] at h; simp [E.walk, h]
  | wrap i e ih | fmtw i e ih | conn i e ih | field i e ih =>
    simp only [E.causes, List.mem_cons] at h
    simp only [E.wids] at hn
    simp only [E.walk, Bool.or_eq_true, decide_eq_true_eq]
    rcases h with h | h
    · exact Or.inl h.symm
    · exact Or.inr (ih h hn)
  | retry i w e ih =>
    simp only [E.causes, List.mem_cons] at h
    simp only [E.wids, List.mem_cons, not_or] at hn
    simp only [E.walk, Bool.or_eq_true, decide_eq_true_eq]
    rcases h with h | h | h
    · exact Or.inl h.symm
    · exact absurd h hn.1
    · exact Or.inr (ih h hn.2)
  | rto i e _ => simp [E.causes] at h; simp [E.walk, h]

/-- the walk finds everything on the Unwrap chain -/
theorem E.walk_chain (e : E) (t : Nat) (h : t ∈ e.chain) : e.walk t = true := by
  induction e with
  | leaf i => simp [E.chain] at h; simp [E.walk, h]
  | wrap i e ih | fmtw i e ih | conn i e ih | retry i w e ih =>
    simp only [E.chain, List.mem_cons] at h
    simp only [E.walk, Bool.or_eq_true, decide_eq_true_eq]
    rcases h with h | h
    · exact Or.inl h.symm
    · exact Or.inr (ih h)
  | rto i e _ => simp [E.chain] at h; simp [E.walk, h]
  | field i e _ => simp [E.chain] at h; simp [E.walk, h]

theorem stdIs_sound (e : E) (t : Nat) (h : stdIs e t = true) : t ∈ e.causes := by
  induction e with
  | leaf i => simp [stdIs] at h; simp [E.causes, h]
  | wrap i e ih =>
    simp only [stdIs, libIs, Bool.or_eq_true, decide_eq_true_eq] at h
    simp only [E.causes, List.mem_cons]
    rcases h with (h | h | h) | h
    · exact Or.inl h.symm
    · exact Or.inl h.symm
    · exact Or.inr (E.walk_sound e t h)
    · exact Or.inr (ih h)
  | retry i w e ih =>
    simp only [stdIs, libIs, Bool.or_eq_true, decide_eq_true_eq] at h
    simp only [E.causes, List.mem_cons]
    rcases h with (h | h | h) | h
    · exact Or.inl h.symm
    · exact Or.inr (Or.inl h.symm)
    · exact Or.inr (Or.inr (E.walk_sound e t h))
    · exact Or.inr (Or.inr (ih h))
  | fmtw i e ih | conn i e ih =>
    simp only [stdIs, Bool.or_eq_true, decide_eq_true_eq] at h
    simp only [E.causes, List.mem_cons]
    rcases h with h | h
    · exact Or.inl h.symm
    · exact Or.inr (ih h)
  | rto i e _ => simp [stdIs] at h; simp [E.causes, h]
  | field i e _ => simp [stdIs] at h; simp [E.causes, h]

theorem stdIs_complete (e : E) (t : Nat) (h : t ∈ e.chain) : stdIs e t = true := by
  induction e with
  | leaf i => simp [E.chain] at h; simp [stdIs, h]
  | wrap i e ih | retry i w e ih =>
    simp only [E.chain, List.mem_cons] at h
    simp only [stdIs, libIs, Bool.or_eq_true, decide_eq_true_eq]
    rcases h with h | h
    · exact Or.inl (Or.inl h.symm)
    · exact Or.inr (ih h)
  | fmtw i e ih | conn i e ih =>
    simp only [E.chain, List.mem_cons] at h
    simp only [stdIs, Bool.or_eq_true, decide_eq_true_eq]
    rcases h with h | h
    · exact Or.inl h.symm
    · exact Or.inr (ih h)
  | rto i e _ => simp [E.chain] at h; simp [stdIs, h]
  | field i e _ => simp [E.chain] at h; simp [stdIs, h]

/-- what `wrapError` does to a non-nil, non-EOF error -/
theorem wrapError_some (e : E) (n : Nat) (h : e ≠ .leaf eofId) :
    wrapError (some e) n = some (.wrap n e) := by
  cases e with
  | leaf i =>
    have hi : i ≠ eofId := fun hi => h (by rw [hi])
    simp [wrapError, hi]
  | _ => rfl

theorem wrapErrorWithRetry_some (e : E) (n m : Nat) (h : e ≠ .leaf eofId) :
    wrapErrorWithRetry (some e) n m = some (.retry n m e) := by
  simp [wrapErrorWithRetry, wrapError_some e m h]

end Mqtt
