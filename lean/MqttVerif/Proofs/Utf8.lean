/-
  Helper lemmas relating the model of Go's `[]rune(string(b))` / `string(rs)` (`Model/Utf8.lean`)
  to the Unicode specification of well-formed UTF-8 (`Spec/Utf8Spec.lean`):
    * bit operations as arithmetic,
    * `decodeRune` / `encodeRune` on one well-formed sequence,
    * fuel independence of `decodeRunesFuel`,
    * `decodeRunes` / `encodeRunes` on a concatenation,
    * the converse: `decodeRune` either reads a well-formed sequence or yields U+FFFD of width 1, so
      only well-formed strings survive the round trip.
-/
import MqttVerif.Spec.Utf8Spec
import MqttVerif.Model.Utf8

namespace Mqtt.Utf8

open Mqtt.Spec

/-! ### bit operations as arithmetic -/

theorem and1F (b : Nat) : b &&& 0x1F = b % 32 := Nat.and_two_pow_sub_one_eq_mod b 5
theorem and0F (b : Nat) : b &&& 0x0F = b % 16 := Nat.and_two_pow_sub_one_eq_mod b 4
theorem and07 (b : Nat) : b &&& 0x07 = b % 8 := Nat.and_two_pow_sub_one_eq_mod b 3
theorem and3F (b : Nat) : b &&& 0x3F = b % 64 := Nat.and_two_pow_sub_one_eq_mod b 6

theorem shl6 (x : Nat) : x <<< 6 = x * 64 := by simp [Nat.shiftLeft_eq]
theorem shl12 (x : Nat) : x <<< 12 = x * 4096 := by simp [Nat.shiftLeft_eq]
theorem shl18 (x : Nat) : x <<< 18 = x * 262144 := by simp [Nat.shiftLeft_eq]

theorem shr6 (x : Nat) : x >>> 6 = x / 64 := by simp [Nat.shiftRight_eq_div_pow]
theorem shr12 (x : Nat) : x >>> 12 = x / 4096 := by simp [Nat.shiftRight_eq_div_pow]
theorem shr18 (x : Nat) : x >>> 18 = x / 262144 := by simp [Nat.shiftRight_eq_div_pow]

/-- `|||` of a multiple of `2^k` with something below `2^k` is `+` -/
theorem mul_or (x c k : Nat) (h : c < 2 ^ k) : x * 2 ^ k ||| c = x * 2 ^ k + c := by
  rw [← Nat.shiftLeft_eq, Nat.shiftLeft_add_eq_or_of_lt h]

theorem or64 (x c : Nat) (h : c < 64) : x * 64 ||| c = x * 64 + c := mul_or x c 6 h
theorem or4096 (x c : Nat) (h : c < 4096) : x * 4096 ||| c = x * 4096 + c := mul_or x c 12 h
theorem or262144 (x c : Nat) (h : c < 262144) : x * 262144 ||| c = x * 262144 + c := mul_or x c 18 h

theorem orC0 (c : Nat) (h : c < 32) : 0xC0 ||| c = 192 + c := mul_or 3 c 6 (by omega)
theorem or80 (c : Nat) (h : c < 64) : 0x80 ||| c = 128 + c := mul_or 2 c 6 h
theorem orE0 (c : Nat) (h : c < 16) : 0xE0 ||| c = 224 + c := mul_or 14 c 4 h
theorem orF0 (c : Nat) (h : c < 8) : 0xF0 ||| c = 240 + c := mul_or 30 c 3 h

theorem or3 (a b c : Nat) (hb : b < 64) (hc : c < 64) :
    a * 4096 ||| b * 64 ||| c = a * 4096 + b * 64 + c := by
  rw [or4096 _ _ (by omega), show a * 4096 + b * 64 = (a * 64 + b) * 64 by omega, or64 _ _ hc]

theorem or4 (a b c d : Nat) (hb : b < 64) (hc : c < 64) (hd : d < 64) :
    a * 262144 ||| b * 4096 ||| c * 64 ||| d = a * 262144 + b * 4096 + c * 64 + d := by
  rw [or262144 _ _ (by omega), show a * 262144 + b * 4096 = (a * 64 + b) * 4096 by omega,
    or3 _ _ _ hc hd]

/-- the three assembling expressions of `decodeRune` in arithmetic -/
theorem asm2 (p0 b1 : Nat) : ((p0 &&& 0x1F) <<< 6) ||| (b1 &&& 0x3F) = p0 % 32 * 64 + b1 % 64 := by
  rw [and1F, and3F, shl6, or64 _ _ (Nat.mod_lt _ (by decide))]

theorem asm3 (p0 b1 b2 : Nat) :
    ((p0 &&& 0x0F) <<< 12) ||| ((b1 &&& 0x3F) <<< 6) ||| (b2 &&& 0x3F) =
      p0 % 16 * 4096 + b1 % 64 * 64 + b2 % 64 := by
  rw [and0F, and3F, and3F, shl12, shl6,
    or3 _ _ _ (Nat.mod_lt _ (by decide)) (Nat.mod_lt _ (by decide))]

theorem asm4 (p0 b1 b2 b3 : Nat) :
    ((p0 &&& 0x07) <<< 18) ||| ((b1 &&& 0x3F) <<< 12) ||| ((b2 &&& 0x3F) <<< 6) ||| (b3 &&& 0x3F) =
      p0 % 8 * 262144 + b1 % 64 * 4096 + b2 % 64 * 64 + b3 % 64 := by
  rw [and07, and3F, and3F, and3F, shl18, shl12, shl6,
    or4 _ _ _ _ (Nat.mod_lt _ (by decide)) (Nat.mod_lt _ (by decide)) (Nat.mod_lt _ (by decide))]

/-! ### one well-formed sequence -/

theorem decodeRune_one (b0 : Nat) (rest : Bytes) (h : b0 ≤ 0x7F) :
    decodeRune (b0 :: rest) = (b0, 1) := by
  have : b0 < 0x80 := by omega
  simp [decodeRune, this]

theorem decodeRune_two (b0 b1 : Nat) (rest : Bytes) (h0 : 0xC2 ≤ b0) (h0' : b0 ≤ 0xDF) (h1 : Cont b1) :
    decodeRune (b0 :: b1 :: rest) = (b0 % 32 * 64 + b1 % 64, 2) := by
  obtain ⟨h1, h1'⟩ := h1
  have a1 : ¬ b0 < 0x80 := by omega
  have a2 : ¬ b0 < 0xC2 := by omega
  have a3 : b0 < 0xE0 := by omega
  simp only [decodeRune, a1, a2, a3, if_true, if_false, isCont, asm2]
  simp [h1, h1']

theorem decodeRune_three (b0 b1 b2 : Nat) (rest : Bytes)
    (h : (b0 = 0xE0 ∧ 0xA0 ≤ b1 ∧ b1 ≤ 0xBF) ∨ (0xE1 ≤ b0 ∧ b0 ≤ 0xEC ∧ 0x80 ≤ b1 ∧ b1 ≤ 0xBF) ∨
      (b0 = 0xED ∧ 0x80 ≤ b1 ∧ b1 ≤ 0x9F) ∨ (0xEE ≤ b0 ∧ b0 ≤ 0xEF ∧ 0x80 ≤ b1 ∧ b1 ≤ 0xBF))
    (h2 : Cont b2) :
    decodeRune (b0 :: b1 :: b2 :: rest) = (b0 % 16 * 4096 + b1 % 64 * 64 + b2 % 64, 3) := by
  obtain ⟨h2, h2'⟩ := h2
  have a1 : ¬ b0 < 0x80 := by omega
  have a2 : ¬ b0 < 0xC2 := by omega
  have a3 : ¬ b0 < 0xE0 := by omega
  have a4 : b0 < 0xF0 := by omega
  have lo : (if b0 = 0xE0 then 0xA0 else 0x80) ≤ b1 := by split <;> omega
  have hi : b1 ≤ (if b0 = 0xED then 0x9F else 0xBF) := by split <;> omega
  simp only [decodeRune, a1, a2, a3, a4, if_true, if_false, isCont, asm3]
  simp [lo, hi, h2, h2']

theorem decodeRune_four (b0 b1 b2 b3 : Nat) (rest : Bytes)
    (h : (b0 = 0xF0 ∧ 0x90 ≤ b1 ∧ b1 ≤ 0xBF) ∨ (0xF1 ≤ b0 ∧ b0 ≤ 0xF3 ∧ 0x80 ≤ b1 ∧ b1 ≤ 0xBF) ∨
      (b0 = 0xF4 ∧ 0x80 ≤ b1 ∧ b1 ≤ 0x8F))
    (h2 : Cont b2) (h3 : Cont b3) :
    decodeRune (b0 :: b1 :: b2 :: b3 :: rest) =
      (b0 % 8 * 262144 + b1 % 64 * 4096 + b2 % 64 * 64 + b3 % 64, 4) := by
  obtain ⟨h2, h2'⟩ := h2
  obtain ⟨h3, h3'⟩ := h3
  have a1 : ¬ b0 < 0x80 := by omega
  have a2 : ¬ b0 < 0xC2 := by omega
  have a3 : ¬ b0 < 0xE0 := by omega
  have a4 : ¬ b0 < 0xF0 := by omega
  have a5 : b0 < 0xF5 := by omega
  have lo : (if b0 = 0xF0 then 0x90 else 0x80) ≤ b1 := by split <;> omega
  have hi : b1 ≤ (if b0 = 0xF4 then 0x8F else 0xBF) := by split <;> omega
  simp only [decodeRune, a1, a2, a3, a4, a5, if_true, if_false, isCont, asm4]
  simp [lo, hi, h2, h2', h3, h3']

/-- `decodeRune` reads a well-formed sequence at the front as its scalar value and full width -/
theorem decodeRune_scalarOf (s rest : Bytes) (h : WFSeq s) :
    decodeRune (s ++ rest) = (scalarOf s, s.length) := by
  cases h with
  | one b0 h0 => exact decodeRune_one b0 rest h0
  | two b0 b1 h0 h0' h1 => exact decodeRune_two b0 b1 rest h0 h0' h1
  | three b0 b1 b2 h h2 => exact decodeRune_three b0 b1 b2 rest h h2
  | four b0 b1 b2 b3 h h2 h3 => exact decodeRune_four b0 b1 b2 b3 rest h h2 h3

/-! ### scalar value facts -/

theorem wfseq_length (s : Bytes) (h : WFSeq s) : 1 ≤ s.length ∧ s.length ≤ 4 := by
  cases h <;> simp

theorem wfseq_byte_lt (s : Bytes) (h : WFSeq s) : ∀ b ∈ s, b < 256 := by
  cases h <;> simp only [Cont, List.mem_cons, List.not_mem_nil, or_false] at * <;>
    intro b hb <;> omega

theorem scalarOf_isScalar (s : Bytes) (h : WFSeq s) : IsScalar (scalarOf s) := by
  cases h <;> simp only [IsScalar, scalarOf, Cont] at * <;> omega

theorem scalarOf_eq_zero (s : Bytes) (h : WFSeq s) : scalarOf s = 0 ↔ s = [0] := by
  cases h <;> simp only [scalarOf, Cont] at * <;> simp <;> omega

/-! ### encoding the scalar value gives the sequence back -/

theorem encodeRune_scalarOf (s : Bytes) (h : WFSeq s) : encodeRune (scalarOf s) = s := by
  cases h with
  | one b0 h0 => simp [encodeRune, scalarOf, h0]
  | two b0 b1 h0 h0' h1 =>
    obtain ⟨h1, h1'⟩ := h1
    simp only [scalarOf]
    generalize hr : b0 % 32 * 64 + b1 % 64 = r
    have c1 : ¬ r ≤ 0x7F := by omega
    have c2 : r ≤ 0x7FF := by omega
    simp only [encodeRune, c1, c2, if_true, if_false, shr6, and3F]
    rw [orC0 _ (by omega), or80 _ (by omega)]
    have e0 : 192 + r / 64 = b0 := by omega
    have e1 : 128 + r % 64 = b1 := by omega
    rw [e0, e1]
  | three b0 b1 b2 h h2 =>
    obtain ⟨h2, h2'⟩ := h2
    simp only [scalarOf]
    generalize hr : b0 % 16 * 4096 + b1 % 64 * 64 + b2 % 64 = r
    have c1 : ¬ r ≤ 0x7F := by omega
    have c2 : ¬ r ≤ 0x7FF := by omega
    have c3 : ¬ (r > 0x10FFFF ∨ (0xD800 ≤ r ∧ r ≤ 0xDFFF)) := by omega
    have c4 : r ≤ 0xFFFF := by omega
    simp only [encodeRune, c1, c2, c3, c4, if_true, if_false, shr6, shr12, and3F]
    rw [orE0 _ (by omega), or80 _ (by omega), or80 _ (by omega)]
    have e0 : 224 + r / 4096 = b0 := by omega
    have e1 : 128 + r / 64 % 64 = b1 := by omega
    have e2 : 128 + r % 64 = b2 := by omega
    rw [e0, e1, e2]
  | four b0 b1 b2 b3 h h2 h3 =>
    obtain ⟨h2, h2'⟩ := h2
    obtain ⟨h3, h3'⟩ := h3
    simp only [scalarOf]
    generalize hr : b0 % 8 * 262144 + b1 % 64 * 4096 + b2 % 64 * 64 + b3 % 64 = r
    have c1 : ¬ r ≤ 0x7F := by omega
    have c2 : ¬ r ≤ 0x7FF := by omega
    have c3 : ¬ (r > 0x10FFFF ∨ (0xD800 ≤ r ∧ r ≤ 0xDFFF)) := by omega
    have c4 : ¬ r ≤ 0xFFFF := by omega
    simp only [encodeRune, c1, c2, c3, c4, if_false, shr6, shr12, shr18, and3F]
    rw [orF0 _ (by omega), or80 _ (by omega), or80 _ (by omega), or80 _ (by omega)]
    have e0 : 240 + r / 262144 = b0 := by omega
    have e1 : 128 + r / 4096 % 64 = b1 := by omega
    have e2 : 128 + r / 64 % 64 = b2 := by omega
    have e3 : 128 + r % 64 = b3 := by omega
    rw [e0, e1, e2, e3]

/-! ### fuel independence: any fuel ≥ the length gives the same runes -/

theorem decodeRunesFuel_congr (f : Nat) : ∀ (g : Nat) (b : Bytes), b.length ≤ f → b.length ≤ g →
    decodeRunesFuel f b = decodeRunesFuel g b := by
  induction f with
  | zero =>
    intro g b hf _
    have : b = [] := List.eq_nil_of_length_eq_zero (by omega)
    subst this
    cases g <;> rfl
  | succ f ih =>
    intro g b hf hg
    match b, g, hf, hg with
    | [], 0, _, _ => rfl
    | [], _ + 1, _, _ => rfl
    | p0 :: rest, g + 1, hf, hg =>
      simp only [decodeRunesFuel]
      congr 1
      apply ih <;> simp only [List.length_drop, List.length_cons] at * <;> omega

theorem decodeRunesFuel_eq (f : Nat) (b : Bytes) (h : b.length ≤ f) :
    decodeRunesFuel f b = decodeRunes b :=
  decodeRunesFuel_congr f b.length b h (Nat.le_refl _)

/-! ### strings -/

@[simp] theorem decodeRunes_nil : decodeRunes [] = [] := rfl

theorem decodeRunes_append (s rest : Bytes) (h : WFSeq s) :
    decodeRunes (s ++ rest) = scalarOf s :: decodeRunes rest := by
  have hl := wfseq_length s h
  have hd := decodeRune_scalarOf s rest h
  unfold decodeRunes
  obtain ⟨n, hn⟩ : ∃ n, (s ++ rest).length = n + 1 := ⟨s.length - 1 + rest.length, by simp; omega⟩
  have hne : s ++ rest ≠ [] := by intro e; simp [e] at hn
  rw [hn]
  match hsr : s ++ rest, hne with
  | p0 :: tl, _ =>
    rw [← hsr]
    simp only [decodeRunesFuel, hd]
    rw [show max s.length 1 = s.length by omega, List.drop_left]
    congr 1
    exact decodeRunesFuel_eq n rest (by simp at hn; omega)

@[simp] theorem encodeRunes_nil : encodeRunes [] = [] := rfl

theorem encodeRunes_cons (r : Nat) (rs : List Nat) :
    encodeRunes (r :: rs) = encodeRune r ++ encodeRunes rs := by
  simp [encodeRunes]

/-- the scalar values of a well-formed string, sequence by sequence (specification side) -/
theorem decodeRunes_wellFormed_mem (t : Bytes) (h : WellFormed t) :
    ∀ r ∈ decodeRunes t, IsScalar r ∧ (r = 0 → 0 ∈ t) := by
  induction h with
  | nil => simp
  | cons s rest hs _ ih =>
    rw [decodeRunes_append s rest hs]
    intro r hr
    rcases List.mem_cons.1 hr with rfl | hr
    · refine ⟨scalarOf_isScalar s hs, fun h0 => ?_⟩
      rw [(scalarOf_eq_zero s hs).1 h0]; simp
    · exact ⟨(ih r hr).1, fun h0 => List.mem_append_right _ ((ih r hr).2 h0)⟩

/-! ### converse: what survives the round trip is well-formed -/

theorem ite_false' {α : Type} (c : Bool) (x y : α) (h : c = false) : (if c = true then x else y) = y := by
  simp [h]

theorem decodeRune_dichotomy (p0 : Nat) (rest : Bytes) :
    (∃ s tl, WFSeq s ∧ p0 :: rest = s ++ tl) ∨
    (decodeRune (p0 :: rest) = (runeError, 1) ∧ ¬ ∃ tl, p0 :: rest = 0xEF :: 0xBF :: 0xBD :: tl) := by
  by_cases a1 : p0 < 0x80
  · exact .inl ⟨[p0], rest, .one _ (by omega), rfl⟩
  by_cases a2 : p0 < 0xC2
  · refine .inr ⟨by simp [decodeRune, a1, a2], ?_⟩
    rintro ⟨tl, e⟩; simp at e; omega
  by_cases a3 : p0 < 0xE0
  · match rest with
    | [] =>
      refine .inr ⟨by simp [decodeRune, a1, a2, a3], ?_⟩
      rintro ⟨tl, e⟩; simp at e
    | b1 :: tl =>
      by_cases c : 0x80 ≤ b1 ∧ b1 ≤ 0xBF
      · exact .inl ⟨[p0, b1], tl, .two _ _ (by omega) (by omega) c, rfl⟩
      · refine .inr ⟨?_, ?_⟩
        · simp only [decodeRune, a1, a2, a3, if_true, if_false, isCont]
          simp [c]
        · rintro ⟨tl, e⟩; simp at e; omega
  by_cases a4 : p0 < 0xF0
  · match rest with
    | [] =>
      refine .inr ⟨by simp [decodeRune, a1, a2, a3, a4], ?_⟩
      rintro ⟨tl, e⟩; simp at e
    | [b1] =>
      refine .inr ⟨by simp [decodeRune, a1, a2, a3, a4], ?_⟩
      rintro ⟨tl, e⟩; simp at e
    | b1 :: b2 :: tl =>
      by_cases c : ((if p0 = 0xE0 then 0xA0 else 0x80) ≤ b1 ∧ b1 ≤ (if p0 = 0xED then 0x9F else 0xBF)) ∧
          (0x80 ≤ b2 ∧ b2 ≤ 0xBF)
      · refine .inl ⟨[p0, b1, b2], tl, .three _ _ _ ?_ c.2, rfl⟩
        obtain ⟨⟨c1, c2⟩, _⟩ := c
        split at c1 <;> split at c2 <;> omega
      · refine .inr ⟨?_, ?_⟩
        · simp only [decodeRune, a1, a2, a3, a4, if_true, if_false, isCont]
          apply ite_false'
          simpa [and_assoc] using c
        · rintro ⟨tl, e⟩
          simp only [List.cons.injEq] at e
          obtain ⟨rfl, rfl, rfl, _⟩ := e
          exact c (by decide)
  by_cases a5 : p0 < 0xF5
  · match rest with
    | [] =>
      refine .inr ⟨by simp [decodeRune, a1, a2, a3, a4, a5], ?_⟩
      rintro ⟨tl, e⟩; simp at e
    | [b1] =>
      refine .inr ⟨by simp [decodeRune, a1, a2, a3, a4, a5], ?_⟩
      rintro ⟨tl, e⟩; simp at e
    | [b1, b2] =>
      refine .inr ⟨by simp [decodeRune, a1, a2, a3, a4, a5], ?_⟩
      rintro ⟨tl, e⟩; simp at e; omega
    | b1 :: b2 :: b3 :: tl =>
      by_cases c : ((if p0 = 0xF0 then 0x90 else 0x80) ≤ b1 ∧ b1 ≤ (if p0 = 0xF4 then 0x8F else 0xBF)) ∧
          (0x80 ≤ b2 ∧ b2 ≤ 0xBF) ∧ (0x80 ≤ b3 ∧ b3 ≤ 0xBF)
      · refine .inl ⟨[p0, b1, b2, b3], tl, .four _ _ _ _ ?_ c.2.1 c.2.2, rfl⟩
        obtain ⟨⟨c1, c2⟩, _⟩ := c
        split at c1 <;> split at c2 <;> omega
      · refine .inr ⟨?_, ?_⟩
        · simp only [decodeRune, a1, a2, a3, a4, a5, if_true, if_false, isCont]
          apply ite_false'
          simpa [and_assoc] using c
        · rintro ⟨tl, e⟩; simp at e; omega
  · refine .inr ⟨by simp [decodeRune, a1, a2, a3, a4, a5], ?_⟩
    rintro ⟨tl, e⟩; simp at e; omega

theorem decodeRunes_cons_error (p0 : Nat) (rest : Bytes)
    (h : decodeRune (p0 :: rest) = (runeError, 1)) :
    decodeRunes (p0 :: rest) = runeError :: decodeRunes rest := by
  simp [decodeRunes, decodeRunesFuel, h]

/-- converse: only well-formed UTF-8 survives Go's `string([]rune(·))` unchanged -/
theorem wellFormed_of_roundtrip (n : Nat) : ∀ (t : Bytes), t.length ≤ n →
    encodeRunes (decodeRunes t) = t → WellFormed t := by
  induction n with
  | zero =>
    intro t hl _
    have : t = [] := List.eq_nil_of_length_eq_zero (by omega)
    subst this; exact .nil
  | succ n ih =>
    intro t hl h
    match t, hl, h with
    | [], _, _ => exact .nil
    | p0 :: rest, hl, h =>
      rcases decodeRune_dichotomy p0 rest with ⟨s, tl, hs, e⟩ | ⟨he, hne⟩
      · rw [e] at h hl ⊢
        rw [decodeRunes_append s tl hs, encodeRunes_cons, encodeRune_scalarOf s hs] at h
        have := wfseq_length s hs
        exact .cons s tl hs (ih tl (by simp at hl; omega) (List.append_cancel_left h))
      · rw [decodeRunes_cons_error p0 rest he, encodeRunes_cons] at h
        exact absurd ⟨_, h.symm⟩ hne

end Mqtt.Utf8
