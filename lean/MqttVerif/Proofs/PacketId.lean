/-
  Helper lemmas about the packet identifier counter (uniqid.go) for property C15.
-/
import MqttVerif.Model.Api

namespace Mqtt

/-- `newIDFuel 2` unfolded: at most one retry. -/
theorem newIDFuel_two (c : Nat) :
    newIDFuel 2 c =
      some (if (c + 1) % 4294967296 % 65536 = 0
            then (((c + 1) % 4294967296 + 1) % 4294967296, 1)
            else ((c + 1) % 4294967296, (c + 1) % 4294967296 % 65536)) := by
  simp only [newIDFuel]
  delta u32 u16
  by_cases h : (c + 1) % 4294967296 % 65536 = 0
  · have h2 : ((c + 1) % 4294967296 + 1) % 4294967296 % 65536 = 1 := by omega
    rw [if_pos h, if_pos h, h2]
    simp
  · rw [if_neg h, if_neg h]

/-- `newID` without fuel. -/
theorem newID_eq (c : Nat) :
    newID c =
      if (c + 1) % 4294967296 % 65536 = 0
      then (((c + 1) % 4294967296 + 1) % 4294967296, 1)
      else ((c + 1) % 4294967296, (c + 1) % 4294967296 % 65536) := by
  simp [newID, newIDFuel_two]

/-- the id is the low 16 bits of the counter after the call -/
theorem newID_snd_eq (c : Nat) : (newID c).2 = (newID c).1 % 65536 := by
  rw [newID_eq]; split <;> simp <;> omega

theorem newID_fst_lt (c : Nat) : (newID c).1 < 4294967296 := by
  rw [newID_eq]; split <;> simp <;> omega

theorem newID_snd_pos (c : Nat) : 0 < (newID c).2 := by
  rw [newID_eq]; split <;> simp <;> omega

theorem newID_snd_lt (c : Nat) : (newID c).2 < 65536 := by
  rw [newID_eq]; split <;> simp <;> omega

/-- successor in the cyclic group of the 65535 non-zero identifiers -/
theorem newID_snd_succ (c : Nat) : (newID (newID c).1).2 = (newID c).2 % 65535 + 1 := by
  have h1 := newID_snd_eq c
  have h2 := newID_fst_lt c
  have h3 := newID_snd_pos c
  generalize (newID c).1 = c' at *
  generalize (newID c).2 = i at *
  rw [newID_eq]; split <;> simp <;> omega

theorem idsFrom_succ (c n : Nat) :
    idsFrom c (n + 1) = (newID c).2 :: idsFrom (newID c).1 n := rfl

theorem idsFrom_length (c n : Nat) : (idsFrom c n).length = n := by
  induction n generalizing c with
  | zero => rfl
  | succ n ih => simp [idsFrom_succ, ih]

/-- closed form of the `k`-th issued id -/
theorem idsFrom_getElem? (c n k : Nat) (hk : k < n) :
    (idsFrom c n)[k]? = some (((newID c).2 - 1 + k) % 65535 + 1) := by
  induction n generalizing c k with
  | zero => omega
  | succ n ih =>
    rw [idsFrom_succ]
    have h3 := newID_snd_pos c
    have h4 := newID_snd_lt c
    cases k with
    | zero => simp; omega
    | succ k =>
      rw [List.getElem?_cons_succ, ih _ _ (by omega), newID_snd_succ]
      simp; omega

theorem idsFrom_nodup (c n : Nat) (hn : n ≤ 65535) : (idsFrom c n).Nodup := by
  rw [List.nodup_iff_pairwise_ne, List.pairwise_iff_getElem]
  intro i j hi hj hij
  rw [idsFrom_length] at hi hj
  have e1 := idsFrom_getElem? c n i hi
  have e2 := idsFrom_getElem? c n j hj
  rw [List.getElem?_eq_getElem (by rw [idsFrom_length]; exact hi)] at e1
  rw [List.getElem?_eq_getElem (by rw [idsFrom_length]; exact hj)] at e2
  simp only [Option.some.injEq] at e1 e2
  rw [e1, e2]
  omega

end Mqtt
