/-
  Helper lemmas for the base-client LTS (`MqttVerif/Model/BaseClient.lean`), used by
  Props/C07, Props/C11, Props/C16.

  Layout
    §1  signaller maps, `setPhase`, `push`, `connStateUpdate`, `readerEnds` : field lemmas
    §2  `Step` : a relational, case-by-case presentation of `step`  (`step_rel : Step s e (step s e)`)
    §3  invariants of reachable states: `Sound`, `Live`, `Reg`/`Uniq`, `CbInv`
-/
import MqttVerif.Model.BaseClient

set_option linter.unusedSimpArgs false
set_option linter.unusedVariables false

namespace Mqtt.BC

/-! ## §1 primitives -/

theorem find?_filter_ne (m : List (Nat × Nat)) (id id' : Nat) :
    (m.filter (fun e => e.1 ≠ id)).find? (fun e => e.1 = id') =
      if id' = id then none else m.find? (fun e => e.1 = id') := by
  induction m with
  | nil => simp
  | cons a m ih =>
    simp only [List.filter_cons, List.find?_cons]
    by_cases ha : a.1 = id <;> by_cases hb : a.1 = id' <;> by_cases h : id' = id <;>
      simp_all [List.find?_cons] <;> omega

theorem mapGet_mapSet (m : List (Nat × Nat)) (id i id' : Nat) :
    mapGet (mapSet m id i) id' = if id' = id then some i else mapGet m id' := by
  unfold mapGet mapSet
  rw [List.find?_cons, find?_filter_ne]
  by_cases h : id' = id
  · subst h; simp
  · have h' : ¬ id = id' := fun e => h e.symm
    simp [h, h']

theorem mapGet_mapDel (m : List (Nat × Nat)) (id id' : Nat) :
    mapGet (mapDel m id) id' = if id' = id then none else mapGet m id' := by
  unfold mapGet mapDel
  rw [find?_filter_ne]
  by_cases h : id' = id <;> simp [h]
/-- append a call record -/
def push (s : St) (c : Call) : St := { s with calls := s.calls ++ [c] }

theorem add'_eq_push (s : St) (k : Kind) (id : Nat) (p : Phase) :
    startCall.add' s k id p = push s ⟨k, id, p⟩ := rfl

theorem push_getElem? (s : St) (c : Call) (j : Nat) :
    (push s c).calls[j]? = if j < s.calls.length then s.calls[j]? else if j = s.calls.length then some c else none := by
  unfold push
  simp only [List.getElem?_append]
  split
  · rfl
  · split
    · next h => simp [h]
    · next h1 h2 =>
      have : j - s.calls.length ≠ 0 := by omega
      cases hj : j - s.calls.length with
      | zero => omega
      | succ n => simp

theorem setPhase_getElem? (s : St) (i j : Nat) (p : Phase) :
    (setPhase s i p).calls[j]? = (s.calls[j]?).map (fun c => if j = i then { c with phase := p } else c) := by
  simp [setPhase, List.getElem?_mapIdx]

theorem setPhase_getElem?_ne (s : St) (i j : Nat) (p : Phase) (h : j ≠ i) :
    (setPhase s i p).calls[j]? = s.calls[j]? := by
  rw [setPhase_getElem?]; cases s.calls[j]? <;> simp [h]

theorem setPhase_getElem?_self (s : St) (i : Nat) (p : Phase) :
    (setPhase s i p).calls[i]? = (s.calls[i]?).map (fun c => { c with phase := p }) := by
  rw [setPhase_getElem?]; cases s.calls[i]? <;> simp

@[simp] theorem setPhase_calls_length (s : St) (i : Nat) (p : Phase) :
    (setPhase s i p).calls.length = s.calls.length := by simp [setPhase]

section fields
variable (s : St) (i : Nat) (p : Phase) (c : Call) (n : ConnState)

@[simp] theorem setPhase_inited : (setPhase s i p).inited = s.inited := rfl
@[simp] theorem setPhase_pubAck : (setPhase s i p).pubAck = s.pubAck := rfl
@[simp] theorem setPhase_pubRec : (setPhase s i p).pubRec = s.pubRec := rfl
@[simp] theorem setPhase_pubComp : (setPhase s i p).pubComp = s.pubComp := rfl
@[simp] theorem setPhase_subAck : (setPhase s i p).subAck = s.subAck := rfl
@[simp] theorem setPhase_unsubAck : (setPhase s i p).unsubAck = s.unsubAck := rfl
@[simp] theorem setPhase_connAck : (setPhase s i p).connAck = s.connAck := rfl
@[simp] theorem setPhase_pingResp : (setPhase s i p).pingResp = s.pingResp := rfl
@[simp] theorem setPhase_state : (setPhase s i p).state = s.state := rfl
@[simp] theorem setPhase_err : (setPhase s i p).err = s.err := rfl
@[simp] theorem setPhase_doneClosed : (setPhase s i p).doneClosed = s.doneClosed := rfl
@[simp] theorem setPhase_transportOpen : (setPhase s i p).transportOpen = s.transportOpen := rfl
@[simp] theorem setPhase_writeFails : (setPhase s i p).writeFails = s.writeFails := rfl
@[simp] theorem setPhase_writes : (setPhase s i p).writes = s.writes := rfl
@[simp] theorem setPhase_callbacks : (setPhase s i p).callbacks = s.callbacks := rfl
@[simp] theorem setPhase_inQ2 : (setPhase s i p).inQ2 = s.inQ2 := rfl

@[simp] theorem push_calls : (push s c).calls = s.calls ++ [c] := rfl
@[simp] theorem push_inited : (push s c).inited = s.inited := rfl
@[simp] theorem push_pubAck : (push s c).pubAck = s.pubAck := rfl
@[simp] theorem push_pubRec : (push s c).pubRec = s.pubRec := rfl
@[simp] theorem push_pubComp : (push s c).pubComp = s.pubComp := rfl
@[simp] theorem push_subAck : (push s c).subAck = s.subAck := rfl
@[simp] theorem push_unsubAck : (push s c).unsubAck = s.unsubAck := rfl
@[simp] theorem push_connAck : (push s c).connAck = s.connAck := rfl
@[simp] theorem push_pingResp : (push s c).pingResp = s.pingResp := rfl
@[simp] theorem push_state : (push s c).state = s.state := rfl
@[simp] theorem push_err : (push s c).err = s.err := rfl
@[simp] theorem push_doneClosed : (push s c).doneClosed = s.doneClosed := rfl
@[simp] theorem push_transportOpen : (push s c).transportOpen = s.transportOpen := rfl
@[simp] theorem push_writeFails : (push s c).writeFails = s.writeFails := rfl
@[simp] theorem push_writes : (push s c).writes = s.writes := rfl
@[simp] theorem push_callbacks : (push s c).callbacks = s.callbacks := rfl
@[simp] theorem push_inQ2 : (push s c).inQ2 = s.inQ2 := rfl

/-- the new connection state computed by `connStateUpdate` -/
def nextState (s : St) (n : ConnState) : ConnState := if s.state = .disconnected then .disconnected else n

@[simp] theorem csu_inited : (connStateUpdate s n).inited = s.inited := by unfold connStateUpdate; simp only []; (repeat' split) <;> rfl
@[simp] theorem csu_calls : (connStateUpdate s n).calls = s.calls := by unfold connStateUpdate; simp only []; (repeat' split) <;> rfl
@[simp] theorem csu_pubAck : (connStateUpdate s n).pubAck = s.pubAck := by unfold connStateUpdate; simp only []; (repeat' split) <;> rfl
@[simp] theorem csu_pubRec : (connStateUpdate s n).pubRec = s.pubRec := by unfold connStateUpdate; simp only []; (repeat' split) <;> rfl
@[simp] theorem csu_pubComp : (connStateUpdate s n).pubComp = s.pubComp := by unfold connStateUpdate; simp only []; (repeat' split) <;> rfl
@[simp] theorem csu_subAck : (connStateUpdate s n).subAck = s.subAck := by unfold connStateUpdate; simp only []; (repeat' split) <;> rfl
@[simp] theorem csu_unsubAck : (connStateUpdate s n).unsubAck = s.unsubAck := by unfold connStateUpdate; simp only []; (repeat' split) <;> rfl
@[simp] theorem csu_connAck : (connStateUpdate s n).connAck = s.connAck := by unfold connStateUpdate; simp only []; (repeat' split) <;> rfl
@[simp] theorem csu_pingResp : (connStateUpdate s n).pingResp = s.pingResp := by unfold connStateUpdate; simp only []; (repeat' split) <;> rfl
@[simp] theorem csu_err : (connStateUpdate s n).err = s.err := by unfold connStateUpdate; simp only []; (repeat' split) <;> rfl
@[simp] theorem csu_doneClosed : (connStateUpdate s n).doneClosed = s.doneClosed := by unfold connStateUpdate; simp only []; (repeat' split) <;> rfl
@[simp] theorem csu_transportOpen : (connStateUpdate s n).transportOpen = s.transportOpen := by unfold connStateUpdate; simp only []; (repeat' split) <;> rfl
@[simp] theorem csu_writeFails : (connStateUpdate s n).writeFails = s.writeFails := by unfold connStateUpdate; simp only []; (repeat' split) <;> rfl
@[simp] theorem csu_writes : (connStateUpdate s n).writes = s.writes := by unfold connStateUpdate; simp only []; (repeat' split) <;> rfl
@[simp] theorem csu_inQ2 : (connStateUpdate s n).inQ2 = s.inQ2 := by unfold connStateUpdate; simp only []; (repeat' split) <;> rfl
@[simp] theorem csu_state : (connStateUpdate s n).state = nextState s n := by
  unfold connStateUpdate nextState; simp only []; (repeat' split) <;> rfl
theorem csu_callbacks : (connStateUpdate s n).callbacks =
    if s.state ≠ nextState s n then s.callbacks ++ [(nextState s n, s.err)] else s.callbacks := by
  unfold connStateUpdate nextState; simp only []
  by_cases h1 : s.state = .disconnected <;> by_cases h2 : s.state = n <;> simp [h1, h2]
@[simp] theorem csu_canWrite : canWrite (connStateUpdate s n) = canWrite s := by simp [canWrite]

end fields

/-- what the end of the reader does to one call record -/
def release (c : Call) : Call :=
  match c.phase with
  | .returned _ => c
  | .waitConnAck => { c with phase := .returned (.closed false) }
  | .waitPingResp => { c with phase := .returned (.closed false) }
  | _ => { c with phase := .returned (.closed true) }

/-- the `else` branch of `readerEnds` : the reader goroutine finishes now -/
def endNow (s : St) (e : ErrClass) : St :=
  let s := { s with transportOpen := false }
  let s := if s.state ≠ .disconnected ∧ s.err.isNone then { s with err := some e } else s
  let s := connStateUpdate s .closed
  let s := { s with doneClosed := true }
  { s with calls := s.calls.map release }

theorem readerEnds_eq (s : St) (e : ErrClass) : readerEnds s e = if s.doneClosed then s else endNow s e := by
  unfold readerEnds endNow
  split
  · rfl
  · rfl

theorem readerEnds_of_done (s : St) (e : ErrClass) (h : s.doneClosed = true) : readerEnds s e = s := by
  simp [readerEnds_eq, h]

theorem readerEnds_of_not_done (s : St) (e : ErrClass) (h : s.doneClosed = false) : readerEnds s e = endNow s e := by
  simp [readerEnds_eq, h]

/-- the error stored by `SetErrorOnce` when the reader ends with `e` -/
def endErr (s : St) (e : ErrClass) : Option ErrClass :=
  if s.state ≠ .disconnected ∧ s.err.isNone then some e else s.err

section endNowFields
variable (s : St) (e : ErrClass)
@[simp] theorem endNow_calls : (endNow s e).calls = s.calls.map release := by unfold endNow; simp only []; split <;> simp
@[simp] theorem endNow_inited : (endNow s e).inited = s.inited := by unfold endNow; simp only []; split <;> simp
@[simp] theorem endNow_pubAck : (endNow s e).pubAck = s.pubAck := by unfold endNow; simp only []; split <;> simp
@[simp] theorem endNow_pubRec : (endNow s e).pubRec = s.pubRec := by unfold endNow; simp only []; split <;> simp
@[simp] theorem endNow_pubComp : (endNow s e).pubComp = s.pubComp := by unfold endNow; simp only []; split <;> simp
@[simp] theorem endNow_subAck : (endNow s e).subAck = s.subAck := by unfold endNow; simp only []; split <;> simp
@[simp] theorem endNow_unsubAck : (endNow s e).unsubAck = s.unsubAck := by unfold endNow; simp only []; split <;> simp
@[simp] theorem endNow_connAck : (endNow s e).connAck = s.connAck := by unfold endNow; simp only []; split <;> simp
@[simp] theorem endNow_pingResp : (endNow s e).pingResp = s.pingResp := by unfold endNow; simp only []; split <;> simp
@[simp] theorem endNow_doneClosed : (endNow s e).doneClosed = true := by unfold endNow; simp only []
@[simp] theorem endNow_transportOpen : (endNow s e).transportOpen = false := by unfold endNow; simp only []; split <;> simp
@[simp] theorem endNow_writeFails : (endNow s e).writeFails = s.writeFails := by unfold endNow; simp only []; split <;> simp
@[simp] theorem endNow_writes : (endNow s e).writes = s.writes := by unfold endNow; simp only []; split <;> simp
@[simp] theorem endNow_inQ2 : (endNow s e).inQ2 = s.inQ2 := by unfold endNow; simp only []; split <;> simp
@[simp] theorem endNow_err : (endNow s e).err = endErr s e := by
  unfold endNow endErr; simp only []; split <;> simp
@[simp] theorem endNow_state : (endNow s e).state = nextState s .closed := by
  unfold endNow; simp only []; split <;> simp [nextState]
theorem endNow_callbacks : (endNow s e).callbacks =
    if s.state ≠ nextState s .closed then s.callbacks ++ [(nextState s .closed, endErr s e)] else s.callbacks := by
  unfold endNow endErr; simp only []
  by_cases h1 : s.state = .disconnected <;> by_cases h2 : s.state = .closed <;>
    by_cases h3 : s.err.isNone = true <;> simp [csu_callbacks, nextState, h1, h2, h3]
@[simp] theorem endNow_getElem? (j : Nat) : (endNow s e).calls[j]? = (s.calls[j]?).map release := by simp
end endNowFields

theorem release_not_blocked (c : Call) : blocked (release c) = false := by
  unfold release blocked; cases c with | mk k id ph => cases ph <;> rfl

theorem release_of_returned (c : Call) (h : blocked c = false) : release c = c := by
  unfold release; unfold blocked at h; cases c with | mk k id ph => cases ph <;> simp_all

@[simp] theorem release_kind (c : Call) : (release c).kind = c.kind := by
  unfold release; cases c with | mk k id ph => cases ph <;> rfl
@[simp] theorem release_id (c : Call) : (release c).id = c.id := by
  unfold release; cases c with | mk k id ph => cases ph <;> rfl

theorem release_phase_of_blocked (c : Call) (h : blocked c = true) :
    ∃ r, (release c).phase = .returned (.closed r) := by
  unfold release; unfold blocked at h; cases c with | mk k id ph => cases ph <;> simp_all

/-! ## §2 `step`, case by case -/

/-- the waiter that an inbound packet is addressed to -/
def target (s : St) : In → Option Nat
  | .connack _ _ => s.connAck
  | .puback id => mapGet s.pubAck id
  | .pubrec id => mapGet s.pubRec id
  | .pubcomp id => mapGet s.pubComp id
  | .suback id _ => mapGet s.subAck id
  | .unsuback id => mapGet s.unsubAck id
  | .pingresp => s.pingResp
  | .publish _ _ => none          -- application messages are not addressed to a waiter
  | .pubrel _ => none
  | .malformed => none

/-- lookup-and-delete: the signaller entry is removed when the packet is processed -/
def delTarget (s : St) : In → St
  | .puback id => { s with pubAck := mapDel s.pubAck id }
  | .pubrec id => { s with pubRec := mapDel s.pubRec id }
  | .pubcomp id => { s with pubComp := mapDel s.pubComp id }
  | .suback id _ => { s with subAck := mapDel s.subAck id }
  | .unsuback id => { s with unsubAck := mapDel s.unsubAck id }
  | _ => s

/-- the phase that an acknowledgement ends -/
def expect : In → Phase
  | .connack _ _ => .waitConnAck
  | .puback _ => .waitPubAck
  | .pubrec _ => .waitPubRec
  | .pubcomp _ => .waitPubComp
  | .suback _ _ => .waitSubAck
  | .unsuback _ => .waitUnsubAck
  | .pingresp => .waitPingResp
  | .publish _ _ => .returned .notConnected
  | .pubrel _ => .returned .notConnected
  | .malformed => .returned .notConnected

section delTargetFields
variable (s : St) (p : In)
@[simp] theorem delTarget_calls : (delTarget s p).calls = s.calls := by cases p <;> rfl
@[simp] theorem delTarget_inited : (delTarget s p).inited = s.inited := by cases p <;> rfl
@[simp] theorem delTarget_connAck : (delTarget s p).connAck = s.connAck := by cases p <;> rfl
@[simp] theorem delTarget_pingResp : (delTarget s p).pingResp = s.pingResp := by cases p <;> rfl
@[simp] theorem delTarget_state : (delTarget s p).state = s.state := by cases p <;> rfl
@[simp] theorem delTarget_err : (delTarget s p).err = s.err := by cases p <;> rfl
@[simp] theorem delTarget_doneClosed : (delTarget s p).doneClosed = s.doneClosed := by cases p <;> rfl
@[simp] theorem delTarget_transportOpen : (delTarget s p).transportOpen = s.transportOpen := by cases p <;> rfl
@[simp] theorem delTarget_writeFails : (delTarget s p).writeFails = s.writeFails := by cases p <;> rfl
@[simp] theorem delTarget_writes : (delTarget s p).writes = s.writes := by cases p <;> rfl
@[simp] theorem delTarget_callbacks : (delTarget s p).callbacks = s.callbacks := by cases p <;> rfl
@[simp] theorem delTarget_inQ2 : (delTarget s p).inQ2 = s.inQ2 := by cases p <;> rfl
end delTargetFields

/-! ### inbound application messages (serve.go: PUBLISH / PUBREL are acknowledged by the reader itself) -/

/-- the seven acknowledgement kinds: packets that are addressed to a waiting call -/
def isAck : In → Bool
  | .malformed | .publish _ _ | .pubrel _ => false
  | _ => true

/-- inbound application messages: PUBLISH and PUBREL -/
def isApp : In → Bool
  | .publish _ _ | .pubrel _ => true
  | _ => false

/-- does the reader have to write an acknowledgement for this packet?
    PUBLISH with QoS ≠ 0; PUBREL of an id that is remembered in `inQ2` (serve.go `subBuffer`) -/
def needsAck (s : St) : In → Bool
  | .publish q _ => q != 0
  | .pubrel id => s.inQ2.contains id
  | _ => false

/-- the acknowledgement write of the reader fails: this ends the reader (and so the connection) -/
def ackFails (s : St) (p : In) : Bool := needsAck s p && !canWrite s

/-- the acknowledgement that the MQTT flow prescribes (for a packet with `needsAck`) -/
def appWrites : In → List W
  | .publish q id => if q = 1 then [.puback id] else [.pubrec id]
  | .pubrel id => [.pubcomp id]
  | _ => []

/-- the remembered inbound QoS 2 ids after the packet has been acknowledged -/
def appQ2 (s : St) : In → List Nat
  | .publish q id => if q = 1 then s.inQ2 else id :: s.inQ2.filter (· ≠ id)
  | .pubrel id => s.inQ2.filter (· ≠ id)
  | _ => s.inQ2

/-- the state after the reader has acknowledged an application message -/
def appAcked (s : St) (p : In) : St := { s with writes := s.writes ++ appWrites p, inQ2 := appQ2 s p }

/-- a PUBREL forgets the id before its PUBCOMP is written (serve.go: `delete(subBuffer, id)` first) -/
def appDropped (s : St) : In → St
  | .pubrel id => { s with inQ2 := s.inQ2.filter (· ≠ id) }
  | _ => s

theorem needsAck_isApp {s : St} {p : In} (h : needsAck s p = true) : isApp p = true := by
  cases p <;> first | rfl | (simp [needsAck] at h)

theorem isAck_not_isApp {p : In} (h : isAck p = true) : isApp p = false := by
  cases p <;> first | rfl | (simp [isAck] at h)

theorem isAck_needsAck (s : St) {p : In} (h : isAck p = true) : needsAck s p = false := by
  cases p <;> first | rfl | (simp [isAck] at h)

theorem target_of_isApp (s : St) {p : In} (h : isApp p = true) : target s p = none := by
  cases p <;> first | rfl | (simp [isApp] at h)

theorem needsAck_iff (s : St) (p : In) : needsAck s p = true ↔
    (∃ q id, p = .publish q id ∧ q ≠ 0) ∨ (∃ id, p = .pubrel id ∧ id ∈ s.inQ2) := by
  cases p <;> simp [needsAck]

section appFields
variable (s : St) (p : In)
@[simp] theorem appAcked_calls : (appAcked s p).calls = s.calls := rfl
@[simp] theorem appAcked_inited : (appAcked s p).inited = s.inited := rfl
@[simp] theorem appAcked_pubAck : (appAcked s p).pubAck = s.pubAck := rfl
@[simp] theorem appAcked_pubRec : (appAcked s p).pubRec = s.pubRec := rfl
@[simp] theorem appAcked_pubComp : (appAcked s p).pubComp = s.pubComp := rfl
@[simp] theorem appAcked_subAck : (appAcked s p).subAck = s.subAck := rfl
@[simp] theorem appAcked_unsubAck : (appAcked s p).unsubAck = s.unsubAck := rfl
@[simp] theorem appAcked_connAck : (appAcked s p).connAck = s.connAck := rfl
@[simp] theorem appAcked_pingResp : (appAcked s p).pingResp = s.pingResp := rfl
@[simp] theorem appAcked_state : (appAcked s p).state = s.state := rfl
@[simp] theorem appAcked_err : (appAcked s p).err = s.err := rfl
@[simp] theorem appAcked_doneClosed : (appAcked s p).doneClosed = s.doneClosed := rfl
@[simp] theorem appAcked_transportOpen : (appAcked s p).transportOpen = s.transportOpen := rfl
@[simp] theorem appAcked_writeFails : (appAcked s p).writeFails = s.writeFails := rfl
@[simp] theorem appAcked_callbacks : (appAcked s p).callbacks = s.callbacks := rfl
@[simp] theorem appAcked_writes : (appAcked s p).writes = s.writes ++ appWrites p := rfl
@[simp] theorem appAcked_inQ2 : (appAcked s p).inQ2 = appQ2 s p := rfl

@[simp] theorem appDropped_calls : (appDropped s p).calls = s.calls := by cases p <;> rfl
@[simp] theorem appDropped_inited : (appDropped s p).inited = s.inited := by cases p <;> rfl
@[simp] theorem appDropped_pubAck : (appDropped s p).pubAck = s.pubAck := by cases p <;> rfl
@[simp] theorem appDropped_pubRec : (appDropped s p).pubRec = s.pubRec := by cases p <;> rfl
@[simp] theorem appDropped_pubComp : (appDropped s p).pubComp = s.pubComp := by cases p <;> rfl
@[simp] theorem appDropped_subAck : (appDropped s p).subAck = s.subAck := by cases p <;> rfl
@[simp] theorem appDropped_unsubAck : (appDropped s p).unsubAck = s.unsubAck := by cases p <;> rfl
@[simp] theorem appDropped_connAck : (appDropped s p).connAck = s.connAck := by cases p <;> rfl
@[simp] theorem appDropped_pingResp : (appDropped s p).pingResp = s.pingResp := by cases p <;> rfl
@[simp] theorem appDropped_state : (appDropped s p).state = s.state := by cases p <;> rfl
@[simp] theorem appDropped_err : (appDropped s p).err = s.err := by cases p <;> rfl
@[simp] theorem appDropped_doneClosed : (appDropped s p).doneClosed = s.doneClosed := by cases p <;> rfl
@[simp] theorem appDropped_transportOpen : (appDropped s p).transportOpen = s.transportOpen := by cases p <;> rfl
@[simp] theorem appDropped_writeFails : (appDropped s p).writeFails = s.writeFails := by cases p <;> rfl
@[simp] theorem appDropped_callbacks : (appDropped s p).callbacks = s.callbacks := by cases p <;> rfl
@[simp] theorem appDropped_writes : (appDropped s p).writes = s.writes := by cases p <;> rfl
@[simp] theorem appDropped_canWrite : canWrite (appDropped s p) = canWrite s := by simp [canWrite]
end appFields

/-- registration of the waiter of a new call (index `s.calls.length`) -/
def reg (s : St) (k : Kind) (id : Nat) : St :=
  match k with
  | .connect => { s with inited := true, connAck := some s.calls.length }
  | .pub1 => { s with pubAck := mapSet s.pubAck id s.calls.length }
  | .pub2 => { s with pubRec := mapSet s.pubRec id s.calls.length }
  | .sub _ => { s with subAck := mapSet s.subAck id s.calls.length }
  | .unsub => { s with unsubAck := mapSet s.unsubAck id s.calls.length }
  | .ping => { s with pingResp := some s.calls.length }
  | .disconnect => s

def waitPhase : Kind → Phase
  | .connect => .waitConnAck
  | .pub1 => .waitPubAck
  | .pub2 => .waitPubRec
  | .sub _ => .waitSubAck
  | .unsub => .waitUnsubAck
  | .ping => .waitPingResp
  | .disconnect => .returned .ok

def reqW : Kind → Nat → W
  | .connect, _ => .connect
  | .pub1, id => .publish 1 id
  | .pub2, id => .publish 2 id
  | .sub n, id => .subscribe id n
  | .unsub, id => .unsubscribe id
  | .ping, _ => .pingreq
  | .disconnect, _ => .disconnect

section regFields
variable (s : St) (k : Kind) (id : Nat)
@[simp] theorem reg_calls : (reg s k id).calls = s.calls := by cases k <;> rfl
@[simp] theorem reg_inited : (reg s k id).inited = (s.inited || k == .connect) := by
  cases k <;> simp [reg] <;> rfl
@[simp] theorem reg_state : (reg s k id).state = s.state := by cases k <;> rfl
@[simp] theorem reg_err : (reg s k id).err = s.err := by cases k <;> rfl
@[simp] theorem reg_doneClosed : (reg s k id).doneClosed = s.doneClosed := by cases k <;> rfl
@[simp] theorem reg_transportOpen : (reg s k id).transportOpen = s.transportOpen := by cases k <;> rfl
@[simp] theorem reg_writeFails : (reg s k id).writeFails = s.writeFails := by cases k <;> rfl
@[simp] theorem reg_writes : (reg s k id).writes = s.writes := by cases k <;> rfl
@[simp] theorem reg_callbacks : (reg s k id).callbacks = s.callbacks := by cases k <;> rfl
@[simp] theorem reg_inQ2 : (reg s k id).inQ2 = s.inQ2 := by cases k <;> rfl
@[simp] theorem reg_canWrite : canWrite (reg s k id) = canWrite s := by simp [canWrite]
end regFields

/-- the state right after a successful `Disconnect` wrote its packet and closed the transport -/
def discd (s : St) (id : Nat) : St :=
  { push (connStateUpdate s .disconnected) ⟨.disconnect, id, .returned .ok⟩ with
      writes := (connStateUpdate s .disconnected).writes ++ [.disconnect], transportOpen := false }

/-- the retry flag of the context error, by phase -/
def ctxRetry : Phase → Bool
  | .waitConnAck | .waitPingResp => false
  | _ => true

inductive Step : St → Ev → St → Prop
  | reqOk (s : St) (k : Kind) (id : Nat) :
      k ≠ .disconnect → (k = .connect ∨ s.inited = true) → canWrite s = true →
      Step s (.call k id) (push { reg s k id with writes := s.writes ++ [reqW k id] } ⟨k, id, waitPhase k⟩)
  | reqFail (s : St) (k : Kind) (id : Nat) :
      k ≠ .disconnect → (k = .connect ∨ s.inited = true) → canWrite s = false →
      Step s (.call k id) (push (reg s k id) ⟨k, id, .returned (.writeErr (hasRetry k))⟩)
  | notConnected (s : St) (k : Kind) (id : Nat) :
      k ≠ .disconnect → k ≠ .connect → s.inited = false →
      Step s (.call k id) (push s ⟨k, id, .returned .notConnected⟩)
  | discFail (s : St) (id : Nat) : canWrite s = false →
      Step s (.call .disconnect id)
        (push (connStateUpdate s .disconnected) ⟨.disconnect, id, .returned (.writeErr false)⟩)
  | discOk (s : St) (id : Nat) : canWrite s = true → (s.inited = false ∨ s.doneClosed = true) →
      Step s (.call .disconnect id) (discd s id)
  | discEnd (s : St) (id : Nat) : canWrite s = true → s.inited = true → s.doneClosed = false →
      Step s (.call .disconnect id) (endNow (discd s id) .other)
  | inbIgnored (s : St) (p : In) : (s.doneClosed = true ∨ s.inited = false) → Step s (.inb p) s
  | malformed (s : St) : s.inited = true → s.doneClosed = false →
      Step s (.inb .malformed) (endNow s .invalidPacket)
  | noTarget (s : St) (p : In) : s.inited = true → s.doneClosed = false → isAck p = true →
      target s p = none → Step s (.inb p) s
  -- inbound application messages: nothing to acknowledge / acknowledged / the acknowledgement write fails
  | appNoop (s : St) (p : In) : s.inited = true → s.doneClosed = false → isApp p = true → needsAck s p = false →
      Step s (.inb p) s
  | appOk (s : St) (p : In) : s.inited = true → s.doneClosed = false → needsAck s p = true → canWrite s = true →
      Step s (.inb p) (appAcked s p)
  | appFail (s : St) (p : In) : s.inited = true → s.doneClosed = false → needsAck s p = true → canWrite s = false →
      Step s (.inb p) (endNow (appDropped s p) .other)
  | stale (s : St) (p : In) (i : Nat) : s.inited = true → s.doneClosed = false → target s p = some i →
      (∀ c, s.calls[i]? = some c → c.phase ≠ expect p) → Step s (.inb p) (delTarget s p)
  | connackRefused (s : St) (sp : Bool) (code i : Nat) (c : Call) :
      s.inited = true → s.doneClosed = false → s.connAck = some i → s.calls[i]? = some c →
      c.phase = .waitConnAck → code ≠ 0 →
      Step s (.inb (.connack sp code)) (setPhase s i (.returned (.refused code)))
  | connackOk (s : St) (sp : Bool) (i : Nat) (c : Call) :
      s.inited = true → s.doneClosed = false → s.connAck = some i → s.calls[i]? = some c →
      c.phase = .waitConnAck →
      Step s (.inb (.connack sp 0)) (setPhase (connStateUpdate s .active) i (.returned .ok))
  | puback (s : St) (id i : Nat) (c : Call) :
      s.inited = true → s.doneClosed = false → mapGet s.pubAck id = some i → s.calls[i]? = some c →
      c.phase = .waitPubAck →
      Step s (.inb (.puback id)) (setPhase { s with pubAck := mapDel s.pubAck id } i (.returned .ok))
  | pubrecOk (s : St) (id i : Nat) (c : Call) :
      s.inited = true → s.doneClosed = false → mapGet s.pubRec id = some i → s.calls[i]? = some c →
      c.phase = .waitPubRec → canWrite s = true →
      Step s (.inb (.pubrec id))
        (setPhase { s with pubRec := mapDel s.pubRec id, pubComp := mapSet s.pubComp id i,
                           writes := s.writes ++ [.pubrel id] } i .waitPubComp)
  | pubrecFail (s : St) (id i : Nat) (c : Call) :
      s.inited = true → s.doneClosed = false → mapGet s.pubRec id = some i → s.calls[i]? = some c →
      c.phase = .waitPubRec → canWrite s = false →
      Step s (.inb (.pubrec id))
        (setPhase { s with pubRec := mapDel s.pubRec id, pubComp := mapSet s.pubComp id i } i
          (.returned (.writeErr true)))
  | pubcomp (s : St) (id i : Nat) (c : Call) :
      s.inited = true → s.doneClosed = false → mapGet s.pubComp id = some i → s.calls[i]? = some c →
      c.phase = .waitPubComp →
      Step s (.inb (.pubcomp id)) (setPhase { s with pubComp := mapDel s.pubComp id } i (.returned .ok))
  | subackOk (s : St) (id i : Nat) (codes : List Nat) (c : Call) :
      s.inited = true → s.doneClosed = false → mapGet s.subAck id = some i → s.calls[i]? = some c →
      c.phase = .waitSubAck → c.kind = .sub codes.length →
      Step s (.inb (.suback id codes))
        (setPhase { s with subAck := mapDel s.subAck id } i (.returned (.okSub codes)))
  | subackBad (s : St) (id i n : Nat) (codes : List Nat) (c : Call) :
      s.inited = true → s.doneClosed = false → mapGet s.subAck id = some i → s.calls[i]? = some c →
      c.phase = .waitSubAck → c.kind = .sub n → codes.length ≠ n →
      Step s (.inb (.suback id codes))
        (endNow (setPhase { s with subAck := mapDel s.subAck id } i (.returned .invalidSubAck)) .other)
  | subackOdd (s : St) (id i : Nat) (codes : List Nat) (c : Call) :
      s.inited = true → s.doneClosed = false → mapGet s.subAck id = some i → s.calls[i]? = some c →
      c.phase = .waitSubAck → (∀ n, c.kind ≠ .sub n) →
      Step s (.inb (.suback id codes)) { s with subAck := mapDel s.subAck id }
  | unsuback (s : St) (id i : Nat) (c : Call) :
      s.inited = true → s.doneClosed = false → mapGet s.unsubAck id = some i → s.calls[i]? = some c →
      c.phase = .waitUnsubAck →
      Step s (.inb (.unsuback id)) (setPhase { s with unsubAck := mapDel s.unsubAck id } i (.returned .ok))
  | pingresp (s : St) (i : Nat) (c : Call) :
      s.inited = true → s.doneClosed = false → s.pingResp = some i → s.calls[i]? = some c →
      c.phase = .waitPingResp →
      Step s (.inb .pingresp) (setPhase s i (.returned .ok))
  | cancel (s : St) (i : Nat) (c : Call) : s.calls[i]? = some c → blocked c = true →
      Step s (.cancel i) (setPhase s i (.returned (.ctxErr (ctxRetry c.phase))))
  | cancelNoop (s : St) (i : Nat) : (∀ c, s.calls[i]? = some c → blocked c = false) → Step s (.cancel i) s
  | peerClose (s : St) : s.inited = true → s.doneClosed = false → Step s .peerClose (endNow s .eof)
  | peerCloseNoop (s : St) : (s.inited = false ∨ s.doneClosed = true) → Step s .peerClose s
  | localClose (s : St) : s.inited = true → s.doneClosed = false → Step s .localClose (endNow s .other)
  | localCloseDone (s : St) : s.inited = true → s.doneClosed = true → Step s .localClose s
  | localCloseNew (s : St) : s.inited = false → Step s .localClose { s with transportOpen := false }
  | writeFail (s : St) (on : Bool) : Step s (.writeFail on) { s with writeFails := on }

theorem wake_some {s : St} {i : Nat} {c : Call} {ph : Phase} {next : Call → St → St}
    (h : s.calls[i]? = some c) (hp : c.phase = ph) : wake s i ph next = next c s := by
  simp [wake, h, hp]

theorem wake_stale {s : St} {i : Nat} {ph : Phase} {next : Call → St → St}
    (h : ∀ c, s.calls[i]? = some c → c.phase ≠ ph) : wake s i ph next = s := by
  unfold wake
  cases hc : s.calls[i]? with
  | none => rfl
  | some c => simp [h c hc]

theorem ctxRetry_eq (ph : Phase) :
    (match ph with | .waitConnAck | .waitPingResp => false | _ => true) = ctxRetry ph := by
  cases ph <;> rfl

theorem startCall_disconnect (s : St) (id : Nat) : startCall s .disconnect id =
    if canWrite s = true then (if s.inited = true then readerEnds (discd s id) .other else discd s id)
    else push (connStateUpdate s .disconnected) ⟨.disconnect, id, .returned (.writeErr false)⟩ := by
  have h : startCall s .disconnect id =
    if canWrite (connStateUpdate s .disconnected) = true then
      (if (discd s id).inited = true then readerEnds (discd s id) .other else discd s id)
    else push (connStateUpdate s .disconnected) ⟨.disconnect, id, .returned (.writeErr false)⟩ := rfl
  rw [h, csu_canWrite]
  have : (discd s id).inited = s.inited := by simp [discd]
  rw [this]

theorem startCall_connect (s : St) (id : Nat) : startCall s .connect id =
    if canWrite s = true then
      push { reg s .connect id with writes := s.writes ++ [reqW .connect id] } ⟨.connect, id, waitPhase .connect⟩
    else push (reg s .connect id) ⟨.connect, id, .returned (.writeErr (hasRetry .connect))⟩ := rfl

theorem startCall_other (s : St) (k : Kind) (id : Nat) (hc : k ≠ .connect) (hd : k ≠ .disconnect) :
    startCall s k id =
    if s.inited = true then
      if canWrite s = true then
        push { reg s k id with writes := s.writes ++ [reqW k id] } ⟨k, id, waitPhase k⟩
      else push (reg s k id) ⟨k, id, .returned (.writeErr (hasRetry k))⟩
    else push s ⟨k, id, .returned .notConnected⟩ := by
  cases k <;> first | contradiction | skip
  all_goals
    by_cases hi : s.inited = true
    · rw [if_pos hi]; unfold startCall; dsimp only
      rw [if_neg (not_not_intro hi)]
      rfl
    · rw [if_neg hi]; unfold startCall; dsimp only
      rw [if_pos hi]
      rfl


theorem startCall_rel (s : St) (k : Kind) (id : Nat) : Step s (.call k id) (startCall s k id) := by
  by_cases hk : k = .disconnect
  · subst hk
    rw [startCall_disconnect]
    cases hw : canWrite s
    · rw [if_neg (by simp)]; exact Step.discFail s id hw
    · rw [if_pos rfl]
      cases hi : s.inited
      · rw [if_neg (by simp)]; exact Step.discOk s id hw (Or.inl hi)
      · rw [if_pos rfl]
        have hdd : (discd s id).doneClosed = s.doneClosed := by simp [discd]
        cases hd : s.doneClosed
        · rw [readerEnds_of_not_done _ _ (by rw [hdd]; exact hd)]; exact Step.discEnd s id hw hi hd
        · rw [readerEnds_of_done _ _ (by rw [hdd]; exact hd)]; exact Step.discOk s id hw (Or.inr hd)
  · by_cases hc : k = .connect
    · subst hc
      rw [startCall_connect]
      cases hw : canWrite s
      · rw [if_neg (by simp)]; exact Step.reqFail s .connect id hk (Or.inl rfl) hw
      · rw [if_pos rfl]; exact Step.reqOk s .connect id hk (Or.inl rfl) hw
    · rw [startCall_other s k id hc hk]
      cases hi : s.inited
      · rw [if_neg (by simp)]; exact Step.notConnected s k id hk hc hi
      · rw [if_pos rfl]
        cases hw : canWrite s
        · rw [if_neg (by simp)]; exact Step.reqFail s k id hk (Or.inr hi) hw
        · rw [if_pos rfl]; exact Step.reqOk s k id hk (Or.inr hi) hw

theorem inbound_live (s : St) (p : In) (hi : s.inited = true) (hd : s.doneClosed = false) :
    inbound s p = match p with
  | .malformed => readerEnds s .invalidPacket
  | .connack sp code =>
    match s.connAck with
    | some i => wake s i .waitConnAck fun _ s =>
        if code ≠ 0 then setPhase s i (.returned (.refused code))
        else setPhase (connStateUpdate s .active) i (.returned (if sp then .ok else .ok))
    | none => s
  | .puback id =>
    match mapGet s.pubAck id with
    | some i => wake { s with pubAck := mapDel s.pubAck id } i .waitPubAck fun _ s => setPhase s i (.returned .ok)
    | none => s
  | .pubrec id =>
    match mapGet s.pubRec id with
    | some i => wake { s with pubRec := mapDel s.pubRec id } i .waitPubRec fun _ s =>
        let s := { s with pubComp := mapSet s.pubComp id i }
        if canWrite s then setPhase { s with writes := s.writes ++ [.pubrel id] } i .waitPubComp
        else setPhase s i (.returned (.writeErr true))
    | none => s
  | .pubcomp id =>
    match mapGet s.pubComp id with
    | some i => wake { s with pubComp := mapDel s.pubComp id } i .waitPubComp fun _ s => setPhase s i (.returned .ok)
    | none => s
  | .suback id codes =>
    match mapGet s.subAck id with
    | some i => wake { s with subAck := mapDel s.subAck id } i .waitSubAck fun c s =>
        match c.kind with
        | .sub n =>
          if codes.length ≠ n then
            readerEnds (setPhase s i (.returned .invalidSubAck)) .other
          else setPhase s i (.returned (.okSub codes))
        | _ => s
    | none => s
  | .unsuback id =>
    match mapGet s.unsubAck id with
    | some i => wake { s with unsubAck := mapDel s.unsubAck id } i .waitUnsubAck fun _ s => setPhase s i (.returned .ok)
    | none => s
  | .pingresp =>
    match s.pingResp with
    | some i => wake s i .waitPingResp fun _ s => setPhase s i (.returned .ok)
    | none => s
  | .publish qos id =>
    if qos = 0 then s
    else if qos = 1 then
      if canWrite s then { s with writes := s.writes ++ [.puback id] } else readerEnds s .other
    else
      if canWrite s then { s with writes := s.writes ++ [.pubrec id], inQ2 := id :: s.inQ2.filter (· ≠ id) }
      else readerEnds s .other
  | .pubrel id =>
    if s.inQ2.contains id then
      let s := { s with inQ2 := s.inQ2.filter (· ≠ id) }
      if canWrite s then { s with writes := s.writes ++ [.pubcomp id] } else readerEnds s .other
    else s := by
  unfold inbound
  rw [if_neg (by simp [hi, hd])]
  cases p <;> rfl

theorem inbound_rel (s : St) (p : In) : Step s (.inb p) (inbound s p) := by
  by_cases h : s.doneClosed = true ∨ s.inited = false
  · have e : inbound s p = s := by
      unfold inbound; rw [if_pos (by simpa using h)]
    rw [e]; exact Step.inbIgnored s p h
  · have hi : s.inited = true := by
      cases h' : s.inited <;> simp_all
    have hd : s.doneClosed = false := by
      cases h' : s.doneClosed <;> simp_all
    rw [inbound_live s p hi hd]
    -- stale-or-live split
    have key : ∀ (i : Nat) (ph : Phase),
        (∃ c, s.calls[i]? = some c ∧ c.phase = ph) ∨ (∀ c, s.calls[i]? = some c → c.phase ≠ ph) := by
      intro i ph
      cases hc : s.calls[i]? with
      | none => right; intro c h; cases h
      | some c =>
        by_cases hp : c.phase = ph
        · left; exact ⟨c, rfl, hp⟩
        · right; intro c' h; cases h; exact hp
    cases p with
    | malformed =>
      dsimp only
      rw [readerEnds_of_not_done _ _ hd]; exact Step.malformed s hi hd
    | connack sp code =>
      dsimp only
      cases hm : s.connAck with
      | none => exact Step.noTarget s _ hi hd rfl hm
      | some i =>
        dsimp only
        rcases key i .waitConnAck with ⟨c, hc, hp⟩ | hst
        · rw [wake_some hc hp]
          by_cases h0 : code = 0
          · subst h0
            have := Step.connackOk s sp i c hi hd hm hc hp
            simpa using this
          · rw [if_pos h0]; exact Step.connackRefused s sp code i c hi hd hm hc hp h0
        · rw [wake_stale hst]
          exact Step.stale s (.connack sp code) i hi hd hm hst
    | puback id =>
      dsimp only
      cases hm : mapGet s.pubAck id with
      | none => exact Step.noTarget s _ hi hd rfl hm
      | some i =>
        dsimp only
        rcases key i .waitPubAck with ⟨c, hc, hp⟩ | hst
        · rw [wake_some (s := { s with pubAck := mapDel s.pubAck id }) hc hp]
          exact Step.puback s id i c hi hd hm hc hp
        · rw [wake_stale (s := { s with pubAck := mapDel s.pubAck id }) hst]
          exact Step.stale s (.puback id) i hi hd hm hst
    | pubrec id =>
      dsimp only
      cases hm : mapGet s.pubRec id with
      | none => exact Step.noTarget s _ hi hd rfl hm
      | some i =>
        dsimp only
        rcases key i .waitPubRec with ⟨c, hc, hp⟩ | hst
        · rw [wake_some (s := { s with pubRec := mapDel s.pubRec id }) hc hp]
          cases hw : canWrite s
          · have hw' : canWrite { s with pubRec := mapDel s.pubRec id, pubComp := mapSet s.pubComp id i } = false := hw
            dsimp only
            rw [if_neg (by simp [hw'])]
            exact Step.pubrecFail s id i c hi hd hm hc hp hw
          · have hw' : canWrite { s with pubRec := mapDel s.pubRec id, pubComp := mapSet s.pubComp id i } = true := hw
            dsimp only
            rw [if_pos hw']
            exact Step.pubrecOk s id i c hi hd hm hc hp hw
        · rw [wake_stale (s := { s with pubRec := mapDel s.pubRec id }) hst]
          exact Step.stale s (.pubrec id) i hi hd hm hst
    | pubcomp id =>
      dsimp only
      cases hm : mapGet s.pubComp id with
      | none => exact Step.noTarget s _ hi hd rfl hm
      | some i =>
        dsimp only
        rcases key i .waitPubComp with ⟨c, hc, hp⟩ | hst
        · rw [wake_some (s := { s with pubComp := mapDel s.pubComp id }) hc hp]
          exact Step.pubcomp s id i c hi hd hm hc hp
        · rw [wake_stale (s := { s with pubComp := mapDel s.pubComp id }) hst]
          exact Step.stale s (.pubcomp id) i hi hd hm hst
    | suback id codes =>
      dsimp only
      cases hm : mapGet s.subAck id with
      | none => exact Step.noTarget s _ hi hd rfl hm
      | some i =>
        dsimp only
        rcases key i .waitSubAck with ⟨c, hc, hp⟩ | hst
        · rw [wake_some (s := { s with subAck := mapDel s.subAck id }) hc hp]
          by_cases hk : ∃ n, c.kind = .sub n
          · obtain ⟨n, hn⟩ := hk
            by_cases hl : codes.length = n
            · subst hl
              have := Step.subackOk s id i codes c hi hd hm hc hp hn
              simpa [hn] using this
            · have := Step.subackBad s id i n codes c hi hd hm hc hp hn hl
              simp only [hn]
              rw [if_pos hl, readerEnds_of_not_done _ _ (by simpa using hd)]
              exact this
          · have hk' : ∀ n, c.kind ≠ .sub n := fun n h => hk ⟨n, h⟩
            have := Step.subackOdd s id i codes c hi hd hm hc hp hk'
            cases hck : c.kind <;> simp_all
        · rw [wake_stale (s := { s with subAck := mapDel s.subAck id }) hst]
          exact Step.stale s (.suback id codes) i hi hd hm hst
    | unsuback id =>
      dsimp only
      cases hm : mapGet s.unsubAck id with
      | none => exact Step.noTarget s _ hi hd rfl hm
      | some i =>
        dsimp only
        rcases key i .waitUnsubAck with ⟨c, hc, hp⟩ | hst
        · rw [wake_some (s := { s with unsubAck := mapDel s.unsubAck id }) hc hp]
          exact Step.unsuback s id i c hi hd hm hc hp
        · rw [wake_stale (s := { s with unsubAck := mapDel s.unsubAck id }) hst]
          exact Step.stale s (.unsuback id) i hi hd hm hst
    | pingresp =>
      dsimp only
      cases hm : s.pingResp with
      | none => exact Step.noTarget s _ hi hd rfl hm
      | some i =>
        dsimp only
        rcases key i .waitPingResp with ⟨c, hc, hp⟩ | hst
        · rw [wake_some hc hp]
          exact Step.pingresp s i c hi hd hm hc hp
        · rw [wake_stale hst]
          exact Step.stale s .pingresp i hi hd hm hst
    | publish q id =>
      dsimp only
      by_cases h0 : q = 0
      · rw [if_pos h0]; exact Step.appNoop s _ hi hd rfl (by simp [needsAck, h0])
      · rw [if_neg h0]
        have hn : needsAck s (.publish q id) = true := by simp [needsAck, h0]
        cases hw : canWrite s
        · have e : (if q = 1 then (if false = true then { s with writes := s.writes ++ [.puback id] } else readerEnds s .other)
              else (if false = true then { s with writes := s.writes ++ [.pubrec id], inQ2 := id :: s.inQ2.filter (· ≠ id) }
                else readerEnds s .other)) = endNow (appDropped s (.publish q id)) .other := by
            simp [readerEnds_of_not_done _ _ hd, appDropped]
          rw [e]; exact Step.appFail s _ hi hd hn hw
        · have e : (if q = 1 then (if true = true then { s with writes := s.writes ++ [.puback id] } else readerEnds s .other)
              else (if true = true then { s with writes := s.writes ++ [.pubrec id], inQ2 := id :: s.inQ2.filter (· ≠ id) }
                else readerEnds s .other)) = appAcked s (.publish q id) := by
            by_cases h1 : q = 1 <;> simp [appAcked, appWrites, appQ2, h1]
          rw [e]; exact Step.appOk s _ hi hd hn hw
    | pubrel id =>
      dsimp only
      cases hm : s.inQ2.contains id
      · rw [if_neg (by simp)]; exact Step.appNoop s _ hi hd rfl (by simpa [needsAck] using hm)
      · rw [if_pos rfl]
        have hn : needsAck s (.pubrel id) = true := by simpa [needsAck] using hm
        have hcw : canWrite { s with inQ2 := s.inQ2.filter (· ≠ id) } = canWrite s := rfl
        rw [hcw]
        cases hw : canWrite s
        · rw [if_neg (by simp), readerEnds_of_not_done _ _ (by simpa using hd)]
          exact Step.appFail s _ hi hd hn hw
        · rw [if_pos rfl]
          exact Step.appOk s _ hi hd hn hw


/-- `step` presented as the relation `Step` -/
theorem step_rel (s : St) (e : Ev) : Step s e (step s e) := by
  cases e with
  | call k id => exact startCall_rel s k id
  | inb p => exact inbound_rel s p
  | cancel i =>
    dsimp only [step]
    cases hc : s.calls[i]? with
    | none => exact Step.cancelNoop s i (by intro c h; rw [hc] at h; cases h)
    | some c =>
      dsimp only
      cases hb : blocked c
      · rw [if_neg (by simp)]
        exact Step.cancelNoop s i (by intro c' h; rw [hc] at h; cases h; exact hb)
      · rw [if_pos rfl]
        have := Step.cancel s i c hc hb
        cases hp : c.phase <;> simp only [hp, ctxRetry] at this ⊢ <;> exact this
  | peerClose =>
    dsimp only [step]
    cases hi : s.inited
    · rw [if_neg (by simp)]; exact Step.peerCloseNoop s (Or.inl hi)
    · rw [if_pos rfl]
      cases hd : s.doneClosed
      · rw [readerEnds_of_not_done _ _ hd]; exact Step.peerClose s hi hd
      · rw [readerEnds_of_done _ _ hd]; exact Step.peerCloseNoop s (Or.inr hd)
  | localClose =>
    dsimp only [step]
    by_cases hi : s.inited = true
    case neg => rw [if_neg hi]; exact Step.localCloseNew s (by simpa using hi)
    case pos =>
      rw [if_pos hi]
      cases hd : s.doneClosed
      · rw [readerEnds_of_not_done _ _ hd]; exact Step.localClose s hi hd
      · rw [readerEnds_of_done _ _ hd]; exact Step.localCloseDone s hi hd
  | writeFail on => exact Step.writeFail s on


/-! ## §3a `Sound` : kinds match phases; signaller entries point at calls carrying that id -/

/-- the phase a call waits in is one that its kind can be in -/
def KindPhase (c : Call) : Prop :=
  match c.phase with
  | .waitConnAck => c.kind = .connect
  | .waitPubAck => c.kind = .pub1
  | .waitPubRec => c.kind = .pub2
  | .waitPubComp => c.kind = .pub2
  | .waitSubAck => ∃ n, c.kind = .sub n
  | .waitUnsubAck => c.kind = .unsub
  | .waitPingResp => c.kind = .ping
  | .returned _ => True

/-- every entry `id ↦ i` of a signaller map points at an existing call whose packet id is `id` -/
def MapOK (cs : List Call) (m : List (Nat × Nat)) : Prop :=
  ∀ (id i : Nat), mapGet m id = some i → ∃ c : Call, cs[i]? = some c ∧ c.id = id

structure Sound (s : St) : Prop where
  kp : ∀ (i : Nat) (c : Call), s.calls[i]? = some c → KindPhase c
  pubAck : MapOK s.calls s.pubAck
  pubRec : MapOK s.calls s.pubRec
  pubComp : MapOK s.calls s.pubComp
  subAck : MapOK s.calls s.subAck
  unsubAck : MapOK s.calls s.unsubAck

theorem MapOK.onDel {cs m} (h : MapOK cs m) (id : Nat) : MapOK cs (mapDel m id) := by
  intro id' i hg
  rw [mapGet_mapDel] at hg
  split at hg
  · cases hg
  · exact h id' i hg

/-- the calls list changes but every call keeps its index and id -/
def IdPres (cs cs' : List Call) : Prop :=
  ∀ (j : Nat) (c : Call), cs[j]? = some c → ∃ c' : Call, cs'[j]? = some c' ∧ c'.id = c.id

theorem MapOK.mono {cs cs' m} (h : MapOK cs m) (hp : IdPres cs cs') : MapOK cs' m := by
  intro id i hg
  obtain ⟨c, hc, hid⟩ := h id i hg
  obtain ⟨c', hc', hid'⟩ := hp i c hc
  exact ⟨c', hc', hid'.trans hid⟩

theorem MapOK.onSet {cs m} (h : MapOK cs m) {id i : Nat} {c : Call} (hc : cs[i]? = some c) (hid : c.id = id) :
    MapOK cs (mapSet m id i) := by
  intro id' i' hg
  rw [mapGet_mapSet] at hg
  split at hg
  · next he => cases hg; subst he; exact ⟨c, hc, hid⟩
  · exact h id' i' hg

theorem IdPres.refl (cs : List Call) : IdPres cs cs := fun j c h => ⟨c, h, rfl⟩

theorem IdPres.append (cs : List Call) (c : Call) : IdPres cs (cs ++ [c]) := by
  intro j c' h
  refine ⟨c', ?_, rfl⟩
  have hj : j < cs.length := by
    rcases Nat.lt_or_ge j cs.length with h' | h'
    · exact h'
    · rw [List.getElem?_eq_none h'] at h; cases h
  rw [List.getElem?_append_left hj]; exact h

theorem IdPres.ofSetPhase (s : St) (i : Nat) (p : Phase) : IdPres s.calls (setPhase s i p).calls := by
  intro j c h
  rw [setPhase_getElem?, h]
  by_cases hj : j = i <;> simp [hj]

theorem IdPres.ofRelease (cs : List Call) : IdPres cs (cs.map release) := by
  intro j c h
  simp [h]

theorem Sound.congr {s s' : St} (hs : Sound s) (h0 : s'.calls = s.calls) (h1 : s'.pubAck = s.pubAck)
    (h2 : s'.pubRec = s.pubRec) (h3 : s'.pubComp = s.pubComp) (h4 : s'.subAck = s.subAck)
    (h5 : s'.unsubAck = s.unsubAck) : Sound s' := by
  constructor
  · rw [h0]; exact hs.kp
  · rw [h0, h1]; exact hs.pubAck
  · rw [h0, h2]; exact hs.pubRec
  · rw [h0, h3]; exact hs.pubComp
  · rw [h0, h4]; exact hs.subAck
  · rw [h0, h5]; exact hs.unsubAck

theorem Sound.onSetPhase {s : St} (hs : Sound s) (i : Nat) (p : Phase)
    (hkp : ∀ c, s.calls[i]? = some c → KindPhase { c with phase := p }) : Sound (setPhase s i p) := by
  have hp := IdPres.ofSetPhase s i p
  refine ⟨?_, hs.pubAck.mono hp, hs.pubRec.mono hp, hs.pubComp.mono hp, hs.subAck.mono hp, hs.unsubAck.mono hp⟩
  intro j c h
  rw [setPhase_getElem?] at h
  cases hc : s.calls[j]? with
  | none => rw [hc] at h; cases h
  | some c0 =>
    rw [hc] at h
    simp only [Option.map_some, Option.some.injEq] at h
    subst h
    by_cases hj : j = i
    · subst hj; simp only [if_true]; exact hkp c0 hc
    · simp only [hj, if_false]; exact hs.kp j c0 hc

theorem KindPhase.ofReturned (k : Kind) (id : Nat) (r : Ret) : KindPhase ⟨k, id, .returned r⟩ := trivial

theorem KindPhase.ofRelease (c : Call) : KindPhase (release c) := by
  cases c with | mk k id ph => cases ph <;> exact trivial

theorem Sound.onEndNow {s : St} (hs : Sound s) (e : ErrClass) : Sound (endNow s e) := by
  have hp := IdPres.ofRelease s.calls
  refine ⟨?_, ?_, ?_, ?_, ?_, ?_⟩
  · intro j c h
    rw [endNow_getElem?] at h
    cases hc : s.calls[j]? with
    | none => rw [hc] at h; cases h
    | some c0 => rw [hc] at h; cases h; exact KindPhase.ofRelease c0
  all_goals simp only [endNow_calls, endNow_pubAck, endNow_pubRec, endNow_pubComp, endNow_subAck, endNow_unsubAck]
  · exact hs.pubAck.mono hp
  · exact hs.pubRec.mono hp
  · exact hs.pubComp.mono hp
  · exact hs.subAck.mono hp
  · exact hs.unsubAck.mono hp

theorem Sound.onDelTarget {s : St} (hs : Sound s) (p : In) : Sound (delTarget s p) := by
  cases p with
  | puback id => exact ⟨hs.kp, hs.pubAck.onDel id, hs.pubRec, hs.pubComp, hs.subAck, hs.unsubAck⟩
  | pubrec id => exact ⟨hs.kp, hs.pubAck, hs.pubRec.onDel id, hs.pubComp, hs.subAck, hs.unsubAck⟩
  | pubcomp id => exact ⟨hs.kp, hs.pubAck, hs.pubRec, hs.pubComp.onDel id, hs.subAck, hs.unsubAck⟩
  | suback id codes => exact ⟨hs.kp, hs.pubAck, hs.pubRec, hs.pubComp, hs.subAck.onDel id, hs.unsubAck⟩
  | unsuback id => exact ⟨hs.kp, hs.pubAck, hs.pubRec, hs.pubComp, hs.subAck, hs.unsubAck.onDel id⟩
  | connack sp code => exact hs
  | pingresp => exact hs
  | publish q id => exact hs
  | pubrel id => exact hs
  | malformed => exact hs

theorem MapOK.push_set {cs m} (h : MapOK cs m) (k : Kind) (id : Nat) (p : Phase) :
    MapOK (cs ++ [⟨k, id, p⟩]) (mapSet m id cs.length) :=
  (h.mono (IdPres.append cs _)).onSet (c := ⟨k, id, p⟩) (by simp) rfl

theorem Sound.onPush {s : St} (hs : Sound s) (c : Call) (hkp : KindPhase c) : Sound (push s c) := by
  have hp := IdPres.append s.calls c
  refine ⟨?_, hs.pubAck.mono hp, hs.pubRec.mono hp, hs.pubComp.mono hp, hs.subAck.mono hp, hs.unsubAck.mono hp⟩
  intro j c' h
  rw [push_getElem?] at h
  split at h
  · exact hs.kp j c' h
  · split at h
    · cases h; exact hkp
    · cases h

theorem Sound.onPushReg {s : St} (hs : Sound s) (k : Kind) (id : Nat) (p : Phase)
    (hkp : KindPhase ⟨k, id, p⟩) : Sound (push (reg s k id) ⟨k, id, p⟩) := by
  have hp := IdPres.append s.calls ⟨k, id, p⟩
  have hkp' : ∀ (j : Nat) (c' : Call), (push (reg s k id) ⟨k, id, p⟩).calls[j]? = some c' → KindPhase c' := by
    intro j c' h
    rw [push_getElem?] at h
    simp only [reg_calls] at h
    split at h
    · exact hs.kp j c' h
    · split at h
      · cases h; exact hkp
      · cases h
  cases k with
  | connect => exact ⟨hkp', hs.pubAck.mono hp, hs.pubRec.mono hp, hs.pubComp.mono hp, hs.subAck.mono hp, hs.unsubAck.mono hp⟩
  | disconnect => exact ⟨hkp', hs.pubAck.mono hp, hs.pubRec.mono hp, hs.pubComp.mono hp, hs.subAck.mono hp, hs.unsubAck.mono hp⟩
  | ping => exact ⟨hkp', hs.pubAck.mono hp, hs.pubRec.mono hp, hs.pubComp.mono hp, hs.subAck.mono hp, hs.unsubAck.mono hp⟩
  | pub1 => exact ⟨hkp', hs.pubAck.push_set _ _ _, hs.pubRec.mono hp, hs.pubComp.mono hp, hs.subAck.mono hp, hs.unsubAck.mono hp⟩
  | pub2 => exact ⟨hkp', hs.pubAck.mono hp, hs.pubRec.push_set _ _ _, hs.pubComp.mono hp, hs.subAck.mono hp, hs.unsubAck.mono hp⟩
  | sub n => exact ⟨hkp', hs.pubAck.mono hp, hs.pubRec.mono hp, hs.pubComp.mono hp, hs.subAck.push_set _ _ _, hs.unsubAck.mono hp⟩
  | unsub => exact ⟨hkp', hs.pubAck.mono hp, hs.pubRec.mono hp, hs.pubComp.mono hp, hs.subAck.mono hp, hs.unsubAck.push_set _ _ _⟩

theorem KindPhase.ofWait (k : Kind) (id : Nat) (hk : k ≠ .disconnect) : KindPhase ⟨k, id, waitPhase k⟩ := by
  cases k <;> first | contradiction | exact rfl | exact ⟨_, rfl⟩

theorem Sound.onStep {s s' : St} {e : Ev} (h : Step s e s') (hs : Sound s) : Sound s' := by
  cases h with
  | reqOk k id hk hi hw =>
    exact (hs.onPushReg k id (waitPhase k) (KindPhase.ofWait k id hk)).congr rfl rfl rfl rfl rfl rfl
  | reqFail k id hk hi hw => exact hs.onPushReg k id _ trivial
  | notConnected k id hk hc hi => exact hs.onPush _ trivial
  | discFail id hw => exact (hs.congr (s' := connStateUpdate s .disconnected) (by simp) (by simp) (by simp) (by simp) (by simp) (by simp)).onPush _ trivial
  | discOk id hw hi =>
    exact ((hs.congr (s' := connStateUpdate s .disconnected) (by simp) (by simp) (by simp) (by simp) (by simp) (by simp)).onPush ⟨.disconnect, id, .returned .ok⟩ trivial).congr rfl rfl rfl rfl rfl rfl
  | discEnd id hw hi hd =>
    exact (((hs.congr (s' := connStateUpdate s .disconnected) (by simp) (by simp) (by simp) (by simp) (by simp) (by simp)).onPush ⟨.disconnect, id, .returned .ok⟩ trivial).congr (s' := discd s id) rfl rfl rfl rfl rfl rfl).onEndNow _
  | inbIgnored p h => exact hs
  | malformed hi hd => exact hs.onEndNow _
  | noTarget p hi hd hp ht => exact hs
  | appNoop p hi hd hp hn => exact hs
  | appOk p hi hd hn hw => exact hs.congr rfl rfl rfl rfl rfl rfl
  | appFail p hi hd hn hw =>
    exact (hs.congr (s' := appDropped s p) (by simp) (by simp) (by simp) (by simp) (by simp) (by simp)).onEndNow _
  | stale p i hi hd ht hst => exact hs.onDelTarget p
  | connackRefused sp code i c hi hd hm hc hp h0 => exact hs.onSetPhase i _ (fun _ _ => trivial)
  | connackOk sp i c hi hd hm hc hp =>
    exact (hs.congr (s' := connStateUpdate s .active) (by simp) (by simp) (by simp) (by simp) (by simp) (by simp)).onSetPhase i _ (fun _ _ => trivial)
  | puback id i c hi hd hm hc hp => exact (hs.onDelTarget (.puback id)).onSetPhase i _ (fun _ _ => trivial)
  | pubrecOk id i c hi hd hm hc hp hw =>
    have h1 : Sound (delTarget s (.pubrec id)) := hs.onDelTarget _
    have hid : c.id = id := by
      obtain ⟨c', hc', hid⟩ := hs.pubRec id i hm
      rw [hc] at hc'; cases hc'; exact hid
    have h2 : Sound { s with pubRec := mapDel s.pubRec id, pubComp := mapSet s.pubComp id i,
                             writes := s.writes ++ [.pubrel id] } :=
      ⟨h1.kp, h1.pubAck, h1.pubRec, hs.pubComp.onSet hc hid, h1.subAck, h1.unsubAck⟩
    refine h2.onSetPhase i _ ?_
    intro c' hc'
    have : c' = c := by
      have : s.calls[i]? = some c' := hc'
      rw [hc] at this; cases this; rfl
    subst this
    have := hs.kp i c' hc
    unfold KindPhase at this ⊢
    rw [hp] at this
    exact this
  | pubrecFail id i c hi hd hm hc hp hw =>
    have h1 : Sound (delTarget s (.pubrec id)) := hs.onDelTarget _
    have hid : c.id = id := by
      obtain ⟨c', hc', hid⟩ := hs.pubRec id i hm
      rw [hc] at hc'; cases hc'; exact hid
    have h2 : Sound { s with pubRec := mapDel s.pubRec id, pubComp := mapSet s.pubComp id i } :=
      ⟨h1.kp, h1.pubAck, h1.pubRec, hs.pubComp.onSet hc hid, h1.subAck, h1.unsubAck⟩
    exact h2.onSetPhase i _ (fun _ _ => trivial)
  | pubcomp id i c hi hd hm hc hp => exact (hs.onDelTarget (.pubcomp id)).onSetPhase i _ (fun _ _ => trivial)
  | subackOk id i codes c hi hd hm hc hp hk => exact (hs.onDelTarget (.suback id codes)).onSetPhase i _ (fun _ _ => trivial)
  | subackBad id i n codes c hi hd hm hc hp hk hl =>
    exact ((hs.onDelTarget (.suback id codes)).onSetPhase i (.returned .invalidSubAck) (fun _ _ => trivial)).onEndNow _
  | subackOdd id i codes c hi hd hm hc hp hk => exact hs.onDelTarget (.suback id codes)
  | unsuback id i c hi hd hm hc hp => exact (hs.onDelTarget (.unsuback id)).onSetPhase i _ (fun _ _ => trivial)
  | pingresp i c hi hd hm hc hp => exact hs.onSetPhase i _ (fun _ _ => trivial)
  | cancel i c hc hb => exact hs.onSetPhase i _ (fun _ _ => trivial)
  | cancelNoop i h => exact hs
  | peerClose hi hd => exact hs.onEndNow _
  | peerCloseNoop h => exact hs
  | localClose hi hd => exact hs.onEndNow _
  | localCloseDone hi hd => exact hs
  | localCloseNew hi => exact hs.congr rfl rfl rfl rfl rfl rfl
  | writeFail on => exact hs.congr rfl rfl rfl rfl rfl rfl

theorem Sound.init : Sound {} := by
  refine ⟨?_, ?_, ?_, ?_, ?_, ?_⟩
  · intro i c h; simp at h
  all_goals intro id i h; simp [mapGet] at h

/-- invariants propagate along runs -/
theorem foldl_inv (P : St → Prop) (hstep : ∀ s e, P s → P (step s e)) :
    ∀ (evs : List Ev) (s : St), P s → P (evs.foldl step s) := by
  intro evs
  induction evs with
  | nil => intro s h; exact h
  | cons e evs ih => intro s h; exact ih _ (hstep s e h)

theorem run_inv (P : St → Prop) (h0 : P {}) (hstep : ∀ s e, P s → P (step s e)) (evs : List Ev) :
    P (run evs) := foldl_inv P hstep evs {} h0

theorem run_append (evs evs' : List Ev) : run (evs ++ evs') = evs'.foldl step (run evs) := by
  simp [run, List.foldl_append]

theorem run_snoc (evs : List Ev) (e : Ev) : run (evs ++ [e]) = step (run evs) e := by
  simp [run, List.foldl_append]

theorem Sound.onRun (evs : List Ev) : Sound (run evs) :=
  run_inv Sound Sound.init (fun s e h => h.onStep (step_rel s e)) evs


/-! ## §3b `Live` : a blocked call implies a live connection -/

structure Live (s : St) : Prop where
  blk : ∀ (i : Nat) (c : Call), s.calls[i]? = some c → blocked c = true → s.inited = true ∧ s.doneClosed = false
  done : s.doneClosed = true → s.transportOpen = false ∧ s.inited = true

theorem Live.congr {s s' : St} (hs : Live s) (h0 : s'.calls = s.calls) (h1 : s'.inited = s.inited)
    (h2 : s'.doneClosed = s.doneClosed) (h3 : s'.transportOpen = s.transportOpen) : Live s' := by
  constructor
  · rw [h0, h1, h2]; exact hs.blk
  · rw [h1, h2, h3]; exact hs.done

theorem Live.closeTransport {s s' : St} (hs : Live s) (h0 : s'.calls = s.calls) (h1 : s'.inited = s.inited)
    (h2 : s'.doneClosed = s.doneClosed) (h3 : s'.transportOpen = false) : Live s' := by
  constructor
  · rw [h0, h1, h2]; exact hs.blk
  · rw [h1, h2, h3]; intro h; exact ⟨rfl, (hs.done h).2⟩

theorem Live.onSetPhase {s : St} (hs : Live s) (i : Nat) (p : Phase)
    (hp : (∃ r, p = .returned r) ∨ (s.inited = true ∧ s.doneClosed = false)) : Live (setPhase s i p) := by
  constructor
  · intro j c h hb
    simp only [setPhase_inited, setPhase_doneClosed]
    rw [setPhase_getElem?] at h
    cases hc : s.calls[j]? with
    | none => rw [hc] at h; cases h
    | some c0 =>
      rw [hc] at h
      simp only [Option.map_some, Option.some.injEq] at h
      by_cases hj : j = i
      · simp only [hj, if_true] at h
        subst h
        rcases hp with ⟨r, hr⟩ | hp
        · subst hr; simp [blocked] at hb
        · exact hp
      · simp only [hj, if_false] at h
        subst h; exact hs.blk j c0 hc hb
  · exact hs.done

theorem Live.onEndNow {s : St} (hs : Live s) (e : ErrClass) (hi : s.inited = true) : Live (endNow s e) := by
  constructor
  · intro j c h hb
    rw [endNow_getElem?] at h
    cases hc : s.calls[j]? with
    | none => rw [hc] at h; cases h
    | some c0 =>
      rw [hc] at h; cases h
      rw [release_not_blocked] at hb; cases hb
  · intro _; simp [hi]

theorem Live.onPush {s : St} (hs : Live s) (c : Call)
    (hc : blocked c = true → s.inited = true ∧ s.doneClosed = false) : Live (push s c) := by
  constructor
  · intro j c' h hb
    rw [push_getElem?] at h
    simp only [push_inited, push_doneClosed]
    split at h
    · exact hs.blk j c' h hb
    · split at h
      · cases h; exact hc hb
      · cases h
  · exact hs.done

theorem Live.onReg {s : St} (hs : Live s) (k : Kind) (id : Nat) : Live (reg s k id) := by
  constructor
  · intro j c h hb
    simp only [reg_calls] at h
    have := hs.blk j c h hb
    simp [this]
  · intro h
    simp only [reg_doneClosed] at h
    have := hs.done h
    simp [this]

theorem Live.not_done_of_canWrite {s : St} (hs : Live s) (hw : canWrite s = true) : s.doneClosed = false := by
  cases hd : s.doneClosed
  · rfl
  · have := (hs.done hd).1
    simp [canWrite, this] at hw

theorem Live.onStep {s s' : St} {e : Ev} (h : Step s e s') (hs : Live s) : Live s' := by
  cases h with
  | reqOk k id hk hi hw =>
    have h1 : Live { reg s k id with writes := s.writes ++ [reqW k id] } := (hs.onReg k id).congr rfl rfl rfl rfl
    refine h1.onPush _ (fun _ => ⟨?_, ?_⟩)
    · rcases hi with hi | hi <;> simp [hi]
    · simpa using hs.not_done_of_canWrite hw
  | reqFail k id hk hi hw => exact (hs.onReg k id).onPush _ (fun h => by simp [blocked] at h)
  | notConnected k id hk hc hi => exact hs.onPush _ (fun h => by simp [blocked] at h)
  | discFail id hw =>
    exact (hs.congr (s' := connStateUpdate s .disconnected) (by simp) (by simp) (by simp) (by simp)).onPush _
      (fun h => by simp [blocked] at h)
  | discOk id hw hi =>
    have h1 := (hs.congr (s' := connStateUpdate s .disconnected) (by simp) (by simp) (by simp) (by simp)).onPush
      ⟨.disconnect, id, .returned .ok⟩ (fun h => by simp [blocked] at h)
    exact h1.closeTransport rfl rfl rfl rfl
  | discEnd id hw hi hd =>
    have h1 := (hs.congr (s' := connStateUpdate s .disconnected) (by simp) (by simp) (by simp) (by simp)).onPush
      ⟨.disconnect, id, .returned .ok⟩ (fun h => by simp [blocked] at h)
    have h2 : Live (discd s id) := h1.closeTransport rfl rfl rfl rfl
    exact h2.onEndNow _ (by simpa [discd] using hi)
  | inbIgnored p h => exact hs
  | malformed hi hd => exact hs.onEndNow _ hi
  | noTarget p hi hd hp ht => exact hs
  | appNoop p hi hd hp hn => exact hs
  | appOk p hi hd hn hw => exact hs.congr rfl rfl rfl rfl
  | appFail p hi hd hn hw =>
    exact (hs.congr (s' := appDropped s p) (by simp) (by simp) (by simp) (by simp)).onEndNow _ (by simpa using hi)
  | stale p i hi hd ht hst => exact hs.congr (by simp) (by simp) (by simp) (by simp)
  | connackRefused sp code i c hi hd hm hc hp h0 => exact hs.onSetPhase i _ (Or.inl ⟨_, rfl⟩)
  | connackOk sp i c hi hd hm hc hp =>
    exact (hs.congr (s' := connStateUpdate s .active) (by simp) (by simp) (by simp) (by simp)).onSetPhase i _ (Or.inl ⟨_, rfl⟩)
  | puback id i c hi hd hm hc hp =>
    exact (hs.congr (s' := delTarget s (.puback id)) rfl rfl rfl rfl).onSetPhase i _ (Or.inl ⟨_, rfl⟩)
  | pubrecOk id i c hi hd hm hc hp hw =>
    have h1 : Live { s with pubRec := mapDel s.pubRec id, pubComp := mapSet s.pubComp id i,
                            writes := s.writes ++ [.pubrel id] } := hs.congr rfl rfl rfl rfl
    exact h1.onSetPhase i _ (Or.inr ⟨hi, hd⟩)
  | pubrecFail id i c hi hd hm hc hp hw =>
    have h1 : Live { s with pubRec := mapDel s.pubRec id, pubComp := mapSet s.pubComp id i } :=
      hs.congr rfl rfl rfl rfl
    exact h1.onSetPhase i _ (Or.inl ⟨_, rfl⟩)
  | pubcomp id i c hi hd hm hc hp =>
    exact (hs.congr (s' := delTarget s (.pubcomp id)) rfl rfl rfl rfl).onSetPhase i _ (Or.inl ⟨_, rfl⟩)
  | subackOk id i codes c hi hd hm hc hp hk =>
    exact (hs.congr (s' := delTarget s (.suback id codes)) rfl rfl rfl rfl).onSetPhase i _ (Or.inl ⟨_, rfl⟩)
  | subackBad id i n codes c hi hd hm hc hp hk hl =>
    exact ((hs.congr (s' := delTarget s (.suback id codes)) rfl rfl rfl rfl).onSetPhase i (.returned .invalidSubAck) (Or.inl ⟨_, rfl⟩)).onEndNow _ hi
  | subackOdd id i codes c hi hd hm hc hp hk => exact hs.congr rfl rfl rfl rfl
  | unsuback id i c hi hd hm hc hp =>
    exact (hs.congr (s' := delTarget s (.unsuback id)) rfl rfl rfl rfl).onSetPhase i _ (Or.inl ⟨_, rfl⟩)
  | pingresp i c hi hd hm hc hp => exact hs.onSetPhase i _ (Or.inl ⟨_, rfl⟩)
  | cancel i c hc hb => exact hs.onSetPhase i _ (Or.inl ⟨_, rfl⟩)
  | cancelNoop i h => exact hs
  | peerClose hi hd => exact hs.onEndNow _ hi
  | peerCloseNoop h => exact hs
  | localClose hi hd => exact hs.onEndNow _ hi
  | localCloseDone hi hd => exact hs
  | localCloseNew hi => exact hs.closeTransport rfl rfl rfl rfl
  | writeFail on => exact hs.congr rfl rfl rfl rfl

theorem Live.init : Live {} := by
  constructor
  · intro i c h; simp at h
  · intro h; cases h

theorem Live.onRun (evs : List Ev) : Live (run evs) :=
  run_inv Live Live.init (fun s e h => h.onStep (step_rel s e)) evs


/-! ## §3c `Reg` / `Uniq` : every blocked call is registered under its own id -/

/-- the signaller slot in which a blocked call is looked for -/
def regOf (s : St) (c : Call) : Option Nat :=
  match c.phase with
  | .waitConnAck => s.connAck
  | .waitPubAck => mapGet s.pubAck c.id
  | .waitPubRec => mapGet s.pubRec c.id
  | .waitPubComp => mapGet s.pubComp c.id
  | .waitSubAck => mapGet s.subAck c.id
  | .waitUnsubAck => mapGet s.unsubAck c.id
  | .waitPingResp => s.pingResp
  | .returned _ => none

/-- phases whose waiter is keyed by a packet id (`b = false`), or all waiting phases (`b = true`) -/
def slot (b : Bool) : Phase → Bool
  | .returned _ => false
  | .waitConnAck | .waitPingResp => b
  | _ => true

/-- do two calls compete for the same signaller entry?  With `b = true` the single CONNACK and
    PINGRESP slots are included (two Connects, or two Pings, at the same time). -/
def clash (b : Bool) (k : Kind) (id : Nat) (k' : Kind) (id' : Nat) : Bool :=
  match k, k' with
  | .pub1, .pub1 | .pub2, .pub2 | .sub _, .sub _ | .unsub, .unsub => id == id'
  | .connect, .connect | .ping, .ping => b
  | _, _ => false

def Reg (b : Bool) (s : St) : Prop :=
  ∀ (i : Nat) (c : Call), s.calls[i]? = some c → slot b c.phase = true → regOf s c = some i

def RegEx (b : Bool) (s : St) (i : Nat) : Prop :=
  ∀ (j : Nat) (c : Call), s.calls[j]? = some c → j ≠ i → slot b c.phase = true → regOf s c = some j

def Uniq (b : Bool) (s : St) : Prop :=
  ∀ (i j : Nat) (ci cj : Call), s.calls[i]? = some ci → s.calls[j]? = some cj →
    blocked ci = true → blocked cj = true → clash b ci.kind ci.id cj.kind cj.id = true → i = j

/-- the id of a new call is not in use by a blocked call of the same kind-class -/
def Fresh (b : Bool) (s : St) (k : Kind) (id : Nat) : Prop :=
  ∀ (j : Nat) (c : Call), s.calls[j]? = some c → blocked c = true → clash b c.kind c.id k id = false

theorem slot_blocked {b : Bool} {c : Call} (h : slot b c.phase = true) : blocked c = true := by
  unfold blocked; cases hp : c.phase <;> simp_all [slot]

theorem regOf_congr {s s' : St} (c : Call) (h1 : s'.pubAck = s.pubAck) (h2 : s'.pubRec = s.pubRec)
    (h3 : s'.pubComp = s.pubComp) (h4 : s'.subAck = s.subAck) (h5 : s'.unsubAck = s.unsubAck)
    (h6 : s'.connAck = s.connAck) (h7 : s'.pingResp = s.pingResp) : regOf s' c = regOf s c := by
  unfold regOf; rw [h1, h2, h3, h4, h5, h6, h7]

theorem regOf_phase_irrel (s : St) (c c' : Call) (h1 : c'.phase = c.phase) (h2 : c'.id = c.id) :
    regOf s c' = regOf s c := by
  unfold regOf; rw [h1, h2]

theorem Reg.congr {b : Bool} {s s' : St} (hs : Reg b s) (h0 : s'.calls = s.calls)
    (h1 : s'.pubAck = s.pubAck) (h2 : s'.pubRec = s.pubRec)
    (h3 : s'.pubComp = s.pubComp) (h4 : s'.subAck = s.subAck) (h5 : s'.unsubAck = s.unsubAck)
    (h6 : s'.connAck = s.connAck) (h7 : s'.pingResp = s.pingResp) : Reg b s' := by
  intro i c hc hsl
  rw [regOf_congr c h1 h2 h3 h4 h5 h6 h7]
  rw [h0] at hc
  exact hs i c hc hsl

theorem RegEx.congr {b : Bool} {s s' : St} {i : Nat} (hs : RegEx b s i) (h0 : s'.calls = s.calls)
    (h1 : s'.pubAck = s.pubAck) (h2 : s'.pubRec = s.pubRec)
    (h3 : s'.pubComp = s.pubComp) (h4 : s'.subAck = s.subAck) (h5 : s'.unsubAck = s.unsubAck)
    (h6 : s'.connAck = s.connAck) (h7 : s'.pingResp = s.pingResp) : RegEx b s' i := by
  intro j c hc hj hsl
  rw [regOf_congr c h1 h2 h3 h4 h5 h6 h7]
  rw [h0] at hc
  exact hs j c hc hj hsl

theorem Reg.toEx {b : Bool} {s : St} (hs : Reg b s) (i : Nat) : RegEx b s i :=
  fun j c hc _ hsl => hs j c hc hsl

theorem RegEx.toReg {b : Bool} {s : St} {i : Nat} (hs : RegEx b s i)
    (hi : ∀ c, s.calls[i]? = some c → slot b c.phase = true → regOf s c = some i) : Reg b s := by
  intro j c hc hsl
  by_cases hj : j = i
  · subst hj; exact hi c hc hsl
  · exact hs j c hc hj hsl

/-- deleting the looked-up entry leaves every other call's registration alone, or the call was the target -/
theorem regOf_delTarget (s : St) (p : In) (c : Call) :
    regOf (delTarget s p) c = regOf s c ∨ (regOf s c = target s p ∧ c.phase = expect p) := by
  cases p <;> cases hph : c.phase <;> simp [regOf, delTarget, target, expect, hph, mapGet_mapDel] <;>
    grind

theorem Reg.onDelTarget {b : Bool} {s : St} (hs : Reg b s) {p : In} {i : Nat} (ht : target s p = some i) :
    RegEx b (delTarget s p) i := by
  intro j c hc hj hsl
  simp only [delTarget_calls] at hc
  have hr := hs j c hc hsl
  rcases regOf_delTarget s p c with h | ⟨h, _⟩
  · rw [h]; exact hr
  · rw [hr, ht] at h; cases h; exact absurd rfl hj

theorem RegEx.onSetPhaseRet {b : Bool} {s : St} {i : Nat} (hs : RegEx b s i) (r : Ret) :
    Reg b (setPhase s i (.returned r)) := by
  intro j c hc hsl
  rw [setPhase_getElem?] at hc
  cases hc0 : s.calls[j]? with
  | none => rw [hc0] at hc; cases hc
  | some c0 =>
    rw [hc0] at hc
    simp only [Option.map_some, Option.some.injEq] at hc
    by_cases hj : j = i
    · simp only [hj, if_true] at hc; subst hc; simp [slot] at hsl
    · simp only [hj, if_false] at hc; subst hc
      rw [regOf_congr (s' := setPhase s i (.returned r)) (s := s) c0 rfl rfl rfl rfl rfl rfl rfl]
      exact hs j c0 hc0 hj hsl

theorem Reg.onSetPhaseRet {b : Bool} {s : St} (hs : Reg b s) (i : Nat) (r : Ret) :
    Reg b (setPhase s i (.returned r)) := (hs.toEx i).onSetPhaseRet r

theorem Reg.of_no_blocked {b : Bool} {s : St} (h : ∀ (i : Nat) (c : Call), s.calls[i]? = some c → blocked c = false) :
    Reg b s := by
  intro i c hc hsl
  have := slot_blocked hsl
  rw [h i c hc] at this; cases this

theorem Uniq.of_no_blocked {b : Bool} {s : St} (h : ∀ (i : Nat) (c : Call), s.calls[i]? = some c → blocked c = false) :
    Uniq b s := by
  intro i j ci cj hi hj hbi
  rw [h i ci hi] at hbi; cases hbi

theorem endNow_no_blocked (s : St) (e : ErrClass) :
    ∀ (i : Nat) (c : Call), (endNow s e).calls[i]? = some c → blocked c = false := by
  intro i c h
  rw [endNow_getElem?] at h
  cases hc : s.calls[i]? with
  | none => rw [hc] at h; cases h
  | some c0 => rw [hc] at h; cases h; exact release_not_blocked c0

/-- blocked calls of `s'` were already blocked in `s`, with the same kind and id -/
def BlockedSub (s s' : St) : Prop :=
  ∀ (j : Nat) (c' : Call), s'.calls[j]? = some c' → blocked c' = true →
    ∃ c : Call, s.calls[j]? = some c ∧ blocked c = true ∧ c.kind = c'.kind ∧ c.id = c'.id

theorem Uniq.mono {b : Bool} {s s' : St} (hs : Uniq b s) (h : BlockedSub s s') : Uniq b s' := by
  intro i j ci cj hi hj hbi hbj hcl
  obtain ⟨ci0, hi0, hbi0, hk1, hid1⟩ := h i ci hi hbi
  obtain ⟨cj0, hj0, hbj0, hk2, hid2⟩ := h j cj hj hbj
  exact hs i j ci0 cj0 hi0 hj0 hbi0 hbj0 (by rw [hk1, hid1, hk2, hid2]; exact hcl)

theorem BlockedSub.of_calls_eq {s s' : St} (h : s'.calls = s.calls) : BlockedSub s s' := by
  intro j c' hc hb
  rw [h] at hc
  exact ⟨c', hc, hb, rfl, rfl⟩

theorem BlockedSub.ofSetPhase (s : St) (i : Nat) (p : Phase)
    (hp : ∀ c, s.calls[i]? = some c → blocked (⟨c.kind, c.id, p⟩ : Call) = true → blocked c = true) :
    BlockedSub s (setPhase s i p) := by
  intro j c' hc hb
  rw [setPhase_getElem?] at hc
  cases hc0 : s.calls[j]? with
  | none => rw [hc0] at hc; cases hc
  | some c0 =>
    rw [hc0] at hc
    simp only [Option.map_some, Option.some.injEq] at hc
    by_cases hj : j = i
    · simp only [hj, if_true] at hc; subst hc
      subst hj
      exact ⟨c0, rfl, hp c0 hc0 hb, rfl, rfl⟩
    · simp only [hj, if_false] at hc; subst hc
      exact ⟨_, rfl, hb, rfl, rfl⟩

theorem BlockedSub.ofSetPhaseRet (s : St) (i : Nat) (r : Ret) : BlockedSub s (setPhase s i (.returned r)) :=
  BlockedSub.ofSetPhase s i _ (fun c _ h => by simp [blocked] at h)

theorem BlockedSub.trans {s s' s'' : St} (h1 : BlockedSub s s') (h2 : BlockedSub s' s'') : BlockedSub s s'' := by
  intro j c'' hc hb
  obtain ⟨c', hc', hb', hk', hid'⟩ := h2 j c'' hc hb
  obtain ⟨c, hc0, hb0, hk, hid⟩ := h1 j c' hc' hb'
  exact ⟨c, hc0, hb0, hk.trans hk', hid.trans hid'⟩

theorem Uniq.congr {b : Bool} {s s' : St} (hs : Uniq b s) (h : s'.calls = s.calls) : Uniq b s' :=
  hs.mono (BlockedSub.of_calls_eq h)

theorem clash_symm (b : Bool) (k : Kind) (id : Nat) (k' : Kind) (id' : Nat) :
    clash b k id k' id' = clash b k' id' k id := by
  cases k <;> cases k' <;> simp [clash] <;> exact BEq.comm

theorem Uniq.onPush {b : Bool} {s s' : St} (hs : Uniq b s) (c : Call) (h0 : s'.calls = s.calls ++ [c])
    (hf : blocked c = true → Fresh b s c.kind c.id) : Uniq b s' := by
  have key : ∀ (j : Nat) (cj : Call), s'.calls[j]? = some cj →
      (j < s.calls.length ∧ s.calls[j]? = some cj) ∨ (j = s.calls.length ∧ cj = c) := by
    intro j cj h
    have h' : (push s c).calls[j]? = some cj := by rw [push_calls, ← h0]; exact h
    rw [push_getElem?] at h'
    split at h'
    · next hl => exact Or.inl ⟨hl, h'⟩
    · split at h'
      · next he => cases h'; exact Or.inr ⟨he, rfl⟩
      · cases h'
  intro i j ci cj hi hj hbi hbj hcl
  rcases key i ci hi with ⟨hil, hi'⟩ | ⟨hie, hci⟩ <;> rcases key j cj hj with ⟨hjl, hj'⟩ | ⟨hje, hcj⟩
  · exact hs i j ci cj hi' hj' hbi hbj hcl
  · subst hcj
    have := hf hbj i ci hi' hbi
    rw [this] at hcl; cases hcl
  · subst hci
    have := hf hbi j cj hj' hbj
    rw [clash_symm, this] at hcl; cases hcl
  · omega

theorem Reg.onPush {b : Bool} {s s' : St} (hs : Reg b s) (c : Call) (hc : slot b c.phase = false)
    (h0 : s'.calls = s.calls ++ [c])
    (h1 : s'.pubAck = s.pubAck) (h2 : s'.pubRec = s.pubRec)
    (h3 : s'.pubComp = s.pubComp) (h4 : s'.subAck = s.subAck) (h5 : s'.unsubAck = s.unsubAck)
    (h6 : s'.connAck = s.connAck) (h7 : s'.pingResp = s.pingResp) : Reg b s' := by
  intro j cj hj hsl
  rw [regOf_congr cj h1 h2 h3 h4 h5 h6 h7]
  have h' : (push s c).calls[j]? = some cj := by rw [push_calls, ← h0]; exact hj
  rw [push_getElem?] at h'
  split at h'
  · exact hs j cj h' hsl
  · split at h'
    · cases h'; rw [hc] at hsl; cases hsl
    · cases h'

/-- registering a new waiter does not disturb a blocked call that it does not clash with -/
theorem regOf_reg (b : Bool) (s : St) (k : Kind) (id : Nat) (c : Call) (hkp : KindPhase c)
    (hsl : slot b c.phase = true) (hcl : clash b c.kind c.id k id = false) :
    regOf (reg s k id) c = regOf s c := by
  unfold KindPhase at hkp
  cases k <;> cases hph : c.phase <;> simp [regOf, reg, hph, mapGet_mapSet] <;>
    simp [hph] at hkp <;> (try obtain ⟨n, hkp⟩ := hkp) <;> simp_all [clash, slot]

theorem regOf_reg_new (s : St) (k : Kind) (id : Nat) (hk : k ≠ .disconnect) :
    regOf (reg s k id) ⟨k, id, waitPhase k⟩ = some s.calls.length := by
  cases k <;> first | contradiction | simp [regOf, reg, waitPhase, mapGet_mapSet]

theorem Reg.onPushReg {b : Bool} {s s' : St} (hs : Reg b s) (hsd : Sound s) (k : Kind) (id : Nat) (ph : Phase)
    (hf : Fresh b s k id) (hph : slot b ph = true → ph = waitPhase k ∧ k ≠ .disconnect)
    (h0 : s'.calls = s.calls ++ [⟨k, id, ph⟩])
    (h1 : s'.pubAck = (reg s k id).pubAck) (h2 : s'.pubRec = (reg s k id).pubRec)
    (h3 : s'.pubComp = (reg s k id).pubComp) (h4 : s'.subAck = (reg s k id).subAck)
    (h5 : s'.unsubAck = (reg s k id).unsubAck)
    (h6 : s'.connAck = (reg s k id).connAck) (h7 : s'.pingResp = (reg s k id).pingResp) : Reg b s' := by
  intro j cj hj hsl
  rw [regOf_congr cj h1 h2 h3 h4 h5 h6 h7]
  have h' : (push s ⟨k, id, ph⟩).calls[j]? = some cj := by rw [push_calls, ← h0]; exact hj
  rw [push_getElem?] at h'
  split at h'
  · rw [regOf_reg b s k id cj (hsd.kp j cj h') hsl (hf j cj h' (slot_blocked hsl))]
    exact hs j cj h' hsl
  · split at h'
    · next he =>
      cases h'
      obtain ⟨hp, hk⟩ := hph hsl
      subst hp
      rw [regOf_reg_new s k id hk, he]
    · cases h'

theorem BlockedSub.ofPushRet {s s' : St} (c : Call) (hc : blocked c = false) (h0 : s'.calls = s.calls ++ [c]) :
    BlockedSub s s' := by
  intro j cj hj hb
  have h' : (push s c).calls[j]? = some cj := by rw [push_calls, ← h0]; exact hj
  rw [push_getElem?] at h'
  split at h'
  · exact ⟨cj, h', hb, rfl, rfl⟩
  · split at h'
    · cases h'; rw [hc] at hb; cases hb
    · cases h'

/-- the PUBCOMP waiter of call `i` is registered: nobody else's registration is disturbed -/
theorem RegEx.onSetComp {b : Bool} {s s' : St} {i id : Nat} {c : Call} (hsd : Sound s) (hu : Uniq b s)
    (hc : s.calls[i]? = some c) (hp : c.phase = .waitPubRec) (hid : c.id = id) (h0 : s'.calls = s.calls)
    (hs : RegEx b s' i) :
    RegEx b { s' with pubComp := mapSet s'.pubComp id i } i := by
  intro j cj hj hji hsl
  have hj' : s.calls[j]? = some cj := by rw [← h0]; exact hj
  have hr := hs j cj hj hji hsl
  by_cases hx : cj.phase = .waitPubComp ∧ cj.id = id
  · exfalso
    have k1 := hsd.kp i c hc
    have k2 := hsd.kp j cj hj'
    unfold KindPhase at k1 k2
    rw [hp] at k1; rw [hx.1] at k2
    simp only at k1 k2
    have hb1 : blocked c = true := by simp [blocked, hp]
    have hb2 : blocked cj = true := by simp [blocked, hx.1]
    have := hu i j c cj hc hj' hb1 hb2 (by simp [clash, k1, k2, hid, hx.2])
    exact hji this.symm
  · rw [← hr]
    unfold regOf
    cases hph : cj.phase <;> simp only []
    rw [mapGet_mapSet, if_neg (fun h => hx ⟨hph, h⟩)]

structure RegInv (b : Bool) (s : St) : Prop where
  sound : Sound s
  reg : Reg b s
  uniq : Uniq b s

theorem RegInv.of_no_blocked {b : Bool} {s : St} (hsd : Sound s)
    (h : ∀ (i : Nat) (c : Call), s.calls[i]? = some c → blocked c = false) : RegInv b s :=
  ⟨hsd, Reg.of_no_blocked h, Uniq.of_no_blocked h⟩

theorem RegInv.onStep {b : Bool} {s s' : St} {e : Ev} (h : Step s e s') (hs : RegInv b s)
    (hf : ∀ k id, e = .call k id → Fresh b s k id) : RegInv b s' := by
  have hsd' : Sound s' := hs.sound.onStep h
  refine ⟨hsd', ?_, ?_⟩
  · -- Reg
    cases h with
    | reqOk k id hk hi hw =>
      exact hs.reg.onPushReg hs.sound k id (waitPhase k) (hf k id rfl) (fun _ => ⟨rfl, hk⟩) (by simp) rfl rfl rfl rfl rfl rfl rfl
    | reqFail k id hk hi hw =>
      exact hs.reg.onPushReg hs.sound k id (.returned (.writeErr (hasRetry k))) (hf k id rfl) (fun h => by simp [slot] at h) (by simp) rfl rfl rfl rfl rfl rfl rfl
    | notConnected k id hk hc hi => exact hs.reg.onPush _ rfl rfl rfl rfl rfl rfl rfl rfl rfl
    | discFail id hw => exact hs.reg.onPush ⟨.disconnect, id, .returned (.writeErr false)⟩ rfl (by simp) (by simp) (by simp) (by simp) (by simp) (by simp) (by simp) (by simp)
    | discOk id hw hi => exact hs.reg.onPush ⟨.disconnect, id, .returned .ok⟩ rfl (by simp [discd]) (by simp [discd]) (by simp [discd]) (by simp [discd]) (by simp [discd]) (by simp [discd]) (by simp [discd]) (by simp [discd])
    | discEnd id hw hi hd => exact Reg.of_no_blocked (endNow_no_blocked _ _)
    | inbIgnored p h => exact hs.reg
    | malformed hi hd => exact Reg.of_no_blocked (endNow_no_blocked _ _)
    | noTarget p hi hd hp ht => exact hs.reg
    | appNoop p hi hd hp hn => exact hs.reg
    | appOk p hi hd hn hw => exact hs.reg.congr rfl rfl rfl rfl rfl rfl rfl rfl
    | appFail p hi hd hn hw => exact Reg.of_no_blocked (endNow_no_blocked _ _)
    | stale p i hi hd ht hst =>
      refine (hs.reg.onDelTarget ht).toReg ?_
      intro c hc hsl
      simp only [delTarget_calls] at hc
      rcases regOf_delTarget s p c with h | ⟨_, h⟩
      · rw [h]; exact hs.reg i c hc hsl
      · exact absurd h (hst c hc)
    | connackRefused sp code i c hi hd hm hc hp h0 => exact hs.reg.onSetPhaseRet i _
    | connackOk sp i c hi hd hm hc hp =>
      exact (hs.reg.congr (s' := connStateUpdate s .active) (by simp) (by simp) (by simp) (by simp) (by simp) (by simp) (by simp) (by simp)).onSetPhaseRet i _
    | puback id i c hi hd hm hc hp => exact (hs.reg.onDelTarget (p := .puback id) hm).onSetPhaseRet _
    | pubrecOk id i c hi hd hm hc hp hw =>
      have hid : c.id = id := by
        obtain ⟨c', hc', hid⟩ := hs.sound.pubRec id i hm
        rw [hc] at hc'; cases hc'; exact hid
      have h1 : RegEx b (delTarget s (.pubrec id)) i := hs.reg.onDelTarget (p := .pubrec id) hm
      have h2 := RegEx.onSetComp (id := id) hs.sound hs.uniq hc hp hid (s' := delTarget s (.pubrec id)) rfl h1
      intro j cj hj hsl
      rw [setPhase_getElem?] at hj
      refine (regOf_congr (s := { delTarget s (.pubrec id) with pubComp := mapSet s.pubComp id i }) cj rfl rfl rfl rfl rfl rfl rfl).trans ?_
      cases hc0 : s.calls[j]? with
      | none => simp [hc0] at hj
      | some c0 =>
        by_cases hji : j = i
        · subst hji
          rw [hc] at hc0; cases hc0
          simp [hc] at hj
          subst hj
          simp [regOf, hid, mapGet_mapSet]
        · have : cj = c0 := by simpa [hc0, hji] using hj.symm
          subst this
          exact h2 j cj hc0 hji hsl
    | pubrecFail id i c hi hd hm hc hp hw =>
      have hid : c.id = id := by
        obtain ⟨c', hc', hid⟩ := hs.sound.pubRec id i hm
        rw [hc] at hc'; cases hc'; exact hid
      have h1 : RegEx b (delTarget s (.pubrec id)) i := hs.reg.onDelTarget (p := .pubrec id) hm
      have h2 := RegEx.onSetComp (id := id) hs.sound hs.uniq hc hp hid (s' := delTarget s (.pubrec id)) rfl h1
      exact h2.onSetPhaseRet _
    | pubcomp id i c hi hd hm hc hp => exact (hs.reg.onDelTarget (p := .pubcomp id) hm).onSetPhaseRet _
    | subackOk id i codes c hi hd hm hc hp hk => exact (hs.reg.onDelTarget (p := .suback id codes) hm).onSetPhaseRet _
    | subackBad id i n codes c hi hd hm hc hp hk hl => exact Reg.of_no_blocked (endNow_no_blocked _ _)
    | subackOdd id i codes c hi hd hm hc hp hk =>
      exfalso
      have := hs.sound.kp i c hc
      unfold KindPhase at this
      rw [hp] at this
      obtain ⟨n, hn⟩ := this
      exact hk n hn
    | unsuback id i c hi hd hm hc hp => exact (hs.reg.onDelTarget (p := .unsuback id) hm).onSetPhaseRet _
    | pingresp i c hi hd hm hc hp => exact hs.reg.onSetPhaseRet i _
    | cancel i c hc hb => exact hs.reg.onSetPhaseRet i _
    | cancelNoop i h => exact hs.reg
    | peerClose hi hd => exact Reg.of_no_blocked (endNow_no_blocked _ _)
    | peerCloseNoop h => exact hs.reg
    | localClose hi hd => exact Reg.of_no_blocked (endNow_no_blocked _ _)
    | localCloseDone hi hd => exact hs.reg
    | localCloseNew hi => exact hs.reg.congr rfl rfl rfl rfl rfl rfl rfl rfl
    | writeFail on => exact hs.reg.congr rfl rfl rfl rfl rfl rfl rfl rfl
  · -- Uniq
    cases h with
    | reqOk k id hk hi hw => exact hs.uniq.onPush ⟨k, id, waitPhase k⟩ (by simp) (fun _ => hf k id rfl)
    | reqFail k id hk hi hw => exact hs.uniq.onPush ⟨k, id, .returned (.writeErr (hasRetry k))⟩ (by simp) (fun _ => hf k id rfl)
    | notConnected k id hk hc hi => exact hs.uniq.onPush ⟨k, id, _⟩ rfl (fun h => by simp [blocked] at h)
    | discFail id hw => exact hs.uniq.onPush ⟨.disconnect, id, .returned (.writeErr false)⟩ (by simp) (fun h => by simp [blocked] at h)
    | discOk id hw hi => exact hs.uniq.onPush ⟨.disconnect, id, .returned .ok⟩ (by simp [discd]) (fun h => by simp [blocked] at h)
    | discEnd id hw hi hd => exact Uniq.of_no_blocked (endNow_no_blocked _ _)
    | inbIgnored p h => exact hs.uniq
    | malformed hi hd => exact Uniq.of_no_blocked (endNow_no_blocked _ _)
    | noTarget p hi hd hp ht => exact hs.uniq
    | appNoop p hi hd hp hn => exact hs.uniq
    | appOk p hi hd hn hw => exact hs.uniq.congr rfl
    | appFail p hi hd hn hw => exact Uniq.of_no_blocked (endNow_no_blocked _ _)
    | stale p i hi hd ht hst => exact hs.uniq.congr (by simp)
    | connackRefused sp code i c hi hd hm hc hp h0 => exact hs.uniq.mono (BlockedSub.ofSetPhaseRet s i _)
    | connackOk sp i c hi hd hm hc hp =>
      exact (hs.uniq.congr (s' := connStateUpdate s .active) (by simp)).mono (BlockedSub.ofSetPhaseRet _ i _)
    | puback id i c hi hd hm hc hp =>
      exact (hs.uniq.congr (s' := delTarget s (.puback id)) rfl).mono (BlockedSub.ofSetPhaseRet _ i _)
    | pubrecOk id i c hi hd hm hc hp hw =>
      have h1 : Uniq b { s with pubRec := mapDel s.pubRec id, pubComp := mapSet s.pubComp id i,
                                writes := s.writes ++ [.pubrel id] } := hs.uniq.congr rfl
      refine h1.mono (BlockedSub.ofSetPhase _ i _ ?_)
      intro c' hc' _
      have : s.calls[i]? = some c' := hc'
      rw [hc] at this; cases this
      simp [blocked, hp]
    | pubrecFail id i c hi hd hm hc hp hw =>
      have h1 : Uniq b { s with pubRec := mapDel s.pubRec id, pubComp := mapSet s.pubComp id i } := hs.uniq.congr rfl
      exact h1.mono (BlockedSub.ofSetPhaseRet _ i _)
    | pubcomp id i c hi hd hm hc hp =>
      exact (hs.uniq.congr (s' := delTarget s (.pubcomp id)) rfl).mono (BlockedSub.ofSetPhaseRet _ i _)
    | subackOk id i codes c hi hd hm hc hp hk =>
      exact (hs.uniq.congr (s' := delTarget s (.suback id codes)) rfl).mono (BlockedSub.ofSetPhaseRet _ i _)
    | subackBad id i n codes c hi hd hm hc hp hk hl => exact Uniq.of_no_blocked (endNow_no_blocked _ _)
    | subackOdd id i codes c hi hd hm hc hp hk => exact hs.uniq.congr rfl
    | unsuback id i c hi hd hm hc hp =>
      exact (hs.uniq.congr (s' := delTarget s (.unsuback id)) rfl).mono (BlockedSub.ofSetPhaseRet _ i _)
    | pingresp i c hi hd hm hc hp => exact hs.uniq.mono (BlockedSub.ofSetPhaseRet s i _)
    | cancel i c hc hb => exact hs.uniq.mono (BlockedSub.ofSetPhaseRet s i _)
    | cancelNoop i h => exact hs.uniq
    | peerClose hi hd => exact Uniq.of_no_blocked (endNow_no_blocked _ _)
    | peerCloseNoop h => exact hs.uniq
    | localClose hi hd => exact Uniq.of_no_blocked (endNow_no_blocked _ _)
    | localCloseDone hi hd => exact hs.uniq
    | localCloseNew hi => exact hs.uniq.congr rfl
    | writeFail on => exact hs.uniq.congr rfl

theorem RegInv.init (b : Bool) : RegInv b {} :=
  RegInv.of_no_blocked Sound.init (by intro i c h; simp at h)

/-- `WFFrom b s evs` : every call started along `evs` (from `s`) uses an id that no still-blocked call of
    the same kind-class uses (`b = true`: and there is at most one blocked Connect / Ping at a time) -/
def WFFrom (b : Bool) (s : St) : List Ev → Prop
  | [] => True
  | e :: es => (∀ k id, e = .call k id → Fresh b s k id) ∧ WFFrom b (step s e) es

theorem RegInv.onFoldl {b : Bool} : ∀ (evs : List Ev) (s : St), RegInv b s → WFFrom b s evs →
    RegInv b (evs.foldl step s) := by
  intro evs
  induction evs with
  | nil => intro s h _; exact h
  | cons e es ih =>
    intro s h hw
    exact ih _ (h.onStep (step_rel s e) hw.1) hw.2


/-! ## §3d the connection-level view: state, error, callbacks, Done() -/

structure Conn where
  state : ConnState
  err : Option ErrClass
  callbacks : List (ConnState × Option ErrClass)
  done : Bool

def conn (s : St) : Conn := ⟨s.state, s.err, s.callbacks, s.doneClosed⟩

/-- `connStateUpdate` on the connection-level view -/
def Conn.update (c : Conn) (n : ConnState) : Conn :=
  let st := if c.state = .disconnected then .disconnected else n
  { c with state := st, callbacks := if c.state ≠ st then c.callbacks ++ [(st, c.err)] else c.callbacks }

/-- the reader goroutine finishing with `e`, on the connection-level view -/
def Conn.finish (c : Conn) (e : ErrClass) : Conn :=
  let c1 : Conn := if c.state ≠ .disconnected ∧ c.err.isNone then { c with err := some e } else c
  { c1.update .closed with done := true }

theorem conn_csu (s : St) (n : ConnState) : conn (connStateUpdate s n) = (conn s).update n := by
  simp only [conn, Conn.update, csu_callbacks, nextState, csu_state, csu_err, csu_doneClosed]
  by_cases h1 : s.state = .disconnected <;> by_cases h2 : s.state = n <;> simp [h1, h2]

theorem conn_endNow (s : St) (e : ErrClass) : conn (endNow s e) = (conn s).finish e := by
  simp only [conn, Conn.finish, Conn.update, endNow_callbacks, endErr, nextState, endNow_state, endNow_err,
    endNow_doneClosed]
  by_cases h1 : s.state = .disconnected <;> by_cases h3 : s.err.isNone = true <;> simp [h1, h3]

/-- what one step does to the connection-level view -/
inductive ConnStep (s : St) (e : Ev) : Conn → Prop
  | same : ConnStep s e (conn s)
  | disc (id : Nat) : e = .call .disconnect id → (canWrite s = false ∨ s.inited = false ∨ s.doneClosed = true) →
      ConnStep s e ((conn s).update .disconnected)
  | discEnd (id : Nat) : e = .call .disconnect id → canWrite s = true → s.inited = true → s.doneClosed = false →
      ConnStep s e (((conn s).update .disconnected).finish .other)
  | active (sp : Bool) (i : Nat) (c : Call) : e = .inb (.connack sp 0) → s.inited = true → s.doneClosed = false →
      s.connAck = some i → s.calls[i]? = some c → c.phase = .waitConnAck →
      ConnStep s e ((conn s).update .active)
  | finish (er : ErrClass) : s.inited = true → s.doneClosed = false →
      (e = .peerClose ∧ er = .eof ∨ e = .localClose ∧ er = .other ∨ e = .inb .malformed ∧ er = .invalidPacket ∨
        (∃ id i n codes c, e = .inb (.suback id codes) ∧ er = .other ∧ mapGet s.subAck id = some i ∧
          s.calls[i]? = some c ∧ c.phase = .waitSubAck ∧ c.kind = .sub n ∧ codes.length ≠ n) ∨
        -- the reader could not write the acknowledgement of an inbound PUBLISH / PUBREL
        ∃ p, e = .inb p ∧ er = .other ∧ ackFails s p = true) →
      ConnStep s e ((conn s).finish er)

theorem conn_congr {s s' : St} (h1 : s'.state = s.state) (h2 : s'.err = s.err) (h3 : s'.callbacks = s.callbacks)
    (h4 : s'.doneClosed = s.doneClosed) : conn s' = conn s := by
  simp [conn, h1, h2, h3, h4]

theorem conn_step {s s' : St} {e : Ev} (h : Step s e s') : ConnStep s e (conn s') := by
  have same : ∀ {s' : St}, s'.state = s.state → s'.err = s.err → s'.callbacks = s.callbacks →
      s'.doneClosed = s.doneClosed → ConnStep s e (conn s') := by
    intro s' h1 h2 h3 h4; rw [conn_congr h1 h2 h3 h4]; exact ConnStep.same
  cases h with
  | reqOk k id hk hi hw => exact same (by simp) (by simp) (by simp) (by simp)
  | reqFail k id hk hi hw => exact same (by simp) (by simp) (by simp) (by simp)
  | notConnected k id hk hc hi => exact same rfl rfl rfl rfl
  | discFail id hw =>
    have : conn (push (connStateUpdate s .disconnected) ⟨.disconnect, id, .returned (.writeErr false)⟩) =
        (conn s).update .disconnected := by rw [← conn_csu]; exact conn_congr rfl rfl rfl rfl
    rw [this]; exact ConnStep.disc id rfl (Or.inl hw)
  | discOk id hw hi =>
    have : conn (discd s id) = (conn s).update .disconnected := by
      rw [← conn_csu]; exact conn_congr rfl rfl rfl rfl
    rw [this]; exact ConnStep.disc id rfl (Or.inr hi)
  | discEnd id hw hi hd =>
    have : conn (discd s id) = (conn s).update .disconnected := by
      rw [← conn_csu]; exact conn_congr rfl rfl rfl rfl
    rw [conn_endNow, this]; exact ConnStep.discEnd id rfl hw hi hd
  | inbIgnored p h => exact ConnStep.same
  | malformed hi hd => rw [conn_endNow]; exact ConnStep.finish _ hi hd (Or.inr (Or.inr (Or.inl ⟨rfl, rfl⟩)))
  | noTarget p hi hd hp ht => exact ConnStep.same
  | appNoop p hi hd hp hn => exact ConnStep.same
  | appOk p hi hd hn hw => exact same rfl rfl rfl rfl
  | appFail p hi hd hn hw =>
    rw [conn_endNow]
    have : conn (appDropped s p) = conn s := conn_congr (by simp) (by simp) (by simp) (by simp)
    rw [this]
    exact ConnStep.finish _ hi hd (Or.inr (Or.inr (Or.inr (Or.inr ⟨p, rfl, rfl, by simp [ackFails, hn, hw]⟩))))
  | stale p i hi hd ht hst => exact same (by simp) (by simp) (by simp) (by simp)
  | connackRefused sp code i c hi hd hm hc hp h0 => exact same rfl rfl rfl rfl
  | connackOk sp i c hi hd hm hc hp =>
    have : conn (setPhase (connStateUpdate s .active) i (.returned .ok)) = (conn s).update .active := by
      rw [← conn_csu]; exact conn_congr rfl rfl rfl rfl
    rw [this]; exact ConnStep.active sp i c rfl hi hd hm hc hp
  | puback id i c hi hd hm hc hp => exact same rfl rfl rfl rfl
  | pubrecOk id i c hi hd hm hc hp hw => exact same rfl rfl rfl rfl
  | pubrecFail id i c hi hd hm hc hp hw => exact same rfl rfl rfl rfl
  | pubcomp id i c hi hd hm hc hp => exact same rfl rfl rfl rfl
  | subackOk id i codes c hi hd hm hc hp hk => exact same rfl rfl rfl rfl
  | subackBad id i n codes c hi hd hm hc hp hk hl =>
    rw [conn_endNow]
    have : conn (setPhase { s with subAck := mapDel s.subAck id } i (.returned .invalidSubAck)) = conn s :=
      conn_congr rfl rfl rfl rfl
    rw [this]
    exact ConnStep.finish _ hi hd (Or.inr (Or.inr (Or.inr (Or.inl ⟨id, i, n, codes, c, rfl, rfl, hm, hc, hp, hk, hl⟩))))
  | subackOdd id i codes c hi hd hm hc hp hk => exact same rfl rfl rfl rfl
  | unsuback id i c hi hd hm hc hp => exact same rfl rfl rfl rfl
  | pingresp i c hi hd hm hc hp => exact same rfl rfl rfl rfl
  | cancel i c hc hb => exact same rfl rfl rfl rfl
  | cancelNoop i h => exact ConnStep.same
  | peerClose hi hd => rw [conn_endNow]; exact ConnStep.finish _ hi hd (Or.inl ⟨rfl, rfl⟩)
  | peerCloseNoop h => exact ConnStep.same
  | localClose hi hd => rw [conn_endNow]; exact ConnStep.finish _ hi hd (Or.inr (Or.inl ⟨rfl, rfl⟩))
  | localCloseDone hi hd => exact ConnStep.same
  | localCloseNew hi => exact same rfl rfl rfl rfl
  | writeFail on => exact same rfl rfl rfl rfl

/-- the sequence of reported connection states -/
def Conn.cbs (c : Conn) : List ConnState := c.callbacks.map (·.1)

/-- the callback sequences that are possible in each connection state -/
def Shape (st : ConnState) (l : List ConnState) (dn : Bool) : Prop :=
  match st with
  | .new => l = [] ∧ dn = false
  | .active => l = [.active] ∧ dn = false
  | .closed => (l = [.closed] ∨ l = [.active, .closed]) ∧ dn = true
  | .disconnected => l = [.disconnected] ∨ l = [.active, .disconnected] ∨
      l = [.closed, .disconnected] ∨ l = [.active, .closed, .disconnected]

structure CbInv (c : Conn) : Prop where
  shape : Shape c.state c.cbs c.done
  errDone : c.err ≠ none → c.done = true
  closedErr : ∀ e, (ConnState.closed, e) ∈ c.callbacks → e = c.err ∧ e ≠ none
  closedDone : ConnState.closed ∈ c.cbs → c.done = true

theorem Conn.mem_cbs {c : Conn} {st : ConnState} {e : Option ErrClass} (h : (st, e) ∈ c.callbacks) :
    st ∈ c.cbs := List.mem_map_of_mem (f := (·.1)) h

/-- the state after `update n` -/
def Conn.next (c : Conn) (n : ConnState) : ConnState := if c.state = .disconnected then .disconnected else n

@[simp] theorem Conn.update_state (c : Conn) (n : ConnState) : (c.update n).state = c.next n := rfl
@[simp] theorem Conn.update_err (c : Conn) (n : ConnState) : (c.update n).err = c.err := rfl
@[simp] theorem Conn.update_done (c : Conn) (n : ConnState) : (c.update n).done = c.done := rfl
theorem Conn.update_callbacks (c : Conn) (n : ConnState) : (c.update n).callbacks =
    if c.state ≠ c.next n then c.callbacks ++ [(c.next n, c.err)] else c.callbacks := rfl
theorem Conn.update_cbs (c : Conn) (n : ConnState) : (c.update n).cbs =
    if c.state ≠ c.next n then c.cbs ++ [c.next n] else c.cbs := by
  simp only [Conn.cbs, Conn.update_callbacks]
  split <;> simp

theorem Shape.update {st : ConnState} {l : List ConnState} {dn : Bool} (h : Shape st l dn) (n : ConnState)
    (hn : n = .disconnected ∨ (n = .active ∧ dn = false)) :
    Shape (if st = .disconnected then .disconnected else n)
      (if st ≠ (if st = .disconnected then .disconnected else n) then
        l ++ [if st = .disconnected then .disconnected else n] else l) dn := by
  rcases hn with rfl | ⟨rfl, rfl⟩ <;> cases st <;> simp [Shape] at h ⊢
  all_goals first | exact h | (obtain ⟨rfl, rfl⟩ := h; simp) | (obtain ⟨h | h, rfl⟩ := h <;> simp [h]) | skip

theorem Conn.update_mem_closed {c : Conn} {n : ConnState} (hn : n ≠ .closed) {e : Option ErrClass}
    (h : (ConnState.closed, e) ∈ (c.update n).callbacks) : (ConnState.closed, e) ∈ c.callbacks := by
  rw [Conn.update_callbacks] at h
  split at h
  · rcases List.mem_append.1 h with h | h
    · exact h
    · simp only [List.mem_singleton, Prod.mk.injEq] at h
      have h1 := h.1
      unfold Conn.next at h1
      split at h1
      · cases h1
      · exact absurd h1.symm hn
  · exact h

theorem CbInv.onUpdate {c : Conn} (h : CbInv c) (n : ConnState)
    (hn : n = .disconnected ∨ (n = .active ∧ c.done = false)) : CbInv (c.update n) := by
  have hn' : n ≠ .closed := by rcases hn with rfl | ⟨rfl, _⟩ <;> simp
  refine ⟨?_, h.errDone, ?_, ?_⟩
  · rw [Conn.update_cbs]; exact h.shape.update n hn
  · intro e he
    exact h.closedErr e (Conn.update_mem_closed hn' he)
  · intro hm
    obtain ⟨⟨st, e⟩, hmem, hst⟩ := List.mem_map.1 hm
    simp only at hst; subst hst
    exact h.closedDone (Conn.mem_cbs (Conn.update_mem_closed hn' hmem))

theorem CbInv.onFinish {c : Conn} (h : CbInv c) (e : ErrClass) (hd : c.done = false) : CbInv (c.finish e) := by
  cases c with | mk st er cb dn =>
  simp only at hd
  subst hd
  obtain ⟨hsh, he, hc, _⟩ := h
  simp only [Conn.cbs] at hsh
  have her : er = none := by
    cases er with
    | none => rfl
    | some x => exact absurd (he (by simp)) (by simp)
  subst her
  cases st with
  | closed => simp [Shape] at hsh
  | disconnected =>
    refine ⟨?_, fun _ => rfl, ?_, fun _ => rfl⟩
    · simpa [Conn.finish, Conn.update, Conn.cbs, Shape] using hsh
    · intro e' he'
      exact hc e' (by simpa [Conn.finish, Conn.update] using he')
  | new =>
    have hcb : cb = [] := by simpa [Shape] using hsh
    subst hcb
    refine ⟨?_, fun _ => rfl, ?_, fun _ => rfl⟩
    · simp [Conn.finish, Conn.update, Conn.cbs, Shape]
    · intro e' he'
      simp [Conn.finish, Conn.update] at he' ⊢
      simp [he']
  | active =>
    have hcb : cb.map (·.1) = [.active] := by simpa [Shape] using hsh
    refine ⟨?_, fun _ => rfl, ?_, fun _ => rfl⟩
    · simp [Conn.finish, Conn.update, Conn.cbs, Shape, hcb]
    · intro e' he'
      simp [Conn.finish, Conn.update] at he' ⊢
      rcases he' with he' | he'
      · have := List.mem_map_of_mem (f := (·.1)) he'
        rw [hcb] at this
        simp at this
      · simp [he']

theorem CbInv.onConnStep {s : St} {e : Ev} {c' : Conn} (h : ConnStep s e c') (hs : CbInv (conn s)) : CbInv c' := by
  cases h with
  | same => exact hs
  | disc id he hw => exact hs.onUpdate _ (Or.inl rfl)
  | discEnd id he hw hi hd => exact (hs.onUpdate _ (Or.inl rfl)).onFinish _ hd
  | active sp i c he hi hd hm hc hp => exact hs.onUpdate _ (Or.inr ⟨rfl, hd⟩)
  | finish er hi hd he => exact hs.onFinish _ hd

theorem CbInv.init : CbInv (conn {}) := by
  refine ⟨?_, ?_, ?_, ?_⟩
  · simp [conn, Shape, Conn.cbs]
  · intro h; simp [conn] at h
  · intro e h; simp [conn] at h
  · intro h; simp [conn, Conn.cbs] at h

theorem CbInv.onRun (evs : List Ev) : CbInv (conn (run evs)) :=
  run_inv (fun s => CbInv (conn s)) CbInv.init (fun s e h => h.onConnStep (conn_step (step_rel s e))) evs


/-! ## §4 what one step does to one blocked call -/

/-- `OwnAck c e r` : `e` is the acknowledgement that ends the wait of the blocked call `c` successfully,
    and `r` is the result the call then returns -/
def OwnAck (c : Call) (e : Ev) (r : Ret) : Prop :=
  match c.phase with
  | .waitConnAck => c.kind = .connect ∧ (∃ sp, e = .inb (.connack sp 0)) ∧ r = .ok
  | .waitPubAck => c.kind = .pub1 ∧ e = .inb (.puback c.id) ∧ r = .ok
  | .waitPubRec => False
  | .waitPubComp => c.kind = .pub2 ∧ e = .inb (.pubcomp c.id) ∧ r = .ok
  | .waitSubAck => ∃ codes, c.kind = .sub codes.length ∧ e = .inb (.suback c.id codes) ∧ r = .okSub codes
  | .waitUnsubAck => c.kind = .unsub ∧ e = .inb (.unsuback c.id) ∧ r = .ok
  | .waitPingResp => c.kind = .ping ∧ e = .inb .pingresp ∧ r = .ok
  | .returned _ => False

/-- everything that can happen in one step to a call that is blocked -/
inductive CallStep (s s' : St) (e : Ev) (i : Nat) (c : Call) : Call → Prop
  | same : CallStep s s' e i c c
  | cancelled : e = .cancel i → CallStep s s' e i c { c with phase := .returned (.ctxErr (ctxRetry c.phase)) }
  | released : s.inited = true → s.doneClosed = false → s'.doneClosed = true → CallStep s s' e i c (release c)
  | acked (r : Ret) : OwnAck c e r → regOf s c = some i → s.inited = true → s.doneClosed = false →
      CallStep s s' e i c { c with phase := .returned r }
  | refused (sp : Bool) (code : Nat) : c.phase = .waitConnAck → e = .inb (.connack sp code) → code ≠ 0 →
      s.connAck = some i → s.inited = true → s.doneClosed = false → CallStep s s' e i c { c with phase := .returned (.refused code) }
  | pubrec : c.phase = .waitPubRec → c.kind = .pub2 → e = .inb (.pubrec c.id) → mapGet s.pubRec c.id = some i →
      s.inited = true → s.doneClosed = false →
      CallStep s s' e i c { c with phase := if canWrite s = true then .waitPubComp else .returned (.writeErr true) }
  | badSubAck (codes : List Nat) (n : Nat) : c.phase = .waitSubAck → c.kind = .sub n → codes.length ≠ n →
      e = .inb (.suback c.id codes) → mapGet s.subAck c.id = some i → s'.doneClosed = true →
      s.inited = true → s.doneClosed = false →
      CallStep s s' e i c { c with phase := .returned .invalidSubAck }

theorem push_getElem?_old {s : St} {i : Nat} {c : Call} (x : Call) (h : s.calls[i]? = some c) :
    (push s x).calls[i]? = some c := by
  have hi : i < s.calls.length := by
    rcases Nat.lt_or_ge i s.calls.length with h' | h'
    · exact h'
    · rw [List.getElem?_eq_none h'] at h; cases h
  rw [push_getElem?, if_pos hi]; exact h

theorem setPhase_getElem?_some {s : St} {i : Nat} {c : Call} (j : Nat) (p : Phase) (h : s.calls[i]? = some c) :
    (setPhase s j p).calls[i]? = some (if i = j then { c with phase := p } else c) := by
  rw [setPhase_getElem?, h]; rfl

theorem endNow_getElem?_some {s : St} {i : Nat} {c : Call} (e : ErrClass) (h : s.calls[i]? = some c) :
    (endNow s e).calls[i]? = some (release c) := by
  rw [endNow_getElem?, h]; rfl

theorem Sound.kind_of_phase {s : St} (hs : Sound s) {i : Nat} {c : Call} (hc : s.calls[i]? = some c) :
    KindPhase c := hs.kp i c hc

theorem call_step {s s' : St} {e : Ev} (h : Step s e s') (hs : Sound s) {i : Nat} {c : Call}
    (hc : s.calls[i]? = some c) (hb : blocked c = true) :
    ∃ c', s'.calls[i]? = some c' ∧ CallStep s s' e i c c' := by
  have hkp := hs.kp i c hc
  -- a `setPhase` at the target `j` of an acknowledgement
  have atTarget : ∀ {s1 : St} (j : Nat) (p : Phase), s1.calls = s.calls →
      (i = j → CallStep s (setPhase s1 j p) e i c { c with phase := p }) →
      ∃ c', (setPhase s1 j p).calls[i]? = some c' ∧ CallStep s (setPhase s1 j p) e i c c' := by
    intro s1 j p h1 hij
    have hc1 : s1.calls[i]? = some c := by rw [h1]; exact hc
    refine ⟨_, setPhase_getElem?_some j p hc1, ?_⟩
    by_cases hj : i = j
    · rw [if_pos hj]; exact hij hj
    · rw [if_neg hj]; exact CallStep.same
  cases h with
  | reqOk k id hk hi hw => exact ⟨c, push_getElem?_old _ (by simpa using hc), .same⟩
  | reqFail k id hk hi hw => exact ⟨c, push_getElem?_old _ (by simpa using hc), .same⟩
  | notConnected k id hk hc' hi => exact ⟨c, push_getElem?_old _ hc, .same⟩
  | discFail id hw => exact ⟨c, push_getElem?_old _ (by simpa using hc), .same⟩
  | discOk id hw hi =>
    exact ⟨c, push_getElem?_old (s := connStateUpdate s .disconnected) _ (by simpa using hc), .same⟩
  | discEnd id hw hi hd =>
    have : (discd s id).calls[i]? = some c :=
      push_getElem?_old (s := connStateUpdate s .disconnected) _ (by simpa using hc)
    exact ⟨_, endNow_getElem?_some _ this, .released hi hd (by simp)⟩
  | inbIgnored p h => exact ⟨c, hc, .same⟩
  | malformed hi hd => exact ⟨_, endNow_getElem?_some _ hc, .released hi hd (by simp)⟩
  | noTarget p hi hd hp ht => exact ⟨c, hc, .same⟩
  | appNoop p hi hd hp hn => exact ⟨c, hc, .same⟩
  | appOk p hi hd hn hw => exact ⟨c, hc, .same⟩
  | appFail p hi hd hn hw =>
    exact ⟨_, endNow_getElem?_some (s := appDropped s p) _ (by simpa using hc), .released hi hd (by simp)⟩
  | stale p j hi hd ht hst => exact ⟨c, by simpa using hc, .same⟩
  | connackRefused sp code j c0 hi hd hm hc0 hp h0 =>
    refine atTarget j _ rfl ?_
    intro hij; subst hij
    rw [hc] at hc0; cases hc0
    exact .refused sp code hp rfl h0 hm hi hd
  | connackOk sp j c0 hi hd hm hc0 hp =>
    refine atTarget j _ (by simp) ?_
    intro hij; subst hij
    rw [hc] at hc0; cases hc0
    unfold KindPhase at hkp; rw [hp] at hkp
    exact .acked .ok (by unfold OwnAck; rw [hp]; exact ⟨hkp, ⟨sp, rfl⟩, rfl⟩) (by unfold regOf; rw [hp]; exact hm) hi hd
  | puback id j c0 hi hd hm hc0 hp =>
    refine atTarget j _ rfl ?_
    intro hij; subst hij
    rw [hc] at hc0; cases hc0
    have hid : c.id = id := by
      obtain ⟨c', hc', hid⟩ := hs.pubAck id i hm
      rw [hc] at hc'; cases hc'; exact hid
    subst hid
    unfold KindPhase at hkp; rw [hp] at hkp
    exact .acked .ok (by unfold OwnAck; rw [hp]; exact ⟨hkp, rfl, rfl⟩) (by unfold regOf; rw [hp]; exact hm) hi hd
  | pubrecOk id j c0 hi hd hm hc0 hp hw =>
    refine atTarget j _ rfl ?_
    intro hij; subst hij
    rw [hc] at hc0; cases hc0
    have hid : c.id = id := by
      obtain ⟨c', hc', hid⟩ := hs.pubRec id i hm
      rw [hc] at hc'; cases hc'; exact hid
    subst hid
    unfold KindPhase at hkp; rw [hp] at hkp
    have := CallStep.pubrec (s := s) (s' := setPhase { s with pubRec := mapDel s.pubRec c.id, pubComp := mapSet s.pubComp c.id i, writes := s.writes ++ [.pubrel c.id] } i .waitPubComp) (e := .inb (.pubrec c.id)) (i := i) (c := c) hp hkp rfl hm hi hd
    rw [if_pos hw] at this
    exact this
  | pubrecFail id j c0 hi hd hm hc0 hp hw =>
    refine atTarget j _ rfl ?_
    intro hij; subst hij
    rw [hc] at hc0; cases hc0
    have hid : c.id = id := by
      obtain ⟨c', hc', hid⟩ := hs.pubRec id i hm
      rw [hc] at hc'; cases hc'; exact hid
    subst hid
    unfold KindPhase at hkp; rw [hp] at hkp
    have := CallStep.pubrec (s := s) (s' := setPhase { s with pubRec := mapDel s.pubRec c.id, pubComp := mapSet s.pubComp c.id i } i (.returned (.writeErr true))) (e := .inb (.pubrec c.id)) (i := i) (c := c) hp hkp rfl hm hi hd
    rw [if_neg (by simp [hw])] at this
    exact this
  | pubcomp id j c0 hi hd hm hc0 hp =>
    refine atTarget j _ rfl ?_
    intro hij; subst hij
    rw [hc] at hc0; cases hc0
    have hid : c.id = id := by
      obtain ⟨c', hc', hid⟩ := hs.pubComp id i hm
      rw [hc] at hc'; cases hc'; exact hid
    subst hid
    unfold KindPhase at hkp; rw [hp] at hkp
    exact .acked .ok (by unfold OwnAck; rw [hp]; exact ⟨hkp, rfl, rfl⟩) (by unfold regOf; rw [hp]; exact hm) hi hd
  | subackOk id j codes c0 hi hd hm hc0 hp hk =>
    refine atTarget j _ rfl ?_
    intro hij; subst hij
    rw [hc] at hc0; cases hc0
    have hid : c.id = id := by
      obtain ⟨c', hc', hid⟩ := hs.subAck id i hm
      rw [hc] at hc'; cases hc'; exact hid
    subst hid
    exact .acked (.okSub codes) (by unfold OwnAck; rw [hp]; exact ⟨codes, hk, rfl, rfl⟩) (by unfold regOf; rw [hp]; exact hm) hi hd
  | subackBad id j n codes c0 hi hd hm hc0 hp hk hl =>
    have hc1 : (setPhase { s with subAck := mapDel s.subAck id } j (.returned .invalidSubAck)).calls[i]? =
        some (if i = j then { c with phase := .returned .invalidSubAck } else c) :=
      setPhase_getElem?_some (s := { s with subAck := mapDel s.subAck id }) j _ hc
    refine ⟨_, endNow_getElem?_some _ hc1, ?_⟩
    by_cases hij : i = j
    · subst hij
      rw [hc] at hc0; cases hc0
      have hid : c.id = id := by
        obtain ⟨c', hc', hid⟩ := hs.subAck id i hm
        rw [hc] at hc'; cases hc'; exact hid
      subst hid
      rw [if_pos rfl, release_of_returned _ (by simp [blocked])]
      exact .badSubAck codes n hp hk hl rfl hm (by simp) hi hd
    · rw [if_neg hij]
      exact .released hi hd (by simp)
  | subackOdd id j codes c0 hi hd hm hc0 hp hk => exact ⟨c, hc, .same⟩
  | unsuback id j c0 hi hd hm hc0 hp =>
    refine atTarget j _ rfl ?_
    intro hij; subst hij
    rw [hc] at hc0; cases hc0
    have hid : c.id = id := by
      obtain ⟨c', hc', hid⟩ := hs.unsubAck id i hm
      rw [hc] at hc'; cases hc'; exact hid
    subst hid
    unfold KindPhase at hkp; rw [hp] at hkp
    exact .acked .ok (by unfold OwnAck; rw [hp]; exact ⟨hkp, rfl, rfl⟩) (by unfold regOf; rw [hp]; exact hm) hi hd
  | pingresp j c0 hi hd hm hc0 hp =>
    refine atTarget j _ rfl ?_
    intro hij; subst hij
    rw [hc] at hc0; cases hc0
    unfold KindPhase at hkp; rw [hp] at hkp
    exact .acked .ok (by unfold OwnAck; rw [hp]; exact ⟨hkp, rfl, rfl⟩) (by unfold regOf; rw [hp]; exact hm) hi hd
  | cancel j c0 hc0 hb0 =>
    refine atTarget j _ rfl ?_
    intro hij; subst hij
    rw [hc] at hc0; cases hc0
    exact .cancelled rfl
  | cancelNoop j h => exact ⟨c, hc, .same⟩
  | peerClose hi hd => exact ⟨_, endNow_getElem?_some _ hc, .released hi hd (by simp)⟩
  | peerCloseNoop h => exact ⟨c, hc, .same⟩
  | localClose hi hd => exact ⟨_, endNow_getElem?_some _ hc, .released hi hd (by simp)⟩
  | localCloseDone hi hd => exact ⟨c, hc, .same⟩
  | localCloseNew hi => exact ⟨c, hc, .same⟩
  | writeFail on => exact ⟨c, hc, .same⟩

/-- a call that has returned is never touched again -/
theorem returned_stable {s s' : St} {e : Ev} (h : Step s e s') {i : Nat} {c : Call}
    (hc : s.calls[i]? = some c) (hb : blocked c = false) : s'.calls[i]? = some c := by
  have atTarget : ∀ {s1 : St} (j : Nat) (p : Phase) (c0 : Call), s1.calls = s.calls →
      s.calls[j]? = some c0 → blocked c0 = true → (setPhase s1 j p).calls[i]? = some c := by
    intro s1 j p c0 h1 hc0 hb0
    have hc1 : s1.calls[i]? = some c := by rw [h1]; exact hc
    rw [setPhase_getElem?_some j p hc1]
    by_cases hj : i = j
    · subst hj; rw [hc] at hc0; cases hc0; rw [hb] at hb0; cases hb0
    · rw [if_neg hj]
  have ph : ∀ {c0 : Call} {p : Phase}, c0.phase = p → (∀ r, p ≠ .returned r) → blocked c0 = true := by
    intro c0 p h1 h2; unfold blocked; rw [h1]; cases p <;> simp_all
  have rel : release c = c := release_of_returned c hb
  cases h with
  | reqOk k id hk hi hw => exact push_getElem?_old _ (by simpa using hc)
  | reqFail k id hk hi hw => exact push_getElem?_old _ (by simpa using hc)
  | notConnected k id hk hc' hi => exact push_getElem?_old _ hc
  | discFail id hw => exact push_getElem?_old _ (by simpa using hc)
  | discOk id hw hi => exact push_getElem?_old (s := connStateUpdate s .disconnected) _ (by simpa using hc)
  | discEnd id hw hi hd =>
    have : (discd s id).calls[i]? = some c :=
      push_getElem?_old (s := connStateUpdate s .disconnected) _ (by simpa using hc)
    rw [endNow_getElem?_some _ this, rel]
  | inbIgnored p h => exact hc
  | malformed hi hd => rw [endNow_getElem?_some _ hc, rel]
  | noTarget p hi hd hp ht => exact hc
  | appNoop p hi hd hp hn => exact hc
  | appOk p hi hd hn hw => exact hc
  | appFail p hi hd hn hw => rw [endNow_getElem?_some (s := appDropped s p) _ (by simpa using hc), rel]
  | stale p j hi hd ht hst => simpa using hc
  | connackRefused sp code j c0 hi hd hm hc0 hp h0 => exact atTarget j _ c0 rfl hc0 (ph hp (by simp))
  | connackOk sp j c0 hi hd hm hc0 hp => exact atTarget j _ c0 (by simp) hc0 (ph hp (by simp))
  | puback id j c0 hi hd hm hc0 hp => exact atTarget j _ c0 rfl hc0 (ph hp (by simp))
  | pubrecOk id j c0 hi hd hm hc0 hp hw => exact atTarget j _ c0 rfl hc0 (ph hp (by simp))
  | pubrecFail id j c0 hi hd hm hc0 hp hw => exact atTarget j _ c0 rfl hc0 (ph hp (by simp))
  | pubcomp id j c0 hi hd hm hc0 hp => exact atTarget j _ c0 rfl hc0 (ph hp (by simp))
  | subackOk id j codes c0 hi hd hm hc0 hp hk => exact atTarget j _ c0 rfl hc0 (ph hp (by simp))
  | subackBad id j n codes c0 hi hd hm hc0 hp hk hl =>
    have := atTarget (s1 := { s with subAck := mapDel s.subAck id }) j (.returned .invalidSubAck) c0 rfl hc0 (ph hp (by simp))
    rw [endNow_getElem?_some _ this, rel]
  | subackOdd id j codes c0 hi hd hm hc0 hp hk => exact hc
  | unsuback id j c0 hi hd hm hc0 hp => exact atTarget j _ c0 rfl hc0 (ph hp (by simp))
  | pingresp j c0 hi hd hm hc0 hp => exact atTarget j _ c0 rfl hc0 (ph hp (by simp))
  | cancel j c0 hc0 hb0 => exact atTarget j _ c0 rfl hc0 hb0
  | cancelNoop j h => exact hc
  | peerClose hi hd => rw [endNow_getElem?_some _ hc, rel]
  | peerCloseNoop h => exact hc
  | localClose hi hd => rw [endNow_getElem?_some _ hc, rel]
  | localCloseDone hi hd => exact hc
  | localCloseNew hi => exact hc
  | writeFail on => exact hc


/-! ## §5 the effect of an acknowledgement that finds its waiter, as equations -/

section live
variable {s : St} {i : Nat} {c : Call} (hi : s.inited = true) (hd : s.doneClosed = false)
  (hc : s.calls[i]? = some c)
include hi hd hc

theorem inbound_connack_ok (sp : Bool) (hm : s.connAck = some i) (hp : c.phase = .waitConnAck) :
    inbound s (.connack sp 0) = setPhase (connStateUpdate s .active) i (.returned .ok) := by
  rw [inbound_live s _ hi hd]; simp only [hm]; rw [wake_some hc hp]; simp

theorem inbound_connack_refused (sp : Bool) (code : Nat) (h0 : code ≠ 0) (hm : s.connAck = some i)
    (hp : c.phase = .waitConnAck) :
    inbound s (.connack sp code) = setPhase s i (.returned (.refused code)) := by
  rw [inbound_live s _ hi hd]; simp only [hm]; rw [wake_some hc hp]; simp [h0]

theorem inbound_puback (id : Nat) (hm : mapGet s.pubAck id = some i) (hp : c.phase = .waitPubAck) :
    inbound s (.puback id) = setPhase { s with pubAck := mapDel s.pubAck id } i (.returned .ok) := by
  rw [inbound_live s _ hi hd]; simp only [hm]
  rw [wake_some (s := { s with pubAck := mapDel s.pubAck id }) hc hp]

theorem inbound_pubrec (id : Nat) (hm : mapGet s.pubRec id = some i) (hp : c.phase = .waitPubRec) :
    inbound s (.pubrec id) =
      if canWrite s = true then
        setPhase { s with pubRec := mapDel s.pubRec id, pubComp := mapSet s.pubComp id i,
                          writes := s.writes ++ [.pubrel id] } i .waitPubComp
      else setPhase { s with pubRec := mapDel s.pubRec id, pubComp := mapSet s.pubComp id i } i
        (.returned (.writeErr true)) := by
  rw [inbound_live s _ hi hd]; simp only [hm]
  rw [wake_some (s := { s with pubRec := mapDel s.pubRec id }) hc hp]
  rfl

theorem inbound_pubcomp (id : Nat) (hm : mapGet s.pubComp id = some i) (hp : c.phase = .waitPubComp) :
    inbound s (.pubcomp id) = setPhase { s with pubComp := mapDel s.pubComp id } i (.returned .ok) := by
  rw [inbound_live s _ hi hd]; simp only [hm]
  rw [wake_some (s := { s with pubComp := mapDel s.pubComp id }) hc hp]

theorem inbound_suback (id n : Nat) (codes : List Nat) (hm : mapGet s.subAck id = some i)
    (hp : c.phase = .waitSubAck) (hk : c.kind = .sub n) :
    inbound s (.suback id codes) =
      if codes.length ≠ n then
        endNow (setPhase { s with subAck := mapDel s.subAck id } i (.returned .invalidSubAck)) .other
      else setPhase { s with subAck := mapDel s.subAck id } i (.returned (.okSub codes)) := by
  rw [inbound_live s _ hi hd]; simp only [hm]
  rw [wake_some (s := { s with subAck := mapDel s.subAck id }) hc hp]
  simp only [hk]
  split
  · rw [readerEnds_of_not_done _ _ (by simpa using hd)]
  · rfl

theorem inbound_unsuback (id : Nat) (hm : mapGet s.unsubAck id = some i) (hp : c.phase = .waitUnsubAck) :
    inbound s (.unsuback id) = setPhase { s with unsubAck := mapDel s.unsubAck id } i (.returned .ok) := by
  rw [inbound_live s _ hi hd]; simp only [hm]
  rw [wake_some (s := { s with unsubAck := mapDel s.unsubAck id }) hc hp]

theorem inbound_pingresp (hm : s.pingResp = some i) (hp : c.phase = .waitPingResp) :
    inbound s .pingresp = setPhase s i (.returned .ok) := by
  rw [inbound_live s _ hi hd]; simp only [hm]; rw [wake_some hc hp]

end live

theorem inbound_no_target (s : St) (p : In) (hp : p ≠ .malformed) (ht : target s p = none)
    (hn : needsAck s p = false) : inbound s p = s := by
  unfold inbound
  split
  · rfl
  · cases p <;> simp_all [target, needsAck]

/-- an inbound application message on a live reader, as an equation: nothing to acknowledge; acknowledged;
    or the acknowledgement write fails and the reader ends with that error -/
theorem inbound_app_eq (s : St) (p : In) (hi : s.inited = true) (hd : s.doneClosed = false) (hp : isApp p = true) :
    inbound s p =
      if needsAck s p = true then
        (if canWrite s = true then appAcked s p else endNow (appDropped s p) .other)
      else s := by
  have h := inbound_rel s p
  generalize inbound s p = s' at h
  cases h with
  | inbIgnored p h => rcases h with h | h <;> simp_all
  | appNoop p _ _ _ hn => simp [hn]
  | appOk p _ _ hn hw => simp [hn, hw]
  | appFail p _ _ hn hw => simp [hn, hw]
  | noTarget p _ _ hp' _ => rw [isAck_not_isApp hp'] at hp; cases hp
  | stale p i _ _ ht _ => rw [target_of_isApp s hp] at ht; cases ht
  | _ => simp [isApp] at hp

/-- a reader that has finished, or was never started, ignores everything -/
theorem inbound_not_live (s : St) (p : In) (h : s.doneClosed = true ∨ s.inited = false) : inbound s p = s := by
  unfold inbound; rw [if_pos (by simpa using h)]

theorem appDropped_eq (s : St) (p : In) : appDropped s p = { s with inQ2 := (appDropped s p).inQ2 } := by
  cases p <;> rfl

/-- the acknowledgement of an inbound PUBLISH (QoS ≠ 0) / remembered PUBREL cannot be written: the reader ends -/
theorem inbound_ack_fails (s : St) (p : In) (hi : s.inited = true) (hd : s.doneClosed = false)
    (hf : ackFails s p = true) : inbound s p = endNow (appDropped s p) .other := by
  simp only [ackFails, Bool.and_eq_true, Bool.not_eq_true'] at hf
  rw [inbound_app_eq s p hi hd (needsAck_isApp hf.1), if_pos hf.1, if_neg (by simp [hf.2])]

/-- an inbound application message never touches the call records, except that a failing acknowledgement write
    ends the connection, which releases every blocked call -/
theorem inbound_app_calls (s : St) (p : In) (hp : isApp p = true) :
    ((inbound s p).calls = s.calls ∧ (inbound s p).doneClosed = s.doneClosed) ∨
    (s.inited = true ∧ s.doneClosed = false ∧ ackFails s p = true ∧
      (inbound s p).calls = s.calls.map release ∧ (inbound s p).doneClosed = true) := by
  by_cases hl : s.doneClosed = true ∨ s.inited = false
  · rw [inbound_not_live s p hl]; exact Or.inl ⟨rfl, rfl⟩
  · have hi : s.inited = true := by cases h' : s.inited <;> simp_all
    have hd : s.doneClosed = false := by cases h' : s.doneClosed <;> simp_all
    rw [inbound_app_eq s p hi hd hp]
    cases hn : needsAck s p
    · exact Or.inl ⟨by simp, by simp⟩
    · cases hw : canWrite s
      · exact Or.inr ⟨hi, hd, by simp [ackFails, hn, hw], by simp, by simp⟩
      · exact Or.inl ⟨by simp, by simp⟩

/-- a SUBACK whose number of return codes differs from the number of filters requested -/
def subAckMismatch (s : St) : In → Bool
  | .suback id codes =>
    match mapGet s.subAck id with
    | some i =>
      match s.calls[i]? with
      | some c => c.phase == .waitSubAck && (match c.kind with | .sub n => codes.length != n | _ => false)
      | none => false
    | none => false
  | _ => false

/-- an acknowledgement touches no call but the one it is registered to (unless a bad SUBACK ends the connection) -/
theorem inbound_other_calls (s : St) (p : In) (i j : Nat) (ht : target s p = some i) (hj : j ≠ i)
    (hm : subAckMismatch s p = false) : (inbound s p).calls[j]? = s.calls[j]? := by
  have h := inbound_rel s p
  generalize inbound s p = s' at h
  cases h with
  | inbIgnored p h => rfl
  | malformed hi hd => simp [target] at ht
  | noTarget p hi hd hp ht' => rfl
  | appNoop p hi hd hp hn => rfl
  | appOk p hi hd hn hw => rfl
  | appFail p hi hd hn hw => rw [target_of_isApp s (needsAck_isApp hn)] at ht; cases ht
  | stale p i' hi hd ht' hst => simp
  | connackRefused sp code i' c hi hd hm' hc hp h0 =>
    have : i' = i := by simpa [target, hm'] using ht
    subst this; exact setPhase_getElem?_ne _ _ _ _ hj
  | connackOk sp i' c hi hd hm' hc hp =>
    have : i' = i := by simpa [target, hm'] using ht
    subst this; rw [setPhase_getElem?_ne _ _ _ _ hj]; simp
  | puback id i' c hi hd hm' hc hp =>
    have : i' = i := by simpa [target, hm'] using ht
    subst this; exact setPhase_getElem?_ne _ _ _ _ hj
  | pubrecOk id i' c hi hd hm' hc hp hw =>
    have : i' = i := by simpa [target, hm'] using ht
    subst this; exact setPhase_getElem?_ne _ _ _ _ hj
  | pubrecFail id i' c hi hd hm' hc hp hw =>
    have : i' = i := by simpa [target, hm'] using ht
    subst this; exact setPhase_getElem?_ne _ _ _ _ hj
  | pubcomp id i' c hi hd hm' hc hp =>
    have : i' = i := by simpa [target, hm'] using ht
    subst this; exact setPhase_getElem?_ne _ _ _ _ hj
  | subackOk id i' codes c hi hd hm' hc hp hk =>
    have : i' = i := by simpa [target, hm'] using ht
    subst this; exact setPhase_getElem?_ne _ _ _ _ hj
  | subackBad id i' n codes c hi hd hm' hc hp hk hl =>
    exfalso
    simp [subAckMismatch, hm', hc, hp, hk, hl] at hm
  | subackOdd id i' codes c hi hd hm' hc hp hk => rfl
  | unsuback id i' c hi hd hm' hc hp =>
    have : i' = i := by simpa [target, hm'] using ht
    subst this; exact setPhase_getElem?_ne _ _ _ _ hj
  | pingresp i' c hi hd hm' hc hp =>
    have : i' = i := by simpa [target, hm'] using ht
    subst this; exact setPhase_getElem?_ne _ _ _ _ hj


/-! ## §6 when the connection ends; who reports what -/

/-- the events that end a live connection: the per-event characterisation of "the reader finishes" -/
def endsConn (s : St) : Ev → Bool
  | .peerClose => s.inited
  | .localClose => s.inited
  | .inb .malformed => s.inited
  | .inb (.suback id codes) => s.inited && subAckMismatch s (.suback id codes)
  | .inb (.publish q id) => s.inited && ackFails s (.publish q id)
  | .inb (.pubrel id) => s.inited && ackFails s (.pubrel id)
  | .call .disconnect _ => s.inited && canWrite s
  | _ => false

theorem subAckMismatch_of_not (s : St) (id : Nat) (codes : List Nat)
    (h : ∀ i c n, mapGet s.subAck id = some i → s.calls[i]? = some c → c.phase = .waitSubAck →
      c.kind = .sub n → codes.length = n) : subAckMismatch s (.suback id codes) = false := by
  cases hm : mapGet s.subAck id with
  | none => simp [subAckMismatch, hm]
  | some i =>
    cases hc : s.calls[i]? with
    | none => simp [subAckMismatch, hm, hc]
    | some c =>
      by_cases hp : c.phase = .waitSubAck
      · cases hk : c.kind <;> simp [subAckMismatch, hm, hc, hp, hk]
        exact h i c _ hm hc hp hk
      · simp [subAckMismatch, hm, hc, hp]

/-- Done() is closed by a step exactly when it was closed before or the step ends the connection -/
theorem done_step {s s' : St} {e : Ev} (h : Step s e s') : s'.doneClosed = (s.doneClosed || endsConn s e) := by
  cases h with
  | reqOk k id hk hi hw => cases k <;> first | contradiction | simp [endsConn]
  | reqFail k id hk hi hw => cases k <;> first | contradiction | simp [endsConn]
  | notConnected k id hk hc hi => cases k <;> first | contradiction | simp [endsConn]
  | discFail id hw => simp [endsConn, hw]
  | discOk id hw hi => rcases hi with hi | hi <;> simp [endsConn, discd, hi]
  | discEnd id hw hi hd => simp [endsConn, hw, hi]
  | inbIgnored p h =>
    rcases h with h | h
    · simp [h]
    · cases p <;> simp [endsConn, h]
  | malformed hi hd => simp [endsConn, hi]
  | noTarget p hi hd hp ht =>
    cases p <;> simp [endsConn, hi, hd] <;> first | (simp [isAck] at hp; done) | skip
    simp [target] at ht
    simp [subAckMismatch, ht]
  | appNoop p hi hd hp hn =>
    cases p <;> first | (simp [isApp] at hp; done) | simp [endsConn, hd, ackFails, hn]
  | appOk p hi hd hn hw =>
    cases p <;> first | (simp [needsAck] at hn; done) | simp [endsConn, hd, ackFails, hw]
  | appFail p hi hd hn hw =>
    cases p <;> first | (simp [needsAck] at hn; done) | simp [endsConn, hi, ackFails, hn, hw]
  | stale p j hi hd ht hst =>
    cases p <;> simp [endsConn, hi, hd] <;> first | (simp [target] at ht; done) | skip
    rename_i id codes
    apply subAckMismatch_of_not
    intro i c n hm hc hp hk
    simp [target] at ht
    rw [ht] at hm; cases hm
    exact absurd hp (hst c hc)
  | connackRefused sp code i c hi hd hm hc hp h0 => simp [endsConn, hd]
  | connackOk sp i c hi hd hm hc hp => simp [endsConn, hd]
  | puback id i c hi hd hm hc hp => simp [endsConn, hd]
  | pubrecOk id i c hi hd hm hc hp hw => simp [endsConn, hd]
  | pubrecFail id i c hi hd hm hc hp hw => simp [endsConn, hd]
  | pubcomp id i c hi hd hm hc hp => simp [endsConn, hd]
  | subackOk id i codes c hi hd hm hc hp hk => simp [endsConn, hd, subAckMismatch, hm, hc, hp, hk]
  | subackBad id i n codes c hi hd hm hc hp hk hl => simp [endsConn, hi, subAckMismatch, hm, hc, hp, hk, hl]
  | subackOdd id i codes c hi hd hm hc hp hk =>
    simp only [endsConn, hd, hi, Bool.false_or, Bool.true_and]
    symm
    apply subAckMismatch_of_not
    intro i' c' n hm' hc' hp' hk'
    rw [hm] at hm'; cases hm'
    rw [hc] at hc'; cases hc'
    exact absurd hk' (hk n)
  | unsuback id i c hi hd hm hc hp => simp [endsConn, hd]
  | pingresp i c hi hd hm hc hp => simp [endsConn, hd]
  | cancel i c hc hb => simp [endsConn]
  | cancelNoop i h => simp [endsConn]
  | peerClose hi hd => simp [endsConn, hi]
  | peerCloseNoop h => rcases h with h | h <;> simp [endsConn, h]
  | localClose hi hd => simp [endsConn, hi]
  | localCloseDone hi hd => simp [endsConn, hd]
  | localCloseNew hi => simp [endsConn, hi]
  | writeFail on => simp [endsConn]

/-- is this event a call of Connect? -/
def isConnect : Ev → Bool
  | .call .connect _ => true
  | _ => false

theorem inited_step {s s' : St} {e : Ev} (h : Step s e s') : s'.inited = (s.inited || isConnect e) := by
  cases h with
  | reqOk k id hk hi hw => cases k <;> simp [isConnect]
  | reqFail k id hk hi hw => cases k <;> simp [isConnect]
  | notConnected k id hk hc hi => cases k <;> first | contradiction | simp [isConnect]
  | discEnd id hw hi hd => simp [isConnect, discd]
  | discOk id hw hi => simp [isConnect, discd]
  | stale p j hi hd ht hst => simp [isConnect]
  | _ => simp [isConnect]

theorem Conn.update_mem {c : Conn} {n st : ConnState} {x : Option ErrClass}
    (h : (st, x) ∈ (c.update n).callbacks) :
    (st, x) ∈ c.callbacks ∨ (st = c.next n ∧ x = c.err ∧ c.state ≠ c.next n) := by
  rw [Conn.update_callbacks] at h
  split at h
  · next hne =>
    rcases List.mem_append.1 h with h | h
    · exact Or.inl h
    · simp only [List.mem_singleton, Prod.mk.injEq] at h
      exact Or.inr ⟨h.1, h.2, hne⟩
  · exact Or.inl h

theorem Conn.finish_mem {c : Conn} {e : ErrClass} {st : ConnState} {x : Option ErrClass}
    (h : (st, x) ∈ (c.finish e).callbacks) : (st, x) ∈ c.callbacks ∨ (st = .closed ∧ c.state ≠ .disconnected) := by
  unfold Conn.finish at h
  simp only at h
  split at h
  · next hc =>
    rcases Conn.update_mem h with h | ⟨h1, _, _⟩
    · exact Or.inl h
    · simp only [Conn.next, hc.1, if_false] at h1
      exact Or.inr ⟨h1, hc.1⟩
  · next hc =>
    rcases Conn.update_mem h with h | ⟨h1, _, h3⟩
    · exact Or.inl h
    · by_cases hs : c.state = .disconnected
      · simp [Conn.next, hs] at h3
      · simp only [Conn.next, hs, if_false] at h1
        exact Or.inr ⟨h1, hs⟩

/-- what a Disconnect call does to the connection-level view -/
theorem disconnect_conn {s s' : St} {id : Nat} (h : Step s (.call .disconnect id) s') :
    conn s' = (conn s).update .disconnected ∨
    (s.doneClosed = false ∧ conn s' = ((conn s).update .disconnected).finish .other) := by
  cases h
  case discFail hw =>
    left; rw [← conn_csu]; exact conn_congr rfl rfl rfl rfl
  case discOk hw hi =>
    left; rw [← conn_csu]; exact conn_congr rfl rfl rfl rfl
  case discEnd hw hi hd =>
    right; refine ⟨hd, ?_⟩
    have : conn (discd s id) = (conn s).update .disconnected := by
      rw [← conn_csu]; exact conn_congr rfl rfl rfl rfl
    rw [conn_endNow, this]
  all_goals contradiction

/-- Disconnect has been called on a connection that had not failed: `Disconnected` is the final state,
    no error is stored, `Closed` has not been and will not be reported -/
structure Graceful (c : Conn) : Prop where
  state : c.state = .disconnected
  err : c.err = none
  noClosed : ConnState.closed ∉ c.cbs

theorem Graceful.onUpdate {c : Conn} (h : Graceful c) (n : ConnState) : Graceful (c.update n) := by
  have hn : c.next n = .disconnected := by simp [Conn.next, h.state]
  refine ⟨by simp [hn], h.err, ?_⟩
  rw [Conn.update_cbs, hn, if_neg (by simp [h.state])]
  exact h.noClosed

theorem Graceful.onFinish {c : Conn} (h : Graceful c) (e : ErrClass) : Graceful (c.finish e) := by
  unfold Conn.finish
  simp only
  rw [if_neg (by simp [h.state])]
  have := h.onUpdate .closed
  exact ⟨this.state, this.err, this.noClosed⟩

theorem Graceful.onConnStep {s : St} {e : Ev} {c' : Conn} (h : ConnStep s e c') (hs : Graceful (conn s)) :
    Graceful c' := by
  cases h with
  | same => exact hs
  | disc id he hw => exact hs.onUpdate _
  | discEnd id he hw hi hd => exact (hs.onUpdate _).onFinish _
  | active sp i c he hi hd hm hc hp => exact hs.onUpdate _
  | finish er hi hd he => exact hs.onFinish _

theorem Graceful.onFoldl (evs : List Ev) (s : St) (h : Graceful (conn s)) : Graceful (conn (evs.foldl step s)) :=
  foldl_inv (fun s => Graceful (conn s)) (fun s e h => h.onConnStep (conn_step (step_rel s e))) evs s h

/-- a Disconnect call on a connection whose reader has not finished leaves it `Graceful` -/
theorem Graceful.ofDisconnect {s s' : St} {id : Nat} (h : Step s (.call .disconnect id) s')
    (hinv : CbInv (conn s)) (hd : s.doneClosed = false) : Graceful (conn s') := by
  have herr : (conn s).err = none := by
    cases he : (conn s).err with
    | none => rfl
    | some x =>
      have := hinv.errDone (by rw [he]; simp)
      simp [conn, hd] at this
  have hnc : ConnState.closed ∉ (conn s).cbs := by
    intro hm
    have := hinv.closedDone hm
    simp [conn, hd] at this
  have hnext : (conn s).next .disconnected = .disconnected := by simp [Conn.next]
  have g1 : Graceful ((conn s).update .disconnected) := by
    refine ⟨by simp [hnext], herr, ?_⟩
    rw [Conn.update_cbs, hnext]
    split
    · intro hm
      rcases List.mem_append.1 hm with hm | hm
      · exact hnc hm
      · simp at hm
    · exact hnc
  rcases disconnect_conn h with h | ⟨_, h⟩
  · rw [h]; exact g1
  · rw [h]; exact g1.onFinish _

/-- the state `Disconnected` is entered only by a Disconnect call, and always by one -/
theorem state_disconnected_step {s s' : St} {e : Ev} (h : Step s e s') :
    s'.state = .disconnected ↔ (s.state = .disconnected ∨ ∃ id, e = .call .disconnect id) := by
  have hc := conn_step h
  have hs' : s'.state = (conn s').state := rfl
  rw [hs']
  revert hc
  generalize hcc : conn s' = c'
  intro hc
  have upd : ∀ n, ((conn s).update n).state = .disconnected ↔ (s.state = .disconnected ∨ n = .disconnected) := by
    intro n
    simp only [Conn.update_state, Conn.next, conn]
    by_cases h1 : s.state = .disconnected <;> simp [h1]
  have fin : ∀ (c : Conn) e, (c.finish e).state = .disconnected ↔ c.state = .disconnected := by
    intro c e
    unfold Conn.finish
    simp only
    split
    · next hc => simp [Conn.next, hc.1]
    · next hc =>
      by_cases h1 : c.state = .disconnected <;> simp [Conn.next, h1]
  cases hc with
  | same =>
    constructor
    · intro h1; exact Or.inl h1
    · rintro (h1 | ⟨id, rfl⟩)
      · exact h1
      · -- a Disconnect call never leaves the view unchanged unless already disconnected
        rcases disconnect_conn h with h2 | ⟨_, h2⟩
        · have := (upd .disconnected).2 (Or.inr rfl)
          rw [← h2, hcc] at this; exact this
        · have := (fin _ .other).2 ((upd .disconnected).2 (Or.inr rfl))
          rw [← h2, hcc] at this; exact this
  | disc id he hw => rw [upd]; constructor
                     · intro _; exact Or.inr ⟨id, he⟩
                     · intro _; exact Or.inr rfl
  | discEnd id he hw hi hd =>
    rw [fin, upd]; constructor
    · intro _; exact Or.inr ⟨id, he⟩
    · intro _; exact Or.inr rfl
  | active sp i c he hi hd hm hc hp =>
    rw [upd]; constructor
    · rintro (h1 | h1)
      · exact Or.inl h1
      · cases h1
    · rintro (h1 | ⟨id, h1⟩)
      · exact Or.inl h1
      · rw [he] at h1; cases h1
  | finish er hi hd he =>
    rw [fin]; constructor
    · intro h1; exact Or.inl h1
    · rintro (h1 | ⟨id, h1⟩)
      · exact h1
      · rcases he with ⟨he, _⟩ | ⟨he, _⟩ | ⟨he, _⟩ | ⟨_, _, _, _, _, he, _⟩ | ⟨_, he, _⟩ <;> (rw [he] at h1; cases h1)


/-! ## §7 inbound application messages: what is written, what is remembered -/

/-- the packets that acknowledge inbound application messages -/
def isInAckW : W → Bool
  | .puback _ | .pubrec _ | .pubcomp _ => true
  | _ => false

/-- What a step writes, and what it does to the remembered inbound QoS 2 ids (`inQ2`):
    either it writes no acknowledgement of an application message and leaves `inQ2` alone; or it is an inbound
    PUBLISH (QoS ≠ 0) / remembered PUBREL on a live reader that is acknowledged (`appWrites`, `appQ2`); or that
    acknowledgement cannot be written (nothing is written; a PUBREL has already forgotten its id). -/
theorem app_step {s s' : St} {e : Ev} (h : Step s e s') :
    (∃ l, s'.writes = s.writes ++ l ∧ (∀ w ∈ l, isInAckW w = false) ∧ s'.inQ2 = s.inQ2) ∨
    (∃ p, e = .inb p ∧ s.inited = true ∧ s.doneClosed = false ∧ needsAck s p = true ∧ canWrite s = true ∧
      s'.writes = s.writes ++ appWrites p ∧ s'.inQ2 = appQ2 s p) ∨
    (∃ p, e = .inb p ∧ s.inited = true ∧ s.doneClosed = false ∧ needsAck s p = true ∧ canWrite s = false ∧
      s'.writes = s.writes ∧ s'.inQ2 = (appDropped s p).inQ2) := by
  cases h with
  | reqOk k id hk hi hw =>
    exact Or.inl ⟨[reqW k id], by simp, by cases k <;> simp [reqW, isInAckW], by simp⟩
  | discOk id hw hi => exact Or.inl ⟨[.disconnect], by simp [discd], by simp [isInAckW], by simp [discd]⟩
  | discEnd id hw hi hd => exact Or.inl ⟨[.disconnect], by simp [discd], by simp [isInAckW], by simp [discd]⟩
  | pubrecOk id i c hi hd hm hc hp hw => exact Or.inl ⟨[.pubrel id], rfl, by simp [isInAckW], rfl⟩
  | appOk p hi hd hn hw => exact Or.inr (Or.inl ⟨p, rfl, hi, hd, hn, hw, rfl, rfl⟩)
  | appFail p hi hd hn hw => exact Or.inr (Or.inr ⟨p, rfl, hi, hd, hn, hw, by simp, by simp⟩)
  | _ => exact Or.inl ⟨[], by simp, by simp, by simp⟩

theorem nodup_filter_ne {l : List Nat} (h : l.Nodup) (id : Nat) : (l.filter (· ≠ id)).Nodup :=
  List.Nodup.sublist List.filter_sublist h

theorem nodup_appQ2 {s : St} (h : s.inQ2.Nodup) (p : In) : (appQ2 s p).Nodup := by
  cases p <;> simp only [appQ2] <;> first | exact h | skip
  · split
    · exact h
    · exact List.nodup_cons.2 ⟨by simp, nodup_filter_ne h _⟩
  · exact nodup_filter_ne h _

theorem nodup_appDropped {s : St} (h : s.inQ2.Nodup) (p : In) : (appDropped s p).inQ2.Nodup := by
  cases p <;> simp only [appDropped] <;> first | exact h | exact nodup_filter_ne h _

/-- an id is remembered at most once -/
theorem inQ2_nodup_step {s s' : St} {e : Ev} (h : Step s e s') (hn : s.inQ2.Nodup) : s'.inQ2.Nodup := by
  rcases app_step h with ⟨l, _, _, h3⟩ | ⟨p, _, _, _, _, _, _, h3⟩ | ⟨p, _, _, _, _, _, _, h3⟩
  · rw [h3]; exact hn
  · rw [h3]; exact nodup_appQ2 hn p
  · rw [h3]; exact nodup_appDropped hn p

/-- PUBCOMPs written for `id`, plus one if `id` is still remembered, never exceed the PUBRECs written for `id` -/
def Q2Inv (s : St) : Prop :=
  ∀ id, s.writes.count (.pubcomp id) + (if id ∈ s.inQ2 then 1 else 0) ≤ s.writes.count (.pubrec id)

theorem count_append_noAck {l : List W} (h : ∀ w ∈ l, isInAckW w = false) (ws : List W) (w : W)
    (hw : isInAckW w = true) : (ws ++ l).count w = ws.count w := by
  rw [List.count_append]
  have : l.count w = 0 := List.count_eq_zero.2 (fun hm => by rw [h w hm] at hw; cases hw)
  omega

theorem mem_filter_ne_other {l : List Nat} {x y : Nat} (h : y ≠ x) : x ∈ l.filter (· ≠ y) ↔ x ∈ l := by
  simp only [List.mem_filter, decide_eq_true_eq]
  exact ⟨fun h' => h'.1, fun h' => ⟨h', fun he => h he.symm⟩⟩

theorem q2inv_publish (ws : List W) (l : List Nat) (q y x : Nat)
    (h0 : ws.count (.pubcomp x) + (if x ∈ l then 1 else 0) ≤ ws.count (.pubrec x)) :
    (ws ++ appWrites (.publish q y)).count (.pubcomp x) +
        (if x ∈ (if q = 1 then l else y :: l.filter (· ≠ y)) then 1 else 0) ≤
      (ws ++ appWrites (.publish q y)).count (.pubrec x) := by
  simp only [appWrites]
  by_cases h1 : q = 1
  · simp only [h1, if_true, List.count_append]
    simpa using h0
  · simp only [h1, if_false, List.count_append, List.count_singleton]
    by_cases hid : y = x
    · subst hid
      simp only [List.mem_cons, true_or, if_true, beq_self_eq_true]
      have : (W.pubrec y == W.pubcomp y) = false := by simp
      rw [this]
      split at h0 <;> simp <;> omega
    · have hm : (x ∈ y :: l.filter (· ≠ y)) ↔ x ∈ l := by
        rw [List.mem_cons, mem_filter_ne_other hid]
        exact ⟨fun h => h.elim (fun he => absurd he.symm hid) (fun h => h), Or.inr⟩
      simp only [hm]
      have e1 : (W.pubrec y == W.pubrec x) = false := by simp [hid]
      have e2 : (W.pubrec y == W.pubcomp x) = false := by simp
      rw [e1, e2]
      simpa using h0

theorem q2inv_pubrel (ws : List W) (l : List Nat) (y x : Nat) (hy : y ∈ l)
    (h0 : ws.count (.pubcomp x) + (if x ∈ l then 1 else 0) ≤ ws.count (.pubrec x)) :
    (ws ++ appWrites (.pubrel y)).count (.pubcomp x) + (if x ∈ l.filter (· ≠ y) then 1 else 0) ≤
      (ws ++ appWrites (.pubrel y)).count (.pubrec x) := by
  simp only [appWrites, List.count_append, List.count_singleton]
  have e2 : (W.pubcomp y == W.pubrec x) = false := by simp
  rw [e2]
  by_cases hid : y = x
  · subst hid
    simp only [hy, if_true] at h0
    have : ¬ y ∈ l.filter (· ≠ y) := by simp [List.mem_filter]
    simp only [this, if_false, beq_self_eq_true, if_true]
    omega
  · simp only [mem_filter_ne_other hid]
    have e1 : (W.pubcomp y == W.pubcomp x) = false := by simp [hid]
    rw [e1]
    simpa using h0

theorem Q2Inv.onStep {s s' : St} {e : Ev} (h : Step s e s') (hs : Q2Inv s) : Q2Inv s' := by
  intro x
  have h0 := hs x
  rcases app_step h with ⟨l, h1, h2, h3⟩ | ⟨p, _, _, _, hn, _, h1, h3⟩ | ⟨p, _, _, _, hn, _, h1, h3⟩
  · rw [h1, h3, count_append_noAck h2 _ _ rfl, count_append_noAck h2 _ _ rfl]; exact h0
  · rw [h1, h3]
    cases p with
    | publish q y => exact q2inv_publish s.writes s.inQ2 q y x h0
    | pubrel y =>
      simp only [needsAck, List.contains_iff_mem] at hn
      exact q2inv_pubrel s.writes s.inQ2 y x hn h0
    | _ => simp [needsAck] at hn
  · rw [h1]
    have hsub : x ∈ (appDropped s p).inQ2 → x ∈ s.inQ2 := by
      cases p with
      | pubrel y => intro h; exact (List.mem_filter.1 h).1
      | _ => exact fun h => h
    rw [h3]
    split
    · next hm => rw [if_pos (hsub hm)] at h0; exact h0
    · split at h0 <;> omega

theorem Q2Inv.init : Q2Inv {} := by intro id; simp

/-- an inbound PUBLISH with id `x` that the reader treats as QoS 2 (any QoS other than 0 and 1; a well-formed
    packet has QoS ∈ {0,1,2}) -/
def isQ2Pub (x : Nat) : Ev → Bool
  | .inb (.publish q y) => q != 0 && q != 1 && y == x
  | _ => false

/-- an inbound PUBREL with id `x` -/
def isPubrelEv (x : Nat) : Ev → Bool
  | .inb (.pubrel y) => y == x
  | _ => false

/-- a PUBREC with id `x` is written only by a step that is an inbound QoS 2 PUBLISH with id `x` -/
theorem pubrec_count_step {s s' : St} {e : Ev} (h : Step s e s') (x : Nat) :
    s'.writes.count (.pubrec x) ≤ s.writes.count (.pubrec x) + (if isQ2Pub x e = true then 1 else 0) := by
  rcases app_step h with ⟨l, h1, h2, _⟩ | ⟨p, he, _, _, hn, _, h1, _⟩ | ⟨p, _, _, _, _, _, h1, _⟩
  · rw [h1, count_append_noAck h2 _ _ rfl]; omega
  · rw [h1, he, List.count_append]
    cases p with
    | publish q y =>
      simp only [needsAck, bne_iff_ne, ne_eq] at hn
      simp only [appWrites, isQ2Pub]
      by_cases h1 : q = 1
      · simp [h1]
      · by_cases hy : y = x
        · simp [h1, hn, hy]
        · simp [h1, hy]
    | pubrel y => simp [appWrites]
    | _ => simp [needsAck] at hn
  · rw [h1]; omega

/-- a PUBCOMP with id `x` is written only by a step that is an inbound PUBREL with id `x` -/
theorem pubcomp_count_step {s s' : St} {e : Ev} (h : Step s e s') (x : Nat) :
    s'.writes.count (.pubcomp x) ≤ s.writes.count (.pubcomp x) + (if isPubrelEv x e = true then 1 else 0) := by
  rcases app_step h with ⟨l, h1, h2, _⟩ | ⟨p, he, _, _, hn, _, h1, _⟩ | ⟨p, _, _, _, _, _, h1, _⟩
  · rw [h1, count_append_noAck h2 _ _ rfl]; omega
  · rw [h1, he, List.count_append]
    cases p with
    | publish q y =>
      simp only [appWrites]
      split <;> simp
    | pubrel y =>
      simp only [appWrites, isPubrelEv]
      by_cases hy : y = x <;> simp [hy]
    | _ => simp [needsAck] at hn
  · rw [h1]; omega

end Mqtt.BC
