/-
  Frame lemmas for the retry / reconnect model (`MqttVerif/Model/Retry.lean`): the part of the world
  that the task goroutine never touches (`view`), and the invariant linking the reconnect loop's
  phase, the current connection object and the registered handler (`HInv`). Used by Props/C17, C18.
-/
import MqttVerif.Model.Retry

namespace Mqtt.Retry

/-! ### the part of the world that the task goroutine (`runTasks`) never touches -/

structure View where
  cfg : Cfg
  handler : Option Nat
  cli : Option Nat
  handled : List (Nat × Nat × Nat)
  phase : Phase
  dials : Nat
  stopped : Bool
  waits : List Nat
  waitExp : Nat
  initialized : Bool
  connReady : Bool
  goroutine : Bool
  connectReturned : Option Bool
  accepted : List Req
  rejected : Nat
  ctxCancelled : Bool
  connectErr : Bool

def view (w : World) : View :=
  { cfg := w.cfg, handler := w.handler, cli := w.cli, handled := w.handled,
    phase := w.phase, dials := w.dials,
    stopped := w.stopped, waits := w.waits, waitExp := w.waitExp, initialized := w.initialized,
    connReady := w.connReady, goroutine := w.goroutine, connectReturned := w.connectReturned,
    accepted := w.accepted, rejected := w.rejected,
    ctxCancelled := w.ctxCancelled, connectErr := w.connectErr }

theorem view_send (w : World) (k : Nat) (p : Pkt) (b : Bool) : view (send w k p b).1 = view w := by
  unfold send nextFault
  split
  · simp [view, logPkt, setConn]
  · cases hf : w.faults with
    | nil => simp [view, logPkt, setConn]
    | cons f rest =>
      cases f <;> dsimp only <;> (repeat' split) <;> simp [view, logPkt, kill, setConn]

theorem view_relAttempt (w : World) (k m id : Nat) : view (relAttempt w k m id).1 = view w := by
  unfold relAttempt
  have h := view_send w k (.pubrel id m) true
  revert h
  cases send w k (.pubrel id m) true with
  | mk w1 s => intro h; cases s <;> simpa [view] using h

theorem view_pubAttempt (w : World) (k m qos : Nat) (dup : Bool) : view (pubAttempt w k m qos dup).1 = view w := by
  unfold pubAttempt
  split
  next w0 id heq =>
    have hw0 : view w0 = view w := by
      split at heq <;> (cases heq; simp [view, setConn])
    have h := view_send w0 k (.publish m qos id dup) (qos ≠ 0)
    revert h
    cases send w0 k (.publish m qos id dup) (qos ≠ 0) with
    | mk w1 s =>
      intro h
      cases s <;> dsimp only <;> (repeat' split) <;> (try rw [view_relAttempt]) <;> simp_all [view]

theorem view_subAttempt (w : World) (k : Nat) (subs : List Subscription) : view (subAttempt w k subs).1 = view w := by
  unfold subAttempt
  dsimp only
  generalize hw0 : setConn w k _ = w0
  have hw0 : view w0 = view w := by subst hw0; simp [view, setConn]
  generalize hp : Pkt.subscribe _ _ = p
  have h := view_send w0 k p true
  revert h
  cases send w0 k p true with
  | mk w1 s => intro h; cases s <;> simp_all [view]

theorem view_unsubAttempt (w : World) (k : Nat) (ts : List Bytes) : view (unsubAttempt w k ts).1 = view w := by
  unfold unsubAttempt
  dsimp only
  generalize hw0 : setConn w k _ = w0
  have hw0 : view w0 = view w := by subst hw0; simp [view, setConn]
  generalize hp : Pkt.unsubscribe _ _ = p
  have h := view_send w0 k p true
  revert h
  cases send w0 k p true with
  | mk w1 s => intro h; cases s <;> simp_all [view]

theorem view_absorb (w : World) (o : Outcome) : view (absorb w o) = view w := by
  unfold absorb; split <;> simp [view]

theorem view_firstPub (w : World) (k m qos : Nat) : view (firstPub w k m qos) = view w := by
  unfold firstPub; simp only [view_absorb, view_pubAttempt]

theorem view_firstSub (w : World) (k : Nat) (subs : List Subscription) : view (firstSub w k subs) = view w := by
  unfold firstSub; simp only [view_absorb, view_subAttempt]

theorem view_firstUnsub (w : World) (k : Nat) (ts : List Bytes) : view (firstUnsub w k ts) = view w := by
  unfold firstUnsub; simp only [view_absorb, view_unsubAttempt]

theorem view_subscribeTask (w : World) (k : Nat) (subs : List Subscription) : view (subscribeTask w k subs) = view w := by
  unfold subscribeTask; dsimp only; split
  · rw [view_firstSub]; rfl
  · rfl

theorem view_resubLoop (k : Nat) (l : List Subscription) (w : World) : view (resubLoop w k l) = view w := by
  induction l generalizing w with
  | nil => rfl
  | cons s rest ih => unfold resubLoop; split; rfl; rw [ih, view_subscribeTask]

theorem view_runEntry (w : World) (k : Nat) (e : Entry) : view (runEntry w k e).1 = view w := by
  cases e <;> simp only [runEntry, view_firstPub, view_firstSub, view_firstUnsub, view_pubAttempt,
    view_relAttempt, view_subAttempt, view_unsubAttempt]

theorem view_retryLoop (k : Nat) (l : List Entry) (w : World) : view (retryLoop w k l) = view w := by
  induction l generalizing w with
  | nil => rfl
  | cons e rest ih =>
    unfold retryLoop
    split
    · rfl
    · dsimp only
      generalize hw0 : ({ w with totalRetries := w.totalRetries + 1 } : World) = w0
      have hw0 : view w0 = view w := by subst hw0; rfl
      have h := view_runEntry w0 k e
      revert h
      cases runEntry w0 k e with
      | mk w1 o =>
        intro h
        dsimp only at h ⊢
        split
        · rw [← hw0, ← h]; rfl
        · rw [← hw0, ← h]
        · split
          · rw [← hw0, ← h]; rfl
          · rw [ih, h, hw0]

theorem view_runTask (w : World) (k : Nat) (t : Task) : view (runTask w k t) = view w := by
  unfold runTask
  split
  · split
    · rw [view_firstPub]
    · split <;> rfl
  · rw [view_subscribeTask]
  · dsimp only; split
    · rw [view_firstUnsub]; rfl
    · rfl
  · rw [view_resubLoop]; rfl
  · rw [view_retryLoop]; rfl
  · dsimp only; split <;> simp [view, kill, logPkt, setConn]

theorem view_runTasks (fuel : Nat) (w : World) : view (runTasks fuel w) = view w := by
  induction fuel generalizing w with
  | zero => rfl
  | succ n ih =>
    unfold runTasks
    split; rfl
    split; rfl
    dsimp only
    split
    · rfl
    · rfl
    · next t rest k _ _ =>
      split
      · rw [view_runTask]; rfl
      · rw [ih]
        split
        · simp only [view, kill, setConn]
          exact view_runTask _ _ _
        · rw [view_runTask]; rfl

/-! ### connection objects: the handlers stay, the number stays, a dead connection stays dead -/

def LLe (l l' : List Conn) : Prop :=
  l'.length = l.length ∧
  ∀ j, (l'.getD j {}).handler = (l.getD j {}).handler ∧ ((l.getD j {}).alive = false → (l'.getD j {}).alive = false)

theorem LLe.refl (l : List Conn) : LLe l l := ⟨rfl, fun _ => ⟨rfl, id⟩⟩

theorem LLe.trans {a b c : List Conn} (h1 : LLe a b) (h2 : LLe b c) : LLe a c :=
  ⟨h2.1.trans h1.1, fun j => ⟨(h2.2 j).1.trans (h1.2 j).1, fun h => (h2.2 j).2 ((h1.2 j).2 h)⟩⟩

theorem getD_set (l : List Conn) (k j : Nat) (c : Conn) :
    (l.set k c).getD j {} = if j = k ∧ k < l.length then c else l.getD j {} := by
  simp only [List.getD_eq_getElem?_getD, List.getElem?_set]
  by_cases h : k = j
  · subst h; by_cases h2 : k < l.length <;> simp [h2]
  · simp [h, Ne.symm h]

theorem LLe_set {l l' : List Conn} (k : Nat) (c : Conn) (h : LLe l l')
    (hh : c.handler = (l'.getD k {}).handler) (ha : (l'.getD k {}).alive = false → c.alive = false) :
    LLe l (l'.set k c) := by
  refine h.trans ⟨by simp, fun j => ?_⟩
  rw [getD_set]
  split
  · next hj => obtain ⟨rfl, _⟩ := hj; exact ⟨hh, ha⟩
  · exact ⟨rfl, id⟩

/-- closes goals `LLe l (l.set … (… .set …))` built from `logPkt` / `kill` / counter updates -/
macro "lle" : tactic =>
  `(tactic| (try simp only [kill, logPkt, setConn, getConn]
             repeat (first | exact LLe.refl _ | (refine LLe_set _ _ ?_ rfl (fun h => by first | exact h | rfl)))))

theorem lle_send (w : World) (k : Nat) (p : Pkt) (b : Bool) : LLe w.conns (send w k p b).1.conns := by
  unfold send nextFault
  split
  · lle
  · cases hf : w.faults with
    | nil => dsimp only; lle
    | cons f rest =>
      cases f <;> dsimp only <;> (repeat' split) <;> lle

theorem lle_relAttempt (w : World) (k m id : Nat) : LLe w.conns (relAttempt w k m id).1.conns := by
  unfold relAttempt
  have h := lle_send w k (.pubrel id m) true
  revert h
  cases send w k (.pubrel id m) true with
  | mk w1 s => intro h; cases s <;> exact h

theorem lle_pubAttempt (w : World) (k m qos : Nat) (dup : Bool) : LLe w.conns (pubAttempt w k m qos dup).1.conns := by
  unfold pubAttempt
  split
  next w0 id heq =>
    have hw0 : LLe w.conns w0.conns := by
      split at heq <;> (cases heq; lle)
    have h := lle_send w0 k (.publish m qos id dup) (qos ≠ 0)
    revert h
    cases send w0 k (.publish m qos id dup) (qos ≠ 0) with
    | mk w1 s =>
      intro h
      have h := hw0.trans h
      cases s <;> dsimp only <;> (repeat' split) <;> first | exact h | exact h.trans (lle_relAttempt _ _ _ _)

theorem lle_subAttempt (w : World) (k : Nat) (subs : List Subscription) : LLe w.conns (subAttempt w k subs).1.conns := by
  unfold subAttempt
  dsimp only
  generalize hw0 : setConn w k _ = w0
  have hw0 : LLe w.conns w0.conns := by subst hw0; lle
  generalize hp : Pkt.subscribe _ _ = p
  have h := hw0.trans (lle_send w0 k p true)
  revert h
  cases send w0 k p true with
  | mk w1 s => intro h; cases s <;> exact h

theorem lle_unsubAttempt (w : World) (k : Nat) (ts : List Bytes) : LLe w.conns (unsubAttempt w k ts).1.conns := by
  unfold unsubAttempt
  dsimp only
  generalize hw0 : setConn w k _ = w0
  have hw0 : LLe w.conns w0.conns := by subst hw0; lle
  generalize hp : Pkt.unsubscribe _ _ = p
  have h := hw0.trans (lle_send w0 k p true)
  revert h
  cases send w0 k p true with
  | mk w1 s => intro h; cases s <;> exact h

theorem conns_absorb (w : World) (o : Outcome) : (absorb w o).conns = w.conns := by
  unfold absorb; split <;> rfl

theorem lle_firstPub (w : World) (k m qos : Nat) : LLe w.conns (firstPub w k m qos).conns := by
  unfold firstPub; simp only [conns_absorb]; exact lle_pubAttempt _ _ _ _ _

theorem lle_firstSub (w : World) (k : Nat) (subs : List Subscription) : LLe w.conns (firstSub w k subs).conns := by
  unfold firstSub; simp only [conns_absorb]; exact lle_subAttempt _ _ _

theorem lle_firstUnsub (w : World) (k : Nat) (ts : List Bytes) : LLe w.conns (firstUnsub w k ts).conns := by
  unfold firstUnsub; simp only [conns_absorb]; exact lle_unsubAttempt _ _ _

theorem lle_subscribeTask (w : World) (k : Nat) (subs : List Subscription) : LLe w.conns (subscribeTask w k subs).conns := by
  unfold subscribeTask; dsimp only; split
  · exact lle_firstSub _ _ _
  · exact LLe.refl _

theorem lle_resubLoop (k : Nat) (l : List Subscription) (w : World) : LLe w.conns (resubLoop w k l).conns := by
  induction l generalizing w with
  | nil => exact LLe.refl _
  | cons s rest ih =>
    unfold resubLoop; split
    · exact LLe.refl _
    · exact (lle_subscribeTask _ _ _).trans (ih _)

theorem lle_runEntry (w : World) (k : Nat) (e : Entry) : LLe w.conns (runEntry w k e).1.conns := by
  cases e <;> simp only [runEntry]
  · exact lle_pubAttempt _ _ _ _ _
  · exact lle_relAttempt _ _ _ _
  · exact lle_subAttempt _ _ _
  · exact lle_unsubAttempt _ _ _
  · exact lle_firstPub _ _ _ _
  · exact lle_firstSub _ _ _
  · exact lle_firstUnsub _ _ _

theorem lle_retryLoop (k : Nat) (l : List Entry) (w : World) : LLe w.conns (retryLoop w k l).conns := by
  induction l generalizing w with
  | nil => exact LLe.refl _
  | cons e rest ih =>
    unfold retryLoop
    split
    · exact LLe.refl _
    · dsimp only
      generalize hw0 : ({ w with totalRetries := w.totalRetries + 1 } : World) = w0
      have hw0 : w0.conns = w.conns := by subst hw0; rfl
      have h := lle_runEntry w0 k e
      rw [hw0] at h
      revert h
      cases runEntry w0 k e with
      | mk w1 o =>
        intro h
        dsimp only at h ⊢
        split
        · exact h
        · exact h
        · split
          · exact h
          · exact h.trans (ih _)

theorem lle_runTask (w : World) (k : Nat) (t : Task) : LLe w.conns (runTask w k t).conns := by
  unfold runTask
  split
  · split
    · exact lle_firstPub _ _ _ _
    · split <;> exact LLe.refl _
  · exact lle_subscribeTask _ _ _
  · dsimp only; split
    · exact lle_firstUnsub _ _ _
    · exact LLe.refl _
  · exact lle_resubLoop _ _ _
  · exact lle_retryLoop _ _ _
  · dsimp only; split <;> lle

theorem lle_runTasks (fuel : Nat) (w : World) : LLe w.conns (runTasks fuel w).conns := by
  induction fuel generalizing w with
  | zero => exact LLe.refl _
  | succ n ih =>
    unfold runTasks
    split; exact LLe.refl _
    split; exact LLe.refl _
    dsimp only
    split
    · exact LLe.refl _
    · exact LLe.refl _
    · next t rest k _ _ =>
      have h := lle_runTask { w with gConnected := true, taskQ := rest, totalTasks := w.totalTasks + 1 } k t
      split
      · exact h
      · refine LLe.trans ?_ (ih _)
        split
        · refine h.trans ?_; lle
        · exact h

theorem view_loopReact (w : World) :
    let w' := loopReact w
    w'.cfg = w.cfg ∧ w'.handler = w.handler ∧ w'.cli = w.cli ∧ w'.handled = w.handled ∧ w'.conns = w.conns ∧
    w'.stuck = w.stuck ∧ w'.faults = w.faults ∧
    (∀ k, w'.phase = .up k ∨ w'.phase = .connackGate k → w'.phase = w.phase) := by
  unfold loopReact
  split
  · split
    · simp
    · split <;> simp
  · simp

/-- what `progress` (task goroutine, then the reconnect loop's reaction) leaves alone -/
structure PF (w w' : World) : Prop where
  cfg : w'.cfg = w.cfg
  handler : w'.handler = w.handler
  cli : w'.cli = w.cli
  handled : w'.handled = w.handled
  phase : ∀ k, w'.phase = .up k ∨ w'.phase = .connackGate k → w'.phase = w.phase
  conns : LLe w.conns w'.conns

theorem pf_progress (w : World) : PF w (progress w) := by
  unfold progress
  have hv := view_runTasks (w.taskQ.length + 1) w
  have hl := lle_runTasks (w.taskQ.length + 1) w
  generalize runTasks (w.taskQ.length + 1) w = w1 at hv hl
  obtain ⟨h1, h2, h3, h4, h5, _, _, h6⟩ := view_loopReact w1
  simp only [view, View.mk.injEq] at hv
  exact ⟨h1.trans hv.1, h2.trans hv.2.1, h3.trans hv.2.2.1, h4.trans hv.2.2.2.1,
    fun k hk => (h6 k hk).trans hv.2.2.2.2.1, by rw [h5]; exact hl⟩

/-! ### the invariant behind C17 -/

/-- the reconnect loop watches the client's current connection object, which exists and carries the
    client's current handler -/
structure HInv (w : World) : Prop where
  cur : ∀ k, w.cli = some k → k < w.conns.length ∧ (getConn w k).handler = w.handler
  ph : ∀ k, w.phase = .up k ∨ w.phase = .connackGate k → w.cli = some k

theorem HInv.frame {w w' : World} (hi : HInv w) (hh : w'.handler = w.handler) (hc : w'.cli = w.cli)
    (hp : ∀ k, w'.phase = .up k ∨ w'.phase = .connackGate k → w.phase = .up k ∨ w.phase = .connackGate k)
    (hl : LLe w.conns w'.conns) : HInv w' := by
  constructor
  · intro k hk
    rw [hc] at hk
    obtain ⟨h1, h2⟩ := hi.cur k hk
    refine ⟨by rw [hl.1]; exact h1, ?_⟩
    unfold getConn at h2 ⊢
    rw [(hl.2 k).1, h2, hh]
  · intro k hk
    rw [hc]
    exact hi.ph k (hp k hk)

theorem HInv.pf {w w' : World} (hi : HInv w) (h : PF w w') : HInv w' :=
  hi.frame h.handler h.cli (fun k hk => by rw [← h.phase k hk]; exact hk) h.conns

theorem HInv_init (s : Script) : HInv (init s) := by
  constructor <;> intro k h <;> simp [init] at h

/-! ### inbound messages -/

theorem deliverInbound_conns (w : World) (k m q j : Nat) :
    (deliverInbound w k m q).conns.length = w.conns.length ∧
    (getConn (deliverInbound w k m q) j).alive = (getConn w j).alive ∧
    (getConn (deliverInbound w k m q) j).handler = (getConn w j).handler := by
  unfold deliverInbound
  dsimp only
  split
  · exact ⟨rfl, rfl, rfl⟩
  · split <;> split <;> simp only [logPkt, setConn, getConn, getD_set, List.length_set] <;>
      (try split) <;> simp_all

theorem deliverInbound_frame (w : World) (k m q : Nat) :
    let w' := deliverInbound w k m q
    w'.cfg = w.cfg ∧ w'.handler = w.handler ∧ w'.cli = w.cli ∧ w'.stuck = w.stuck ∧ w'.faults = w.faults ∧
    w'.phase = w.phase := by
  unfold deliverInbound
  dsimp only
  split
  · simp
  · split <;> split <;> simp [logPkt, setConn]

theorem deliverInbound_handled (w : World) (k m q : Nat) :
    (deliverInbound w k m q).handled = w.handled ++
      (if (getConn w k).alive then (match (getConn w k).handler with | some h => [(k, h, m)] | none => []) else []) := by
  unfold deliverInbound
  dsimp only
  split
  · next h => simp
  · next h =>
    simp only [Bool.not_eq_true, Bool.not_eq_false] at h
    split <;> split <;> simp_all [logPkt, setConn]

/-- the messages pushed right behind CONNACK -/
def deliverAll (w : World) (k : Nat) (inb : List (Nat × Nat)) : World :=
  inb.foldl (fun w (mq : Nat × Nat) => deliverInbound w k mq.1 mq.2) w

theorem deliverAll_conns (k : Nat) (inb : List (Nat × Nat)) (w : World) (j : Nat) :
    (deliverAll w k inb).conns.length = w.conns.length ∧
    (getConn (deliverAll w k inb) j).alive = (getConn w j).alive ∧
    (getConn (deliverAll w k inb) j).handler = (getConn w j).handler := by
  induction inb generalizing w with
  | nil => exact ⟨rfl, rfl, rfl⟩
  | cons a rest ih =>
    obtain ⟨h1, h2, h3⟩ := ih (deliverInbound w k a.1 a.2)
    obtain ⟨g1, g2, g3⟩ := deliverInbound_conns w k a.1 a.2 j
    exact ⟨h1.trans g1, h2.trans g2, h3.trans g3⟩

theorem deliverAll_frame (k : Nat) (inb : List (Nat × Nat)) (w : World) :
    let w' := deliverAll w k inb
    w'.cfg = w.cfg ∧ w'.handler = w.handler ∧ w'.cli = w.cli ∧ w'.stuck = w.stuck ∧ w'.faults = w.faults ∧
    w'.phase = w.phase := by
  induction inb generalizing w with
  | nil => simp [deliverAll]
  | cons a rest ih =>
    obtain ⟨h1, h2, h3, h4, h5, h6⟩ := ih (deliverInbound w k a.1 a.2)
    obtain ⟨g1, g2, g3, g4, g5, g6⟩ := deliverInbound_frame w k a.1 a.2
    exact ⟨h1.trans g1, h2.trans g2, h3.trans g3, h4.trans g4, h5.trans g5, h6.trans g6⟩

theorem deliverAll_handled (k : Nat) (inb : List (Nat × Nat)) (w : World) :
    (deliverAll w k inb).handled = w.handled ++
      (if (getConn w k).alive then
        (match (getConn w k).handler with | some h => inb.map (fun mq => (k, h, mq.1)) | none => []) else []) := by
  induction inb generalizing w with
  | nil => simp [deliverAll]; split <;> simp
  | cons a rest ih =>
    have := ih (deliverInbound w k a.1 a.2)
    obtain ⟨_, g2, g3⟩ := deliverInbound_conns w k a.1 a.2 k
    rw [g2, g3, deliverInbound_handled] at this
    show (deliverAll (deliverInbound w k a.1 a.2) k rest).handled = _
    rw [this]
    cases (getConn w k).alive <;> cases (getConn w k).handler <;> simp

theorem lle_of_pointwise {l l' : List Conn} (h : ∀ j, l'.length = l.length ∧
    (l'.getD j {}).alive = (l.getD j {}).alive ∧ (l'.getD j {}).handler = (l.getD j {}).handler) : LLe l l' :=
  ⟨(h 0).1, fun j => ⟨(h j).2.2, fun hd => by rw [(h j).2.1]; exact hd⟩⟩

theorem getConn_setConn (w : World) (k j : Nat) (c : Conn) :
    getConn (setConn w k c) j = if j = k ∧ k < w.conns.length then c else getConn w j := by
  simp only [getConn, setConn, getD_set]

/-- the rest of the `connackOk` step once the messages behind CONNACK have been served: the world in
    which the task goroutine starts -/
def afterConnack (w : World) (sp : Bool) (k : Nat) : World :=
  let w := { w with connReady := true, waitExp := 0,
                    connectReturned := if w.connectReturned.isNone then some sp else w.connectReturned }
  let w := if w.initialized ∧ (¬ sp ∨ w.cfg.always) ∧ ¬ w.stopped then pushTask w .resubscribe else w
  let w := if w.stopped then w else pushTask w .retry
  { w with initialized := true, phase := if w.stopped then .exited else .up k }

theorem afterConnack_frame (w : World) (sp : Bool) (k : Nat) :
    let W := afterConnack w sp k
    W.handler = w.handler ∧ W.cli = w.cli ∧ W.cfg = w.cfg ∧
    W.phase = (if w.stopped then .exited else .up k) ∧ W.stuck = w.stuck ∧
    W.faults = w.faults ∧ W.handled = w.handled ∧ W.conns = w.conns := by
  unfold afterConnack
  dsimp only
  by_cases hs : w.stopped = true
  · have hc : ¬ (w.initialized = true ∧ (¬ sp = true ∨ w.cfg.always = true) ∧ ¬ w.stopped = true) :=
      fun h => h.2.2 hs
    rw [if_neg hc]; simp [hs]
  · by_cases hc : w.initialized = true ∧ (¬ sp = true ∨ w.cfg.always = true) ∧ ¬ w.stopped = true
    · rw [if_pos hc]; simp [pushTask, hs]
    · rw [if_neg hc]; simp [pushTask, hs]

theorem deliverInbound_stopped (w : World) (k m q : Nat) : (deliverInbound w k m q).stopped = w.stopped := by
  unfold deliverInbound
  dsimp only
  split
  · rfl
  · split <;> split <;> simp [logPkt, setConn]

theorem deliverAll_stopped (k : Nat) (inb : List (Nat × Nat)) (w : World) :
    (deliverAll w k inb).stopped = w.stopped := by
  induction inb generalizing w with
  | nil => rfl
  | cons a rest ih => exact (ih (deliverInbound w k a.1 a.2)).trans (deliverInbound_stopped w k a.1 a.2)

theorem connackOk_step (w : World) (k : Nat) (sp : Bool) (inb : List (Nat × Nat)) (h : w.phase = .connackGate k) :
    step w (.connackOk sp inb) =
      progress (afterConnack (deliverAll { setConn w k { getConn w k with connected := true } with
                          broker := if sp then w.broker else w.broker.clearSession } k inb) sp k) := by
  simp only [step, h]
  rfl

theorem connackOk_pre (w : World) (k : Nat) (sp : Bool) (inb : List (Nat × Nat)) :
    let W0 : World := { setConn w k { getConn w k with connected := true } with
                          broker := if sp then w.broker else w.broker.clearSession }
    let W := afterConnack (deliverAll W0 k inb) sp k
    W.handler = w.handler ∧ W.cli = w.cli ∧ W.cfg = w.cfg ∧
    W.phase = (if w.stopped then .exited else .up k) ∧ W.stuck = w.stuck ∧
    W.faults = w.faults ∧ LLe w.conns W.conns ∧
    W.handled = w.handled ++ (if (getConn w k).alive then
        (match (getConn w k).handler with | some h => inb.map (fun mq => (k, h, mq.1)) | none => []) else []) := by
  intro W0 W
  obtain ⟨a1, a2, a3, a4, a5, a6, a7, a8⟩ := afterConnack_frame (deliverAll W0 k inb) sp k
  obtain ⟨d1, d2, d3, d4, d5, d6⟩ := deliverAll_frame k inb W0
  have hW0 : LLe w.conns W0.conns := by show LLe w.conns (setConn w k _).conns; lle
  have hc : getConn W0 k = getConn (setConn w k { getConn w k with connected := true }) k := rfl
  have hal : (getConn W0 k).alive = (getConn w k).alive := by
    rw [hc, getConn_setConn]; split <;> rfl
  have hha : (getConn W0 k).handler = (getConn w k).handler := by
    rw [hc, getConn_setConn]; split <;> rfl
  have hst : (deliverAll W0 k inb).stopped = w.stopped := deliverAll_stopped k inb W0
  refine ⟨a1.trans d2, a2.trans d3, a3.trans d1, by rw [a4, hst], a5.trans d4, a6.trans d5, ?_, ?_⟩
  · rw [a8]
    exact hW0.trans (lle_of_pointwise (fun j => deliverAll_conns k inb W0 j))
  · rw [a7, deliverAll_handled, hal, hha]; rfl

/-- a failed Connect: the connection is closed; the loop starts backing off (no DialContext call yet:
    that needs `.waitElapsed`), or exits if the client has been stopped -/
theorem connectFailed_frame (w : World) (k : Nat) :
    let W := connectFailed w k
    W.handler = w.handler ∧ W.cli = w.cli ∧ W.cfg = w.cfg ∧ W.stuck = w.stuck ∧ W.faults = w.faults ∧
    W.handled = w.handled ∧ W.conns = (kill w k).conns ∧
    W.phase = (if w.stopped then .exited else .backoff) ∧ W.stopped = w.stopped ∧
    W.dials = w.dials := by
  unfold connectFailed
  dsimp only
  have hs : (kill { w with connReady := true } k).stopped = w.stopped := rfl
  rw [hs]
  cases w.stopped <;> simp [kill, setConn, getConn]

/-! ### one environment event -/

theorem step_handler (w : World) (e : Ev) :
    (step w e).handler = match e with | .handle h => some h | _ => w.handler := by
  cases e with
  | start => simp only [step]; split <;> (try split) <;> (try split) <;> rfl
  | app r => simp only [step]; split; rfl; exact (pf_progress _).handler
  | dialOk i =>
    simp only [step]; split; rfl
    split
    · exact (pf_progress _).handler
    · rfl
  | dialFail => simp only [step]; split <;> (try split) <;> (try split) <;> rfl
  | waitElapsed => simp only [step]; split <;> rfl
  | cancelCtx =>
    simp only [step]; split; rfl
    split <;> (try split) <;> first | rfl | exact (pf_progress _).handler
  | connackOk sp inb =>
    dsimp only
    cases hph : w.phase with
    | connackGate k =>
      rw [connackOk_step w k sp inb hph, (pf_progress _).handler]
      exact (connackOk_pre w k sp inb).1
    | _ => simp only [step, hph]
  | connackRefused =>
    simp only [step]; split
    · exact (pf_progress _).handler.trans (connectFailed_frame _ _).1
    · rfl
  | connackNever =>
    simp only [step]; split
    · split
      · exact (pf_progress _).handler.trans (connectFailed_frame _ _).1
      · rfl
    · rfl
  | peerClose =>
    simp only [step]; split
    · exact (pf_progress _).handler
    · rfl
  | inbound m q =>
    simp only [step]; split
    · exact (deliverInbound_frame _ _ _ _).2.1
    · rfl
  | handle h => simp only [step]; split <;> rfl
  | disconnect =>
    simp only [step]; split; rfl
    split <;> exact (pf_progress _).handler

theorem HInv_connectFailed {w : World} (hi : HInv w) (k : Nat) : HInv (connectFailed w k) := by
  obtain ⟨h1, h2, _, _, _, _, h7, h8, _, _⟩ := connectFailed_frame w k
  refine hi.frame h1 h2 ?_ ?_
  · intro j hj
    rw [h8] at hj
    cases hs : w.stopped <;> simp [hs] at hj
  · rw [h7]; lle

theorem step_HInv (w : World) (e : Ev) (hi : HInv w) : HInv (step w e) := by
  cases e with
  | start =>
    simp only [step]; split
    · exact hi
    · split <;> (try split) <;> (refine hi.frame rfl rfl ?_ (LLe.refl _); intro j hj; simp at hj)
  | waitElapsed =>
    simp only [step]; split
    · refine hi.frame rfl rfl ?_ (LLe.refl _); intro j hj; simp at hj
    · exact hi
  | cancelCtx =>
    simp only [step]; split
    · exact hi
    · have hW0 : HInv { w with ctxCancelled := true } := hi.frame rfl rfl (fun _ h => h) (LLe.refl _)
      split
      · exact hW0
      · refine hi.frame rfl rfl ?_ (LLe.refl _); intro j hj; simp at hj
      · split
        · exact hi.frame rfl rfl (fun _ h => h) (LLe.refl _)
        · refine hi.frame rfl rfl ?_ (LLe.refl _); intro j hj; simp at hj
      · refine HInv.pf ?_ (pf_progress _)
        refine hi.frame rfl rfl ?_ ?_
        · intro j hj; simp at hj
        · lle
      · exact hi.frame rfl rfl (fun _ h => h) (LLe.refl _)
      · exact hW0
  | app r =>
    simp only [step]; split
    · exact hi.frame rfl rfl (fun _ h => h) (LLe.refl _)
    · refine HInv.pf ?_ (pf_progress _)
      exact hi.frame rfl rfl (fun _ h => h) (LLe.refl _)
  | dialOk i =>
    simp only [step]; split
    · exact hi
    · split
      · refine HInv.pf ?_ (pf_progress _)
        constructor
        · intro k hk
          simp only [Option.some.injEq] at hk
          subst hk
          simp [getConn]
        · intro k hk
          simp at hk
      · constructor
        · intro k hk
          simp only [Option.some.injEq] at hk
          subst hk
          simp [getConn]
        · intro k hk
          simp only [reduceCtorEq, Phase.connackGate.injEq, false_or] at hk
          subst hk; rfl
  | dialFail =>
    simp only [step]; split
    · exact hi
    · split
      · refine hi.frame rfl rfl ?_ (LLe.refl _); intro j hj; simp at hj
      · split <;> (refine hi.frame rfl rfl ?_ (LLe.refl _); intro j hj; simp at hj)
  | connackOk sp inb =>
    cases hph : w.phase with
    | connackGate k =>
      rw [connackOk_step w k sp inb hph]
      obtain ⟨h1, h2, _, h4, _, _, h7, _⟩ := connackOk_pre w k sp inb
      refine HInv.pf (hi.frame h1 h2 ?_ h7) (pf_progress _)
      intro j hj
      rw [h4] at hj
      cases hs : w.stopped <;> simp [hs] at hj
      subst hj; exact Or.inr hph
    | _ => simp only [step, hph]; exact hi
  | connackRefused =>
    simp only [step]; split
    · exact HInv.pf (HInv_connectFailed hi _) (pf_progress _)
    · exact hi
  | connackNever =>
    simp only [step]; split
    · split
      · exact HInv.pf (HInv_connectFailed hi _) (pf_progress _)
      · exact hi
    · exact hi
  | peerClose =>
    simp only [step]; split
    · refine HInv.pf ?_ (pf_progress _)
      refine hi.frame rfl rfl (fun _ h => h) ?_; lle
    · exact hi
  | inbound m q =>
    simp only [step]; split
    · next k hk =>
      obtain ⟨_, h2, h3, _, _, h6⟩ := deliverInbound_frame w k m q
      refine hi.frame h2 h3 (fun _ h => by rw [← h6]; exact h)
        (lle_of_pointwise (fun j => deliverInbound_conns w k m q j))
    · exact hi
  | handle h =>
    simp only [step]; split
    · next k hk =>
      replace hk : w.cli = some k := hk
      constructor
      · intro j hj
        replace hj : w.cli = some j := hj
        have : j = k := by
          have : (some j : Option Nat) = some k := hj.symm.trans hk
          simpa using this
        subst this
        have hlt := (hi.cur j hk).1
        refine ⟨by simpa [setConn] using hlt, ?_⟩
        rw [getConn_setConn, if_pos ⟨rfl, hlt⟩]
        rfl
      · intro j hj; exact hi.ph j hj
    · next hn =>
      replace hn : w.cli = none := hn
      constructor
      · intro j hj
        replace hj : w.cli = some j := hj
        rw [hn] at hj; cases hj
      · intro j hj; exact hi.ph j hj
  | disconnect =>
    simp only [step]; split
    · exact hi
    · have hW0 : HInv { pushTask w .disconnect with stopped := true } :=
        hi.frame rfl rfl (fun _ h => h) (LLe.refl _)
      have hW := HInv.pf hW0 (pf_progress _)
      split
      · refine hW.frame rfl rfl ?_ (LLe.refl _); intro j hj; simp at hj
      · refine hW.frame rfl rfl ?_ (LLe.refl _); intro j hj; simp at hj
      · exact hW

/-- the hand-overs that one environment event must produce in world `w`: one per inbound message that
    arrives on the live connection the reconnect loop is on, if a handler has been registered -/
def handOver (w : World) : Ev → List (Nat × Nat × Nat)
  | .inbound m _ =>
    match w.phase with
    | .up k => if (getConn w k).alive then (match w.handler with | some h => [(k, h, m)] | none => []) else []
    | _ => []
  | .connackOk _ inb =>
    match w.phase with
    | .connackGate k =>
      if (getConn w k).alive then (match w.handler with | some h => inb.map (fun mq => (k, h, mq.1)) | none => []) else []
    | _ => []
  | _ => []

theorem step_handled (w : World) (e : Ev) (hi : HInv w) : (step w e).handled = w.handled ++ handOver w e := by
  cases e with
  | start => simp only [step, handOver]; split <;> (try split) <;> (try split) <;> simp
  | waitElapsed => simp only [step, handOver]; split <;> simp
  | cancelCtx =>
    simp only [step, handOver]; split; simp
    split <;> (try split) <;> first | (rw [(pf_progress _).handled]; simp [kill, setConn]) | simp
  | app r => simp only [step, handOver]; split; simp; rw [(pf_progress _).handled]; simp [pushTask]
  | dialOk i =>
    simp only [step, handOver]; split; simp
    split
    · rw [(pf_progress _).handled]; simp
    · simp
  | dialFail => simp only [step, handOver]; split <;> (try split) <;> (try split) <;> simp
  | connackOk sp inb =>
    cases hph : w.phase with
    | connackGate k =>
      rw [connackOk_step w k sp inb hph, (pf_progress _).handled]
      simp only [handOver, hph]
      rw [(connackOk_pre w k sp inb).2.2.2.2.2.2.2, (hi.cur k (hi.ph k (Or.inr hph))).2]
    | _ => simp only [step, handOver, hph, List.append_nil]
  | connackRefused =>
    simp only [step, handOver]; split
    · rw [(pf_progress _).handled, (connectFailed_frame _ _).2.2.2.2.2.1]; simp
    · simp
  | connackNever =>
    simp only [step, handOver]; split
    · split
      · rw [(pf_progress _).handled, (connectFailed_frame _ _).2.2.2.2.2.1]; simp
      · simp
    · simp
  | peerClose =>
    simp only [step, handOver]; split
    · rw [(pf_progress _).handled]; simp [kill, setConn]
    · simp
  | inbound m q =>
    cases hph : w.phase with
    | up k =>
      simp only [step, handOver, hph]
      rw [deliverInbound_handled, (hi.cur k (hi.ph k (Or.inl hph))).2]
    | _ => simp only [step, handOver, hph, List.append_nil]
  | handle h => simp only [step, handOver]; split <;> simp [setConn]
  | disconnect =>
    simp only [step, handOver]; split; simp
    have : (progress { pushTask w .disconnect with stopped := true }).handled = w.handled :=
      (pf_progress _).handled
    split <;> simpa using this

/-! ### runs -/

theorem snoc_induction {α} {P : List α → Prop} (nil : P []) (snoc : ∀ l a, P l → P (l ++ [a])) (l : List α) : P l := by
  have : ∀ r : List α, P r.reverse := by
    intro r
    induction r with
    | nil => exact nil
    | cons a r ih => rw [List.reverse_cons]; exact snoc _ _ ih
  simpa using this l.reverse

theorem exec_snoc (cfg : Cfg) (method : Method) (faults : List Fault) (evs : List Ev) (e : Ev) :
    exec { cfg, method, faults, evs := evs ++ [e] } = step (exec { cfg, method, faults, evs }) e := by
  simp [exec, init, List.foldl_append]

theorem exec_HInv (s : Script) : HInv (exec s) := by
  obtain ⟨cfg, method, faults, evs⟩ := s
  induction evs using snoc_induction with
  | nil => exact HInv_init _
  | snoc evs e ih => rw [exec_snoc]; exact step_HInv _ _ ih

end Mqtt.Retry
