/-
  Helper definitions and lemmas about the heap model (Model/Heap.lean) for property C20.
-/
import MqttVerif.Model.Heap

namespace Mqtt

/-- well-formed heap: nothing is allocated at or above `next`, and every message's payload buffer is
    allocated -/
def Heap.WF (h : Heap) : Prop :=
  (∀ a, h.next ≤ a → h.msgs a = none ∧ h.bufs a = none) ∧
  (∀ a m, h.msgs a = some m → m.payload < h.next ∧ (h.bufs m.payload).isSome)

/-- the objects a handler called with pointer `p` may write: the struct at p, the buffer p's payload
    points to at call time, and anything it allocates itself (addresses ≥ h.next). It may do so in any
    way, and it may allocate. -/
def Frame (f : HandlerFn) : Prop := ∀ (h : Heap) (p : Nat), h.WF →
  (f h p).WF ∧ h.next ≤ (f h p).next ∧
  (∀ a, a < h.next → a ≠ p → (f h p).msgs a = h.msgs a) ∧
  (∀ a, a < h.next → (∀ m, h.msgs p = some m → a ≠ m.payload) → (f h p).bufs a = h.bufs a)

/-- no message other than `p` itself shares p's payload buffer (true of every message the library
    creates: parsers and clone allocate a fresh buffer) -/
def Heap.Unshared (h : Heap) (p : Nat) : Prop :=
  ∀ q mq mp, q ≠ p → h.msgs q = some mq → h.msgs p = some mp → mq.payload ≠ mp.payload

/-- pointer `q` does not point to the payload buffer of `c` (vacuous if either is not a message) -/
def Heap.NoAlias (h : Heap) (q c : Nat) : Prop :=
  ∀ mq mc, h.msgs q = some mq → h.msgs c = some mc → mq.payload ≠ mc.payload

theorem Heap.WF.lt_of_msg {h : Heap} (hw : h.WF) {a : Nat} {m : MsgObj} (hm : h.msgs a = some m) :
    a < h.next := by
  apply Nat.lt_of_not_le
  intro hle
  have := (hw.1 a hle).1
  rw [hm] at this
  cases this

theorem Heap.view_isSome {h : Heap} {p : Nat} (hp : (h.view p).isSome) :
    ∃ m b, h.msgs p = some m ∧ h.bufs m.payload = some b := by
  unfold Heap.view at hp
  cases hm : h.msgs p with
  | none => simp [hm] at hp
  | some m =>
    cases hb : h.bufs m.payload with
    | none => simp [hm, hb] at hp
    | some b => exact ⟨m, b, rfl, hb⟩

/-- the view depends only on the struct and on the buffer it points to -/
theorem Heap.view_congr {h g : Heap} {p : Nat} {m : MsgObj} (hm : h.msgs p = some m)
    (h1 : g.msgs p = h.msgs p) (h2 : g.bufs m.payload = h.bufs m.payload) : g.view p = h.view p := by
  unfold Heap.view
  rw [h1, hm]
  simp only [h2]

/-- everything `clone` does, spelled out -/
theorem Heap.clone_spec (h : Heap) (p : Nat) (m : MsgObj) (b : Bytes)
    (hm : h.msgs p = some m) (hb : h.bufs m.payload = some b) :
    (h.clone p).2 = h.next + 1 ∧ (h.clone p).1.next = h.next + 2 ∧
    (h.clone p).1.msgs (h.next + 1) =
      some { m with payload := h.next, plen := (b.take m.plen).length } ∧
    (h.clone p).1.bufs h.next = some (b.take m.plen) ∧
    (∀ a, a ≠ h.next + 1 → (h.clone p).1.msgs a = h.msgs a) ∧
    (∀ a, a ≠ h.next → (h.clone p).1.bufs a = h.bufs a) := by
  simp only [Heap.clone, hm, hb, Heap.allocBuf, Heap.allocMsg, Option.getD_some]
  refine ⟨trivial, trivial, ?_, ?_, ?_, ?_⟩
  · simp
  · simp
  · intro a ha; simp [ha]
  · intro a ha; simp [ha]

theorem Heap.clone_WF (h : Heap) (hw : h.WF) (p : Nat) (hp : (h.view p).isSome) :
    (h.clone p).1.WF := by
  obtain ⟨m, b, hm, hb⟩ := Heap.view_isSome hp
  obtain ⟨_, hn, hc, hnb, hmsgs, hbufs⟩ := Heap.clone_spec h p m b hm hb
  constructor
  · intro a ha
    rw [hn] at ha
    rw [hmsgs a (by omega), hbufs a (by omega)]
    exact hw.1 a (by omega)
  · intro a m' hm'
    rw [hn]
    by_cases hac : a = h.next + 1
    · subst hac
      rw [hc] at hm'
      cases hm'
      simp only
      exact ⟨by omega, by rw [hnb]; rfl⟩
    · rw [hmsgs a hac] at hm'
      have := hw.2 a m' hm'
      refine ⟨by omega, ?_⟩
      rw [hbufs _ (by omega)]
      exact this.2

theorem Heap.clone_view_new (h : Heap) (p : Nat) (hp : (h.view p).isSome) :
    (h.clone p).1.view (h.clone p).2 = h.view p := by
  obtain ⟨m, b, hm, hb⟩ := Heap.view_isSome hp
  obtain ⟨h2, _, hc, hnb, _, _⟩ := Heap.clone_spec h p m b hm hb
  rw [h2]
  simp only [Heap.view, hc, hnb, hm, hb, List.take_length]

theorem Heap.clone_view_old (h : Heap) (hw : h.WF) (p : Nat) (hp : (h.view p).isSome)
    (q : Nat) (hq' : q ≠ (h.clone p).2) : (h.clone p).1.view q = h.view q := by
  obtain ⟨m, b, hm, hb⟩ := Heap.view_isSome hp
  obtain ⟨h2, _, _, _, hmsgs, hbufs⟩ := Heap.clone_spec h p m b hm hb
  rw [h2] at hq'
  cases hq : h.msgs q with
  | none =>
    have hq1 : (h.clone p).1.msgs q = none := by
      rw [hmsgs q hq', hq]
    simp [Heap.view, hq, hq1]
  | some mq =>
    have hlt := hw.lt_of_msg hq
    have hpay := (hw.2 q mq hq).1
    exact Heap.view_congr hq (hmsgs q (by omega)) (hbufs _ (by omega))

/-- right after `clone`, nothing but the clone itself points to the clone's buffer -/
theorem Heap.clone_noAlias (h : Heap) (hw : h.WF) (p : Nat) (hp : (h.view p).isSome)
    (q : Nat) (hq : q ≠ (h.clone p).2) : (h.clone p).1.NoAlias q (h.clone p).2 := by
  obtain ⟨m, b, hm, hb⟩ := Heap.view_isSome hp
  obtain ⟨h2, _, hc, _, hmsgs, _⟩ := Heap.clone_spec h p m b hm hb
  rw [h2] at hq ⊢
  intro mq mc hmq hmc
  rw [hc] at hmc
  cases hmc
  rw [hmsgs q hq] at hmq
  have := (hw.2 q mq hmq).1
  simp only
  omega

theorem Heap.clone_unshared (h : Heap) (hw : h.WF) (p : Nat) (hp : (h.view p).isSome) :
    (h.clone p).1.Unshared (h.clone p).2 :=
  fun q mq mp hq hmq hmp => Heap.clone_noAlias h hw p hp q hq mq mp hmq hmp

theorem Heap.clone_ne_old (h : Heap) (hw : h.WF) (p : Nat) (hp : (h.view p).isSome)
    (q : Nat) (mq : MsgObj) (hq : h.msgs q = some mq) : q ≠ (h.clone p).2 := by
  obtain ⟨m, b, hm, hb⟩ := Heap.view_isSome hp
  obtain ⟨h2, _⟩ := Heap.clone_spec h p m b hm hb
  have := hw.lt_of_msg hq
  omega

theorem Heap.clone_msg_isSome (h : Heap) (p : Nat) (hp : (h.view p).isSome) :
    ∃ mc, (h.clone p).1.msgs (h.clone p).2 = some mc := by
  obtain ⟨m, b, hm, hb⟩ := Heap.view_isSome hp
  obtain ⟨h2, _, hc, _⟩ := Heap.clone_spec h p m b hm hb
  rw [h2, hc]
  exact ⟨_, rfl⟩

/-- a handler called with `q` does not change what a reader of another message `x` sees, provided
    `q` does not point to x's buffer at call time -/
theorem Frame.view_preserved {f : HandlerFn} (hf : Frame f) {g : Heap} (hw : g.WF) (q x : Nat)
    (mx : MsgObj) (hmx : g.msgs x = some mx) (hx : x ≠ q) (hna : g.NoAlias q x) :
    (f g q).view x = g.view x ∧ (f g q).msgs x = some mx := by
  obtain ⟨_, _, hmsgs, hbufs⟩ := hf g q hw
  have hlt := hw.lt_of_msg hmx
  have hpay := (hw.2 x mx hmx).1
  have h1 : (f g q).msgs x = g.msgs x := hmsgs x hlt hx
  refine ⟨Heap.view_congr hmx h1 (hbufs _ hpay ?_), by rw [h1, hmx]⟩
  intro mq hmq heq
  exact hna mq mx hmq hmx heq.symm

/-! ### ServeMux -/

theorem muxRun_cons (h : Heap) (f : HandlerFn) (rest : List HandlerFn) (p : Nat) :
    muxRun h (f :: rest) p =
      ((muxRun (f (h.clone p).1 (h.clone p).2) rest p).1,
       (h.clone p).1.view (h.clone p).2 :: (muxRun (f (h.clone p).1 (h.clone p).2) rest p).2) := rfl

/-- one handler invocation of ServeMux.Serve: clone, then run the handler on the clone -/
theorem mux_step (h : Heap) (hw : h.WF) (f : HandlerFn) (hf : Frame f) (p : Nat)
    (hp : (h.view p).isSome) :
    (f (h.clone p).1 (h.clone p).2).WF ∧ (f (h.clone p).1 (h.clone p).2).view p = h.view p := by
  obtain ⟨m, b, hm, hb⟩ := Heap.view_isSome hp
  have hw1 := Heap.clone_WF h hw p hp
  have hne := Heap.clone_ne_old h hw p hp p m hm
  have hv1 := Heap.clone_view_old h hw p hp p hne
  obtain ⟨_, _, _, _, hmsgs, _⟩ := Heap.clone_spec h p m b hm hb
  have hm1 : (h.clone p).1.msgs p = some m := by
    rw [hmsgs p (by have := hw.lt_of_msg hm; omega), hm]
  have hna : (h.clone p).1.NoAlias (h.clone p).2 p := by
    intro mc mp hmc hmp heq
    exact Heap.clone_noAlias h hw p hp p hne mp mc hmp hmc heq.symm
  refine ⟨(hf _ _ hw1).1, ?_⟩
  rw [(hf.view_preserved hw1 _ p m hm1 hne hna).1, hv1]

theorem muxRun_private (fs : List HandlerFn) (hf : ∀ f ∈ fs, Frame f) (p : Nat) :
    ∀ (h : Heap), h.WF → (h.view p).isSome →
      (∀ v ∈ (muxRun h fs p).2, v = h.view p) ∧ (muxRun h fs p).1.view p = h.view p ∧
      (muxRun h fs p).2.length = fs.length ∧ (muxRun h fs p).1.WF := by
  induction fs with
  | nil => intro h hw _; simp [muxRun, hw]
  | cons f rest ih =>
    intro h hw hp
    have hff := hf f (by simp)
    obtain ⟨hw2, hv2⟩ := mux_step h hw f hff p hp
    have hp2 : ((f (h.clone p).1 (h.clone p).2).view p).isSome := by rw [hv2]; exact hp
    obtain ⟨i1, i2, i3, i4⟩ := ih (fun g hg => hf g (by simp [hg])) _ hw2 hp2
    rw [muxRun_cons]
    refine ⟨?_, ?_, ?_, i4⟩
    · intro v hv
      simp only [List.mem_cons] at hv
      rcases hv with hv | hv
      · rw [hv]; exact Heap.clone_view_new h p hp
      · rw [i1 v hv, hv2]
    · rw [i2, hv2]
    · simp [i3]

/-- ServeMux.Serve called `n` times in a row with the same caller-owned message -/
def muxRounds : Nat → Heap → List HandlerFn → Nat → Heap × List (Option MsgView)
  | 0, h, _, _ => (h, [])
  | n + 1, h, fs, p =>
    ((muxRounds n (muxRun h fs p).1 fs p).1, (muxRun h fs p).2 ++ (muxRounds n (muxRun h fs p).1 fs p).2)

theorem muxRounds_private (fs : List HandlerFn) (hf : ∀ f ∈ fs, Frame f) (p : Nat) (n : Nat) :
    ∀ (h : Heap), h.WF → (h.view p).isSome →
      (∀ v ∈ (muxRounds n h fs p).2, v = h.view p) ∧ (muxRounds n h fs p).1.view p = h.view p ∧
      (muxRounds n h fs p).2.length = n * fs.length ∧ (muxRounds n h fs p).1.WF := by
  induction n with
  | zero => intro h hw _; simp [muxRounds, hw]
  | succ n ih =>
    intro h hw hp
    obtain ⟨r1, r2, r3, r4⟩ := muxRun_private fs hf p h hw hp
    have hp2 : ((muxRun h fs p).1.view p).isSome := by rw [r2]; exact hp
    obtain ⟨i1, i2, i3, i4⟩ := ih _ r4 hp2
    simp only [muxRounds]
    refine ⟨?_, ?_, ?_, i4⟩
    · intro v hv
      simp only [List.mem_append] at hv
      rcases hv with hv | hv
      · exact r1 v hv
      · rw [i1 v hv, r2]
    · rw [i2, r2]
    · rw [List.length_append, r3, i3, Nat.succ_mul, Nat.add_comm]

/-! ### ServeAsync: arbitrary later activity -/

/-- apply the steps left to right: each step is a handler together with the pointer it is called with -/
def runSteps : Heap → List (HandlerFn × Nat) → Heap
  | g, [] => g
  | g, s :: rest => runSteps (s.1 g s.2) rest

/-- at the moment of each call, the pointer handed to the handler does not point to c's buffer -/
def StepsNoAlias (c : Nat) : Heap → List (HandlerFn × Nat) → Prop
  | _, [] => True
  | g, s :: rest => g.NoAlias s.2 c ∧ StepsNoAlias c (s.1 g s.2) rest

theorem runSteps_view (c : Nat) (steps : List (HandlerFn × Nat)) :
    ∀ (g : Heap), g.WF → (∃ mc, g.msgs c = some mc) → (∀ s ∈ steps, Frame s.1 ∧ s.2 ≠ c) →
      StepsNoAlias c g steps → (runSteps g steps).view c = g.view c ∧ (runSteps g steps).WF := by
  induction steps with
  | nil => intro g hw _ _ _; exact ⟨rfl, hw⟩
  | cons s rest ih =>
    intro g hw ⟨mc, hmc⟩ hs hna
    obtain ⟨hf, hne⟩ := hs s (by simp)
    obtain ⟨hv, hm⟩ := hf.view_preserved hw s.2 c mc hmc (Ne.symm hne) hna.1
    obtain ⟨i1, i2⟩ := ih (s.1 g s.2) (hf g s.2 hw).1 ⟨mc, hm⟩
      (fun s' hs' => hs s' (by simp [hs'])) hna.2
    simp only [runSteps]
    exact ⟨by rw [i1, hv], i2⟩

/-- A discipline that makes the non-aliasing assumption self-maintaining: whatever struct the handler
    writes (its own or one it allocates), the payload pointer it leaves there is either the one its own
    message had at call time or a buffer the handler allocated itself. (In Go this is what memory
    safety gives for a buffer that is reachable only from one struct: nobody else can name it.) -/
def NoRetarget (f : HandlerFn) : Prop := ∀ (g : Heap) (q : Nat), g.WF →
  ∀ a m, (f g q).msgs a = some m → (a = q ∨ g.next ≤ a) →
    g.next ≤ m.payload ∨ ∃ mq, g.msgs q = some mq ∧ m.payload = mq.payload

theorem unshared_step {f : HandlerFn} (hf : Frame f) (hr : NoRetarget f) {g : Heap} (hw : g.WF)
    (q c : Nat) (hne : q ≠ c) (mc : MsgObj) (hmc : g.msgs c = some mc) (hu : g.Unshared c) :
    (f g q).Unshared c ∧ (f g q).msgs c = some mc := by
  obtain ⟨_, _, hmsgs, _⟩ := hf g q hw
  have hlt := hw.lt_of_msg hmc
  have hpay := (hw.2 c mc hmc).1
  have h1 : (f g q).msgs c = some mc := by rw [hmsgs c hlt (Ne.symm hne), hmc]
  refine ⟨?_, h1⟩
  intro x mx mc' hx hmx hmc'
  rw [h1] at hmc'
  cases hmc'
  by_cases hold : x < g.next ∧ x ≠ q
  · rw [hmsgs x hold.1 hold.2] at hmx
    exact hu x mx mc hx hmx hmc
  · have hcase : x = q ∨ g.next ≤ x := by omega
    rcases hr g q hw x mx hmx hcase with hfresh | ⟨mq, hmq, heq⟩
    · omega
    · rw [heq]
      exact hu q mq mc hne hmq hmc

theorem stepsNoAlias_of_noRetarget (c : Nat) (steps : List (HandlerFn × Nat)) :
    ∀ (g : Heap), g.WF → (∃ mc, g.msgs c = some mc) → g.Unshared c →
      (∀ s ∈ steps, Frame s.1 ∧ NoRetarget s.1 ∧ s.2 ≠ c) → StepsNoAlias c g steps := by
  induction steps with
  | nil => intro _ _ _ _ _; trivial
  | cons s rest ih =>
    intro g hw ⟨mc, hmc⟩ hu hs
    obtain ⟨hf, hr, hne⟩ := hs s (by simp)
    obtain ⟨hu', hm'⟩ := unshared_step hf hr hw s.2 c hne mc hmc hu
    refine ⟨fun mq mc' hmq hmc' => hu s.2 mq mc' hne hmq hmc', ?_⟩
    exact ih _ (hf g s.2 hw).1 ⟨mc, hm'⟩ hu' (fun s' hs' => hs s' (by simp [hs']))

/-! ### Concrete handlers -/

/-- a handler that sets the topic of the message it was given and overwrites every payload byte in
    place (writes through the slice into the backing buffer) -/
def scribble : HandlerFn := fun h p =>
  match h.msgs p with
  | none => h
  | some m =>
    { h with
      msgs := fun a => if a = p then some { m with topic := [120] } else h.msgs a
      bufs := fun a => if a = m.payload then (h.bufs a).map (fun b => b.map (fun _ => 0)) else h.bufs a }

theorem scribble_none {h : Heap} {p : Nat} (hm : h.msgs p = none) : scribble h p = h := by
  simp [scribble, hm]

theorem scribble_some {h : Heap} {p : Nat} {m : MsgObj} (hm : h.msgs p = some m) :
    (scribble h p).next = h.next ∧
    (∀ a, (scribble h p).msgs a = if a = p then some { m with topic := [120] } else h.msgs a) ∧
    (∀ a, (scribble h p).bufs a =
      if a = m.payload then (h.bufs a).map (fun b => b.map (fun _ => 0)) else h.bufs a) := by
  simp [scribble, hm]

theorem scribble_frame : Frame scribble := by
  intro h p hw
  cases hm : h.msgs p with
  | none => rw [scribble_none hm]; exact ⟨hw, Nat.le_refl _, fun _ _ _ => rfl, fun _ _ _ => rfl⟩
  | some m =>
    obtain ⟨hn, hms, hbs⟩ := scribble_some hm
    have hplt := hw.lt_of_msg hm
    have hpay := hw.2 p m hm
    refine ⟨⟨?_, ?_⟩, Nat.le_of_eq hn.symm, ?_, ?_⟩
    · intro a ha
      rw [hn] at ha
      have := hw.1 a ha
      rw [hms, hbs, if_neg (by omega), if_neg (by omega)]
      exact this
    · intro a m' hm'
      rw [hms] at hm'
      rw [hn, hbs]
      have key : m'.payload < h.next ∧ (h.bufs m'.payload).isSome := by
        by_cases hap : a = p
        · rw [if_pos hap] at hm'
          cases hm'
          exact hpay
        · rw [if_neg hap] at hm'
          exact hw.2 a m' hm'
      refine ⟨key.1, ?_⟩
      by_cases hb : m'.payload = m.payload
      · rw [if_pos hb, Option.isSome_map]; exact key.2
      · rw [if_neg hb]; exact key.2
    · intro a _ hap
      rw [hms, if_neg hap]
    · intro a _ hne
      rw [hbs, if_neg (hne m rfl)]

theorem scribble_noRetarget : NoRetarget scribble := by
  intro g q hw a m hm ha
  cases hq : g.msgs q with
  | none =>
    rw [scribble_none hq] at hm
    rcases ha with ha | ha
    · rw [ha, hq] at hm; cases hm
    · rw [(hw.1 a ha).1] at hm; cases hm
  | some mq =>
    rw [(scribble_some hq).2.1] at hm
    refine Or.inr ⟨mq, rfl, ?_⟩
    by_cases haq : a = q
    · rw [if_pos haq] at hm; cases hm; rfl
    · rw [if_neg haq] at hm
      rcases ha with ha | ha
      · exact absurd ha haq
      · rw [(hw.1 a ha).1] at hm; cases hm

/-- `clone` as a step that other goroutines may take at any time (another Serve call) -/
def cloneH : HandlerFn := fun h p => (h.clone p).1

theorem cloneH_none {h : Heap} {p : Nat} (hm : h.msgs p = none) : cloneH h p = h := by
  simp [cloneH, Heap.clone, hm]

theorem Heap.WF.view_isSome {h : Heap} (hw : h.WF) {p : Nat} {m : MsgObj} (hm : h.msgs p = some m) :
    (h.view p).isSome := by
  have := (hw.2 p m hm).2
  cases hb : h.bufs m.payload with
  | none => rw [hb] at this; cases this
  | some b => simp [Heap.view, hm, hb]

theorem cloneH_frame : Frame cloneH := by
  intro h p hw
  cases hm : h.msgs p with
  | none => rw [cloneH_none hm]; exact ⟨hw, Nat.le_refl _, fun _ _ _ => rfl, fun _ _ _ => rfl⟩
  | some m =>
    have hp := hw.view_isSome hm
    obtain ⟨m', b, hm', hb⟩ := Heap.view_isSome hp
    obtain ⟨_, hn, _, _, hmsgs, hbufs⟩ := Heap.clone_spec h p m' b hm' hb
    refine ⟨Heap.clone_WF h hw p hp, ?_, ?_, ?_⟩
    · show h.next ≤ (h.clone p).1.next
      omega
    · intro a ha _
      exact hmsgs a (by omega)
    · intro a ha _
      exact hbufs a (by omega)

theorem cloneH_noRetarget : NoRetarget cloneH := by
  intro g q hw a m hm ha
  cases hq : g.msgs q with
  | none =>
    rw [cloneH_none hq] at hm
    rcases ha with ha | ha
    · rw [ha, hq] at hm; cases hm
    · rw [(hw.1 a ha).1] at hm; cases hm
  | some mq =>
    have hp := hw.view_isSome hq
    obtain ⟨m', b, hm', hb⟩ := Heap.view_isSome hp
    obtain ⟨_, _, hc, _, hmsgs, _⟩ := Heap.clone_spec g q m' b hm' hb
    change (g.clone q).1.msgs a = some m at hm
    by_cases hac : a = g.next + 1
    · rw [hac, hc] at hm
      cases hm
      exact Or.inl (Nat.le_refl _)
    · rw [hmsgs a hac] at hm
      rcases ha with ha | ha
      · rw [ha, hq] at hm
        cases hm
        exact Or.inr ⟨_, rfl, rfl⟩
      · rw [(hw.1 a ha).1] at hm; cases hm

/-- a handler that appends one byte beyond the capacity of its payload slice: Go allocates a new
    backing array, copies, and the handler stores the new slice into its message -/
def appendH : HandlerFn := fun h p =>
  match h.msgs p with
  | none => h
  | some m =>
    { msgs := fun a => if a = p then some { m with payload := h.next, plen := m.plen + 1 } else h.msgs a
      bufs := fun a =>
        if a = h.next then some (((h.bufs m.payload).getD []).take m.plen ++ [1]) else h.bufs a
      next := h.next + 1 }

theorem appendH_none {h : Heap} {p : Nat} (hm : h.msgs p = none) : appendH h p = h := by
  simp [appendH, hm]

theorem appendH_some {h : Heap} {p : Nat} {m : MsgObj} (hm : h.msgs p = some m) :
    (appendH h p).next = h.next + 1 ∧
    (∀ a, (appendH h p).msgs a =
      if a = p then some { m with payload := h.next, plen := m.plen + 1 } else h.msgs a) ∧
    (∀ a, (appendH h p).bufs a =
      if a = h.next then some (((h.bufs m.payload).getD []).take m.plen ++ [1]) else h.bufs a) := by
  simp [appendH, hm]

theorem appendH_frame : Frame appendH := by
  intro h p hw
  cases hm : h.msgs p with
  | none => rw [appendH_none hm]; exact ⟨hw, Nat.le_refl _, fun _ _ _ => rfl, fun _ _ _ => rfl⟩
  | some m =>
    obtain ⟨hn, hms, hbs⟩ := appendH_some hm
    have hplt := hw.lt_of_msg hm
    refine ⟨⟨?_, ?_⟩, by omega, ?_, ?_⟩
    · intro a ha
      rw [hn] at ha
      rw [hms, hbs, if_neg (by omega), if_neg (by omega)]
      exact hw.1 a (by omega)
    · intro a m' hm'
      rw [hms] at hm'
      rw [hn, hbs]
      by_cases hap : a = p
      · rw [if_pos hap] at hm'
        cases hm'
        simp
      · rw [if_neg hap] at hm'
        have := hw.2 a m' hm'
        rw [if_neg (by omega)]
        exact ⟨by omega, this.2⟩
    · intro a _ hap
      rw [hms, if_neg hap]
    · intro a ha _
      rw [hbs, if_neg (by omega)]

theorem appendH_noRetarget : NoRetarget appendH := by
  intro g q hw a m hm ha
  cases hq : g.msgs q with
  | none =>
    rw [appendH_none hq] at hm
    rcases ha with ha | ha
    · rw [ha, hq] at hm; cases hm
    · rw [(hw.1 a ha).1] at hm; cases hm
  | some mq =>
    rw [(appendH_some hq).2.1] at hm
    by_cases haq : a = q
    · rw [if_pos haq] at hm; cases hm; exact Or.inl (Nat.le_refl _)
    · rw [if_neg haq] at hm
      rcases ha with ha | ha
      · exact absurd ha haq
      · rw [(hw.1 a ha).1] at hm; cases hm

/-- a handler that points its own message's payload at an existing buffer `k` it somehow knows about
    (in Go: a slice it obtained elsewhere). Allowed by `Frame` (it writes only its own struct), but not
    by `NoRetarget`. -/
def retarget (k : Nat) : HandlerFn := fun h p =>
  match h.msgs p with
  | none => h
  | some m =>
    if k < h.next ∧ (h.bufs k).isSome then
      { h with msgs := fun a => if a = p then some { m with payload := k } else h.msgs a }
    else h

theorem retarget_frame (k : Nat) : Frame (retarget k) := by
  intro h p hw
  cases hm : h.msgs p with
  | none =>
    have : retarget k h p = h := by simp [retarget, hm]
    rw [this]; exact ⟨hw, Nat.le_refl _, fun _ _ _ => rfl, fun _ _ _ => rfl⟩
  | some m =>
    by_cases hk : k < h.next ∧ (h.bufs k).isSome
    · have hn : (retarget k h p).next = h.next := by simp [retarget, hm]; split <;> rfl
      have hms : ∀ a, (retarget k h p).msgs a =
          if a = p then some { m with payload := k } else h.msgs a := by
        intro a; simp [retarget, hm, hk]
      have hbs : ∀ a, (retarget k h p).bufs a = h.bufs a := by
        intro a; simp [retarget, hm]; split <;> rfl
      have hplt := hw.lt_of_msg hm
      refine ⟨⟨?_, ?_⟩, by omega, ?_, ?_⟩
      · intro a ha
        rw [hn] at ha
        rw [hms, hbs, if_neg (by omega)]
        exact hw.1 a ha
      · intro a m' hm'
        rw [hms] at hm'
        rw [hn, hbs]
        by_cases hap : a = p
        · rw [if_pos hap] at hm'
          cases hm'
          exact hk
        · rw [if_neg hap] at hm'
          exact hw.2 a m' hm'
      · intro a _ hap
        rw [hms, if_neg hap]
      · intro a _ _
        exact hbs a
    · have : retarget k h p = h := by simp [retarget, hm, hk]
      rw [this]; exact ⟨hw, Nat.le_refl _, fun _ _ _ => rfl, fun _ _ _ => rfl⟩

end Mqtt
