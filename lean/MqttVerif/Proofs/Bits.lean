/- Bit-operation facts on byte-sized naturals, each proved by kernel evaluation over all 256
   (or 16) values and lifted by `% 256`. -/
import MqttVerif.Model.Basic

namespace Mqtt.Bits

theorem or80_lt : ∀ b, b < 256 → b ||| 128 = b % 128 + 128 := by decide +kernel
theorem and7f_lt : ∀ b, b < 256 → b &&& 127 = b % 128 := by decide +kernel
theorem and80_lt : ∀ b, b < 256 → (b &&& 128 = 0 ↔ b < 128) := by decide +kernel
theorem andF0_lt : ∀ b, b < 256 → b &&& 240 = b / 16 * 16 := by decide +kernel
theorem and0F_lt : ∀ b, b < 256 → b &&& 15 = b % 16 := by decide +kernel

theorem or80 (x : Nat) : (x % 256) ||| 0x80 = x % 128 + 128 := by
  have h := or80_lt (x % 256) (Nat.mod_lt _ (by decide))
  rw [show (0x80 : Nat) = 128 from rfl, h]; omega

theorem and7f (x : Nat) : (x % 256) &&& 0x7F = x % 128 := by
  have h := and7f_lt (x % 256) (Nat.mod_lt _ (by decide))
  rw [show (0x7F : Nat) = 127 from rfl, h]; omega

theorem shr7 (n : Nat) : n >>> 7 = n / 128 := by simp [Nat.shiftRight_eq_div_pow]
theorem shr14 (n : Nat) : n >>> 14 = n / 16384 := by simp [Nat.shiftRight_eq_div_pow]
theorem shr21 (n : Nat) : n >>> 21 = n / 2097152 := by simp [Nat.shiftRight_eq_div_pow]
theorem shr8 (n : Nat) : n >>> 8 = n / 256 := by simp [Nat.shiftRight_eq_div_pow]

/-- big-endian uint16 reassembly: `uint16(b0)<<8 | uint16(b1)` -/
theorem be16 (b0 b1 : Nat) (h1 : b1 < 256) : (b0 <<< 8) ||| b1 = b0 * 256 + b1 := by
  rw [← Nat.shiftLeft_add_eq_or_of_lt (by simpa using h1)]
  simp [Nat.shiftLeft_eq]

end Mqtt.Bits
