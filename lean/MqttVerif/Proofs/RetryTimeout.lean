/-
  Lemmas behind C18 (response timeout): `stuck` can only be set by a silent fault without a response
  timeout (`Q`), what one request attempt leaves alone (`TVF`), single-iteration facts about
  `retryLoop`, `runTasks` and `loopReact`. Last two sections: a dialer that ignores its context
  (`Cfg.deafDialer`): what the late dial result does (`late_dialOk`, `late_dialFail`), `.exited` is
  absorbing, and the invariant `NoLate` (without such a dialer the late branches are unreachable).
-/
import MqttVerif.Proofs.RetryHandler

namespace Mqtt.Retry

/-! ### `stuck` needs a silent fault and no response timeout -/

/-- nothing can block the task goroutine for ever, and nothing has -/
def Q (w : World) : Prop := (w.cfg.respTimeout = true ∨ Fault.silent ∉ w.faults) ∧ w.stuck = false

theorem Q_of_eq {w w' : World} (h1 : w'.cfg = w.cfg) (h2 : w'.faults = w.faults) (h3 : w'.stuck = w.stuck) :
    Q w → Q w' := by
  unfold Q; rw [h1, h2, h3]; exact id

theorem Q_send (w : World) (k : Nat) (p : Pkt) (b : Bool) (h : Q w) : Q (send w k p b).1 := by
  unfold send nextFault
  split
  · exact Q_of_eq rfl rfl rfl h
  · cases hf : w.faults with
    | nil => dsimp only; exact Q_of_eq rfl rfl rfl h
    | cons f rest =>
      obtain ⟨h1, h2⟩ := h
      rw [hf] at h1
      cases f <;> dsimp only <;> (repeat' split) <;> simp_all [Q, logPkt, kill, setConn]

theorem Q_relAttempt (w : World) (k m id : Nat) (h : Q w) : Q (relAttempt w k m id).1 := by
  unfold relAttempt
  have h := Q_send w k (.pubrel id m) true h
  revert h
  cases send w k (.pubrel id m) true with
  | mk w1 s => intro h; cases s <;> exact h

theorem Q_pubAttempt (w : World) (k m qos : Nat) (dup : Bool) (h : Q w) : Q (pubAttempt w k m qos dup).1 := by
  unfold pubAttempt
  split
  next w0 id heq =>
    have hw0 : Q w0 := by
      split at heq <;> (cases heq; exact Q_of_eq rfl rfl rfl h)
    have h := Q_send w0 k (.publish m qos id dup) (qos ≠ 0) hw0
    revert h
    cases send w0 k (.publish m qos id dup) (qos ≠ 0) with
    | mk w1 s =>
      intro h
      cases s <;> dsimp only <;> (repeat' split) <;> first | exact h | exact Q_relAttempt _ _ _ _ h

theorem Q_subAttempt (w : World) (k : Nat) (subs : List Subscription) (h : Q w) : Q (subAttempt w k subs).1 := by
  unfold subAttempt
  dsimp only
  generalize hw0 : setConn w k _ = w0
  have hw0 : Q w0 := by subst hw0; exact Q_of_eq rfl rfl rfl h
  generalize hp : Pkt.subscribe _ _ = p
  have h := Q_send w0 k p true hw0
  revert h
  cases send w0 k p true with
  | mk w1 s => intro h; cases s <;> exact h

theorem Q_unsubAttempt (w : World) (k : Nat) (ts : List Bytes) (h : Q w) : Q (unsubAttempt w k ts).1 := by
  unfold unsubAttempt
  dsimp only
  generalize hw0 : setConn w k _ = w0
  have hw0 : Q w0 := by subst hw0; exact Q_of_eq rfl rfl rfl h
  generalize hp : Pkt.unsubscribe _ _ = p
  have h := Q_send w0 k p true hw0
  revert h
  cases send w0 k p true with
  | mk w1 s => intro h; cases s <;> exact h

theorem Q_absorb (w : World) (o : Outcome) (h : Q w) : Q (absorb w o) := by
  unfold absorb; split <;> exact h

theorem Q_firstPub (w : World) (k m qos : Nat) (h : Q w) : Q (firstPub w k m qos) :=
  Q_absorb _ _ (Q_pubAttempt _ _ _ _ _ h)

theorem Q_firstSub (w : World) (k : Nat) (subs : List Subscription) (h : Q w) : Q (firstSub w k subs) :=
  Q_absorb _ _ (Q_subAttempt _ _ _ h)

theorem Q_firstUnsub (w : World) (k : Nat) (ts : List Bytes) (h : Q w) : Q (firstUnsub w k ts) :=
  Q_absorb _ _ (Q_unsubAttempt _ _ _ h)

theorem Q_subscribeTask (w : World) (k : Nat) (subs : List Subscription) (h : Q w) : Q (subscribeTask w k subs) := by
  unfold subscribeTask; dsimp only; split
  · exact Q_firstSub _ _ _ h
  · exact h

theorem Q_resubLoop (k : Nat) (l : List Subscription) (w : World) (h : Q w) : Q (resubLoop w k l) := by
  induction l generalizing w with
  | nil => exact h
  | cons s rest ih =>
    unfold resubLoop; split
    · exact h
    · exact ih _ (Q_subscribeTask _ _ _ h)

theorem Q_runEntry (w : World) (k : Nat) (e : Entry) (h : Q w) : Q (runEntry w k e).1 := by
  cases e <;> simp only [runEntry]
  · exact Q_pubAttempt _ _ _ _ _ h
  · exact Q_relAttempt _ _ _ _ h
  · exact Q_subAttempt _ _ _ h
  · exact Q_unsubAttempt _ _ _ h
  · exact Q_firstPub _ _ _ _ h
  · exact Q_firstSub _ _ _ h
  · exact Q_firstUnsub _ _ _ h

theorem Q_retryLoop (k : Nat) (l : List Entry) (w : World) (h : Q w) : Q (retryLoop w k l) := by
  induction l generalizing w with
  | nil => exact h
  | cons e rest ih =>
    unfold retryLoop
    split
    · exact h
    · dsimp only
      have h := Q_runEntry { w with totalRetries := w.totalRetries + 1 } k e h
      revert h
      cases runEntry { w with totalRetries := w.totalRetries + 1 } k e with
      | mk w1 o =>
        intro h
        dsimp only at h ⊢
        split
        · exact h
        · exact h
        · split
          · exact h
          · exact ih _ h

theorem Q_runTask (w : World) (k : Nat) (t : Task) (h : Q w) : Q (runTask w k t) := by
  unfold runTask
  split
  · split
    · exact Q_firstPub _ _ _ _ h
    · split <;> exact h
  · exact Q_subscribeTask _ _ _ h
  · dsimp only; split
    · exact Q_firstUnsub _ _ _ h
    · exact h
  · exact Q_resubLoop _ _ _ h
  · exact Q_retryLoop _ _ _ h
  · dsimp only; split <;> exact h

theorem Q_runTasks (fuel : Nat) (w : World) (h : Q w) : Q (runTasks fuel w) := by
  induction fuel generalizing w with
  | zero => exact h
  | succ n ih =>
    unfold runTasks
    split; exact h
    split; exact h
    dsimp only
    split
    · exact h
    · exact h
    · next t rest k _ _ =>
      have h1 := Q_runTask { w with gConnected := true, taskQ := rest, totalTasks := w.totalTasks + 1 } k t h
      split
      · exact h1
      · apply ih
        split
        · exact h1
        · exact h1

theorem Q_progress (w : World) (h : Q w) : Q (progress w) := by
  unfold progress
  have h1 := Q_runTasks (w.taskQ.length + 1) w h
  obtain ⟨a, _, _, _, _, b, c, _⟩ := view_loopReact (runTasks (w.taskQ.length + 1) w)
  exact Q_of_eq a c b h1

theorem Q_connectFailed (w : World) (k : Nat) (h : Q w) : Q (connectFailed w k) := by
  obtain ⟨_, _, h3, h4, h5, _⟩ := connectFailed_frame w k
  exact Q_of_eq h3 h5 h4 h

theorem Q_step (w : World) (e : Ev) (h : Q w) : Q (step w e) := by
  cases e with
  | start => simp only [step]; split <;> (try split) <;> (try split) <;> exact h
  | waitElapsed => simp only [step]; split <;> exact h
  | cancelCtx =>
    simp only [step]; split; exact h
    split <;> (try split) <;> first | exact h | exact Q_progress _ h
  | app r => simp only [step]; split; exact h; exact Q_progress _ h
  | dialOk i => simp only [step]; split <;> (try split) <;> first | exact h | exact Q_progress _ h
  | dialFail => simp only [step]; split <;> (try split) <;> (try split) <;> exact h
  | connackOk sp inb =>
    cases hph : w.phase with
    | connackGate k =>
      rw [connackOk_step w k sp inb hph]
      obtain ⟨_, _, h3, _, h5, h6, _, _⟩ := connackOk_pre w k sp inb
      exact Q_progress _ (Q_of_eq h3 h6 h5 h)
    | _ => simp only [step, hph]; exact h
  | connackRefused =>
    simp only [step]; split
    · exact Q_progress _ (Q_connectFailed _ _ h)
    · exact h
  | connackNever =>
    simp only [step]; split
    · split
      · exact Q_progress _ (Q_connectFailed _ _ h)
      · exact h
    · exact h
  | peerClose =>
    simp only [step]; split
    · exact Q_progress _ h
    · exact h
  | inbound m q =>
    simp only [step]; split
    · obtain ⟨h1, _, _, h4, h5, _⟩ := deliverInbound_frame w _ m q
      exact Q_of_eq h1 h5 h4 h
    · exact h
  | handle hd => simp only [step]; split <;> exact h
  | disconnect =>
    simp only [step]; split; exact h
    have : Q (progress { pushTask w .disconnect with stopped := true }) := Q_progress _ h
    split <;> exact this

theorem Q_exec (s : Script) (h : Q (init s)) : Q (exec s) := by
  obtain ⟨cfg, method, faults, evs⟩ := s
  induction evs using snoc_induction with
  | nil => exact h
  | snoc evs e ih => rw [exec_snoc]; exact Q_step _ _ (ih h)

/-! ### what one request attempt leaves alone -/

/-- the RetryClient bookkeeping that a single `…Impl` call does not touch -/
structure TVF (w w' : World) : Prop where
  cfg : w'.cfg = w.cfg
  onErrors : w'.onErrors = w.onErrors
  retryQ : w'.retryQ = w.retryQ
  closeAfterTask : w'.closeAfterTask = w.closeAfterTask
  totalRetries : w'.totalRetries = w.totalRetries

theorem TVF.refl (w : World) : TVF w w := ⟨rfl, rfl, rfl, rfl, rfl⟩

theorem TVF.trans {a b c : World} (h1 : TVF a b) (h2 : TVF b c) : TVF a c :=
  ⟨h2.cfg.trans h1.cfg, h2.onErrors.trans h1.onErrors, h2.retryQ.trans h1.retryQ,
    h2.closeAfterTask.trans h1.closeAfterTask, h2.totalRetries.trans h1.totalRetries⟩

theorem tvf_send (w : World) (k : Nat) (p : Pkt) (b : Bool) :
    TVF w (send w k p b).1 ∧ ((send w k p b).2 = .stuck ∨ (send w k p b).1.stuck = w.stuck) := by
  unfold send nextFault
  split
  · exact ⟨⟨rfl, rfl, rfl, rfl, rfl⟩, Or.inr rfl⟩
  · cases hf : w.faults with
    | nil => exact ⟨⟨rfl, rfl, rfl, rfl, rfl⟩, Or.inr rfl⟩
    | cons f rest =>
      cases f <;> dsimp only <;> (repeat' split) <;>
        first | exact ⟨⟨rfl, rfl, rfl, rfl, rfl⟩, Or.inr rfl⟩ | exact ⟨⟨rfl, rfl, rfl, rfl, rfl⟩, Or.inl rfl⟩

theorem alive_setConn (w : World) (k : Nat) (c : Conn) (h : c.alive = (getConn w k).alive) :
    (getConn (setConn w k c) k).alive = (getConn w k).alive := by
  rw [getConn_setConn]; split
  · exact h
  · rfl

theorem alive_logPkt (w : World) (k : Nat) (p : Pkt) (x : Wire) (j : Nat) :
    (getConn (logPkt w k p x) j).alive = (getConn w j).alive := by
  rw [logPkt, getConn_setConn]; split
  · next h => rw [h.1]
  · rfl

/-- a silent broker with a response timeout: the wait ends with a timeout, the connection stays open -/
theorem send_silent (w : World) (k : Nat) (p : Pkt) (rest : List Fault) (ht : w.cfg.respTimeout = true)
    (ha : (getConn w k).alive = true) (hf : w.faults = .silent :: rest) :
    (send w k p true).2 = .timedOut := by
  unfold send nextFault
  rw [if_neg (by simp [ha]), hf]
  dsimp only
  rw [if_neg (by simp), if_pos (by exact ht)]

/-- an answered request: the connection stays open, one fault is consumed -/
theorem send_ok (w : World) (k : Nat) (p : Pkt) (b : Bool) (rest : List Fault)
    (ha : (getConn w k).alive = true) (hf : w.faults = .ok :: rest) :
    (send w k p b).2 = .acked ∧ (send w k p b).1.faults = rest ∧ (getConn (send w k p b).1 k).alive = true := by
  unfold send nextFault
  rw [if_neg (by simp [ha]), hf]
  dsimp only
  refine ⟨rfl, rfl, ?_⟩
  show (getConn (logPkt { w with faults := rest } k p (.sent .ok)) k).alive = true
  exact (alive_logPkt _ _ _ _ _).trans ha

/-- frame of one attempt: bookkeeping untouched; `stuck` changes only if the attempt itself blocks -/
def AF (w : World) (r : World × Outcome) : Prop := TVF w r.1 ∧ (r.2 = .stuck ∨ r.1.stuck = w.stuck)

theorem af_relAttempt (w : World) (k m id : Nat) : AF w (relAttempt w k m id) := by
  unfold relAttempt
  have h := tvf_send w k (.pubrel id m) true
  revert h
  cases send w k (.pubrel id m) true with
  | mk w1 s =>
    intro h
    cases s <;> first
      | exact ⟨h.1, Or.inl rfl⟩
      | exact ⟨h.1.trans ⟨rfl, rfl, rfl, rfl, rfl⟩, h.2.elim (fun h => by cases h) Or.inr⟩

theorem relAttempt_silent (w : World) (k m id : Nat) (rest : List Fault) (ht : w.cfg.respTimeout = true)
    (ha : (getConn w k).alive = true) (hf : w.faults = .silent :: rest) :
    (relAttempt w k m id).2 = .fail (some (.rePubRel m)) .timeout := by
  unfold relAttempt
  have h := send_silent w k (.pubrel id m) rest ht ha hf
  revert h
  cases send w k (.pubrel id m) true with
  | mk w1 s => intro h; cases h; rfl

/-- the identifier assignment in front of a PUBLISH leaves everything relevant alone -/
theorem pub_pre (w : World) (k m : Nat) (w0 : World) (id : Nat)
    (heq : (match lookupPid w m with
      | some id => (w, id)
      | none =>
        let c := getConn w k
        let (ctr', id) := newID c.ctr
        (setConn { w with pid := w.pid ++ [(m, id)] } k { c with ctr := ctr' }, id)) = (w0, id)) :
    TVF w w0 ∧ w0.stuck = w.stuck ∧ w0.faults = w.faults ∧ (getConn w0 k).alive = (getConn w k).alive := by
  split at heq
  · cases heq; exact ⟨TVF.refl _, rfl, rfl, rfl⟩
  · cases heq
    refine ⟨⟨rfl, rfl, rfl, rfl, rfl⟩, rfl, rfl, ?_⟩
    exact alive_setConn { w with pid := _ } k _ rfl

theorem af_pubAttempt (w : World) (k m qos : Nat) (dup : Bool) : AF w (pubAttempt w k m qos dup) := by
  unfold pubAttempt
  split
  next w0 pi heq =>
    obtain ⟨p1, p2, _, _⟩ := pub_pre w k m w0 pi heq
    have h := tvf_send w0 k (.publish m qos pi dup) (qos ≠ 0)
    revert h
    cases send w0 k (.publish m qos pi dup) (qos ≠ 0) with
    | mk w1 s =>
      intro h
      have hs : s = .stuck ∨ w1.stuck = w.stuck := h.2.imp id (fun h => h.trans p2)
      have ht := p1.trans h.1
      cases s <;> dsimp only
      · split
        · have := af_relAttempt w1 k m pi
          exact ⟨ht.trans this.1, this.2.imp id (fun h' => h'.trans (hs.elim (fun h => by cases h) id))⟩
        · split
          · exact ⟨ht.trans ⟨rfl, rfl, rfl, rfl, rfl⟩, Or.inr (hs.elim (fun h => by cases h) id)⟩
          · exact ⟨ht, Or.inr (hs.elim (fun h => by cases h) id)⟩
      · exact ⟨ht, Or.inr (hs.elim (fun h => by cases h) id)⟩
      · exact ⟨ht, Or.inr (hs.elim (fun h => by cases h) id)⟩
      · exact ⟨ht, Or.inl rfl⟩

theorem pubAttempt_silent (w : World) (k m qos : Nat) (dup : Bool) (rest : List Fault)
    (ht : w.cfg.respTimeout = true) (ha : (getConn w k).alive = true) (hq : qos ≠ 0)
    (hf : w.faults = .silent :: rest) :
    (pubAttempt w k m qos dup).2 = .fail (some (.rePublish m qos)) .timeout := by
  unfold pubAttempt
  split
  next w0 id heq =>
    obtain ⟨p1, _, p3, p4⟩ := pub_pre w k m w0 id heq
    have hw : (decide (qos ≠ 0)) = true := by simp [hq]
    have h := send_silent w0 k (.publish m qos id dup) rest (by rw [p1.cfg]; exact ht) (by rw [p4]; exact ha)
      (by rw [p3]; exact hf)
    rw [hw]
    revert h
    cases send w0 k (.publish m qos id dup) true with
    | mk w1 s => intro h; cases h; simp [hq, errOf]

/-- QoS 2: the PUBLISH is answered (PUBREC), the PUBREL meets the silent broker -/
theorem pubAttempt_silent_rel (w : World) (k m : Nat) (dup : Bool) (rest : List Fault)
    (ht : w.cfg.respTimeout = true) (ha : (getConn w k).alive = true)
    (hf : w.faults = .ok :: .silent :: rest) :
    (pubAttempt w k m 2 dup).2 = .fail (some (.rePubRel m)) .timeout := by
  unfold pubAttempt
  split
  next w0 id heq =>
    obtain ⟨p1, _, p3, p4⟩ := pub_pre w k m w0 id heq
    obtain ⟨h1, h2, h3⟩ := send_ok w0 k (.publish m 2 id dup) (decide ((2 : Nat) ≠ 0)) (.silent :: rest)
      (by rw [p4]; exact ha) (by rw [p3]; exact hf)
    have h4 := (tvf_send w0 k (.publish m 2 id dup) (decide ((2 : Nat) ≠ 0))).1.cfg
    revert h1 h2 h3 h4
    cases send w0 k (.publish m 2 id dup) (decide ((2 : Nat) ≠ 0)) with
    | mk w1 s =>
      intro h1 h2 h3 h4
      cases h1
      dsimp only
      rw [if_pos rfl]
      exact relAttempt_silent w1 k m id rest (by rw [h4, p1.cfg]; exact ht) h3 h2

theorem af_subAttempt (w : World) (k : Nat) (subs : List Subscription) : AF w (subAttempt w k subs) := by
  unfold subAttempt
  dsimp only
  generalize hw0 : setConn w k _ = w0
  have hw0 : TVF w w0 ∧ w0.stuck = w.stuck := by subst hw0; exact ⟨⟨rfl, rfl, rfl, rfl, rfl⟩, rfl⟩
  generalize hp : Pkt.subscribe _ _ = p
  have h := tvf_send w0 k p true
  revert h
  cases send w0 k p true with
  | mk w1 s =>
    intro h
    cases s <;> first
      | exact ⟨hw0.1.trans h.1, Or.inl rfl⟩
      | exact ⟨(hw0.1.trans h.1).trans ⟨rfl, rfl, rfl, rfl, rfl⟩,
          Or.inr ((h.2.elim (fun h => by cases h) id).trans hw0.2)⟩

theorem subAttempt_silent (w : World) (k : Nat) (subs : List Subscription) (rest : List Fault)
    (ht : w.cfg.respTimeout = true) (ha : (getConn w k).alive = true) (hf : w.faults = .silent :: rest) :
    (subAttempt w k subs).2 = .fail (some (.reSub subs)) .timeout := by
  unfold subAttempt
  dsimp only
  generalize hp : Pkt.subscribe _ _ = p
  have h := send_silent (setConn w k { getConn w k with ctr := (newID (getConn w k).ctr).1 }) k p rest ht
    ((alive_setConn w k { getConn w k with ctr := (newID (getConn w k).ctr).1 } rfl).trans ha) hf
  revert h
  cases send (setConn w k { getConn w k with ctr := (newID (getConn w k).ctr).1 }) k p true with
  | mk w1 s => intro h; cases h; rfl

theorem af_unsubAttempt (w : World) (k : Nat) (ts : List Bytes) : AF w (unsubAttempt w k ts) := by
  unfold unsubAttempt
  dsimp only
  generalize hw0 : setConn w k _ = w0
  have hw0 : TVF w w0 ∧ w0.stuck = w.stuck := by subst hw0; exact ⟨⟨rfl, rfl, rfl, rfl, rfl⟩, rfl⟩
  generalize hp : Pkt.unsubscribe _ _ = p
  have h := tvf_send w0 k p true
  revert h
  cases send w0 k p true with
  | mk w1 s =>
    intro h
    cases s <;> first
      | exact ⟨hw0.1.trans h.1, Or.inl rfl⟩
      | exact ⟨(hw0.1.trans h.1).trans ⟨rfl, rfl, rfl, rfl, rfl⟩,
          Or.inr ((h.2.elim (fun h => by cases h) id).trans hw0.2)⟩

theorem unsubAttempt_silent (w : World) (k : Nat) (ts : List Bytes) (rest : List Fault)
    (ht : w.cfg.respTimeout = true) (ha : (getConn w k).alive = true) (hf : w.faults = .silent :: rest) :
    (unsubAttempt w k ts).2 = .fail (some (.reUnsub ts)) .timeout := by
  unfold unsubAttempt
  dsimp only
  generalize hp : Pkt.unsubscribe _ _ = p
  have h := send_silent (setConn w k { getConn w k with ctr := (newID (getConn w k).ctr).1 }) k p rest ht
    ((alive_setConn w k { getConn w k with ctr := (newID (getConn w k).ctr).1 } rfl).trans ha) hf
  revert h
  cases send (setConn w k { getConn w k with ctr := (newID (getConn w k).ctr).1 }) k p true with
  | mk w1 s => intro h; cases h; rfl

/-! ### what the closures and the `Retry` loop do with a failed attempt -/

theorem absorb_of_fail (w : World) (r : World × Outcome) (h : Entry) (e : ErrKind) (haf : AF w r)
    (hr : r.2 = .fail (some h) e) (hs : w.stuck = false) :
    let w' := absorb r.1 r.2
    w'.onErrors = w.onErrors ++ [e] ∧ w'.retryQ = w.retryQ ++ [h] ∧ w'.closeAfterTask = true ∧ w'.stuck = false := by
  obtain ⟨w1, o⟩ := r
  cases hr
  obtain ⟨ht, hst⟩ := haf
  refine ⟨?_, ?_, rfl, ?_⟩
  · show w1.onErrors ++ [e] = _; rw [ht.onErrors]
  · show w1.retryQ ++ [h] = _; rw [ht.retryQ]
  · show w1.stuck = false
    rcases hst with h' | h'
    · cases h'
    · exact h'.trans hs

/-- raw retry handles: what `Retry` re-runs after a failed transmission -/
def Entry.isRaw : Entry → Bool
  | .rePublish _ qos => qos != 0
  | .rePubRel _ => true
  | .reSub _ => true
  | .reUnsub _ => true
  | _ => false

theorem af_runEntry_raw (w : World) (k : Nat) (e : Entry) (he : e.isRaw = true) : AF w (runEntry w k e) := by
  cases e <;> simp only [Entry.isRaw, Bool.false_eq_true] at he <;> simp only [runEntry]
  · exact af_pubAttempt _ _ _ _ _
  · exact af_relAttempt _ _ _ _
  · exact af_subAttempt _ _ _
  · exact af_unsubAttempt _ _ _

theorem runEntry_raw_silent (w : World) (k : Nat) (e : Entry) (rest : List Fault) (he : e.isRaw = true)
    (ht : w.cfg.respTimeout = true) (ha : (getConn w k).alive = true) (hf : w.faults = .silent :: rest) :
    (runEntry w k e).2 = .fail (some e) .timeout := by
  cases e <;> simp only [Entry.isRaw, Bool.false_eq_true] at he <;> simp only [runEntry]
  · exact pubAttempt_silent _ _ _ _ _ rest ht ha (by simpa using he) hf
  · exact relAttempt_silent _ _ _ _ rest ht ha hf
  · exact subAttempt_silent _ _ _ rest ht ha hf
  · exact unsubAttempt_silent _ _ _ rest ht ha hf

theorem retryLoop_of_fail (w : World) (k : Nat) (e h : Entry) (err : ErrKind) (rest : List Entry)
    (hs : w.stuck = false)
    (haf : AF { w with totalRetries := w.totalRetries + 1 } (runEntry { w with totalRetries := w.totalRetries + 1 } k e))
    (hr : (runEntry { w with totalRetries := w.totalRetries + 1 } k e).2 = .fail (some h) err) :
    let w' := retryLoop w k (e :: rest)
    w'.onErrors = w.onErrors ++ [err] ∧ w'.retryQ = w.retryQ ++ [h] ++ rest ∧ w'.closeAfterTask = true ∧
    w'.stuck = false ∧ w'.totalRetries = w.totalRetries + 1 := by
  unfold retryLoop
  rw [if_neg (by simp [hs])]
  dsimp only
  revert haf hr
  cases runEntry { w with totalRetries := w.totalRetries + 1 } k e with
  | mk w1 o =>
    intro haf hr
    cases hr
    obtain ⟨ht, hst⟩ := haf
    dsimp only
    refine ⟨?_, ?_, rfl, ?_, ?_⟩
    · rw [ht.onErrors]
    · rw [ht.retryQ]
    · rcases hst with h' | h'
      · cases h'
      · exact h'.trans hs
    · exact ht.totalRetries

/-! ### the task goroutine closes the connection, the reconnect loop backs off, the timer makes it dial again -/

/-- one iteration of the task goroutine -/
theorem runTasks_succ (fuel : Nat) (w : World) (k : Nat) (t : Task) (rest : List Task)
    (hg : w.goroutine = true) (hs : w.stuck = false) (hc : w.gConnected = true ∨ w.connReady = true)
    (hq : w.taskQ = t :: rest) (hk : w.cli = some k) :
    let w1 := runTask { w with gConnected := true, taskQ := rest, totalTasks := w.totalTasks + 1 } k t
    runTasks (fuel + 1) w =
      if w1.stuck then w1
      else runTasks fuel (if w1.closeAfterTask then { kill w1 k with gConnected := false, closeAfterTask := false } else w1) := by
  rw [runTasks]
  rw [if_neg (by simp [hg, hs]), if_neg (by rcases hc with h | h <;> simp [h])]
  simp only [hq, hk]

theorem alive_kill (w : World) (k : Nat) (hk : k < w.conns.length) : (getConn (kill w k) k).alive = false := by
  rw [kill, getConn_setConn, if_pos ⟨rfl, hk⟩]

theorem runTasks_dead (fuel : Nat) (w : World) (k : Nat) (h : (getConn w k).alive = false) :
    (getConn (runTasks fuel w) k).alive = false :=
  ((lle_runTasks fuel w).2 k).2 h

theorem runTasks_nil (fuel : Nat) (w : World) (h : w.taskQ = [] ∨ w.cli = none) :
    runTasks fuel w = w ∨ runTasks fuel w = { w with gConnected := true } := by
  cases fuel with
  | zero => exact Or.inl rfl
  | succ n =>
    unfold runTasks
    split; exact Or.inl rfl
    split; exact Or.inl rfl
    dsimp only
    split
    · exact Or.inr rfl
    · exact Or.inr rfl
    · next hq hk => rcases h with h | h <;> simp_all

theorem runTasks_blocked (fuel : Nat) (w : World)
    (h : ¬ (w.goroutine = true ∧ w.stuck = false ∧ (w.gConnected = true ∨ w.connReady = true))) :
    runTasks fuel w = w := by
  cases fuel with
  | zero => rfl
  | succ n =>
    unfold runTasks
    split; rfl
    split; rfl
    next h1 h2 =>
      exfalso; apply h
      cases hgo : w.goroutine <;> cases hst : w.stuck <;> cases hgc : w.gConnected <;>
        cases hcr : w.connReady <;> simp_all

/-- at every blocking point of the task goroutine the close-after-task mark has been honoured -/
theorem runTasks_flag (fuel : Nat) (w : World) (h : w.closeAfterTask = false)
    (hs : (runTasks fuel w).stuck = false) : (runTasks fuel w).closeAfterTask = false := by
  induction fuel generalizing w with
  | zero => exact h
  | succ n ih =>
    by_cases hg : w.goroutine = true ∧ w.stuck = false ∧ (w.gConnected = true ∨ w.connReady = true)
    · obtain ⟨hg, hst, hc⟩ := hg
      cases hq : w.taskQ with
      | nil => rcases runTasks_nil (n + 1) w (Or.inl hq) with e | e <;> rw [e] <;> exact h
      | cons t rest =>
        cases hk : w.cli with
        | none => rcases runTasks_nil (n + 1) w (Or.inr hk) with e | e <;> rw [e] <;> exact h
        | some k =>
          rw [runTasks_succ n w k t rest hg hst hc hq hk] at hs ⊢
          dsimp only at hs ⊢
          split
          · next h1 => rw [if_pos h1] at hs; rw [hs] at h1; cases h1
          · next h1 =>
            rw [if_neg h1] at hs
            apply ih _ _ hs
            split
            · rfl
            · next h2 => simpa using h2
    · rw [runTasks_blocked _ _ hg]; exact h

/-- the watched connection has ended, the client has not been stopped: the loop starts backing off
    (the wait is logged; DialContext is not called before the timer fires) -/
theorem loopReact_backoff (w : World) (k : Nat) (hp : w.phase = .up k) (hd : (getConn w k).alive = false)
    (hs : w.stopped = false) :
    loopReact w = { w with phase := .backoff, waits := w.waits ++ [w.waitExp], waitExp := w.waitExp + 1 } := by
  unfold loopReact
  simp only [hp, hd, hs, Bool.false_eq_true, if_false]

/-- the back-off timer fires: the loop calls DialContext again; nothing else changes -/
theorem waitElapsed_step (w : World) (h : w.phase = .backoff) :
    step w .waitElapsed = { w with phase := .dialGate, dials := w.dials + 1 } := by
  simp only [step, h, if_true]

/-- outside the back-off the timer event has no effect -/
theorem waitElapsed_noop (w : World) (h : w.phase ≠ .backoff) : step w .waitElapsed = w := by
  simp only [step, h, if_false]

/-- once ReconnectClient.Connect has returned, the loop runs on context.Background(): cancelling the
    context given to Connect has no effect -/
theorem cancelCtx_noop (w : World) (h : w.connectReturned.isSome = true) : step w .cancelCtx = w := by
  simp only [step, h, or_true, if_true]

/-! ### `progress` (task goroutine, then the loop's reaction) never calls DialContext and changes
    neither `stopped` nor what ReconnectClient.Connect returned -/

theorem progress_stopped (w : World) :
    (progress w).dials = w.dials ∧ (progress w).stopped = w.stopped ∧
    (progress w).connectReturned = w.connectReturned := by
  unfold progress
  have hv := view_runTasks (w.taskQ.length + 1) w
  generalize runTasks (w.taskQ.length + 1) w = w1 at hv
  simp only [view, View.mk.injEq] at hv
  obtain ⟨_, _, _, _, _, p6, p7, _, _, _, _, _, p13, _⟩ := hv
  unfold loopReact
  split
  · split
    · exact ⟨p6, p7, p13⟩
    · split <;> exact ⟨p6, p7, p13⟩
  · exact ⟨p6, p7, p13⟩

/-- the phase after `progress`: unchanged, or the loop has exited, or (only if the client has not been
    stopped) it has started to back off from `.up` -/
theorem progress_phase (w : World) :
    (progress w).phase = w.phase ∨ (progress w).phase = .exited ∨
    ((progress w).phase = .backoff ∧ w.stopped = false ∧ ∃ k, w.phase = .up k) := by
  unfold progress
  have hv := view_runTasks (w.taskQ.length + 1) w
  generalize runTasks (w.taskQ.length + 1) w = w1 at hv
  simp only [view, View.mk.injEq] at hv
  obtain ⟨_, _, _, _, p5, _, p7, _⟩ := hv
  unfold loopReact
  split
  · next k hk =>
    split
    · exact Or.inl p5
    · split
      · exact Or.inr (Or.inl rfl)
      · next hns =>
        refine Or.inr (Or.inr ⟨rfl, ?_, k, p5.symm.trans hk⟩)
        rw [← p7]; simpa using hns
  · exact Or.inl p5

theorem deliverInbound_dials (w : World) (k m q : Nat) :
    (deliverInbound w k m q).dials = w.dials ∧ (deliverInbound w k m q).connectReturned = w.connectReturned := by
  unfold deliverInbound
  dsimp only
  split
  · exact ⟨rfl, rfl⟩
  · split <;> split <;> simp [logPkt, setConn]

theorem deliverAll_dials (k : Nat) (inb : List (Nat × Nat)) (w : World) :
    (deliverAll w k inb).dials = w.dials ∧ (deliverAll w k inb).connectReturned = w.connectReturned := by
  induction inb generalizing w with
  | nil => exact ⟨rfl, rfl⟩
  | cons a rest ih =>
    exact ⟨(ih (deliverInbound w k a.1 a.2)).1.trans (deliverInbound_dials w k a.1 a.2).1,
      (ih (deliverInbound w k a.1 a.2)).2.trans (deliverInbound_dials w k a.1 a.2).2⟩

theorem afterConnack_stopped (w : World) (sp : Bool) (k : Nat) :
    (afterConnack w sp k).dials = w.dials ∧ (afterConnack w sp k).stopped = w.stopped ∧
    (afterConnack w sp k).connectReturned.isSome = true := by
  unfold afterConnack
  dsimp only
  by_cases hs : w.stopped = true
  · have hc : ¬ (w.initialized = true ∧ (¬ sp = true ∨ w.cfg.always = true) ∧ ¬ w.stopped = true) :=
      fun h => h.2.2 hs
    rw [if_neg hc]; simp [hs]; cases w.connectReturned <;> simp
  · by_cases hc : w.initialized = true ∧ (¬ sp = true ∨ w.cfg.always = true) ∧ ¬ w.stopped = true
    · rw [if_pos hc]; simp [pushTask, hs]; cases w.connectReturned <;> simp
    · rw [if_neg hc]; simp [pushTask, hs]; cases w.connectReturned <;> simp

/-- only Disconnect stops the client, and nothing un-stops it -/
theorem step_stopped_eq (w : World) (e : Ev) :
    (step w e).stopped = match e with | .disconnect => true | _ => w.stopped := by
  cases e with
  | start => simp only [step]; split <;> (try split) <;> (try split) <;> rfl
  | app r => simp only [step]; split; rfl; exact (progress_stopped _).2.1
  | dialOk i => simp only [step]; split <;> (try split) <;> first | rfl | exact (progress_stopped _).2.1
  | dialFail => simp only [step]; split <;> (try split) <;> (try split) <;> rfl
  | waitElapsed => simp only [step]; split <;> rfl
  | cancelCtx =>
    simp only [step]; split; rfl
    split <;> (try split) <;> first | rfl | exact (progress_stopped _).2.1
  | connackOk sp inb =>
    dsimp only
    cases hph : w.phase with
    | connackGate k =>
      rw [connackOk_step w k sp inb hph, (progress_stopped _).2.1, (afterConnack_stopped _ sp k).2.1]
      exact deliverAll_stopped k inb _
    | _ => simp only [step, hph]
  | connackRefused =>
    simp only [step]; split
    · exact (progress_stopped _).2.1.trans (connectFailed_frame _ _).2.2.2.2.2.2.2.2.1
    · rfl
  | connackNever =>
    simp only [step]; split
    · split
      · exact (progress_stopped _).2.1.trans (connectFailed_frame _ _).2.2.2.2.2.2.2.2.1
      · rfl
    · rfl
  | peerClose =>
    simp only [step]; split
    · exact (progress_stopped _).2.1
    · rfl
  | inbound m q =>
    simp only [step]; split
    · exact deliverInbound_stopped _ _ _ _
    · rfl
  | handle h => simp only [step]; split <;> rfl
  | disconnect =>
    simp only [step]; split
    · next h => exact h
    · split <;> exact (progress_stopped _).2.1

/-! ### after Disconnect the reconnect loop never dials again

  A stopped client is never in `.backoff` (`stopped_not_backoff` below: every failure path tests
  `stopped` before backing off, and Disconnect releases the back-off select), so no `.waitElapsed`
  can make it dial. A DialContext call in flight when Disconnect arrives (`.dialGate`) is not a new
  call: `dials` counts calls when they start. -/

theorem step_stopped (w : World) (e : Ev) (hs : w.stopped = true) (hb : w.phase ≠ .backoff) :
    (step w e).stopped = true ∧ (step w e).phase ≠ .backoff ∧
    (w.phase ≠ .idle → (step w e).dials = w.dials ∧ (step w e).phase ≠ .idle) := by
  have key : ∀ W : World, W.stopped = true → W.phase ≠ .backoff → W.dials = w.dials →
      (w.phase ≠ .idle → W.phase ≠ .idle) →
      (progress W).stopped = true ∧ (progress W).phase ≠ .backoff ∧
      (w.phase ≠ .idle → (progress W).dials = w.dials ∧ (progress W).phase ≠ .idle) := by
    intro W h1 h2 h3 h4
    obtain ⟨b1, b2, _⟩ := progress_stopped W
    refine ⟨b2.trans h1, ?_, fun hp => ⟨b1.trans h3, ?_⟩⟩
    · rcases progress_phase W with h | h | h
      · rw [h]; exact h2
      · rw [h]; simp
      · rw [h1] at h; cases h.2.1
    · rcases progress_phase W with h | h | h
      · rw [h]; exact h4 hp
      · rw [h]; simp
      · rw [h.1]; simp
  have same : (w.stopped = true ∧ w.phase ≠ .backoff ∧ (w.phase ≠ .idle → w.dials = w.dials ∧ w.phase ≠ .idle)) :=
    ⟨hs, hb, fun hp => ⟨rfl, hp⟩⟩
  cases e with
  | start =>
    simp only [step]; split
    · exact same
    · next hp => split <;> (try split) <;> exact ⟨hs, by simp, fun h => absurd h hp⟩
  | app r => simp only [step]; rw [if_pos hs]; exact same
  | dialOk i =>
    simp only [step]; split
    · exact same
    · split
      · exact key _ hs (by simp) rfl (fun _ => by simp)
      · exact ⟨hs, by simp, fun _ => ⟨rfl, by simp⟩⟩
  | dialFail =>
    simp only [step]; split
    · exact same
    · (try rw [if_pos hs]); exact ⟨hs, by simp, fun _ => ⟨rfl, by simp⟩⟩
  | waitElapsed => simp only [step]; rw [if_neg hb]; exact same
  | cancelCtx =>
    simp only [step]; split
    · exact same
    · split
      · exact same
      · next h => exact absurd h hb
      · next h => split <;> exact ⟨hs, by simp [h], fun _ => ⟨rfl, by simp [h]⟩⟩
      · exact key _ hs (by simp) rfl (fun _ => by simp)
      · exact same
      · exact same
  | connackOk sp inb =>
    cases hph' : w.phase with
    | connackGate k =>
      rw [connackOk_step w k sp inb hph']
      have hst : (deliverAll { setConn w k { getConn w k with connected := true } with
          broker := if sp then w.broker else w.broker.clearSession } k inb).stopped = true :=
        (deliverAll_stopped k inb _).trans hs
      obtain ⟨a1, a2, _⟩ := afterConnack_stopped (deliverAll { setConn w k { getConn w k with connected := true } with
          broker := if sp then w.broker else w.broker.clearSession } k inb) sp k
      have hph : (afterConnack (deliverAll { setConn w k { getConn w k with connected := true } with
          broker := if sp then w.broker else w.broker.clearSession } k inb) sp k).phase = .exited := by
        rw [(afterConnack_frame _ sp k).2.2.2.1, if_pos hst]
      have := key _ (a2.trans hst) (by rw [hph]; simp) (a1.trans (deliverAll_dials k inb _).1)
        (fun _ => by rw [hph]; simp)
      rw [hph'] at this; exact this
    | _ =>
      rw [show step w (.connackOk sp inb) = w by simp only [step, hph']]
      exact ⟨hs, hb, fun hp => ⟨rfl, by rw [hph']; exact hp⟩⟩
  | connackRefused =>
    simp only [step]; split
    · next k _ =>
      obtain ⟨_, _, _, _, _, _, _, c8, c9, c10⟩ := connectFailed_frame w k
      rw [if_pos hs] at c8
      exact key _ (c9.trans hs) (by rw [c8]; simp) c10 (fun _ => by rw [c8]; simp)
    · exact same
  | connackNever =>
    simp only [step]; split
    · next k _ =>
      split
      · obtain ⟨_, _, _, _, _, _, _, c8, c9, c10⟩ := connectFailed_frame w k
        rw [if_pos hs] at c8
        exact key _ (c9.trans hs) (by rw [c8]; simp) c10 (fun _ => by rw [c8]; simp)
      · exact same
    · exact same
  | peerClose =>
    simp only [step]; split
    · next k _ => exact key (kill w k) hs hb rfl id
    · exact same
  | inbound m q =>
    simp only [step]; split
    · next k _ =>
      have hf := (deliverInbound_frame w k m q).2.2.2.2.2
      exact ⟨(deliverInbound_stopped w k m q).trans hs, by rw [hf]; exact hb,
        fun hp => ⟨(deliverInbound_dials w k m q).1, by rw [hf]; exact hp⟩⟩
    · exact same
  | handle h => simp only [step]; split <;> exact same
  | disconnect => simp only [step]; rw [if_pos hs]; exact same

/-- `stopped → phase ≠ .backoff` is preserved by every event -/
theorem step_stopped_not_backoff (w : World) (e : Ev) (hi : w.stopped = true → w.phase ≠ .backoff) :
    (step w e).stopped = true → (step w e).phase ≠ .backoff := by
  intro h
  cases hs : w.stopped with
  | true => exact (step_stopped w e hs (hi hs)).2.1
  | false =>
    have he := step_stopped_eq w e
    rw [h] at he
    cases e <;> simp only [hs] at he <;> try (cases he)
    simp only [step, hs, Bool.false_eq_true, if_false]
    split
    · simp
    · simp
    · next h1 h2 => exact h2

theorem stopped_not_backoff (s : Script) : (exec s).stopped = true → (exec s).phase ≠ .backoff := by
  obtain ⟨cfg, method, faults, evs⟩ := s
  induction evs using snoc_induction with
  | nil => intro h; simp [exec, init] at h
  | snoc evs e ih => rw [exec_snoc]; exact step_stopped_not_backoff _ _ ih

/-! ### while a connection is up, ReconnectClient.Connect has returned (so `.cancelCtx` is a no-op) -/

def UpReturned (w : World) : Prop := ∀ k, w.phase = .up k → w.connectReturned.isSome = true

theorem UpReturned_progress (w : World) (h : UpReturned w) : UpReturned (progress w) := by
  intro k hk
  rw [(progress_stopped w).2.2]
  rcases progress_phase w with h' | h' | h'
  · exact h k (h'.symm.trans hk)
  · rw [h'] at hk; cases hk
  · rw [h'.1] at hk; cases hk

theorem step_UpReturned (w : World) (e : Ev) (hi : UpReturned w) : UpReturned (step w e) := by
  cases e with
  | start =>
    simp only [step]; split
    · exact hi
    · split <;> (try split) <;> (intro k h; cases h)
  | app r =>
    simp only [step]; split
    · exact hi
    · exact UpReturned_progress _ hi
  | dialOk i =>
    simp only [step]; split
    · exact hi
    · split
      · refine UpReturned_progress _ ?_; intro k h; cases h
      · intro k h; cases h
  | dialFail =>
    simp only [step]; split
    · exact hi
    · split <;> (try split) <;> (intro k h; cases h)
  | waitElapsed =>
    simp only [step]; split
    · intro k h; cases h
    · exact hi
  | cancelCtx =>
    simp only [step]; split
    · exact hi
    · split
      · exact hi
      · intro k h; cases h
      · next hdg => split <;> (intro k h; simp [hdg] at h)
      · refine UpReturned_progress _ ?_; intro k h; cases h
      · exact hi
      · exact hi
  | connackOk sp inb =>
    cases hph : w.phase with
    | connackGate k =>
      rw [connackOk_step w k sp inb hph]
      refine UpReturned_progress _ ?_
      intro j _
      exact (afterConnack_stopped _ sp k).2.2
    | _ => simp only [step, hph]; exact hi
  | connackRefused =>
    simp only [step]; split
    · next k _ =>
      refine UpReturned_progress _ ?_
      intro j h
      rw [(connectFailed_frame w k).2.2.2.2.2.2.2.1] at h
      split at h <;> cases h
    · exact hi
  | connackNever =>
    simp only [step]; split
    · next k _ =>
      split
      · refine UpReturned_progress _ ?_
        intro j h
        rw [(connectFailed_frame w k).2.2.2.2.2.2.2.1] at h
        split at h <;> cases h
      · exact hi
    · exact hi
  | peerClose =>
    simp only [step]; split
    · exact UpReturned_progress _ hi
    · exact hi
  | inbound m q =>
    simp only [step]; split
    · next k _ =>
      intro j h
      rw [(deliverInbound_frame w k m q).2.2.2.2.2] at h
      rw [(deliverInbound_dials w k m q).2]
      exact hi j h
    · exact hi
  | handle h => simp only [step]; split <;> exact hi
  | disconnect =>
    simp only [step]; split
    · exact hi
    · have hW : UpReturned (progress { pushTask w .disconnect with stopped := true }) :=
        UpReturned_progress _ hi
      split
      · intro k h; cases h
      · intro k h; cases h
      · exact hW

theorem exec_UpReturned (s : Script) : UpReturned (exec s) := by
  obtain ⟨cfg, method, faults, evs⟩ := s
  induction evs using snoc_induction with
  | nil => intro k h; simp [exec, init] at h
  | snoc evs e ih => rw [exec_snoc]; exact step_UpReturned _ _ ih

/-- Disconnect while the loop is backing off releases the back-off select: the loop exits without
    another DialContext call -/
theorem disconnect_in_backoff (w : World) (hp : w.phase = .backoff) (hs : w.stopped = false) :
    (step w .disconnect).phase = .exited ∧ (step w .disconnect).dials = w.dials ∧
    (step w .disconnect).stopped = true := by
  refine ⟨?_, ?_, step_stopped_eq w .disconnect⟩
  · simp only [step, hs, Bool.false_eq_true, if_false]
    split
    · rfl
    · rfl
    · next h1 h2 =>
      rcases progress_phase { pushTask w .disconnect with stopped := true } with h | h | h
      · exact absurd (h.trans hp) h2
      · exact h
      · exact absurd h.1 h2
  · simp only [step, hs, Bool.false_eq_true, if_false]
    split <;> exact (progress_stopped _).1

/-! ### a dialer that ignores its context (`Cfg.deafDialer`): the dial that is in flight when the context
    given to the first ReconnectClient.Connect is cancelled goes on, and the loop acts on its result -/

/-- the loop is not watching a connection: `progress` is the task goroutine alone -/
theorem progress_not_up (w : World) (h : ∀ k, w.phase ≠ .up k) : progress w = runTasks (w.taskQ.length + 1) w := by
  unfold progress
  have hv := view_runTasks (w.taskQ.length + 1) w
  generalize runTasks (w.taskQ.length + 1) w = w1 at hv ⊢
  have hp : w1.phase = w.phase := by
    simp only [view, View.mk.injEq] at hv; exact hv.2.2.2.2.1
  unfold loopReact
  split
  · next k hk => exact absurd (hp.symm.trans hk) (h k)
  · rfl

/-- the world in which the task goroutine starts when the transport of a cancelled first Connect arrives:
    a connection object that carries CONNECT and is already closed, the loop gone -/
def lateWorld (w : World) (i : Nat) : World :=
  { w with conns := w.conns ++ [{ ctr := i, handler := w.handler, pkts := [(.connect, .sent .ok)], alive := false }],
           cli := some w.conns.length, connReady := true, goroutine := true,
           gConnected := if w.goroutine ∧ w.gConnected ∧ ¬ w.stuck then false else w.gConnected,
           phase := .exited }

theorem late_dialOk_step (w : World) (i : Nat) (hp : w.phase = .dialGate) (hc : w.ctxCancelled = true)
    (hr : w.connectReturned = none) : step w (.dialOk i) = progress (lateWorld w i) := by
  simp only [step]
  rw [if_neg (by simp [hp]), if_pos (by simp [hc, hr])]
  rfl

/-- `.dialOk` after the cancellation of the first Connect (possible only with a deaf dialer, `no_late_dial`):
    one more connection object, the client's current one, carrying the registered handler, closed from the
    start; the loop has exited: no back-off, no further DialContext call, nothing handed over; Connect has
    returned (and goes on returning) the context's error only -/
theorem late_dialOk (w : World) (i : Nat) (hp : w.phase = .dialGate) (hc : w.ctxCancelled = true)
    (hr : w.connectReturned = none) :
    let w' := step w (.dialOk i)
    w'.phase = .exited ∧ w'.cli = some w.conns.length ∧ w'.conns.length = w.conns.length + 1 ∧
    (getConn w' w.conns.length).alive = false ∧ (getConn w' w.conns.length).handler = w.handler ∧
    w'.handler = w.handler ∧ w'.handled = w.handled ∧ w'.dials = w.dials ∧ w'.waits = w.waits ∧
    w'.waitExp = w.waitExp ∧ w'.connectReturned = none ∧ w'.connectErr = w.connectErr ∧ w'.stopped = w.stopped ∧
    (w.taskQ = [] → (getConn w' w.conns.length).pkts = [(.connect, .sent .ok)]) := by
  dsimp only
  rw [late_dialOk_step w i hp hc hr, progress_not_up _ (by intro k h; cases h)]
  have hv := view_runTasks ((lateWorld w i).taskQ.length + 1) (lateWorld w i)
  have hl := lle_runTasks ((lateWorld w i).taskQ.length + 1) (lateWorld w i)
  have hn := runTasks_nil ((lateWorld w i).taskQ.length + 1) (lateWorld w i)
  generalize runTasks ((lateWorld w i).taskQ.length + 1) (lateWorld w i) = w1 at hv hl hn
  simp only [view, View.mk.injEq] at hv
  obtain ⟨_, v2, v3, v4, v5, v6, v7, v8, v9, _, _, _, v13, _, _, _, v17⟩ := hv
  have hk : (lateWorld w i).conns.getD w.conns.length {} =
      { ctr := i, handler := w.handler, pkts := [(.connect, .sent .ok)], alive := false } := by
    simp [lateWorld]
  refine ⟨v5, v3, ?_, ?_, ?_, v2, v4, v6, v8, v9, v13.trans hr, v17, v7, ?_⟩
  · rw [hl.1]; simp [lateWorld]
  · exact (hl.2 w.conns.length).2 (by rw [hk])
  · show (w1.conns.getD _ {}).handler = _
    rw [(hl.2 w.conns.length).1, hk]
  · intro hq
    rcases hn (Or.inl hq) with e | e <;> rw [e] <;> simp [getConn, lateWorld]

/-- `.dialFail` after the cancellation of the first Connect: the loop's select on ctx.Done() returns; no
    back-off is started, nothing else changes -/
theorem late_dialFail (w : World) (hp : w.phase = .dialGate) (hc : w.ctxCancelled = true)
    (hr : w.connectReturned = none) : step w .dialFail = { w with phase := .exited } := by
  simp only [step]
  rw [if_neg (by simp [hp])]
  split
  · rfl
  · rw [if_pos (by simp [hc, hr])]

/-- cancellation while a deaf dialer is dialling: ReconnectClient.Connect returns the context's error, the
    loop stays inside DialContext -/
theorem cancel_deaf_dial (w : World) (hd : w.cfg.deafDialer = true) (hp : w.phase = .dialGate)
    (hc : w.ctxCancelled = false) (hr : w.connectReturned = none) :
    step w .cancelCtx = { w with ctxCancelled := true, connectErr := true } := by
  simp only [step, hp, hc, hr, hd, Bool.false_eq_true, Option.isSome_none, or_self, if_false, if_true]

/-- once the loop has exited it stays exited and never calls DialContext again -/
theorem exited_step (w : World) (e : Ev) (h : w.phase = .exited) :
    (step w e).phase = .exited ∧ (step w e).dials = w.dials := by
  have key : ∀ W : World, W.phase = .exited → W.dials = w.dials →
      (progress W).phase = .exited ∧ (progress W).dials = w.dials := by
    intro W h1 h2
    refine ⟨?_, (progress_stopped W).1.trans h2⟩
    rcases progress_phase W with h' | h' | ⟨_, _, k, h'⟩
    · exact h'.trans h1
    · exact h'
    · rw [h1] at h'; cases h'
  cases e with
  | start => rw [show step w .start = w by simp [step, h]]; exact ⟨h, rfl⟩
  | app r => simp only [step]; split; exact ⟨h, rfl⟩; exact key _ h rfl
  | dialOk i => rw [show step w (.dialOk i) = w by simp [step, h]]; exact ⟨h, rfl⟩
  | dialFail => rw [show step w .dialFail = w by simp [step, h]]; exact ⟨h, rfl⟩
  | waitElapsed => rw [show step w .waitElapsed = w by simp [step, h]]; exact ⟨h, rfl⟩
  | cancelCtx =>
    simp only [step]; split
    · exact ⟨h, rfl⟩
    · split <;> first | exact ⟨h, rfl⟩ | (next h' => rw [h] at h'; cases h')
  | connackOk sp inb => rw [show step w (.connackOk sp inb) = w by simp only [step, h]]; exact ⟨h, rfl⟩
  | connackRefused => rw [show step w .connackRefused = w by simp only [step, h]]; exact ⟨h, rfl⟩
  | connackNever => rw [show step w .connackNever = w by simp only [step, h]]; exact ⟨h, rfl⟩
  | peerClose => rw [show step w .peerClose = w by simp only [step, h]]; exact ⟨h, rfl⟩
  | inbound m q => rw [show step w (.inbound m q) = w by simp only [step, h]]; exact ⟨h, rfl⟩
  | handle hd => simp only [step]; split <;> exact ⟨h, rfl⟩
  | disconnect =>
    simp only [step]; split; exact ⟨h, rfl⟩
    have := key { pushTask w .disconnect with stopped := true } h rfl
    split
    · next h' => rw [this.1] at h'; cases h'
    · next h' => rw [this.1] at h'; cases h'
    · exact this

theorem exited_foldl_dials (es : List Ev) (w : World) (h : w.phase = .exited) :
    (es.foldl step w).phase = .exited ∧ (es.foldl step w).dials = w.dials := by
  induction es generalizing w with
  | nil => exact ⟨h, rfl⟩
  | cons e es ih =>
    obtain ⟨h1, h2⟩ := exited_step w e h
    obtain ⟨i1, i2⟩ := ih (step w e) h1
    exact ⟨i1, i2.trans h2⟩

/-! ### with a dialer that honours its context the late-dial branches of `.dialOk` / `.dialFail` are never
    taken: while the first Connect's context is cancelled and Connect has not succeeded, the loop is not
    started or has exited -/

def NoLate (w : World) : Prop :=
  w.cfg.deafDialer = false ∧
  (w.ctxCancelled = true → w.connectReturned = none → w.phase = .idle ∨ w.phase = .exited)

theorem progress_keep (W : World) :
    (progress W).cfg = W.cfg ∧ (progress W).ctxCancelled = W.ctxCancelled ∧
    (progress W).connectReturned = W.connectReturned ∧
    (W.phase = .idle ∨ W.phase = .exited → (progress W).phase = W.phase) := by
  refine ⟨(pf_progress W).cfg, ?_, (progress_stopped W).2.2, ?_⟩
  · unfold progress
    have hv := view_runTasks (W.taskQ.length + 1) W
    generalize runTasks (W.taskQ.length + 1) W = w1 at hv
    simp only [view, View.mk.injEq] at hv
    have : w1.ctxCancelled = W.ctxCancelled := hv.2.2.2.2.2.2.2.2.2.2.2.2.2.2.2.1
    rw [← this]
    unfold loopReact
    split
    · split
      · rfl
      · split <;> rfl
    · rfl
  · intro h
    rcases progress_phase W with h' | h' | ⟨_, _, k, h'⟩
    · exact h'
    · rcases h with h | h
      · rw [progress_not_up W (by intro k hk; rw [h] at hk; cases hk)]
        have hv := view_runTasks (W.taskQ.length + 1) W
        simp only [view, View.mk.injEq] at hv
        exact hv.2.2.2.2.1
      · rw [h', h]
    · rcases h with h | h <;> (rw [h] at h'; cases h')

theorem connectFailed_ctx (w : World) (k : Nat) :
    (connectFailed w k).ctxCancelled = w.ctxCancelled ∧ (connectFailed w k).connectReturned = w.connectReturned := by
  unfold connectFailed; dsimp only; split <;> exact ⟨rfl, rfl⟩

theorem deliverInbound_ctx (w : World) (k m q : Nat) : (deliverInbound w k m q).ctxCancelled = w.ctxCancelled := by
  unfold deliverInbound
  dsimp only
  split
  · rfl
  · split <;> split <;> simp [logPkt, setConn]

theorem step_NoLate (w : World) (e : Ev) (hi : NoLate w) (hu : UpReturned w) : NoLate (step w e) := by
  have hnd : w.cfg.deafDialer = false := hi.1
  -- a world that keeps the configuration, the cancellation flag and what Connect returned, and stays
  -- un-started / exited if `w` was
  have keep : ∀ W : World, W.cfg = w.cfg → W.ctxCancelled = w.ctxCancelled →
      W.connectReturned = w.connectReturned →
      (w.phase = .idle ∨ w.phase = .exited → W.phase = .idle ∨ W.phase = .exited) → NoLate W := by
    intro W h1 h2 h3 h4
    refine ⟨by rw [h1]; exact hnd, fun hc hr => ?_⟩
    rw [h2] at hc; rw [h3] at hr
    exact h4 (hi.2 hc hr)
  have keepP : ∀ W : World, W.cfg = w.cfg → W.ctxCancelled = w.ctxCancelled →
      W.connectReturned = w.connectReturned →
      (w.phase = .idle ∨ w.phase = .exited → W.phase = .idle ∨ W.phase = .exited) → NoLate (progress W) := by
    intro W h1 h2 h3 h4
    obtain ⟨p1, p2, p3, p4⟩ := progress_keep W
    refine keep _ (p1.trans h1) (p2.trans h2) (p3.trans h3) (fun h => ?_)
    rw [p4 (h4 h)]; exact h4 h
  -- the loop is dialling, connecting or backing off: the guard is false
  have nx : ∀ p : Phase, w.phase = p → p ≠ .idle → p ≠ .exited → ¬ (w.phase = .idle ∨ w.phase = .exited) := by
    intro p hp h1 h2 h
    rcases h with h | h
    · exact h1 (hp.symm.trans h)
    · exact h2 (hp.symm.trans h)
  cases e with
  | start =>
    simp only [step]; split
    · exact hi
    · simp only [hnd, Bool.false_eq_true, if_false]
      split
      · exact keep _ rfl rfl rfl (fun _ => Or.inr rfl)
      · next hc => exact ⟨hnd, fun a _ => absurd a hc⟩
  | app r =>
    simp only [step]; split
    · exact keep _ rfl rfl rfl id
    · exact keepP _ rfl rfl rfl id
  | dialOk i =>
    simp only [step]; split
    · exact hi
    · next hp =>
      have hp : w.phase = .dialGate := by simpa using hp
      have hx := nx _ hp (by simp) (by simp)
      have hnl : ¬ (w.ctxCancelled = true ∧ w.connectReturned.isNone = true) :=
        fun ⟨a, b⟩ => hx (hi.2 a (by simpa using b))
      rw [if_neg hnl]
      exact keep _ rfl rfl rfl (fun h => absurd h hx)
  | dialFail =>
    simp only [step]; split
    · exact hi
    · next hp =>
      have hp : w.phase = .dialGate := by simpa using hp
      have hx := nx _ hp (by simp) (by simp)
      have hnl : ¬ (w.ctxCancelled = true ∧ w.connectReturned.isNone = true) :=
        fun ⟨a, b⟩ => hx (hi.2 a (by simpa using b))
      rw [if_neg hnl]
      split <;> exact keep _ rfl rfl rfl (fun h => absurd h hx)
  | waitElapsed =>
    simp only [step]; split
    · next hp => exact keep _ rfl rfl rfl (fun h => absurd h (nx _ hp (by simp) (by simp)))
    · exact hi
  | cancelCtx =>
    simp only [step]; split
    · exact hi
    · next hg =>
      simp only [hnd, Bool.false_eq_true, if_false]
      split
      · next hp => exact ⟨hnd, fun _ _ => Or.inl hp⟩
      · exact ⟨hnd, fun _ _ => Or.inr rfl⟩
      · exact ⟨hnd, fun _ _ => Or.inr rfl⟩
      · next k hp =>
        obtain ⟨p1, _, _, p4⟩ := progress_keep
          { kill { w with ctxCancelled := true, connReady := true } k with phase := .exited, connectErr := true }
        refine ⟨by rw [p1]; exact hnd, fun _ _ => Or.inr ?_⟩
        rw [p4 (Or.inr rfl)]
      · next hp => exact ⟨hnd, fun _ _ => Or.inr hp⟩
      · next k hp =>
        -- `.up`: Connect has returned, so the guard of `.cancelCtx` is false
        exact absurd (Or.inr (hu k hp)) hg
  | connackOk sp inb =>
    cases hph : w.phase with
    | connackGate k =>
      rw [connackOk_step w k sp inb hph]
      obtain ⟨_, _, h3, _⟩ := connackOk_pre w k sp inb
      obtain ⟨p1, _, p3, _⟩ := progress_keep (afterConnack (deliverAll { setConn w k { getConn w k with connected := true } with
          broker := if sp then w.broker else w.broker.clearSession } k inb) sp k)
      refine ⟨by rw [p1, h3]; exact hnd, fun _ hr => ?_⟩
      rw [p3] at hr
      have := (afterConnack_stopped (deliverAll { setConn w k { getConn w k with connected := true } with
          broker := if sp then w.broker else w.broker.clearSession } k inb) sp k).2.2
      rw [hr] at this; cases this
    | _ => rw [show step w (.connackOk sp inb) = w by simp only [step, hph]]; exact hi
  | connackRefused =>
    simp only [step]; split
    · next k hp =>
      exact keepP _ (connectFailed_frame w k).2.2.1 (connectFailed_ctx w k).1 (connectFailed_ctx w k).2
        (fun h => absurd h (nx _ hp (by simp) (by simp)))
    · exact hi
  | connackNever =>
    simp only [step]; split
    · next k hp =>
      split
      · exact keepP _ (connectFailed_frame w k).2.2.1 (connectFailed_ctx w k).1 (connectFailed_ctx w k).2
          (fun h => absurd h (nx _ hp (by simp) (by simp)))
      · exact hi
    · exact hi
  | peerClose =>
    simp only [step]; split
    · exact keepP _ rfl rfl rfl id
    · exact hi
  | inbound m q =>
    simp only [step]; split
    · next k hp =>
      exact keep _ (deliverInbound_frame w k m q).1 (deliverInbound_ctx w k m q) (deliverInbound_dials w k m q).2
        (fun h => absurd h (nx _ hp (by simp) (by simp)))
    · exact hi
  | handle hd =>
    simp only [step]; split <;> exact keep _ rfl rfl rfl id
  | disconnect =>
    simp only [step]; split
    · exact hi
    · have hW : NoLate (progress { pushTask w .disconnect with stopped := true }) :=
        keepP _ rfl rfl rfl id
      split
      · exact ⟨hW.1, fun _ _ => Or.inr rfl⟩
      · exact ⟨hW.1, fun _ _ => Or.inr rfl⟩
      · exact hW

theorem exec_NoLate (s : Script) (h : s.cfg.deafDialer = false) : NoLate (exec s) := by
  obtain ⟨cfg, method, faults, evs⟩ := s
  induction evs using snoc_induction with
  | nil => exact ⟨h, fun hc => by simp [exec, init] at hc⟩
  | snoc evs e ih => rw [exec_snoc]; exact step_NoLate _ _ (ih h) (exec_UpReturned _)

/-- the guard of the two late-dial branches is false in every reachable world of a script whose dialer
    honours its context: there the step function is the one without `deafDialer` -/
theorem no_late_dial (s : Script) (h : s.cfg.deafDialer = false) :
    ¬ ((exec s).phase = .dialGate ∧ (exec s).ctxCancelled = true ∧ (exec s).connectReturned = none) := by
  intro ⟨hp, hc, hr⟩
  rcases (exec_NoLate s h).2 hc hr with h' | h' <;> (rw [hp] at h'; cases h')

end Mqtt.Retry
