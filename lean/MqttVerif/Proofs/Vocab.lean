/-
  The vocabulary of the regenerated-fact ties. The lock policy (`Proofs/Lockset`) and the callback ties (`Props/C11t`)
  name struct fields, mutexes and functions of the Go sources. If one of them no longer exists (`Generated.structFields`,
  `Generated.funcNames` are regenerated on every run), the sources have been renamed under the policy: the tie then says nothing (its
  theorem is guarded by `known …`) instead of reading the renamed mutex as a missing one. `bin/check` evaluates
  `missing …` on every run and records a vacuous tie in the evidence; the race-detector pass and the correspondence
  streams are not affected.
-/
import MqttVerif.Generated.Facts

namespace Mqtt.Vocab

/-- the functions the lock policy names: the contexts of its ordered exceptions and the closures it knows to run on the
    task goroutine (without the `$go` / `$closure` suffix of the access table) -/
def lockPolicyFuncs : List String :=
  ["(*BaseClient).serve", "(*BaseClient).Connect",
   "(*RetryClient).SetClient", "(*RetryClient).publish", "(*RetryClient).subscribe", "(*RetryClient).unsubscribe",
   "(*RetryClient).retryWithTimeout"]

/-- the names the lock policy, its exception list and its non-vacuity statement are written in -/
def lockPolicy : List String :=
  ["signaller.mu", "BaseClient.err", "BaseClient.muErr", "BaseClient.stats", "BaseClient.muStats", "BaseClient.mu",
   "RetryClient.stats", "RetryClient.muStats", "RetryClient.retryQueue", "RetryClient.subEstablished",
   "RetryClient.newRetryByError", "RetryClient.mu", "firstError.err", "firstError.mu",
   "BaseClient.sig", "BaseClient.connClosed", "signaller.chConnAck", "RetryClient.chTask",
   "RetryClient.taskQueue", "signaller.chPubAck", "BaseClient.muConnecting", "BaseClient.muWrite"] ++ lockPolicyFuncs

/-- the names the callback ties are written in -/
def callbackTie : List String := ["BaseClient.muConnecting", "RetryClient.mu"]

def missing (v : List String) : List String :=
  v.filter (fun n => !Generated.structFields.contains n && !Generated.funcNames.contains n)

def known (v : List String) : Bool := (missing v).isEmpty

end Mqtt.Vocab
