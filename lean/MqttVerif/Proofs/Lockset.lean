/-
  Lock discipline of the shared fields (C10, data-race half). `Generated.accesses` is re-extracted
  from the Go sources on every run (tools/extract): every syntactic access to a field that more
  than one goroutine touches, with the mutexes held at that point. The policy below says which
  mutex guards which field; `discipline` proves (by evaluation over the whole regenerated table)
  that every access follows the policy or is one of the documented exceptions.

  This is an abstraction, not Go's memory model: mutual exclusion by a common mutex (reads may share
  it) or confinement to one goroutine. The exceptions are justified by a happens-before edge that
  the syntactic extractor cannot see; each carries its reason. A new unguarded access is not in the
  table of exceptions, so the proof breaks.
-/
import MqttVerif.Generated.Facts
import MqttVerif.Proofs.Vocab

namespace Mqtt.Lockset

/-- the mutex guarding a field; `none`: confined to the task goroutine of the RetryClient -/
def guard (field : String) : Option String :=
  if field.startsWith "signaller." then some "signaller.mu"
  else if field = "BaseClient.err" then some "BaseClient.muErr"
  else if field = "BaseClient.stats" then some "BaseClient.muStats"
  else if field.startsWith "BaseClient." then some "BaseClient.mu"
  else if field = "RetryClient.stats" then some "RetryClient.muStats"
  else if field = "RetryClient.retryQueue" ∨ field = "RetryClient.subEstablished" ∨ field = "RetryClient.newRetryByError" then none
  else if field.startsWith "RetryClient." then some "RetryClient.mu"
  else if field = "firstError.err" then some "firstError.mu"
  else some "?"

/-- code that only ever runs on the RetryClient's task goroutine, by construction: the goroutine body inside
    SetClient (`$go`) and the closures that are only ever stored in `retryQueue` (a confined field) and called from
    there by `Retry`'s task … -/
def explicitTaskClosures : List String :=
  ["(*RetryClient).SetClient$go",
   "(*RetryClient).publish$closure", "(*RetryClient).subscribe$closure", "(*RetryClient).unsubscribe$closure",
   "(*RetryClient).retryWithTimeout$closure"]

/-- … plus, read off the regenerated facts: whatever is handed to `pushTask` (closures or method values) and any
    named function that `SetClient` starts with a `go` statement (the task goroutine itself, should it be given a name) -/
def taskGoroutineRoots : List String :=
  explicitTaskClosures ++ Generated.pushTaskArgs ++
    (Generated.goStarts.filter (fun g => g.1 == "(*RetryClient).SetClient")).map (·.2)

/-- … and every named function all of whose call sites (`Generated.callers`, by name: a superset) lie in such
    code, transitively (helpers may be introduced or renamed freely) -/
def confined : Nat → String → Bool
  | 0, fn => taskGoroutineRoots.contains fn
  | fuel + 1, fn =>
    taskGoroutineRoots.contains fn ||
    match Generated.callers.find? (fun e => e.1 == fn) with
    | some (_, cs) => !cs.isEmpty && cs.all (fun c => c == fn || confined fuel c)
    | none =>
      -- a closure (not a `go` body: those are `$go`) written inside confined code: it is called from there, handed to a
      -- helper that calls it (`updateStats(func…)`), or kept in `retryQueue` and run by the task goroutine later
      fn.endsWith "$closure" && confined fuel (String.ofList (fn.toList.take (fn.length - 8)))

/-- (function, field, why the access is ordered although the guard is not held) -/
def exceptions : List (String × String × String) := [
  ("(*BaseClient).serve", "BaseClient.sig",
     "the reader goroutine is started by Connect after init() stored sig under mu (go statement); sig is never reassigned"),
  ("(*BaseClient).Connect", "BaseClient.connClosed",
     "Connect waits on the channel init() created (under mu) earlier in the same call; it holds muConnecting exclusively"),
  ("(*BaseClient).Connect$go", "BaseClient.connClosed",
     "the reader goroutine closes the channel init() created before the goroutine was started (go statement); never reassigned while it runs"),
  ("(*BaseClient).Connect", "signaller.chConnAck",
     "written under BaseClient.mu before CONNECT is written; the reader reads it only for the CONNACK that answers that CONNECT"),
  ("(*RetryClient).SetClient$go", "RetryClient.chTask",
     "read by the task goroutine, started after the channel was created under mu; only ever closed, never reassigned")
]

/-- `fn` runs in the context the exception was written for: it is that function, or the named function that the
    root starts with a `go` statement (the root's `$go` body given a name), or a helper all of whose call sites do -/
def under : Nat → String → String → Bool
  | 0, root, fn => fn == root
  | fuel + 1, root, fn =>
    fn == root ||
    Generated.goStarts.any (fun g => g.2 == fn && g.1 ++ "$go" == root) ||
    match Generated.callers.find? (fun e => e.1 == fn) with
    | some (_, cs) => !cs.isEmpty && cs.all (fun c => c == fn || under fuel root c)
    | none => false

def holds (m : String) (write : Bool) (held : List String) : Bool :=
  held.contains m || (!write && held.contains (m ++ ":r"))

/-- exceptions stated by their justification instead of by function (the extractor records the two facts as pseudo-locks):
    * `addr-of`: `&x.f` takes the field's address; the helper that receives the pointer does the access under what it locks
    * `after:signaller`: `connClosed` read after `x.signaller()` returned in the same function — `signaller()` reads `sig` under
      the client mutex, and `init()` publishes `sig` and `connClosed` together under that mutex; neither is reassigned while
      the connection lives (Ping, publishImpl, subscribeImpl, unsubscribeImpl today, whatever they are called tomorrow) -/
def justified (field : String) (write : Bool) (held : List String) : Bool :=
  (!write && held.contains "addr-of") ||
  (!write && field == "BaseClient.connClosed" && held.contains "after:signaller")

def ok (a : String × String × Bool × List String) : Bool :=
  let (fn, field, write, held) := a
  match guard field with
  | some m => holds m write held || justified field write held || exceptions.any (fun e => e.2.1 = field && under 3 e.1 fn)
  | none => confined 4 fn

/-- every access in the regenerated table follows the discipline (as long as the sources still have the fields and
    mutexes the policy names, see `Proofs/Vocab`) -/
theorem discipline : Vocab.known Vocab.lockPolicy = true → Generated.accesses.all ok = true := by decide +kernel

/-- the table is not empty and contains the accesses the argument is about -/
theorem table_nonvacuous : Vocab.known Vocab.lockPolicy = true →
    Generated.accesses.length ≥ 100 ∧
    Generated.accesses.any (fun a => a.2.1 = "RetryClient.taskQueue" && a.2.2.1) = true ∧
    Generated.accesses.any (fun a => a.2.1.startsWith "signaller." && a.2.2.2.any (·.startsWith "signaller.mu")) = true := by decide +kernel

/-- packets never interleave: exactly one function calls Transport.Write (`(*BaseClient).write` today) and it takes muWrite first, releasing it by defer -/
theorem writes_serialised : Vocab.known Vocab.lockPolicy = true →
    Generated.transportWriteSites.length = 1 ∧ Generated.writeHoldsMuWrite = true := by decide +kernel

end Mqtt.Lockset
