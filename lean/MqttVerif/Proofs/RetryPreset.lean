/-
  Runs of the retry stack that start with caller-chosen packet identifiers.

  The Go API lets the application put an identifier on a message before calling Publish
  (`Message.ID ≠ 0`; `publishImpl` draws one from the connection's counter only when it is zero).
  In the model that is a run started from `{ init s with pid := p0 }`: `p0` maps message indices to
  the identifiers already on the messages (`lookupPid` reads the first entry for an index).

    * `initWith`, `execWith` (`exec s = execWith s []`)
    * the phase invariant `Inv12` (Proofs/RetryMsg) and the QoS 2 invariant `FInv` (Proofs/RetryQos2)
      hold for `execWith s p0`, for EVERY table `p0` (no hypothesis on it)
    * `PidStep`: how the identifier table and the per-message logs evolve — an identifier that is set
      never changes; one that is not set gets set only together with the first attempt, to a value
      drawn by `newID`
    * what one `pubAttempt` does with the identifier and the connection's counter
-/
import MqttVerif.Proofs.RetryQos2

namespace Mqtt.Retry

/-- the initial world of a run in which the messages listed in `p0` already carry an identifier -/
def initWith (s : Script) (p0 : List (Nat × Nat)) : World := { init s with pid := p0 }

def execWith (s : Script) (p0 : List (Nat × Nat)) : World := s.evs.foldl step (initWith s p0)

theorem initWith_nil (s : Script) : initWith s [] = init s := rfl

theorem exec_eq_execWith (s : Script) : exec s = execWith s [] := rfl

/-! ### the invariants hold from every start table -/

theorem initWith_inv (s : Script) (p0 : List (Nat × Nat)) : Inv12 (initWith s p0) := by
  refine ⟨?_, fun m => good_nil _, List.nodup_nil, ?_, ?_, List.nodup_nil,
    fun m _ => rfl, ?_⟩
  · intro k hk; cases hk
  · intro mq h; cases h
  · intro e h; cases h
  · intro m pw hpw; cases hpw

theorem execWith_inv (s : Script) (p0 : List (Nat × Nat)) (hd : s.DistinctMsgs) :
    Inv12 (execWith s p0) :=
  foldl_inv s.evs (initWith s p0) (initWith_inv s p0) hd (fun m _ h => by cases h)

theorem initWith_full (s : Script) (p0 : List (Nat × Nat)) : FInv (initWith s p0) := by
  have hl : ∀ m, load (initWith s p0).broker m = 0 := fun m => rfl
  refine ⟨⟨initWith_inv s p0, ⟨⟨⟨?_, ?_, ?_⟩, ?_, ?_, ?_⟩, ?_⟩, TailQ.nil⟩, fun _ => ?_⟩
  · intro m _; rw [hl]; exact Nat.zero_le _
  · intro e he; cases he
  · intro m h; rw [hl] at h; cases h
  · intro m q h; cases h
  · intro m h; cases h
  · intro _ m h; cases h
  · intro _; exact Or.inr (Or.inl ⟨⟨rfl, rfl⟩, (fun m h => by cases h)⟩)
  · exact ⟨rfl, (fun h => by cases h), (fun k h => by cases h), rfl, rfl, (fun k h => by cases h)⟩

theorem execWith_full (s : Script) (p0 : List (Nat × Nat)) (hd : s.DistinctMsgs)
    (hk : SessionsKept s) :
    FInv (execWith s p0) ∧ ∀ r ∈ (execWith s p0).accepted, Ev.app r ∈ s.evs := by
  obtain ⟨h1, h2⟩ := foldl_full s.evs (initWith s p0) (initWith_full s p0) hd
    (fun m _ h => by cases h) (fun h => by cases h) (fun _ => hk)
  refine ⟨h1, fun r hr => ?_⟩
  rcases h2 r hr with h | h
  · cases h
  · exact h

/-! ### evolution of the identifier table -/

/-- from `w` to `w'`: an identifier that is set stays; one that is not set is set only together
    with an attempt for the message, to a value drawn by `newID`; logs only grow -/
structure PidStep (w w' : World) : Prop where
  keep : ∀ m, lookupPid w' m = lookupPid w m ∨
    (lookupPid w m = none ∧ msgPkts w' m ≠ [] ∧ ∃ c, lookupPid w' m = some (newID c).2)
  grow : ∀ m, msgPkts w m ≠ [] → msgPkts w' m ≠ []

theorem PidStep.refl (w : World) : PidStep w w := ⟨fun _ => Or.inl rfl, fun _ h => h⟩

theorem PidStep.trans {a b c : World} (h1 : PidStep a b) (h2 : PidStep b c) : PidStep a c := by
  refine ⟨fun m => ?_, fun m h => h2.grow m (h1.grow m h)⟩
  rcases h1.keep m with e1 | ⟨n1, p1, c1, e1⟩
  · rcases h2.keep m with e2 | ⟨n2, p2, c2, e2⟩
    · exact Or.inl (e2.trans e1)
    · exact Or.inr ⟨e1 ▸ n2, p2, c2, e2⟩
  · rcases h2.keep m with e2 | ⟨n2, p2, c2, e2⟩
    · exact Or.inr ⟨n1, h2.grow m p1, c1, e2.trans e1⟩
    · rw [e1] at n2; cases n2

theorem PidStep.of_view {w w' : World} (h : ∀ m, SameView w w' m) : PidStep w w' :=
  ⟨fun m => Or.inl (h m).1, fun m hm => by rw [(h m).2]; exact hm⟩

theorem PidStep.of_env {w w' : World} (h : EnvSame w w') : PidStep w w' := .of_view h.view

theorem msgPkts_grow {w w' : World} {l : List (Pkt × Wire)} (hk : allPkts w' = allPkts w ++ l)
    (m : Nat) : msgPkts w m ≠ [] → msgPkts w' m ≠ [] := by
  intro hm h
  unfold msgPkts at *
  rw [hk, List.filter_append] at h
  exact hm (List.append_eq_nil_iff.1 h).1

theorem PidStep.of_append {w w' : World} {l : List (Pkt × Wire)} (hp : w'.pid = w.pid)
    (hk : allPkts w' = allPkts w ++ l) : PidStep w w' :=
  ⟨fun m => Or.inl (lookupPid_congr hp m), msgPkts_grow hk⟩

theorem PidStep.mono {w w' : World} (h : PidStep w w') {m id : Nat}
    (hm : lookupPid w m = some id) : lookupPid w' m = some id := by
  rcases h.keep m with e | ⟨n, _⟩
  · exact e.trans hm
  · rw [hm] at n; cases n

/-! ### the attempts -/

theorem relAttempt_ps (w : World) (k m i : Nat) (hk : k + 1 = w.conns.length) :
    PidStep w (relAttempt w k m i).1 := by
  obtain ⟨y, he⟩ := relAttempt_eff w k m i hk
  exact PidStep.of_append he.pid he.pkts

/-- the identifier a PUBLISH attempt uses: the one on the message, or a fresh draw -/
theorem assignPid_some {w : World} {k m id : Nat} (h : lookupPid w m = some id) :
    assignPid w k m = (w, id) := by
  unfold assignPid; rw [h]

theorem assignPid_none {w : World} {k m : Nat} (h : lookupPid w m = none) :
    assignPid w k m =
      (setConn { w with pid := w.pid ++ [(m, (newID (getConn w k).ctr).2)] } k
        { getConn w k with ctr := (newID (getConn w k).ctr).1 }, (newID (getConn w k).ctr).2) := by
  unfold assignPid; rw [h]

/-- one `pubAttempt`: the PUBLISH with the identifier chosen by `assignPid` is logged, then at most
    the PUBREL with the same identifier; the table is the one `assignPid` left -/
theorem pubAttempt_shape (w : World) (k m q : Nat) (d : Bool) (hk : k + 1 = w.conns.length) :
    ∃ x rest, allPkts (pubAttempt w k m q d).1 =
        allPkts w ++ (.publish m q (assignPid w k m).2 d, x) :: rest ∧
      (rest = [] ∨ ∃ y, rest = [(.pubrel (assignPid w k m).2 m, y)]) ∧
      (pubAttempt w k m q d).1.pid = (assignPid w k m).1.pid := by
  rw [pubAttempt_unfold]
  have ha := assignPid_eff w k m
  generalize assignPid w k m = r1 at ha ⊢
  obtain ⟨w1, i⟩ := r1
  simp only at ha ⊢
  have hk1 : k + 1 = w1.conns.length := by rw [ha.mod.len]; exact hk
  obtain ⟨x, hs⟩ := send_eff w1 k (.publish m q i d) (decide (q ≠ 0)) hk1
  generalize send w1 k (.publish m q i d) (decide (q ≠ 0)) = r2 at hs ⊢
  obtain ⟨w2, s⟩ := r2
  simp only at hs ⊢
  have hp2 : allPkts w2 = allPkts w ++ [(.publish m q i d, x)] := by rw [hs.pkts, ha.pkts]
  refine ⟨x, ?_⟩
  cases s
  · simp only [pubFinish]
    by_cases hq2 : q = 2
    · simp only [if_pos hq2]
      obtain ⟨y, hr⟩ := relAttempt_eff w2 k m i (by rw [hs.mod.len]; exact hk1)
      exact ⟨[(.pubrel i m, y)], by rw [hr.pkts, hp2]; simp, Or.inr ⟨y, rfl⟩, hr.pid.trans hs.pid⟩
    · simp only [if_neg hq2]
      by_cases hq1 : q = 1
      · simp only [if_pos hq1]
        exact ⟨[], hp2, Or.inl rfl, hs.pid⟩
      · simp only [if_neg hq1]
        exact ⟨[], hp2, Or.inl rfl, hs.pid⟩
  all_goals
    simp only [pubFinish]
    exact ⟨[], hp2, Or.inl rfl, hs.pid⟩

theorem pubAttempt_ps (w : World) (k m q : Nat) (d : Bool) (hk : k + 1 = w.conns.length) :
    PidStep w (pubAttempt w k m q d).1 := by
  obtain ⟨x, rest, hp, _, hpid⟩ := pubAttempt_shape w k m q d hk
  have hself : msgPkts (pubAttempt w k m q d).1 m ≠ [] := by
    unfold msgPkts
    rw [hp, List.filter_append]
    simp [about]
  refine ⟨fun m' => ?_, msgPkts_grow hp⟩
  rw [lookupPid_congr hpid m']
  cases h : lookupPid w m with
  | some id => rw [assignPid_some h]; exact Or.inl rfl
  | none =>
    rw [assignPid_none h]
    by_cases hm : m' = m
    · subst hm
      exact Or.inr ⟨h, hself, (getConn w k).ctr, lookupPid_append_self (w := w) rfl h⟩
    · exact Or.inl (lookupPid_append_other (w := w) rfl hm)

theorem MiscEff.ps {w w' : World} {k : Nat} {o : Outcome} (h : MiscEff w k w' o) : PidStep w w' :=
  .of_view h.view

theorem firstPub_ps (w : World) (k m q : Nat) (hk : k + 1 = w.conns.length) :
    PidStep w (firstPub w k m q) := by
  show PidStep w (absorb (pubAttempt w k m q false).1 (pubAttempt w k m q false).2)
  exact (pubAttempt_ps w k m q false hk).trans (.of_env (absorb_envSame _ _))

theorem firstSub_ps (w : World) (k : Nat) (subs : List Subscription) (hk : k + 1 = w.conns.length) :
    PidStep w (firstSub w k subs) := by
  show PidStep w (absorb (subAttempt w k subs).1 (subAttempt w k subs).2)
  exact (subAttempt_eff w k subs hk).ps.trans (.of_env (absorb_envSame _ _))

theorem firstUnsub_ps (w : World) (k : Nat) (ts : List Bytes) (hk : k + 1 = w.conns.length) :
    PidStep w (firstUnsub w k ts) := by
  show PidStep w (absorb (unsubAttempt w k ts).1 (unsubAttempt w k ts).2)
  exact (unsubAttempt_eff w k ts hk).ps.trans (.of_env (absorb_envSame _ _))

theorem subscribeTask_ps (w : World) (k : Nat) (subs : List Subscription)
    (hk : k + 1 = w.conns.length) : PidStep w (subscribeTask w k subs) := by
  unfold subscribeTask
  have h0 : PidStep w { w with subEst := applySubs w.subEst subs } :=
    .of_env (EnvSame.of_conns rfl rfl rfl rfl)
  simp only
  split
  · exact h0.trans (firstSub_ps _ k subs hk)
  · exact .of_env (EnvSame.of_conns rfl rfl rfl rfl)

theorem resubLoop_ps {fr : List (Nat × Nat)} {ex : List Entry} {k : Nat}
    (l : List Subscription) : ∀ (w : World), PInv w fr (w.retryQ ++ ex) → w.cli = some k →
    PidStep w (resubLoop w k l) := by
  induction l with
  | nil => intro w _ _; exact PidStep.refl w
  | cons s rest ih =>
    intro w hI hk
    unfold resubLoop
    split
    · exact PidStep.refl w
    · obtain ⟨h1, h2⟩ := subscribeTask_inv (k := k) [s] hI hk
      exact (subscribeTask_ps w k [s] (hI.cliLast k hk)).trans (ih _ h2 (h1.cli ▸ hk))

theorem runEntry_ps {w : World} {fr : List (Nat × Nat)} {es : List Entry} {k : Nat} {e : Entry}
    (hI : PInv w fr (e :: es)) (hk : w.cli = some k) : PidStep w (runEntry w k e).1 := by
  have hl := hI.cliLast k hk
  cases e with
  | rePublish m q => exact pubAttempt_ps w k m q true hl
  | rePubRel m => exact relAttempt_ps w k m _ hl
  | reSub subs => exact (subAttempt_eff w k subs hl).ps
  | reUnsub ts => exact (unsubAttempt_eff w k ts hl).ps
  | qPub m q => exact firstPub_ps w k m q hl
  | qSub subs => exact firstSub_ps w k subs hl
  | qUnsub ts => exact firstUnsub_ps w k ts hl

theorem retryLoop_ps {fr : List (Nat × Nat)} {k : Nat} (rest : List Entry) :
    ∀ (w : World), PInv w fr (w.retryQ ++ rest) → w.cli = some k →
    PidStep w (retryLoop w k rest) := by
  induction rest with
  | nil => intro w _ _; exact PidStep.refl w
  | cons e rest ih =>
    intro w hI hk
    rw [retryLoop_cons]
    split
    · exact PidStep.refl w
    · have hps0 : PidStep w { w with totalRetries := w.totalRetries + 1 } :=
        .of_env (EnvSame.of_conns rfl rfl rfl rfl)
      have hI0 : PInv { w with totalRetries := w.totalRetries + 1 } fr
          (e :: (w.retryQ ++ rest)) :=
        (hI.env (w' := { w with totalRetries := w.totalRetries + 1 })
          (EnvSame.of_conns rfl rfl rfl rfl)).perm' (List.Perm.refl _) List.perm_middle.symm
      obtain ⟨h1, hd, h2, h3⟩ := runEntry_inv (k := k) hI0 hk
      have hps1 := runEntry_ps (k := k) hI0 hk
      generalize runEntry { w with totalRetries := w.totalRetries + 1 } k e = r
        at h1 h2 h3 hps1 ⊢
      obtain ⟨w1, o⟩ := r
      simp only at h1 h2 h3 hps1 ⊢
      have hps : PidStep w w1 := hps0.trans hps1
      have h2' : w1.retryQ = w.retryQ ++ hd := h2
      have hk1 : w1.cli = some k := h1.cli ▸ hk
      have hnone : o.handle = none → PInv w1 fr (w1.retryQ ++ rest) := by
        intro hh
        rw [hh] at h3
        have h3' : PInv w1 fr (hd ++ (w.retryQ ++ rest)) := by simpa using h3
        rw [h2']
        exact h3'.perm' (List.Perm.refl _) (perm_rot _ _ _)
      have hcont : o.handle = none →
          PidStep w (if w1.closeAfterTask = true then { w1 with retryQ := w1.retryQ ++ rest }
            else retryLoop w1 k rest) := by
        intro hh
        split
        · exact hps.trans (.of_env (EnvSame.of_conns rfl rfl rfl rfl))
        · exact hps.trans (ih w1 (hnone hh) hk1)
      cases o with
      | done => exact hcont rfl
      | stuck => exact hps
      | fail h err =>
        cases h with
        | none => exact hcont rfl
        | some h => exact hps.trans (.of_env (EnvSame.of_conns rfl rfl rfl rfl))

theorem runTask_ps {w : World} {fr : List (Nat × Nat)} {k : Nat} (t : Task)
    (hI : PInv w (t.msg.toList ++ fr) w.retryQ) (hk : w.cli = some k) :
    PidStep w (runTask w k t) := by
  have hl := hI.cliLast k hk
  cases t with
  | req r =>
    cases r with
    | pub m q =>
      simp only [runTask]
      split
      · exact firstPub_ps w k m q hl
      · split
        · exact .of_env (EnvSame.of_conns rfl rfl rfl rfl)
        · exact PidStep.refl w
    | sub subs => exact subscribeTask_ps w k subs hl
    | unsub ts =>
      simp only [runTask]
      have h0 : PidStep w { w with subEst := applyUnsubs w.subEst ts } :=
        .of_env (EnvSame.of_conns rfl rfl rfl rfl)
      split
      · exact h0.trans (firstUnsub_ps _ k ts hl)
      · exact .of_env (EnvSame.of_conns rfl rfl rfl rfl)
  | resubscribe =>
    have hI' : PInv w fr (w.retryQ ++ []) := by simpa [Task.msg] using hI
    simp only [runTask]
    have hE0 : EnvSame w { w with subEst := [] } := EnvSame.of_conns rfl rfl rfl rfl
    exact (PidStep.of_env hE0).trans
      (resubLoop_ps (k := k) (ex := []) w.subEst { w with subEst := [] } (hI'.env hE0) hk)
  | retry =>
    have hI' : PInv w fr w.retryQ := by simpa [Task.msg] using hI
    simp only [runTask]
    have hE0 : EnvSame w { w with retryQ := [] } := EnvSame.of_conns rfl rfl rfl rfl
    have hI0 : PInv { w with retryQ := [] } fr
        (({ w with retryQ := [] } : World).retryQ ++ w.retryQ) := by
      simpa using hI'.env hE0
    exact (PidStep.of_env hE0).trans (retryLoop_ps (k := k) w.retryQ { w with retryQ := [] } hI0 hk)
  | disconnect =>
    simp only [runTask]
    split
    · exact .of_env ((logPkt_envSame w k .disconnect _ (fun _ => rfl)).trans (kill_envSame _ k))
    · exact .of_env (logPkt_envSame w k .disconnect _ (fun _ => rfl))

theorem runTasks_ps (fuel : Nat) : ∀ w : World, Inv12 w → PidStep w (runTasks fuel w) := by
  induction fuel with
  | zero => intro w _; exact PidStep.refl w
  | succ fuel ih =>
    intro w hI
    rw [runTasks_succ]
    split
    · exact PidStep.refl w
    · split
      · exact PidStep.refl w
      · split
        · exact .of_env (EnvSame.of_conns rfl rfl rfl rfl)
        · exact .of_env (EnvSame.of_conns rfl rfl rfl rfl)
        · rename_i t rest k ht hk
          have hE0 : EnvSame w (popTask w rest) := EnvSame.of_conns rfl rfl rfl rfl
          have hI0 : PInv (popTask w rest) (t.msg.toList ++ taskMsgs rest) (popTask w rest).retryQ := by
            have : PInv w (t.msg.toList ++ taskMsgs rest) w.retryQ := by
              have := hI; unfold Inv12 at this; rwa [ht, taskMsgs_cons] at this
            exact this.env (w' := popTask w rest) hE0
          have hk0 : (popTask w rest).cli = some k := hk
          obtain ⟨h1, h2⟩ := runTask_inv (k := k) t hI0 hk0
          have hps : PidStep w (runTask (popTask w rest) k t) :=
            (PidStep.of_env hE0).trans (runTask_ps (k := k) t hI0 hk0)
          have h3 : Inv12 (runTask (popTask w rest) k t) := by
            unfold Inv12; rw [h1.taskQ]; exact h2
          split
          · exact hps
          · exact (hps.trans (.of_env (afterTask_envSame _ k))).trans (ih _
              (h3.env (afterTask_envSame _ k) (afterTask_queues _ k).1 (afterTask_queues _ k).2))

theorem progress_ps {w : World} (hI : Inv12 w) : PidStep w (progress w) := by
  unfold progress
  exact (runTasks_ps _ w hI).trans (.of_env (loopReact_envSame _))

theorem connackPost_envSame (w : World) (k : Nat) (sp : Bool) : EnvSame w (connackPost w k sp) := by
  have h1 : EnvSame w (connackFlags w sp) := EnvSame.of_conns rfl rfl rfl rfl
  have h2 : ∀ w : World, EnvSame w (connackResub w sp) := by
    intro w; unfold connackResub
    split
    · exact EnvSame.of_conns rfl rfl rfl rfl
    · exact EnvSame.rfl' w
  have h3 : ∀ w : World, EnvSame w (connackRetry w) := by
    intro w; unfold connackRetry
    split
    · exact EnvSame.rfl' w
    · exact EnvSame.of_conns rfl rfl rfl rfl
  have h4 : ∀ w : World, EnvSame w (connackUp w k) := fun w => EnvSame.of_conns rfl rfl rfl rfl
  unfold connackPost connackTasks
  exact ((h1.trans (h2 _)).trans (h3 _)).trans (h4 _)

theorem step_ps {w : World} (e : Ev) (hI : Inv12 w)
    (hnew : ∀ m q, e = .app (.pub m q) → m ∉ accMsgs w) : PidStep w (step w e) := by
  have env : ∀ {w' : World}, EnvSame w w' → PidStep w w' := fun h => .of_env h
  cases e with
  | start =>
    simp only [step]
    split
    · exact .refl w
    · split
      · split <;> exact env (EnvSame.of_conns rfl rfl rfl rfl)
      · exact env (EnvSame.of_conns rfl rfl rfl rfl)
  | app r =>
    simp only [step]
    split
    · exact env (EnvSame.of_conns rfl rfl rfl rfl)
    · have h0 : PidStep w (pushTask { w with accepted := w.accepted ++ [r] } (.req r)) :=
        .of_view (sameView_of_eq rfl rfl)
      exact h0.trans (progress_ps (accept_inv r hI (fun m q h => hnew m q (by rw [h]))))
  | dialOk idStart =>
    simp only [step]
    split
    · exact .refl w
    · split
      · -- (deaf dialer) the dead connection carries only CONNECT
        have key : ∀ w0 : World, EnvSame w w0 → w0.taskQ = w.taskQ → w0.retryQ = w.retryQ →
            PidStep w (progress w0) :=
          fun w0 e0 ht hr => (env e0).trans (progress_ps (hI.env e0 ht hr))
        refine key _ ⟨rfl, fun m => ?_, rfl, fun _ k hk => ?_⟩ rfl rfl
        · unfold msgPkts allPkts
          simp [List.flatMap_append, about]
        · simp only [Option.some.injEq] at hk
          subst hk; simp
      · refine .of_view (fun m => ⟨rfl, ?_⟩)
        unfold msgPkts allPkts
        simp [List.flatMap_append, about]
  | dialFail =>
    simp only [step]
    split
    · exact .refl w
    · split
      · exact env (EnvSame.of_conns rfl rfl rfl rfl)
      · split <;> exact env (EnvSame.of_conns rfl rfl rfl rfl)
  | waitElapsed =>
    simp only [step]
    split
    · exact env (EnvSame.of_conns rfl rfl rfl rfl)
    · exact .refl w
  | cancelCtx =>
    simp only [step]
    split
    · exact .refl w
    · split
      · exact env (EnvSame.of_conns rfl rfl rfl rfl)
      · exact env (EnvSame.of_conns rfl rfl rfl rfl)
      · split <;> exact env (EnvSame.of_conns rfl rfl rfl rfl)
      · rename_i k _
        have ea : EnvSame w { w with ctxCancelled := true, connReady := true } :=
          EnvSame.of_conns rfl rfl rfl rfl
        have eb := ea.trans (kill_envSame _ k)
        have ec : EnvSame w { kill { w with ctxCancelled := true, connReady := true } k with
            phase := .exited, connectErr := true } :=
          eb.trans (EnvSame.of_conns rfl rfl rfl rfl)
        have h0 : Inv12 { kill { w with ctxCancelled := true, connReady := true } k with
            phase := .exited, connectErr := true } := hI.env ec rfl rfl
        exact (env ec).trans (progress_ps h0)
      · exact env (EnvSame.of_conns rfl rfl rfl rfl)
      · exact env (EnvSame.of_conns rfl rfl rfl rfl)
  | connackOk sp inb =>
    by_cases h : ∃ k, w.phase = .connackGate k
    · obtain ⟨k, hk⟩ := h
      rw [step_connackOk w k sp inb hk]
      have h1 := inboundFold_modIn k inb (connackPre w k sp)
      have e1 : EnvSame w (inb.foldl (fun w (mq : Nat × Nat) => deliverInbound w k mq.1 mq.2)
          (connackPre w k sp)) := (connackPre_envSame w k sp).trans h1.envSame
      have hI2 := connackPost_inv k sp
        ((hI.env (connackPre_envSame w k sp) rfl rfl).env h1.envSame h1.taskQ h1.retryQ)
      exact ((env e1).trans (.of_env (connackPost_envSame _ k sp))).trans (progress_ps hI2)
    · rw [step_connackOk_other w sp inb (fun k hk => h ⟨k, hk⟩)]; exact .refl w
  | connackRefused =>
    simp only [step]
    split
    · rename_i k _
      exact (env (connectFailed_envSame w k)).trans (progress_ps
        (hI.env (connectFailed_envSame w k) (connectFailed_same w k).taskQ
          (connectFailed_same w k).retryQ))
    · exact .refl w
  | connackNever =>
    simp only [step]
    split
    · rename_i k _
      split
      · exact (env (connectFailed_envSame w k)).trans (progress_ps
          (hI.env (connectFailed_envSame w k) (connectFailed_same w k).taskQ
            (connectFailed_same w k).retryQ))
      · exact .refl w
    · exact .refl w
  | peerClose =>
    simp only [step]
    split
    · rename_i k _
      exact (env (kill_envSame w k)).trans (progress_ps (hI.env (kill_envSame w k) rfl rfl))
    · exact .refl w
  | inbound m q =>
    simp only [step]
    split
    · rename_i k _
      exact env (deliverInbound_modIn w k m q).envSame
    · exact .refl w
  | handle h =>
    simp only [step]
    split
    · refine env (EnvSame.of_pkts rfl rfl rfl (setConn_len _ _ _) ?_)
      exact allPkts_setConn_same { w with handler := some h } _ _ rfl
    · exact env (EnvSame.of_conns rfl rfl rfl rfl)
  | disconnect =>
    simp only [step]
    split
    · exact .refl w
    · have e0 : EnvSame w { pushTask w .disconnect with stopped := true } :=
        EnvSame.of_conns rfl rfl rfl rfl
      have h0 : Inv12 { pushTask w .disconnect with stopped := true } :=
        (hI.pushMisc .disconnect rfl).env (EnvSame.of_conns rfl rfl rfl rfl) rfl rfl
      have h1 := (env e0).trans (progress_ps h0)
      split
      · exact h1.trans (.of_env (EnvSame.of_conns rfl rfl rfl rfl))
      · exact h1.trans (.of_env (EnvSame.of_conns rfl rfl rfl rfl))
      · exact h1

theorem foldl_ps (evs : List Ev) : ∀ w : World, Inv12 w → (pubMsgs evs).Nodup →
    (∀ m ∈ pubMsgs evs, m ∉ accMsgs w) → PidStep w (evs.foldl step w) := by
  induction evs with
  | nil => intro w _ _ _; exact PidStep.refl w
  | cons e evs ih =>
    intro w hI hnd hnew
    rw [pubMsgs_cons] at hnd hnew
    simp only [List.foldl_cons]
    have hne : ∀ m q, e = .app (.pub m q) → m ∉ accMsgs w :=
      fun m q he => hnew m (by subst he; simp [pubMsgs])
    have hs := step_inv e hI hne
    refine (step_ps e hI hne).trans (ih _ hs.1 (List.nodup_append.1 hnd).2.1 ?_)
    intro m hm hacc
    rcases hs.2.accMsgs hacc with h | h
    · exact hnew m (List.mem_append_right _ hm) h
    · exact (List.nodup_append.1 hnd).2.2 m h m hm rfl

theorem execWith_ps (s : Script) (p0 : List (Nat × Nat)) (hd : s.DistinctMsgs) :
    PidStep (initWith s p0) (execWith s p0) :=
  foldl_ps s.evs (initWith s p0) (initWith_inv s p0) hd (fun m _ h => by cases h)

/-! ### one PUBLISH attempt: the identifier and the connection's counter -/

theorem getConn_setConn_ctr (w : World) (k k' : Nat) (c : Conn) (h : c.ctr = (getConn w k).ctr) :
    (getConn (setConn w k c) k').ctr = (getConn w k').ctr := by
  unfold getConn setConn at *
  simp only [List.getD_eq_getElem?_getD, List.getElem?_set] at *
  by_cases h' : k = k'
  · subst h'
    by_cases hk : k < w.conns.length
    · simp [hk] at h ⊢; exact h
    · simp [hk]
  · simp [h']

theorem getConn_logPkt_ctr (w : World) (k k' : Nat) (p : Pkt) (x : Wire) :
    (getConn (logPkt w k p x) k').ctr = (getConn w k').ctr :=
  getConn_setConn_ctr w k k' _ rfl

theorem getConn_kill_ctr (w : World) (k k' : Nat) :
    (getConn (kill w k) k').ctr = (getConn w k').ctr :=
  getConn_setConn_ctr w k k' _ rfl

theorem send_ctr (w : World) (k : Nat) (p : Pkt) (waits : Bool) (k' : Nat) :
    (getConn (send w k p waits).1 k').ctr = (getConn w k').ctr := by
  unfold send
  split
  · exact getConn_logPkt_ctr w k k' p .dead
  · have hnf := nextFault_snd w
    rcases hq : nextFault w with ⟨f, w1⟩
    rw [hq] at hnf
    simp only at hnf
    subst hnf
    have h0 : ∀ x, (getConn (logPkt { w with faults := w.faults.tail } k p x) k').ctr
        = (getConn w k').ctr := fun x => getConn_logPkt_ctr _ k k' p x
    have h1 : ∀ x, (getConn (kill (logPkt { w with faults := w.faults.tail } k p x) k) k').ctr
        = (getConn w k').ctr := fun x => (getConn_kill_ctr _ k k').trans (h0 x)
    cases f
    · exact h0 _
    · exact h1 _
    · exact h1 _
    · exact h1 _
    · simp only
      split
      · exact h0 _
      · split
        · exact h0 _
        · exact h0 _

theorem relAttempt_ctr (w : World) (k m i k' : Nat) :
    (getConn (relAttempt w k m i).1 k').ctr = (getConn w k').ctr := by
  rw [relAttempt_unfold]
  have h := send_ctr w k (.pubrel i m) true k'
  generalize send w k (.pubrel i m) true = r at h ⊢
  obtain ⟨w1, s⟩ := r
  cases s <;> exact h

theorem pubFinish_ctr (w2 : World) (s : Sent) (k m q id k' : Nat) :
    (getConn (pubFinish w2 s k m q id).1 k').ctr = (getConn w2 k').ctr := by
  cases s <;> simp only [pubFinish]
  split
  · exact relAttempt_ctr w2 k m id k'
  · split <;> rfl

theorem pubAttempt_ctr (w : World) (k m q : Nat) (d : Bool) (k' : Nat) :
    (getConn (pubAttempt w k m q d).1 k').ctr = (getConn (assignPid w k m).1 k').ctr := by
  rw [pubAttempt_unfold]
  exact (pubFinish_ctr _ _ k m q _ k').trans (send_ctr _ k _ _ k')

theorem getConn_setConn_self (w : World) (k : Nat) (c : Conn) (hk : k < w.conns.length) :
    getConn (setConn w k c) k = c := by
  unfold getConn setConn
  simp [List.getD_eq_getElem?_getD, hk]

theorem getConn_setConn_other (w : World) (k k' : Nat) (c : Conn) (hk : k' ≠ k) :
    getConn (setConn w k c) k' = getConn w k' := by
  unfold getConn setConn
  simp [List.getD_eq_getElem?_getD, Ne.symm hk]

/-- a PUBLISH attempt for a message that already has an identifier (put there by the caller, or by
    an earlier attempt): that identifier goes on the wire, in the PUBLISH and in the PUBREL that may
    follow; the table and every connection's counter are left alone -/
theorem pubAttempt_preset {w : World} {k m q id : Nat} {d : Bool} (hk : k + 1 = w.conns.length)
    (h : lookupPid w m = some id) :
    (∃ x rest, allPkts (pubAttempt w k m q d).1 = allPkts w ++ (.publish m q id d, x) :: rest ∧
      (rest = [] ∨ ∃ y, rest = [(.pubrel id m, y)])) ∧
    (pubAttempt w k m q d).1.pid = w.pid ∧
    ∀ k', (getConn (pubAttempt w k m q d).1 k').ctr = (getConn w k').ctr := by
  obtain ⟨x, rest, h1, h2, h3⟩ := pubAttempt_shape w k m q d hk
  have hc := pubAttempt_ctr w k m q d
  rw [assignPid_some h] at h1 h2 h3 hc
  exact ⟨⟨x, rest, h1, h2⟩, h3, hc⟩

/-- the first attempt for a message without an identifier draws it from the counter of the
    connection it is made on (`newID` of `idLast`), records it, and advances that counter -/
theorem pubAttempt_fresh {w : World} {k m q : Nat} {d : Bool} (hk : k + 1 = w.conns.length)
    (h : lookupPid w m = none) :
    (∃ x rest, allPkts (pubAttempt w k m q d).1 =
        allPkts w ++ (.publish m q (newID (getConn w k).ctr).2 d, x) :: rest ∧
      (rest = [] ∨ ∃ y, rest = [(.pubrel (newID (getConn w k).ctr).2 m, y)])) ∧
    (pubAttempt w k m q d).1.pid = w.pid ++ [(m, (newID (getConn w k).ctr).2)] ∧
    lookupPid (pubAttempt w k m q d).1 m = some (newID (getConn w k).ctr).2 ∧
    (getConn (pubAttempt w k m q d).1 k).ctr = (newID (getConn w k).ctr).1 ∧
    ∀ k', k' ≠ k → (getConn (pubAttempt w k m q d).1 k').ctr = (getConn w k').ctr := by
  obtain ⟨x, rest, h1, h2, h3⟩ := pubAttempt_shape w k m q d hk
  have hc := pubAttempt_ctr w k m q d
  rw [assignPid_none h] at h1 h2 h3 hc
  have h3' : (pubAttempt w k m q d).1.pid = w.pid ++ [(m, (newID (getConn w k).ctr).2)] := h3
  refine ⟨⟨x, rest, h1, h2⟩, h3', lookupPid_append_self h3' h, ?_, ?_⟩
  · rw [hc k, getConn_setConn_self _ k _ (by show k < w.conns.length; omega)]
  · intro k' hk'
    rw [hc k', getConn_setConn_other _ k k' _ hk']
    rfl


end Mqtt.Retry
