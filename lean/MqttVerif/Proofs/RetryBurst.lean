/-
  Burst submission (DESIGN.md §5.0; harness "burst mode"): pushing a task commutes with running the tasks
  in front of it.

  `Model/Retry.lean` makes one task of the RetryClient's task goroutine one atomic step and lets the
  application act only between tasks: `step w (.app r)` pushes the request and runs the goroutine to its
  next blocking point. The library lets the application call Publish / Subscribe / Unsubscribe while a task
  is in flight; such a call only appends to the FIFO `taskQueue` (retryclient.go `pushTask`). This file
  proves that nothing a running task reads or writes is touched by that (`put_runTask`: a task is
  independent of the tail of the task queue, and of `accepted`, `phase`, `waits`, `waitExp`), hence

    * `runTasks_add`        fuel is "at most this many more tasks"
    * `runTask_push_comm`, `runTasks_push_comm`, `push_any_time`
    * `runTasks_sat`        fuel beyond `taskQ.length + 1` changes nothing
    * `progress_play`       ANY schedule of submissions, partial runs of the task goroutine (any fuel) and
                            reactions of the reconnect loop ends, once the goroutine has drained the queue,
                            in the same world as accepting all the requests first and running afterwards
    * `burst_eq_sequential` one-at-a-time submission (`step w (.app r)` folded) = `progress` once after
                            accepting and pushing all of them: FULL equality of worlds, the loop phase and
                            the back-off bookkeeping included (`progress_loopReact`: a connection that is
                            dead stays dead, so a reaction of the loop that happens early is the reaction
                            that would happen late).
-/
import MqttVerif.Proofs.RetryLoop

namespace Mqtt.Retry

/-! ### what a running task neither reads nor writes -/

/-- the fields of the world a running task neither reads nor writes: the task queue (a task has been popped
    before it runs), the log of accepted requests, the state of the reconnect loop -/
structure Side where
  q : List Task
  acc : List Req
  phase : Phase
  waits : List Nat
  waitExp : Nat

/-- overwrite those fields -/
def Side.put (s : Side) (w : World) : World :=
  { w with taskQ := s.q, accepted := s.acc, phase := s.phase, waits := s.waits, waitExp := s.waitExp }

/-- … the same, `s.q` being APPENDED to the task queue -/
def Side.app (s : Side) (w : World) : World :=
  { w with taskQ := w.taskQ ++ s.q, accepted := s.acc, phase := s.phase, waits := s.waits, waitExp := s.waitExp }

def Side.of (w : World) : Side :=
  { q := w.taskQ, acc := w.accepted, phase := w.phase, waits := w.waits, waitExp := w.waitExp }

theorem Side.of_put (w : World) : (Side.of w).put w = w := rfl

theorem Side.app_eq_put (s : Side) (w : World) : s.app w = { s with q := w.taskQ ++ s.q }.put w := rfl

variable (s : Side)

@[simp] theorem put_getConn (w : World) (k : Nat) : getConn (s.put w) k = getConn w k := rfl
@[simp] theorem put_setConn (w : World) (k : Nat) (c : Conn) : setConn (s.put w) k c = s.put (setConn w k c) := rfl
@[simp] theorem put_logPkt (w : World) (k : Nat) (p : Pkt) (x : Wire) : logPkt (s.put w) k p x = s.put (logPkt w k p x) := rfl
@[simp] theorem put_kill (w : World) (k : Nat) : kill (s.put w) k = s.put (kill w k) := rfl
@[simp] theorem put_lookupPid (w : World) (m : Nat) : lookupPid (s.put w) m = lookupPid w m := rfl

theorem put_nextFault (w : World) : nextFault (s.put w) = ((nextFault w).1, s.put (nextFault w).2) := by
  unfold nextFault
  show (match w.faults with | [] => _ | f :: rest => _) = _
  cases w.faults <;> rfl

theorem put_send (w : World) (k : Nat) (p : Pkt) (b : Bool) :
    send (s.put w) k p b = (s.put (send w k p b).1, (send w k p b).2) := by
  unfold send
  simp only [put_getConn, put_nextFault]
  split
  · rfl
  · cases nextFault w with
    | mk f w1 =>
      cases f <;> simp only [put_logPkt, put_kill]
      all_goals first | rfl | (cases b <;> rfl) | (cases b <;> first | rfl | (cases hc : w1.cfg.respTimeout <;> simp [Side.put, logPkt, setConn, hc]))

theorem put_relAttempt (w : World) (k m id : Nat) :
    relAttempt (s.put w) k m id = (s.put (relAttempt w k m id).1, (relAttempt w k m id).2) := by
  unfold relAttempt
  simp only [put_send]
  cases send w k (.pubrel id m) true with
  | mk w1 s1 => cases s1 <;> rfl

theorem put_subAttempt (w : World) (k : Nat) (subs : List Subscription) :
    subAttempt (s.put w) k subs = (s.put (subAttempt w k subs).1, (subAttempt w k subs).2) := by
  unfold subAttempt
  simp only [put_getConn, put_setConn, put_send]
  cases send (setConn w k { getConn w k with ctr := (newID (getConn w k).ctr).1 }) k
      (.subscribe (newID (getConn w k).ctr).2 subs) true with
  | mk w1 s1 => cases s1 <;> rfl

theorem put_unsubAttempt (w : World) (k : Nat) (ts : List Bytes) :
    unsubAttempt (s.put w) k ts = (s.put (unsubAttempt w k ts).1, (unsubAttempt w k ts).2) := by
  unfold unsubAttempt
  simp only [put_getConn, put_setConn, put_send]
  cases send (setConn w k { getConn w k with ctr := (newID (getConn w k).ctr).1 }) k
      (.unsubscribe (newID (getConn w k).ctr).2 ts) true with
  | mk w1 s1 => cases s1 <;> rfl

theorem put_pubPrep (w : World) (k m : Nat) :
    pubPrep (s.put w) k m = (s.put (pubPrep w k m).1, (pubPrep w k m).2) := by
  unfold pubPrep
  simp only [put_lookupPid]
  cases lookupPid w m <;> rfl

theorem put_pubFinish (k m qos id : Nat) (r : World × Sent) :
    pubFinish k m qos id (s.put r.1, r.2) = (s.put (pubFinish k m qos id r).1, (pubFinish k m qos id r).2) := by
  obtain ⟨w1, s1⟩ := r
  unfold pubFinish
  cases s1 <;> try rfl
  simp only
  split
  · exact put_relAttempt s _ _ _ _
  · split <;> rfl

theorem put_pubAttempt (w : World) (k m qos : Nat) (dup : Bool) :
    pubAttempt (s.put w) k m qos dup = (s.put (pubAttempt w k m qos dup).1, (pubAttempt w k m qos dup).2) := by
  rw [pubAttempt_eq, pubAttempt_eq, put_pubPrep]
  simp only [put_send]
  exact put_pubFinish s k m qos _ _


theorem put_absorb (w : World) (o : Outcome) : absorb (s.put w) o = s.put (absorb w o) := by
  unfold absorb
  split <;> rfl

theorem put_firstPub (w : World) (k m qos : Nat) : firstPub (s.put w) k m qos = s.put (firstPub w k m qos) := by
  unfold firstPub
  simp only [put_pubAttempt, put_absorb]

theorem put_firstSub (w : World) (k : Nat) (subs : List Subscription) :
    firstSub (s.put w) k subs = s.put (firstSub w k subs) := by
  unfold firstSub
  simp only [put_subAttempt, put_absorb]

theorem put_firstUnsub (w : World) (k : Nat) (ts : List Bytes) :
    firstUnsub (s.put w) k ts = s.put (firstUnsub w k ts) := by
  unfold firstUnsub
  simp only [put_unsubAttempt, put_absorb]

theorem put_subscribeTask (w : World) (k : Nat) (subs : List Subscription) :
    subscribeTask (s.put w) k subs = s.put (subscribeTask w k subs) := by
  unfold subscribeTask
  show (if w.retryQ.isEmpty then firstSub (s.put { w with subEst := applySubs w.subEst subs }) k subs
        else s.put { w with subEst := applySubs w.subEst subs, retryQ := w.retryQ ++ [.qSub subs] }) = _
  rw [put_firstSub]
  show _ = s.put (if w.retryQ.isEmpty then _ else _)
  split <;> rfl

theorem put_resubLoop (k : Nat) (l : List Subscription) (w : World) :
    resubLoop (s.put w) k l = s.put (resubLoop w k l) := by
  induction l generalizing w with
  | nil => rfl
  | cons a l ih =>
    unfold resubLoop
    show (if w.stuck then s.put w else _) = _
    split
    · rfl
    · rw [put_subscribeTask, ih]

theorem put_runEntry (w : World) (k : Nat) (e : Entry) :
    runEntry (s.put w) k e = (s.put (runEntry w k e).1, (runEntry w k e).2) := by
  cases e <;> unfold runEntry <;> simp only [put_firstPub, put_firstSub, put_firstUnsub, put_pubAttempt,
    put_relAttempt, put_subAttempt, put_unsubAttempt, put_lookupPid]

/-- the body of `retryLoop` behind `runEntry` -/
def retryAfter (rest : List Entry) (cont : World → World) (r : World × Outcome) : World :=
  match r.2 with
  | .fail (some h) err =>
    { r.1 with onErrors := r.1.onErrors ++ [err], retryQ := r.1.retryQ ++ [h] ++ rest, closeAfterTask := true }
  | .stuck => r.1
  | _ => if r.1.closeAfterTask then { r.1 with retryQ := r.1.retryQ ++ rest } else cont r.1

theorem retryLoop_cons (w : World) (k : Nat) (e : Entry) (rest : List Entry) :
    retryLoop w k (e :: rest) =
      if w.stuck then w
      else retryAfter rest (fun w => retryLoop w k rest) (runEntry { w with totalRetries := w.totalRetries + 1 } k e) := by
  rw [retryLoop]
  split
  · rfl
  · simp only
    generalize runEntry { w with totalRetries := w.totalRetries + 1 } k e = r
    obtain ⟨w1, o⟩ := r
    unfold retryAfter
    cases o with
    | done => rfl
    | stuck => rfl
    | fail h e => cases h <;> rfl

theorem put_retryAfter (rest : List Entry) (cont : World → World) (hc : ∀ w, cont (s.put w) = s.put (cont w))
    (r : World × Outcome) : retryAfter rest cont (s.put r.1, r.2) = s.put (retryAfter rest cont r) := by
  obtain ⟨w1, o⟩ := r
  unfold retryAfter
  cases o with
  | done => simp only; rw [hc]; show (if w1.closeAfterTask then _ else _) = _; split <;> rfl
  | stuck => rfl
  | fail h e =>
    cases h with
    | some h => rfl
    | none => simp only; rw [hc]; show (if w1.closeAfterTask then _ else _) = _; split <;> rfl

theorem put_retryLoop (k : Nat) (l : List Entry) (w : World) :
    retryLoop (s.put w) k l = s.put (retryLoop w k l) := by
  induction l generalizing w with
  | nil => rfl
  | cons e l ih =>
    rw [retryLoop_cons, retryLoop_cons]
    show (if w.stuck then s.put w else
      retryAfter l _ (runEntry (s.put { w with totalRetries := w.totalRetries + 1 }) k e)) = _
    rw [put_runEntry, put_retryAfter s l _ ih]
    split <;> rfl

theorem put_runTask (w : World) (k : Nat) (t : Task) : runTask (s.put w) k t = s.put (runTask w k t) := by
  cases t with
  | req r =>
    cases r with
    | pub m qos =>
      simp only [runTask]
      show (if w.retryQ.isEmpty then _ else _) = _
      rw [put_firstPub]
      split
      · rfl
      · split <;> rfl
    | sub subs => exact put_subscribeTask s _ _ _
    | unsub ts =>
      simp only [runTask]
      show (if w.retryQ.isEmpty then firstUnsub (s.put { w with subEst := applyUnsubs w.subEst ts }) k ts else _) = _
      rw [put_firstUnsub]
      split <;> rfl
  | resubscribe =>
    simp only [runTask]
    exact put_resubLoop s k _ { w with subEst := [] }
  | retry =>
    simp only [runTask]
    exact put_retryLoop s k _ { w with retryQ := [] }
  | disconnect =>
    simp only [runTask]
    show (if (getConn w k).alive then _ else _) = _
    split <;> rfl



/-- a running task leaves the `Side` fields as they are -/
theorem runTask_side (w : World) (k : Nat) (t : Task) : Side.of (runTask w k t) = Side.of w := by
  have h := put_runTask (Side.of w) w k t
  rw [Side.of_put] at h
  rw [h]; rfl

theorem runTask_taskQ (w : World) (k : Nat) (t : Task) : (runTask w k t).taskQ = w.taskQ :=
  congrArg Side.q (runTask_side w k t)

theorem app_runTask (w : World) (k : Nat) (t : Task) : runTask (s.app w) k t = s.app (runTask w k t) := by
  rw [Side.app_eq_put, put_runTask, Side.app_eq_put, runTask_taskQ]

/-! ### the task goroutine, one turn at a time -/

/-- the goroutine exists, is not blocked for ever inside a request, and has (or gets at once) its connection -/
def Ready (w : World) : Prop :=
  w.goroutine = true ∧ w.stuck = false ∧ (w.gConnected = true ∨ w.connReady = true)

instance (w : World) : Decidable (Ready w) := by unfold Ready; infer_instance

/-- the wait for the connection is over -/
def wake (w : World) : World := { w with gConnected := true }

/-- the head of the queue is taken -/
def pop (w : World) (rest : List Task) : World :=
  { w with gConnected := true, taskQ := rest, totalTasks := w.totalTasks + 1 }

/-- `newRetryByError`: the connection is closed after the task, the goroutine waits for the next one -/
def settle (w : World) (k : Nat) : World :=
  if w.closeAfterTask then { kill w k with gConnected := false, closeAfterTask := false } else w

theorem runTasks_notReady (n : Nat) (w : World) (h : ¬ Ready w) : runTasks n w = w := by
  cases n with
  | zero => rfl
  | succ n =>
    unfold runTasks
    unfold Ready at h
    split
    · rfl
    · split
      · rfl
      · exfalso; apply h
        cases hg : w.goroutine <;> cases hs : w.stuck <;> cases hc : w.gConnected <;> cases hr : w.connReady <;> simp_all

theorem runTasks_succ (n : Nat) (w : World) (h : Ready w) :
    runTasks (n + 1) w =
      match w.taskQ, w.cli with
      | [], _ => wake w
      | _, none => wake w
      | t :: rest, some k =>
        if (runTask (pop w rest) k t).stuck then runTask (pop w rest) k t
        else runTasks n (settle (runTask (pop w rest) k t) k) := by
  obtain ⟨hg, hs, hc⟩ := h
  rw [runTasks]
  rw [if_neg (by simp [hg, hs]), if_neg (by rcases hc with hc | hc <;> simp [hc])]
  rfl

theorem runTasks_idle (n : Nat) (w : World) (h : Ready w) (hq : w.taskQ = [] ∨ w.cli = none) :
    runTasks (n + 1) w = wake w := by
  rw [runTasks_succ n w h]
  rcases hq with hq | hq
  · rw [hq]
  · rw [hq]; generalize w.taskQ = q; cases q <;> rfl

theorem runTasks_cons (n : Nat) (w : World) (h : Ready w) {t : Task} {rest : List Task} {k : Nat}
    (hq : w.taskQ = t :: rest) (hc : w.cli = some k) :
    runTasks (n + 1) w =
      if (runTask (pop w rest) k t).stuck then runTask (pop w rest) k t
      else runTasks n (settle (runTask (pop w rest) k t) k) := by
  rw [runTasks_succ n w h, hq, hc]

theorem settle_taskQ (w : World) (k : Nat) : (settle w k).taskQ = w.taskQ := by
  unfold settle; split <;> rfl

theorem app_settle (w : World) (k : Nat) : settle (s.app w) k = s.app (settle w k) := by
  unfold settle
  show (if w.closeAfterTask then _ else _) = _
  split <;> rfl

theorem runTask_pop_taskQ (w : World) (rest : List Task) (k : Nat) (t : Task) :
    (settle (runTask (pop w rest) k t) k).taskQ = rest := by
  rw [settle_taskQ, runTask_taskQ]; rfl

theorem not_ready_of_stuck {w : World} (h : w.stuck = true) : ¬ Ready w := by
  intro hr; rw [hr.2.1] at h; cases h

/-! ### 1. fuel is "at most this many more tasks" -/

theorem runTasks_add (n m : Nat) (w : World) : runTasks (n + m) w = runTasks m (runTasks n w) := by
  induction n generalizing w with
  | zero => rw [Nat.zero_add]; rfl
  | succ n ih =>
    rw [Nat.add_right_comm]
    by_cases hr : Ready w
    · cases hq : w.taskQ with
      | nil =>
        rw [runTasks_idle _ w hr (.inl hq), runTasks_idle _ w hr (.inl hq)]
        cases m with
        | zero => rfl
        | succ m => rw [runTasks_idle m (wake w) ⟨hr.1, hr.2.1, .inl rfl⟩ (.inl hq)]; rfl
      | cons t rest =>
        cases hc : w.cli with
        | none =>
          rw [runTasks_idle _ w hr (.inr hc), runTasks_idle _ w hr (.inr hc)]
          cases m with
          | zero => rfl
          | succ m => rw [runTasks_idle m (wake w) ⟨hr.1, hr.2.1, .inl rfl⟩ (.inr hc)]; rfl
        | some k =>
          rw [runTasks_cons _ w hr hq hc, runTasks_cons _ w hr hq hc]
          split
          · rename_i hst
            rw [runTasks_notReady m _ (not_ready_of_stuck hst)]
          · exact ih _
    · rw [runTasks_notReady _ w hr, runTasks_notReady _ w hr, runTasks_notReady _ w hr]

/-! ### 2.–4. pushing commutes with running the tasks in front -/

def pushTasks (w : World) (ts : List Task) : World := { w with taskQ := w.taskQ ++ ts }

theorem pushTask_eq (w : World) (t : Task) : pushTask w t = pushTasks w [t] := rfl

/-- the first `n` queued tasks run the same whatever is behind them in the queue (and whatever the `Side`
    fields are); with nothing appended, for every `n` -/
theorem app_runTasks (n : Nat) (w : World) (h : s.q = [] ∨ n ≤ w.taskQ.length) :
    runTasks n (s.app w) = s.app (runTasks n w) := by
  induction n generalizing w with
  | zero => rfl
  | succ n ih =>
    by_cases hr : Ready w
    · have hr' : Ready (s.app w) := hr
      cases hq : w.taskQ with
      | nil =>
        rcases h with h | h
        · have hq' : (s.app w).taskQ = [] := by show w.taskQ ++ s.q = []; rw [hq, h]; rfl
          rw [runTasks_idle _ w hr (.inl hq), runTasks_idle _ _ hr' (.inl hq')]; rfl
        · rw [hq] at h; cases h
      | cons t rest =>
        have hq' : (s.app w).taskQ = t :: (rest ++ s.q) := by show w.taskQ ++ s.q = _; rw [hq]; rfl
        cases hc : w.cli with
        | none => rw [runTasks_idle _ w hr (.inr hc), runTasks_idle _ _ hr' (.inr hc)]; rfl
        | some k =>
          have hc' : (s.app w).cli = some k := hc
          rw [runTasks_cons _ w hr hq hc, runTasks_cons _ _ hr' hq' hc']
          have hp : pop (s.app w) (rest ++ s.q) = s.app (pop w rest) := rfl
          rw [hp, app_runTask, app_settle]
          show (if (runTask (pop w rest) k t).stuck then _ else _) = _
          split
          · rfl
          · apply ih
            rcases h with h | h
            · exact .inl h
            · right; rw [runTask_pop_taskQ]; rw [hq] at h; exact Nat.le_of_succ_le_succ h
    · rw [runTasks_notReady _ w hr, runTasks_notReady _ (s.app w) hr]

/-- the task goroutine leaves `accepted`, `phase`, `waits`, `waitExp` as they are … -/
theorem runTasks_side (n : Nat) (w : World) :
    (runTasks n w).accepted = w.accepted ∧ (runTasks n w).phase = w.phase ∧
    (runTasks n w).waits = w.waits ∧ (runTasks n w).waitExp = w.waitExp := by
  have h := app_runTasks { Side.of w with q := [] } n w (.inl rfl)
  have e : Side.app { Side.of w with q := [] } w = w := by
    show { w with taskQ := w.taskQ ++ [] } = w
    rw [List.append_nil]
  rw [e] at h
  refine ⟨?_, ?_, ?_, ?_⟩ <;> (rw [h]; rfl)

theorem runTasks_pushTasks (n : Nat) (w : World) (ts : List Task) (h : n ≤ w.taskQ.length) :
    runTasks n (pushTasks w ts) = pushTasks (runTasks n w) ts := by
  have h1 := app_runTasks { Side.of w with q := ts } n w (.inr h)
  obtain ⟨ha, hp, hw, he⟩ := runTasks_side n w
  have e1 : Side.app { Side.of w with q := ts } w = pushTasks w ts := rfl
  have e2 : Side.app { Side.of w with q := ts } (runTasks n w) = pushTasks (runTasks n w) ts := by
    show { runTasks n w with taskQ := (runTasks n w).taskQ ++ ts, accepted := w.accepted, phase := w.phase,
                             waits := w.waits, waitExp := w.waitExp } = _
    rw [← ha, ← hp, ← hw, ← he]; rfl
  rw [e1, e2] at h1
  exact h1

/-- 2. a running task neither reads nor writes the tail of the task queue -/
theorem runTask_pushTasks (w : World) (ts : List Task) (k : Nat) (t0 : Task) :
    runTask (pushTasks w ts) k t0 = pushTasks (runTask w k t0) ts := by
  have h := app_runTask { Side.of w with q := ts } w k t0
  have e : Side.app { Side.of w with q := ts } (runTask w k t0) =
      Side.app { Side.of (runTask w k t0) with q := ts } (runTask w k t0) := by rw [runTask_side]
  rw [e] at h
  exact h

theorem runTask_push_comm (w : World) (t : Task) (k : Nat) (t0 : Task) :
    runTask (pushTask w t) k t0 = pushTask (runTask w k t0) t :=
  runTask_pushTasks w [t] k t0

/-- 3. the first `n` queued tasks run the same whether or not `t` is already behind them -/
theorem runTasks_push_comm (n : Nat) (w : World) (t : Task) (h : n ≤ w.taskQ.length) :
    runTasks n (pushTask w t) = pushTask (runTasks n w) t :=
  runTasks_pushTasks n w [t] h

/-- 4. a request that enters the queue after the goroutine has processed `n` of the queued tasks gives the
    same result as one that entered before any of them ran -/
theorem push_any_time (n m : Nat) (w : World) (t : Task) (h : n ≤ w.taskQ.length) :
    runTasks (n + m) (pushTask w t) = runTasks m (pushTask (runTasks n w) t) := by
  rw [runTasks_add, runTasks_push_comm n w t h]

/-- … and never lengthens the queue, nor shortens it by more than the fuel -/
theorem runTasks_length (n : Nat) (w : World) :
    (runTasks n w).taskQ.length ≤ w.taskQ.length ∧ w.taskQ.length ≤ (runTasks n w).taskQ.length + n := by
  induction n generalizing w with
  | zero => exact ⟨Nat.le_refl _, Nat.le_refl _⟩
  | succ n ih =>
    by_cases hr : Ready w
    · cases hq : w.taskQ with
      | nil => rw [runTasks_idle _ w hr (.inl hq)]; show w.taskQ.length ≤ _ ∧ _; rw [hq]; simp
      | cons t rest =>
        cases hc : w.cli with
        | none =>
          rw [runTasks_idle _ w hr (.inr hc)]
          show w.taskQ.length ≤ _ ∧ _ ≤ w.taskQ.length + _
          rw [hq]; simp
        | some k =>
          rw [runTasks_cons _ w hr hq hc]
          split
          · rw [runTask_taskQ]; show rest.length ≤ _ ∧ _ ≤ rest.length + _; simp
          · have := ih (settle (runTask (pop w rest) k t) k)
            rw [runTask_pop_taskQ] at this
            simp only [List.length_cons]; omega
    · rw [runTasks_notReady _ w hr]; omega

/-! ### fuel beyond `taskQ.length + 1` changes nothing -/

/-- the goroutine cannot move, whatever is in the queue -/
def Blocked (w : World) : Prop := ¬ Ready w ∨ (w.cli = none ∧ w.gConnected = true)

theorem wake_of_gConnected {w : World} (h : w.gConnected = true) : wake w = w := by
  unfold wake; rw [← h]

theorem runTasks_blocked (n : Nat) (w : World) (h : Blocked w) : runTasks n w = w := by
  rcases h with h | ⟨hc, hg⟩
  · exact runTasks_notReady n w h
  · by_cases hr : Ready w
    · cases n with
      | zero => rfl
      | succ n => rw [runTasks_idle n w hr (.inr hc), wake_of_gConnected hg]
    · exact runTasks_notReady n w hr

theorem blocked_wake_none {w : World} (hc : w.cli = none) : Blocked (wake w) := .inr ⟨hc, rfl⟩

/-- running the first `n ≤ taskQ.length` tasks either takes exactly `n` tasks off the queue or ends blocked -/
theorem runTasks_blocked_or (n : Nat) (w : World) (h : n ≤ w.taskQ.length) :
    Blocked (runTasks n w) ∨ (runTasks n w).taskQ.length + n = w.taskQ.length := by
  induction n generalizing w with
  | zero => right; rfl
  | succ n ih =>
    by_cases hr : Ready w
    · cases hq : w.taskQ with
      | nil => rw [hq] at h; cases h
      | cons t rest =>
        cases hc : w.cli with
        | none => left; rw [runTasks_idle _ w hr (.inr hc)]; exact blocked_wake_none hc
        | some k =>
          rw [runTasks_cons _ w hr hq hc]
          split
          · rename_i hst; left; exact .inl (not_ready_of_stuck hst)
          · have h' : n ≤ (settle (runTask (pop w rest) k t) k).taskQ.length := by
              rw [runTask_pop_taskQ]; rw [hq] at h; exact Nat.le_of_succ_le_succ h
            rcases ih _ h' with hb | hl
            · exact .inl hb
            · right; rw [runTask_pop_taskQ] at hl; simp only [List.length_cons]; omega
    · left; rw [runTasks_notReady _ w hr]; exact .inl hr

/-- with more fuel than queued tasks the goroutine ends at a blocking point: more fuel does nothing -/
theorem runTasks_runTasks (n m : Nat) (w : World) (h : w.taskQ.length < n) :
    runTasks m (runTasks n w) = runTasks n w := by
  induction n generalizing w with
  | zero => cases h
  | succ n ih =>
    by_cases hr : Ready w
    · have hw : Ready (wake w) := ⟨hr.1, hr.2.1, .inl rfl⟩
      cases hq : w.taskQ with
      | nil =>
        rw [runTasks_idle _ w hr (.inl hq)]
        cases m with
        | zero => rfl
        | succ m => rw [runTasks_idle m (wake w) hw (.inl hq)]; rfl
      | cons t rest =>
        cases hc : w.cli with
        | none => rw [runTasks_idle _ w hr (.inr hc)]; exact runTasks_blocked _ _ (blocked_wake_none hc)
        | some k =>
          rw [runTasks_cons _ w hr hq hc]
          split
          · rename_i hst; exact runTasks_notReady _ _ (not_ready_of_stuck hst)
          · apply ih
            rw [runTask_pop_taskQ]; rw [hq] at h; exact Nat.lt_of_succ_lt_succ h
    · rw [runTasks_notReady _ w hr, runTasks_notReady _ w hr]

theorem runTasks_sat (n n' : Nat) (w : World) (h : w.taskQ.length < n) (hn : n ≤ n') :
    runTasks n' w = runTasks n w := by
  obtain ⟨d, rfl⟩ := Nat.le.dest hn
  rw [runTasks_add, runTasks_runTasks n d w h]

/-- the goroutine run to its next blocking point (the fuel `progress` gives it) -/
def drain (w : World) : World := runTasks (w.taskQ.length + 1) w

theorem progress_eq_drain (w : World) : progress w = loopReact (drain w) := rfl

theorem runTasks_eq_drain (n : Nat) (w : World) (h : w.taskQ.length < n) : runTasks n w = drain w :=
  runTasks_sat _ _ w (Nat.lt_succ_self _) h

/-- however far the goroutine has got already, draining ends in the same world -/
theorem drain_runTasks (n : Nat) (w : World) : drain (runTasks n w) = drain w := by
  unfold drain
  rw [← runTasks_add]
  apply runTasks_sat _ _ w (Nat.lt_succ_self _)
  have := (runTasks_length n w).2
  omega

theorem runTasks_wake (n : Nat) (w : World) (hr : Ready w) : runTasks (n + 1) (wake w) = runTasks (n + 1) w := by
  have hw : Ready (wake w) := ⟨hr.1, hr.2.1, .inl rfl⟩
  cases hq : w.taskQ with
  | nil => rw [runTasks_idle _ w hr (.inl hq), runTasks_idle _ (wake w) hw (.inl hq)]; rfl
  | cons t rest =>
    cases hc : w.cli with
    | none => rw [runTasks_idle _ w hr (.inr hc), runTasks_idle _ (wake w) hw (.inr hc)]; rfl
    | some k => rw [runTasks_cons _ w hr hq hc, runTasks_cons _ (wake w) hw hq hc]; rfl

/-- requests (and `Side` fields) that arrive after the goroutine has run — for ANY fuel `n`, whether it is
    still in the middle of the queue or has reached the end of it — end, once drained, in the same world as
    if they had been there from the start -/
theorem drain_app_runTasks (n : Nat) (w : World) : drain (s.app (runTasks n w)) = drain (s.app w) := by
  have key : ∀ n, n ≤ w.taskQ.length → drain (s.app (runTasks n w)) = drain (s.app w) := by
    intro n h
    rw [← app_runTasks s n w (.inr h), drain_runTasks]
  by_cases h : n ≤ w.taskQ.length
  · exact key n h
  · rw [runTasks_eq_drain n w (by omega)]
    rw [← key w.taskQ.length (Nat.le_refl _)]
    have hd := runTasks_blocked_or w.taskQ.length w (Nat.le_refl _)
    have e : drain w = runTasks 1 (runTasks w.taskQ.length w) := runTasks_add _ 1 w
    rw [e]
    generalize runTasks w.taskQ.length w = u at hd ⊢
    rcases hd with hb | hl
    · rw [runTasks_blocked 1 u hb]
    · have hq : u.taskQ = [] := List.eq_nil_of_length_eq_zero (by omega)
      by_cases hr : Ready u
      · rw [runTasks_idle 0 u hr (.inl hq)]
        exact runTasks_wake _ (s.app u) hr
      · rw [runTasks_notReady 1 u hr]

/-! ### the reconnect loop may react early or late -/

theorem loopReact_exit {w : World} {k : Nat} (hp : w.phase = .up k) (ha : (getConn w k).alive = false)
    (hs : w.stopped = true) : loopReact w = { w with phase := .exited } := by
  unfold loopReact
  rw [hp]
  simp only [ha, hs]
  rfl

theorem loopReact_backoff {w : World} {k : Nat} (hp : w.phase = .up k) (ha : (getConn w k).alive = false)
    (hs : w.stopped = false) :
    loopReact w = { w with phase := .backoff, waits := w.waits ++ [w.waitExp], waitExp := w.waitExp + 1 } := by
  unfold loopReact
  rw [hp]
  simp only [ha, hs]
  rfl

/-- the state of the reconnect loop -/
def setLoop (w : World) (p : Phase) (ws : List Nat) (e : Nat) : World :=
  { w with phase := p, waits := ws, waitExp := e }

theorem Side.app_nil (hq : s.q = []) (w : World) (ha : s.acc = w.accepted) :
    s.app w = setLoop w s.phase s.waits s.waitExp := by
  unfold Side.app setLoop
  rw [hq, List.append_nil, ha]

/-- the goroutine's run does not depend on the state of the reconnect loop -/
theorem runTasks_setLoop (n : Nat) (w : World) (p : Phase) (ws : List Nat) (e : Nat) :
    runTasks n (setLoop w p ws e) = setLoop (runTasks n w) p ws e := by
  have h := app_runTasks { q := [], acc := w.accepted, phase := p, waits := ws, waitExp := e } n w (.inl rfl)
  rw [Side.app_nil _ rfl w rfl, Side.app_nil _ rfl (runTasks n w) (runTasks_side n w).1.symm] at h
  exact h

theorem drain_setLoop (w : World) (p : Phase) (ws : List Nat) (e : Nat) :
    drain (setLoop w p ws e) = setLoop (drain w) p ws e :=
  runTasks_setLoop _ w p ws e

/-- A connection that is dead stays dead, and the goroutine does not look at the loop: the reaction of the
    reconnect loop may come before or after the goroutine's run. -/
theorem progress_loopReact (w : World) : progress (loopReact w) = progress w := by
  have hf : Frame w (drain w) := frame_runTasks (w.taskQ.length + 1) w
  have hp : (drain w).phase = w.phase := (runTasks_side _ w).2.1
  have hw : (drain w).waits = w.waits := (runTasks_side _ w).2.2.1
  have he : (drain w).waitExp = w.waitExp := (runTasks_side _ w).2.2.2
  rcases loopReact_cases w with ⟨h, _⟩ | ⟨k, hk, ha, hs, h⟩ | ⟨k, hk, ha, hs, h⟩
  · rw [h]
  · rw [h]
    show progress (setLoop w .exited w.waits w.waitExp) = _
    rw [progress_eq_drain, progress_eq_drain, drain_setLoop, loopReact_of_not_up _ (by intro k; simp [setLoop]),
      loopReact_exit (w := drain w) (hp.trans hk) (hf.dead ha) (hf.stopped.trans hs)]
    show _ = setLoop (drain w) .exited (drain w).waits (drain w).waitExp
    rw [hw, he]
  · rw [h]
    show progress (setLoop w .backoff (w.waits ++ [w.waitExp]) (w.waitExp + 1)) = _
    rw [progress_eq_drain, progress_eq_drain, drain_setLoop, loopReact_of_not_up _ (by intro k; simp [setLoop]),
      loopReact_backoff (w := drain w) (hp.trans hk) (hf.dead ha) (hf.stopped.trans hs)]
    show _ = setLoop (drain w) .backoff ((drain w).waits ++ [(drain w).waitExp]) ((drain w).waitExp + 1)
    rw [hw, he]

/-! ### 5. submitting in a burst -/

/-- Publish / Subscribe / Unsubscribe of a client that is not closed: logged as accepted, pushed. Nothing runs. -/
def acceptAll (w : World) (rs : List Req) : World :=
  { w with accepted := w.accepted ++ rs, taskQ := w.taskQ ++ rs.map .req }

def accept (w : World) (r : Req) : World := pushTask { w with accepted := w.accepted ++ [r] } (.req r)

theorem step_app (w : World) (r : Req) (hs : w.stopped = false) : step w (.app r) = progress (accept w r) := by
  unfold accept
  simp only [step, hs, Bool.false_eq_true, ↓reduceIte]

theorem acceptAll_nil (w : World) : acceptAll w [] = w := by
  unfold acceptAll; simp

theorem acceptAll_accept (w : World) (r : Req) (rs : List Req) : acceptAll (accept w r) rs = acceptAll w (r :: rs) := by
  unfold acceptAll accept pushTask; simp

theorem accept_eq (w : World) (r : Req) : accept w r = acceptAll w [r] := rfl

theorem acceptAll_loopReact (w : World) (rs : List Req) : acceptAll (loopReact w) rs = loopReact (acceptAll w rs) := by
  rcases loopReact_cases w with ⟨h, ha⟩ | ⟨k, hk, ha, hs, h⟩ | ⟨k, hk, ha, hs, h⟩
  · rw [h]
    rcases loopReact_cases (acceptAll w rs) with ⟨h', _⟩ | ⟨k, hk, ha', _, _⟩ | ⟨k, hk, ha', _, _⟩
    · exact h'.symm
    · have := ha k hk; rw [show getConn (acceptAll w rs) k = getConn w k from rfl] at ha'; rw [this] at ha'; cases ha'
    · have := ha k hk; rw [show getConn (acceptAll w rs) k = getConn w k from rfl] at ha'; rw [this] at ha'; cases ha'
  · rw [h, loopReact_exit (w := acceptAll w rs) hk ha hs]; rfl
  · rw [h, loopReact_backoff (w := acceptAll w rs) hk ha hs]; rfl

theorem acceptAll_eq_app (w : World) (rs : List Req) :
    acceptAll w rs = Side.app { Side.of w with q := rs.map .req, acc := w.accepted ++ rs } w := rfl

theorem acceptAll_runTasks_app (n : Nat) (w : World) (rs : List Req) :
    acceptAll (runTasks n w) rs = Side.app { Side.of w with q := rs.map .req, acc := w.accepted ++ rs } (runTasks n w) := by
  obtain ⟨ha, hp, hw, he⟩ := runTasks_side n w
  rw [acceptAll_eq_app]
  show Side.app { q := _, acc := (runTasks n w).accepted ++ rs, phase := (runTasks n w).phase,
                  waits := (runTasks n w).waits, waitExp := (runTasks n w).waitExp } _ = _
  rw [ha, hp, hw, he]; rfl

/-- requests that arrive when the goroutine has run with fuel `n` (any `n`) -/
theorem progress_acceptAll_runTasks (n : Nat) (w : World) (rs : List Req) :
    progress (acceptAll (runTasks n w) rs) = progress (acceptAll w rs) := by
  rw [progress_eq_drain, progress_eq_drain, acceptAll_runTasks_app, drain_app_runTasks, ← acceptAll_eq_app]

theorem progress_acceptAll_loopReact (w : World) (rs : List Req) :
    progress (acceptAll (loopReact w) rs) = progress (acceptAll w rs) := by
  rw [acceptAll_loopReact, progress_loopReact]

theorem progress_acceptAll_progress (w : World) (rs : List Req) :
    progress (acceptAll (progress w) rs) = progress (acceptAll w rs) := by
  rw [progress_eq_drain w, progress_acceptAll_loopReact]
  exact progress_acceptAll_runTasks _ w rs

theorem progress_progress (w : World) : progress (progress w) = progress w := by
  have := progress_acceptAll_progress w []
  rwa [acceptAll_nil, acceptAll_nil] at this

/-- what can happen, in any order, between the first submission of a burst and the moment the task goroutine
    has drained its queue -/
inductive Act
  | submit (r : Req)      -- the application's call returns nil: the request is in the queue
  | run (n : Nat)         -- the task goroutine gets on: at most `n` more tasks
  | react                 -- the reconnect loop notices that its connection has ended
  | settle                -- both run to their next blocking point (`progress`)
  deriving Repr

def Act.ap (w : World) : Act → World
  | .submit r => accept w r
  | .run n => runTasks n w
  | .react => loopReact w
  | .settle => progress w

def play (acts : List Act) (w : World) : World := acts.foldl Act.ap w

def submitted (acts : List Act) : List Req :=
  acts.filterMap (fun a => match a with | .submit r => some r | _ => none)

theorem progress_acceptAll_play (acts : List Act) (w : World) (rs : List Req) :
    progress (acceptAll (play acts w) rs) = progress (acceptAll w (submitted acts ++ rs)) := by
  induction acts generalizing w with
  | nil => rfl
  | cons a acts ih =>
    show progress (acceptAll (play acts (a.ap w)) rs) = _
    rw [ih]
    cases a with
    | submit r => exact congrArg progress (acceptAll_accept w r _)
    | run n => exact progress_acceptAll_runTasks n w _
    | react => exact progress_acceptAll_loopReact w _
    | settle => exact progress_acceptAll_progress w _

/-- Whatever the schedule — submissions, partial runs of the task goroutine, reactions of the reconnect loop,
    in any order and number — once both actors have run to their next blocking point the world is the one
    reached by accepting and pushing all the requests first and running afterwards. -/
theorem progress_play (acts : List Act) (w : World) :
    progress (play acts w) = progress (acceptAll w (submitted acts)) := by
  have := progress_acceptAll_play acts w []
  rwa [acceptAll_nil, List.append_nil] at this

/-- one at a time, as `step` does it -/
def seqActs (rs : List Req) : List Act := rs.flatMap (fun r => [.submit r, .settle])

theorem submitted_seqActs (rs : List Req) : submitted (seqActs rs) = rs := by
  induction rs with
  | nil => rfl
  | cons r rs ih => show r :: submitted (seqActs rs) = _; rw [ih]

theorem progress_stopped (w : World) : (progress w).stopped = w.stopped := by
  rw [progress_eq_drain, loopReact_stopped]
  exact (frame_runTasks _ w).stopped

theorem foldl_step_app (rs : List Req) (w : World) (hs : w.stopped = false) :
    rs.foldl (fun w r => step w (.app r)) w = play (seqActs rs) w := by
  induction rs generalizing w with
  | nil => rfl
  | cons r rs ih =>
    show rs.foldl _ (step w (.app r)) = play (seqActs rs) (progress (accept w r))
    rw [step_app w r hs]
    exact ih _ ((progress_stopped _).trans hs)

theorem play_seqActs_snoc (rs : List Req) (r : Req) (w : World) :
    play (seqActs (rs ++ [r])) w = progress (accept (play (seqActs rs) w) r) := by
  unfold play seqActs
  rw [List.flatMap_append, List.foldl_append]
  rfl

/-- 5. Submitting the requests one at a time, each followed by maximal progress (what `step` does), equals
    accepting and pushing all of them first and letting the goroutine and the loop run afterwards. For a
    non-empty burst the two worlds are EQUAL (no field differs); in general, equal after `progress`. -/
theorem burst_eq_sequential' (w : World) (hs : w.stopped = false) (rs : List Req) :
    progress (rs.foldl (fun w r => step w (.app r)) w) = progress (acceptAll w rs) := by
  rw [foldl_step_app rs w hs, progress_play, submitted_seqActs]

theorem burst_eq_sequential (w : World) (hs : w.stopped = false) (rs : List Req) (hne : rs ≠ []) :
    rs.foldl (fun w r => step w (.app r)) w = progress (acceptAll w rs) := by
  rw [← burst_eq_sequential' w hs rs, foldl_step_app rs w hs]
  obtain ⟨rs', r, rfl⟩ : ∃ rs' r, rs = rs' ++ [r] := by
    cases h : rs.reverse with
    | nil => exact absurd (List.reverse_eq_nil_iff.1 h) hne
    | cons r rs' => exact ⟨rs'.reverse, r, by rw [← List.reverse_reverse rs, h]; simp⟩
  rw [play_seqActs_snoc, progress_progress]

/-- … and from a world that is at a blocking point already, for the empty burst too -/
theorem burst_eq_sequential_settled (w : World) (hs : w.stopped = false) (hw : progress w = w) (rs : List Req) :
    rs.foldl (fun w r => step w (.app r)) w = progress (acceptAll w rs) := by
  cases rs with
  | nil => rw [acceptAll_nil, hw]; rfl
  | cons r rs => exact burst_eq_sequential w hs _ (by simp)

/-- a closed client refuses: nothing but the counter moves -/
theorem foldl_step_app_stopped (rs : List Req) (w : World) (hs : w.stopped = true) :
    rs.foldl (fun w r => step w (.app r)) w = { w with rejected := w.rejected + rs.length } := by
  induction rs generalizing w with
  | nil => rfl
  | cons r rs ih =>
    show rs.foldl _ (step w (.app r)) = _
    have e : step w (.app r) = { w with rejected := w.rejected + 1 } := by simp only [step, hs]; rfl
    rw [e, ih { w with rejected := w.rejected + 1 } hs]
    simp only [List.length_cons]
    rw [Nat.add_assoc, Nat.add_comm 1]

/-! ### whole scripts -/

theorem foldl_step_map_app (rs : List Req) (w : World) :
    (rs.map Ev.app).foldl step w = rs.foldl (fun w r => step w (.app r)) w := by
  rw [List.foldl_map]

/-- the world in which the burst `rs` is submitted: the script so far has been run -/
def Script.before (s : Script) (pre : List Ev) : World := pre.foldl step (init s)

/-- The run of a script `pre ++ rs.map .app ++ post` (requests submitted one at a time, the model's way) is the
    run in which, after `pre`, all of `rs` are accepted and pushed at once, goroutine and loop then run to their
    blocking points, and `post` follows. -/
theorem exec_burst (s : Script) (pre post : List Ev) (rs : List Req) (he : s.evs = pre ++ rs.map .app ++ post)
    (hne : rs ≠ []) (hs : (s.before pre).stopped = false) :
    exec s = post.foldl step (progress (acceptAll (s.before pre) rs)) := by
  unfold exec
  rw [he, List.foldl_append, List.foldl_append, foldl_step_map_app]
  exact congrArg (post.foldl step) (burst_eq_sequential _ hs rs hne)

/-- … and so is every run in which the requests of the burst are submitted while earlier ones are in flight
    (any schedule `acts` submitting exactly `rs`) -/
theorem exec_play (s : Script) (pre post : List Ev) (rs : List Req) (he : s.evs = pre ++ rs.map .app ++ post)
    (hne : rs ≠ []) (hs : (s.before pre).stopped = false) (acts : List Act) (ha : submitted acts = rs) :
    exec s = post.foldl step (progress (play acts (s.before pre))) := by
  rw [exec_burst s pre post rs he hne hs, progress_play, ha]

end Mqtt.Retry
